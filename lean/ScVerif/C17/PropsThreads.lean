import ScVerif.C17.ThreadLemmas
import ScVerif.C17.Props
/-!
# C17 — property theorems about `executeEach`'s goroutines, for EVERY schedule

`exec C (Config.spawn C behs) sched` is the state after running the threads of one call (members with
arbitrary, possibly cancellation-aware behaviours `behs`, the closer, the consumer loop `C`, and the
caller cancelling its context) under the arbitrary interleaving `sched`.  All theorems are for every
consumer loop `C` (in particular UpTo with any budget, Fast, Race), every number of members including
0, every behaviour vector and every schedule.
-/
namespace ScVerif.C17

def Config.consReturned (c : Config σ ρ) : Bool := c.cons.isReturned

/-- **C17_threads_refine.** Under every schedule:
* when the call has returned `x`, `x` is what the consumer loop computes from the responses it took
  from the channel, in the order they were sent (`C.result`; the theorems of `Props.lean` say what
  that is for each strategy);
* if it returned from inside the loop, whatever is sent later cannot change it;
* if it returned because the channel was closed, it had received everything that was ever sent,
  every member goroutine had ended (it waited for all) and one response per member was received;
* at every moment the members' context is cancelled exactly if the caller cancelled its own context,
  or the call has returned (deferred `cancelFunc()`), or the loop called `cancelFunc()` while handling
  one of the responses it has handled so far. -/
theorem C17_threads_refine (C : Consumer σ ρ) (behs : List Beh) (sched : List Tid) :
    let c := exec C (Config.spawn C behs) sched
    (∀ x b, c.cons = .returned x b →
        x = C.result (c.hist.take c.taken)
        ∧ (b = false → ∀ later, C.result (c.hist.take c.taken ++ later) = x)
        ∧ (b = true → c.taken = c.hist.length ∧ c.members.all MPc.isDone = true ∧ c.hist.length = behs.length))
    ∧ c.cancelled = (c.envCancelled || c.consReturned || (C.after (c.hist.take c.handled)).cancelled) := by
  intro c
  have hinv : Inv C c := inv_exec C sched _ (inv_init C behs behs.length (Nat.le_refl _))
  have hbehs : c.behs = behs := (exec_static C sched _).1
  have hc := hinv.cons
  unfold ConsOK at hc
  constructor
  · intro x b hx
    rw [hx] at hc
    cases b with
    | false =>
      simp only at hc
      refine ⟨?_, ?_, by simp⟩
      · simp [Consumer.result, hc.1, Consumer.finish]
      · intro _ later; exact result_stable C _ later x hc.1
    | true =>
      simp only at hc
      obtain ⟨h1, h2, _, s, cf, h4, h5⟩ := hc
      have hdone : c.members.all MPc.isDone = true :=
        hinv.closerOK (by rw [hinv.closedOK h2]; simp)
      refine ⟨?_, by simp, fun _ => ⟨h1, hdone, ?_⟩⟩
      · rw [h1, List.take_length]
        simp [Consumer.result, h4, Consumer.finish, h5]
      · rw [hinv.histLen, ← hbehs, ← hinv.len]
        apply List.countP_eq_length.mpr
        intro m hm
        have := (List.all_eq_true.mp hdone) m hm
        cases m <;> simp_all [MPc.isDone, MPc.hasSent]
  · unfold Config.handled Config.consReturned
    split at hc
    · rename_i s hcs
      obtain ⟨cf, h1, h2⟩ := hc
      simp [hcs, h1, h2, Run.cancelled, ConsPc.isReturned]
    · rename_i s r hcs
      obtain ⟨cf, _, h1, _, h2⟩ := hc
      simp [hcs, h1, h2, Run.cancelled, ConsPc.isReturned]
    · rename_i x hcs
      simp [hcs, hc.2, ConsPc.isReturned]
    · rename_i x hcs
      simp [hcs, hc.2.2.1, ConsPc.isReturned]

/-- **C17_upTo (threads).** For ExecuteUpTo (hence All / Most / Any), under every schedule and with
cancellation-aware members: the call only ever returns because the channel was closed - i.e. after
every member goroutine has ended - and (budget ≥ 0) at every moment the members' context is cancelled
exactly if the caller cancelled, or the call has returned, or the failures among the responses
handled so far exceed the budget: cancellation is issued when the budget is first exceeded. -/
theorem C17_upTo_threads (allowed : Int) (behs : List Beh) (sched : List Tid) :
    let C := upTo behs.length allowed
    let c := exec C (Config.spawn C behs) sched
    (∀ x b, c.cons = .returned x b → b = true ∧ c.members.all MPc.isDone = true)
    ∧ (0 ≤ allowed → c.cancelled =
        (c.envCancelled || c.consReturned || decide ((failuresT (c.hist.take c.handled) : Int) > allowed))) := by
  intro C c
  have hinv : Inv C c := inv_exec C sched _ (inv_init C behs behs.length (Nat.le_refl _))
  have href := C17_threads_refine C behs sched
  constructor
  · intro x b hx
    have hc := hinv.cons
    unfold ConsOK at hc
    rw [hx] at hc
    cases b with
    | false =>
      simp only at hc
      have := hc.1
      rw [upTo_after] at this
      cases this
    | true => exact ⟨rfl, ((href.1 x true hx).2.2 rfl).2.1⟩
  · intro h
    rw [href.2, upTo_after]
    simp only [Run.cancelled]
    rw [exceededFrom_nonneg allowed _ 0 (by simpa using h)]
    simp
    rfl

/-- **C17_upTo_threads_cancel.** The same for every budget (negative ones included), under every
schedule: the members' context is cancelled exactly if the caller cancelled, or the call has returned,
or some response handled so far was a failure and the failures handled so far exceed the budget. -/
theorem C17_upTo_threads_cancel (allowed : Int) (behs : List Beh) (sched : List Tid) :
    let C := upTo behs.length allowed
    let c := exec C (Config.spawn C behs) sched
    c.cancelled = (c.envCancelled || c.consReturned
      || decide (0 < failuresT (c.hist.take c.handled) ∧ (failuresT (c.hist.take c.handled) : Int) > allowed)) := by
  intro C c
  rw [(C17_threads_refine C behs sched).2, C17_upTo_cancel]

/-- **C17_goroutines_end.** Under every schedule - whatever the consumer did, including returning
early after the first response (Fast, Race) and never receiving again:
1. if no goroutine started by `executeEach` can take a step, then all of them (every member goroutine
   and the closer) have ended - none is ever parked forever;
2. every step of such a goroutine uses up one of its finitely many steps (`pending` decreases),
   steps of the consumer or the caller never add any, and there are at most `3n+2` in total.
So once every member function has returned, after at most `2n+2` further steps of these goroutines -
under any scheduling of them - every goroutine the call started has ended. -/
theorem C17_goroutines_end (C : Consumer σ ρ) (behs : List Beh) (sched : List Tid) :
    let c := exec C (Config.spawn C behs) sched
    ((∀ t : Tid, t.spawned = true → step C c t = none) → c.spawnedDone = true)
    ∧ (∀ t c', t.spawned = true → step C c t = some c' → c'.pending + 1 = c.pending)
    ∧ (∀ t c', t.spawned = false → step C c t = some c' → c'.pending = c.pending)
    ∧ c.pending ≤ 3 * behs.length + 2
    ∧ (c.pending = 0 ↔ c.spawnedDone = true) := by
  intro c
  have hinv : Inv C c := inv_exec C sched _ (inv_init C behs behs.length (Nat.le_refl _))
  have hstep : ∀ t c', t.spawned = true → step C c t = some c' → c'.pending + 1 = c.pending := by
    intro t c' ht hs
    cases t with
    | member i => exact pending_member c c' i hs
    | closer => exact pending_closer c c' hs
    | consumer => simp [Tid.spawned] at ht
    | env => simp [Tid.spawned] at ht
  have hstuck : (∀ t : Tid, t.spawned = true → step C c t = none) → c.spawnedDone = true := by
    intro hst
    have hall : c.members.all MPc.isDone = true := by
      apply List.all_eq_true.mpr
      intro m hm
      obtain ⟨i, hi⟩ := List.mem_iff_getElem?.mp hm
      have hnone := hst (.member i) rfl
      simp only [step] at hnone
      cases m with
      | start =>
        have hlt : i < c.behs.length := by rw [← hinv.len]; exact lt_of_getElem? hi
        unfold stepMember at hnone
        rw [hi, List.getElem?_eq_getElem hlt] at hnone
        simp at hnone
      | ran r =>
        have hroom := send_room C c hinv i r hi
        unfold stepMember at hnone
        rw [hi] at hnone
        simp [hroom] at hnone
      | sent r =>
        unfold stepMember at hnone
        rw [hi] at hnone
        simp at hnone
      | done r => rfl
    have hcl := hst .closer rfl
    simp only [step, stepCloser] at hcl
    cases hcs : c.closer with
    | waiting => rw [hcs] at hcl; simp [hall] at hcl
    | woke => rw [hcs] at hcl; simp at hcl
    | done => simp [Config.spawnedDone, hall, hcs]
  have hzero : c.pending = 0 ↔ c.spawnedDone = true := by
    unfold Config.pending Config.spawnedDone
    constructor
    · intro h0
      have h1 : (c.members.map MPc.todo).sum = 0 := by omega
      have h2 : c.closer.todo = 0 := by omega
      have hcl : c.closer = .done := by cases hh : c.closer <;> simp [hh, CloserPc.todo] at h2 ⊢
      have hall : c.members.all MPc.isDone = true := (todo_sum_zero _).mp h1
      simp [hall, hcl]
    · intro hd
      simp only [Bool.and_eq_true, beq_iff_eq] at hd
      have h1 : (c.members.map MPc.todo).sum = 0 := (todo_sum_zero _).mpr hd.1
      simp [h1, hd.2, CloserPc.todo]
  refine ⟨hstuck, hstep, ?_, ?_, hzero⟩
  · intro t c' ht hs
    cases t with
    | member i => simp [Tid.spawned] at ht
    | closer => simp [Tid.spawned] at ht
    | consumer => exact pending_consumer C c c' hs
    | env =>
      simp only [step] at hs
      injection hs with hs; subst hs; rfl
  · have hb : ∀ l : List MPc, (l.map MPc.todo).sum ≤ 3 * l.length := by
      intro l
      induction l with
      | nil => simp
      | cons m l ih =>
        simp only [List.map_cons, List.sum_cons, List.length_cons]
        have : m.todo ≤ 3 := by cases m <;> simp [MPc.todo]
        omega
    have h1 := hb c.members
    have h2 : c.closer.todo ≤ 2 := by cases c.closer <;> simp [CloserPc.todo]
    have hlen : c.members.length = behs.length := by
      rw [(exec_static C sched _).2.2]; simp [Config.spawn, Config.init]
    unfold Config.pending
    omega

/-- **C17_channel_log.** What the consumer can ever receive, under every schedule: the channel log
holds at most one response per member (no duplicates), each tagged with the index of the member that
produced it and being one of that member's own possible responses; and once every member goroutine
has ended it is exactly the members' responses in some completion order: `arrivals outs order` for the
vector `outs` of what the members returned and a permutation `order` of the member indices - the shape
over which `C17_upTo`, `C17_all/most/any`, `C17_fast`, `C17_race`, `C17_indexing` are stated. -/
theorem C17_channel_log (C : Consumer σ ρ) (behs : List Beh) (sched : List Tid) :
    let c := exec C (Config.spawn C behs) sched
    let outs := c.members.map fun m => m.resp.getD default
    let order := c.hist.map (·.1)
    order.Nodup
    ∧ (∀ i r, (i, r) ∈ c.hist → ∃ b, behs[i]? = some b ∧ (r = b.normal ∨ b.onCancel = some r))
    ∧ (c.members.all MPc.isDone = true →
        outs.length = behs.length ∧ order.Perm (List.range outs.length) ∧ c.hist = arrivals outs order) := by
  intro c outs order
  have hh : HistInv c := histInv_exec C sched _ (histInv_init C behs behs.length)
  have hbehs : c.behs = behs := (exec_static C sched _).1
  have hlen : c.members.length = behs.length := by
    rw [(exec_static C sched _).2.2]; simp [Config.spawn, Config.init]
  have hget : ∀ i r, (i, r) ∈ c.hist → outs.getD i default = r := by
    intro i r hin
    rcases (hh.mem i r).mp hin with hm | hm <;>
      simp [outs, List.getD_eq_getElem?_getD, List.getElem?_map, hm, MPc.resp]
  refine ⟨hh.nodup, ?_, ?_⟩
  · intro i r hin
    rcases (hh.mem i r).mp hin with hm | hm
    · have := hh.own i _ r hm rfl; rwa [hbehs] at this
    · have := hh.own i _ r hm rfl; rwa [hbehs] at this
  · intro hdone
    have holen : outs.length = behs.length := by simp [outs, hlen]
    refine ⟨holen, ?_, ?_⟩
    · rw [List.perm_iff_count]
      intro a
      rw [hh.nodup.count, List.nodup_range.count]
      have hiff : a ∈ order ↔ a ∈ List.range outs.length := by
        rw [List.mem_range, holen, ← hlen]
        constructor
        · intro ha
          obtain ⟨x, hx, hx1⟩ := List.mem_map.mp ha
          obtain ⟨j, r⟩ := x
          simp only at hx1
          subst hx1
          rcases (hh.mem j r).mp hx with hm | hm <;> exact lt_of_getElem? hm
        · intro ha
          have hm : c.members[a]? = some c.members[a] := List.getElem?_eq_getElem ha
          have hd := all_done_not _ _ _ hm hdone
          cases hpc : c.members[a] with
          | done r =>
            rw [hpc] at hm
            exact List.mem_map.mpr ⟨(a, r), (hh.mem a r).mpr (Or.inr hm), rfl⟩
          | start => rw [hpc] at hd; simp [MPc.isDone] at hd
          | ran r => rw [hpc] at hd; simp [MPc.isDone] at hd
          | sent r => rw [hpc] at hd; simp [MPc.isDone] at hd
      by_cases ha : a ∈ order
      · rw [if_pos ha, if_pos (hiff.mp ha)]
      · have : ¬ a ∈ List.range outs.length := fun h => ha (hiff.mpr h)
        rw [if_neg ha, if_neg this]
    · simp only [arrivals, order, List.map_map]
      conv => lhs; rw [← List.map_id c.hist]
      apply List.map_congr_left
      intro x hx
      obtain ⟨i, r⟩ := x
      simp only [id, Function.comp]
      rw [hget i r hx]

/-- **C17_upTo (end to end).** ExecuteUpTo under every schedule, with cancellation-aware members and
the caller cancelling at any time: when the call returns, every member has returned; with `outs` the
vector of what the members actually returned and `order` the order in which their responses were
sent, the returned value is the one `C17_upTo` describes for `outs` and `order`: the error is the first
failure in completion order iff the failures exceed the budget, and `results[i]` is member `i`'s
message. -/
theorem C17_upTo_end_to_end (allowed : Int) (behs : List Beh) (sched : List Tid) :
    let C := upTo behs.length allowed
    let c := exec C (Config.spawn C behs) sched
    let outs := c.members.map fun m => m.resp.getD default
    let order := c.hist.map (·.1)
    ∀ x b, c.cons = .returned x b →
      order.Perm (List.range outs.length)
      ∧ x.err = (if (failures outs : Int) > allowed then (firstFailure (arrivals outs order)).map Err.member else none)
      ∧ x.results = outs.map (·.msg) := by
  intro C c outs order x b hx
  have h1 := (C17_upTo_threads allowed behs sched).1 x b hx
  obtain ⟨hb, hdone⟩ := h1
  subst hb
  have hlog := (C17_channel_log C behs sched).2.2 hdone
  obtain ⟨holen, hperm, hhist⟩ := hlog
  have href := (C17_threads_refine C behs sched).1 x true hx
  have htaken := (href.2.2 rfl).1
  have hxeq : x = C.result c.hist := by
    have := href.1
    rw [htaken, List.take_length] at this
    exact this
  have hspec := C17_upTo allowed outs order hperm
  have e1 : x = (upTo behs.length allowed).result (arrivals outs order) := by
    rw [hxeq]; exact congrArg C.result hhist
  have e2 : upTo outs.length allowed = upTo behs.length allowed :=
    congrArg (fun n => upTo n allowed) holen
  refine ⟨hperm, ?_, ?_⟩
  · rw [e1, ← e2]; exact hspec.1
  · rw [e1, ← e2]; exact hspec.2.1

/-- Why the buffer matters (the state of the code before the second `fix:` commit, `cap = 0`): with an
unbuffered channel, Race over two succeeding members has a schedule after which both member functions
have returned and the call has returned, yet member 1's goroutine can never send and the closer can
never wake: no spawned goroutine can move and they have not ended.  `C17_goroutines_end` excludes this
for the channel the code now makes (`Config.spawn`: one slot per member). -/
theorem C17_unbuffered_would_leak :
    ∃ sched : List Tid,
      let c := exec race (Config.init race [⟨⟨some 1, none⟩, none⟩, ⟨⟨some 2, none⟩, none⟩] 0) sched
      c.allReturned = true ∧ c.consReturned = true ∧ c.spawnedDone = false
      ∧ (∀ t : Tid, t.spawned = true → (step race c t).isNone = true) := by
  refine ⟨[.member 0, .member 1, .member 0, .consumer, .consumer, .member 0], rfl, rfl, rfl, ?_⟩
  intro t ht
  cases t with
  | member i =>
    match i with
    | 0 => rfl
    | 1 => rfl
    | k + 2 => rfl
  | closer => rfl
  | consumer => simp [Tid.spawned] at ht
  | env => simp [Tid.spawned] at ht

/-- ... and the same members, the same schedule, on the channel the code makes: member 1 can send. -/
example :
    let c := exec race (Config.spawn race [⟨⟨some 1, none⟩, none⟩, ⟨⟨some 2, none⟩, none⟩])
      [.member 0, .member 1, .member 0, .consumer, .consumer, .member 0]
    c.consReturned = true ∧ (step race c (.member 1)).isSome = true := by decide

end ScVerif.C17
