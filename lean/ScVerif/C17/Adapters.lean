import ScVerif.C17.Model
/-!
# C17 — the Group adapters `pkg/trait/onoffpb/group.go` and `pkg/trait/lightpb/group.go`

What each RPC of a trait Group does with `group.Execute`'s results (the code as it is after the
`fix:` commit on the light reducer):

* `GetX` / `UpdateX`: `results, err := group.Execute(ctx, strategy, actions)`; an error is returned as
  it is, with no value; otherwise the value is `reduce(results)` - the non-nil results folded into a
  fresh message;
* `PullX`: every message of a member replaces that member's slot of `memberChanges`, and
  `reduceXChanges(memberChanges)` is forwarded (if it differs from the last one sent); the call returns
  `Execute`'s error.

The reducers:

* onoff (`reduceOnOff`, "max strategy"): an UNSPECIFIED accumulator takes the value, otherwise ON wins;
* light (`reduceBrightness(acc, v, n)`, "average strategy"): `acc` holds the average of `n` members,
  the new one is `(acc*n + v)/(n+1)`; `n` counts the members folded in so far.  (Before the fix the
  member's slot index was used for `n`: `lightReduceSlot`, kept for the witness theorem.)

States: 0 = UNSPECIFIED, 1 = ON, 2 = OFF.  Levels are rationals (the code computes in float32; the tie
uses levels for which every intermediate value is an integer, so float32 is exact there).
-/
namespace ScVerif.C17

/-! ## onoff -/

/-- `reduceOnOff(acc, v)` with both non-nil. -/
def onoffStep (acc v : Nat) : Nat := if acc = 0 then v else if v = 1 then 1 else acc

/-- one iteration of the loop in `(*onoffpb.Group).reduce`: nil results are skipped. -/
def onoffFeed (acc : Nat) (r : Option Nat) : Nat :=
  match r with
  | none => acc
  | some v => onoffStep acc v

/-- `(*onoffpb.Group).reduce(results)`: `val := new(traits.OnOff)`, nil results skipped. -/
def onoffReduce (rs : List (Option Nat)) : Nat := rs.foldl onoffFeed 0

/-- one iteration of the loop in `reduceOnOffChanges`: `val.OnOff` starts nil; the first value is copied. -/
def onoffFeedChanges (acc : Option Nat) (r : Option Nat) : Option Nat :=
  match r, acc with
  | none, a => a
  | some v, none => some v
  | some v, some a => some (onoffStep a v)

/-- `reduceOnOffChanges(arr)`. -/
def onoffReduceChanges (rs : List (Option Nat)) : Option Nat := rs.foldl onoffFeedChanges none

/-! ## light -/

/-- `reduceBrightness(acc, v, n)` with both non-nil: `(acc*n + v) / (n+1)`. -/
def lightStep (acc v : Rat) (n : Nat) : Rat := (acc * (n : Rat) + v) / ((n : Rat) + 1)

/-- one iteration of the loop in `(*lightpb.Group).reduce`: state = (`val.LevelPercent`, `n`). -/
def lightFeed (st : Rat × Nat) (r : Option Rat) : Rat × Nat :=
  match r with
  | none => st
  | some v => (lightStep st.1 v st.2, st.2 + 1)

/-- `(*lightpb.Group).reduce(results)`: `val := new(traits.Brightness)`, `n := 0`. -/
def lightReduce (rs : List (Option Rat)) : Rat := (rs.foldl lightFeed (0, 0)).1

/-- one iteration of the loop in `reduceBrightnessChanges`: state = (`val.Brightness`, `n`). -/
def lightFeedChanges (st : Option Rat × Nat) (r : Option Rat) : Option Rat × Nat :=
  match r, st.1 with
  | none, _ => st
  | some v, none => (some v, st.2 + 1)
  | some v, some a => (some (lightStep a v st.2), st.2 + 1)

/-- `reduceBrightnessChanges(arr)`. -/
def lightReduceChanges (rs : List (Option Rat)) : Option Rat := (rs.foldl lightFeedChanges (none, 0)).1

/-- The loop body before the fix: the slot index of the result was used as the number of members
averaged so far (state = (`val.LevelPercent`, slot index)). -/
def lightFeedSlot (st : Rat × Nat) (r : Option Rat) : Rat × Nat :=
  match r with
  | none => (st.1, st.2 + 1)
  | some v => (lightStep st.1 v st.2, st.2 + 1)

def lightReduceSlot (rs : List (Option Rat)) : Rat := (rs.foldl lightFeedSlot (0, 0)).1

/-! ## the RPCs -/

/-- `GetX` / `UpdateX`: `if err != nil { return nil, err }; return s.reduce(results), nil`. -/
def groupUnary (reduce : List (Option Nat) → α) (m : Many) : Option α × Option Err :=
  match m.err with
  | some e => (none, some e)
  | none => (some (reduce m.results), none)

/-- The value a message number stands for in the tie: onoff state `k-1`, light level `24*(k-1)`. -/
def onoffOf (k : Nat) : Nat := k - 1
def levelOf (k : Nat) : Rat := ((24 * (k - 1) : Nat) : Rat)

def onoffGet (m : Many) : Option Nat × Option Err :=
  groupUnary (fun rs => onoffReduce (rs.map (·.map onoffOf))) m

def lightGet (m : Many) : Option Rat × Option Err :=
  groupUnary (fun rs => lightReduce (rs.map (·.map levelOf))) m

/-- `memberChanges` of a Pull once the members in `started` have delivered their value `vals[i]`. -/
def memberChanges (n : Nat) (vals : List Nat) (started : List Nat) : List (Option Nat) :=
  (List.range n).map fun i => if started.contains i then some (vals.getD i 0) else none

def onoffPull (n : Nat) (vals started : List Nat) : Option Nat :=
  onoffReduceChanges ((memberChanges n vals started).map (·.map onoffOf))

def lightPull (n : Nat) (vals started : List Nat) : Option Rat :=
  lightReduceChanges ((memberChanges n vals started).map (·.map levelOf))

/-! ## the subscription loop of `PullX`

`for { select { case msg := <-memberValues: … } }`: a message of member `i` with no changes is
skipped; otherwise its last change replaces slot `i` of `memberChanges`, the slots are reduced, and
the result is forwarded unless it equals the last one (`proto.Equal(lastChange, newChange)`;
`lastChange` starts as the empty change, whose value is `none`). -/

structure PullSt (V : Type) where
  last : Option V                -- the value of `lastChange` (`none`: the empty change)
  slots : List (Option V)        -- `memberChanges`
  sent : List (Option V)         -- the values forwarded by `server.Send`, oldest first
deriving DecidableEq

def pullInit (n : Nat) : PullSt V := ⟨none, List.replicate n none, []⟩

/-- `memberChanges[msg.i] = endChange` for a message with changes `vs` (none: `continue`) -/
def slotStep (slots : List (Option V)) (ev : Nat × List V) : List (Option V) :=
  match ev.2.getLast? with
  | none => slots
  | some v => slots.set ev.1 (some v)

/-- one message of member `ev.1` carrying the changes `ev.2` -/
def pullFeed [DecidableEq V] (reduce : List (Option V) → Option V) (st : PullSt V) (ev : Nat × List V) : PullSt V :=
  match ev.2.getLast? with
  | none => st
  | some v =>
    let slots := st.slots.set ev.1 (some v)
    let new := reduce slots
    if st.last = new then { st with slots := slots }
    else { last := new, slots := slots, sent := st.sent ++ [new] }

def pullRun [DecidableEq V] (reduce : List (Option V) → Option V) (n : Nat) (evs : List (Nat × List V)) : PullSt V :=
  evs.foldl (pullFeed reduce) (pullInit n)

/-- the members' latest values: slot `i` = the last change of the last non-empty message of member `i` -/
def latest (n : Nat) (evs : List (Nat × List V)) : List (Option V) :=
  evs.foldl slotStep (List.replicate n none)


/-! ## the loop when a `server.Send` fails

`err := server.Send(…); if err != nil { cancelFunc(); <-returnErr; return err }`: the loop ends with
the `failAt`-th Send (0: no Send fails).  State: the loop's state, after how many member messages the
subscription ended (if it has), the number of messages handled. -/

def pullFeedFail [DecidableEq V] (reduce : List (Option V) → Option V) (failAt : Nat)
    (acc : PullSt V × Option Nat × Nat) (ev : Nat × List V) : PullSt V × Option Nat × Nat :=
  match acc with
  | (st, some k, i) => (st, some k, i)
  | (st, none, i) =>
    let st' := pullFeed reduce st ev
    if failAt ≠ 0 ∧ st.sent.length < failAt ∧ st'.sent.length = failAt then (st', some (i + 1), i + 1)
    else (st', none, i + 1)

def pullRunFail [DecidableEq V] (reduce : List (Option V) → Option V) (n failAt : Nat)
    (evs : List (Nat × List V)) : PullSt V × Option Nat × Nat :=
  evs.foldl (pullFeedFail reduce failAt) (pullInit n, none, 0)

end ScVerif.C17
