import ScVerif.C17.Model
/-!
# C17 — `executeEach` + a consumer loop as interleaved threads

Threads and their atomic steps (one step = one channel operation, one WaitGroup operation, one read or
write of the shared context, or thread-local work):

* member `i` (goroutine of `executeEach`): `run` (calls `member(ctx)`: reads whether the context is
  cancelled, picks its response) ▸ `send` (`responses <- …`, enabled while the buffer has room, or -
  for an unbuffered channel - when the consumer is waiting in its receive and nothing is in flight) ▸
  `all.Done()` — then the goroutine has ended;
* closer: `all.Wait()` (enabled once every member goroutine did `all.Done()`) ▸ `close(responses)` —
  then ended;
* consumer (the caller's goroutine, running a `Consumer` loop): `recv` (next buffered response, or
  the close → code after the loop, deferred `cancelFunc()`, return) ▸ `handle` (one loop body: update
  locals, maybe `cancelFunc()`, maybe return from inside the loop with the deferred `cancelFunc()`);
* env: the caller's own context is cancelled (may happen at any time).

The channel is an append-only log `hist` with a read cursor `taken` (buffer = `hist.drop taken`),
capacity `cap` (`len(members)` in the code; kept as a parameter so that the role of the buffer can be
stated: see `C17_unbuffered_would_leak`).  A schedule is a list of thread ids; a step that is not
enabled leaves the configuration unchanged.
-/
namespace ScVerif.C17

/-- A member's behaviour: what it returns, and (if it is cancellation-aware) what it returns instead
when it finds its context already cancelled at the moment it runs. -/
structure Beh where
  normal : Resp
  onCancel : Option Resp
deriving DecidableEq, Repr

def Beh.respond (b : Beh) (cancelled : Bool) : Resp :=
  if cancelled then b.onCancel.getD b.normal else b.normal

inductive MPc where
  | start
  | ran (r : Resp)
  | sent (r : Resp)
  | done (r : Resp)
deriving DecidableEq, Repr

def MPc.isDone : MPc → Bool
  | .done _ => true
  | _ => false

/-- has passed its `send` -/
def MPc.hasSent : MPc → Bool
  | .sent _ | .done _ => true
  | _ => false

/-- the member function has returned -/
def MPc.hasReturned : MPc → Bool
  | .start => false
  | _ => true

inductive CloserPc where
  | waiting | woke | done
deriving DecidableEq, Repr

inductive ConsPc (σ ρ : Type) where
  | idle (s : σ)
  | got (s : σ) (r : Tagged)
  | returned (x : ρ) (byClose : Bool)

def ConsPc.isIdle : ConsPc σ ρ → Bool
  | .idle _ => true
  | _ => false

def ConsPc.isReturned : ConsPc σ ρ → Bool
  | .returned _ _ => true
  | _ => false

structure Config (σ ρ : Type) where
  behs : List Beh
  cap : Nat
  envCancelled : Bool      -- the caller's context
  cancelled : Bool         -- the members' context (child of the caller's)
  members : List MPc
  hist : List Tagged
  taken : Nat
  closed : Bool
  closer : CloserPc
  cons : ConsPc σ ρ

inductive Tid where
  | member (i : Nat)
  | closer
  | consumer
  | env
deriving DecidableEq, Repr

def Config.init (C : Consumer σ ρ) (behs : List Beh) (cap : Nat) : Config σ ρ :=
  { behs := behs, cap := cap, envCancelled := false, cancelled := false,
    members := List.replicate behs.length .start, hist := [], taken := 0, closed := false,
    closer := .waiting, cons := .idle C.init }

/-- `executeEach(ctx, members)` as the code has it: room for one response per member. -/
def Config.spawn (C : Consumer σ ρ) (behs : List Beh) : Config σ ρ := Config.init C behs behs.length

def stepMember (c : Config σ ρ) (i : Nat) : Option (Config σ ρ) :=
  match c.members[i]?, c.behs[i]? with
  | some .start, some b => some { c with members := c.members.set i (.ran (b.respond c.cancelled)) }
  | some (.ran r), _ =>
    if c.hist.length < c.taken + c.cap || (c.cap == 0 && c.hist.length == c.taken && c.cons.isIdle) then
      some { c with hist := c.hist ++ [(i, r)], members := c.members.set i (.sent r) }
    else none
  | some (.sent r), _ => some { c with members := c.members.set i (.done r) }
  | _, _ => none

def stepCloser (c : Config σ ρ) : Option (Config σ ρ) :=
  match c.closer with
  | .waiting => if c.members.all MPc.isDone then some { c with closer := .woke } else none
  | .woke => some { c with closed := true, closer := .done }
  | .done => none

def stepConsumer (C : Consumer σ ρ) (c : Config σ ρ) : Option (Config σ ρ) :=
  match c.cons with
  | .idle s =>
    match c.hist[c.taken]? with
    | some r => some { c with cons := .got s r, taken := c.taken + 1 }
    | none =>
      if c.closed then some { c with cons := .returned (C.onClose s) true, cancelled := true } else none
  | .got s r =>
    match C.onRecv s r with
    | .next s' cn => some { c with cons := .idle s', cancelled := c.cancelled || cn }
    | .ret x => some { c with cons := .returned x false, cancelled := true }
  | .returned _ _ => none

def step (C : Consumer σ ρ) (c : Config σ ρ) : Tid → Option (Config σ ρ)
  | .member i => stepMember c i
  | .closer => stepCloser c
  | .consumer => stepConsumer C c
  | .env => some { c with envCancelled := true, cancelled := true }

def stepD (C : Consumer σ ρ) (c : Config σ ρ) (t : Tid) : Config σ ρ := (step C c t).getD c

def exec (C : Consumer σ ρ) (c : Config σ ρ) (sched : List Tid) : Config σ ρ := sched.foldl (stepD C) c

/-- Threads started by `executeEach` (members and the closer). -/
def Tid.spawned : Tid → Bool
  | .member _ | .closer => true
  | _ => false

def Config.allReturned (c : Config σ ρ) : Bool := c.members.all MPc.hasReturned

/-- Every goroutine started by `executeEach` has ended. -/
def Config.spawnedDone (c : Config σ ρ) : Bool := c.members.all MPc.isDone && c.closer == .done

/-- Remaining steps of the spawned threads. -/
def MPc.todo : MPc → Nat
  | .start => 3
  | .ran _ => 2
  | .sent _ => 1
  | .done _ => 0

def CloserPc.todo : CloserPc → Nat
  | .waiting => 2
  | .woke => 1
  | .done => 0

def Config.pending (c : Config σ ρ) : Nat := (c.members.map MPc.todo).sum + c.closer.todo

/-- Number of goroutines of `executeEach` still alive. -/
def Config.alive (c : Config σ ρ) : Nat :=
  c.members.countP (fun m => !m.isDone) + (if c.closer == .done then 0 else 1)

/-- How far the consumer has got: the responses whose loop body has completed. -/
def Config.handled (c : Config σ ρ) : Nat :=
  match c.cons with
  | .got _ _ => c.taken - 1
  | _ => c.taken

/-! ## The schedule the harness realises

Members are gated; the harness releases one member, waits until nothing can move, observes, and
releases the next.  `block` is the schedule of one such round (steps that are not enabled are
no-ops, so over-provisioning is harmless). -/

def settle : List Tid := [.closer, .closer, .consumer, .consumer, .consumer, .consumer]

def block (i : Nat) : List Tid := [.member i, .member i, .member i] ++ settle

end ScVerif.C17
