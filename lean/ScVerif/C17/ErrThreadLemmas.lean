import ScVerif.C17.ErrLemmas
import ScVerif.C17.Threads
/-!
# C17 — relabelling of error values, thread level

The whole interleaved execution (`exec`) commutes with relabelling the members' error values: the
relabelled members under the same schedule go through exactly the relabelled configurations.
-/
namespace ScVerif.C17

def Beh.mapErr (f : Nat → Nat) (b : Beh) : Beh := ⟨b.normal.mapErr f, b.onCancel.map (Resp.mapErr f)⟩

def MPc.mapErr (f : Nat → Nat) : MPc → MPc
  | .start => .start
  | .ran r => .ran (r.mapErr f)
  | .sent r => .sent (r.mapErr f)
  | .done r => .done (r.mapErr f)

def ConsPc.mapErr (f : Nat → Nat) (gσ : σ → σ) (gρ : ρ → ρ) : ConsPc σ ρ → ConsPc σ ρ
  | .idle s => .idle (gσ s)
  | .got s r => .got (gσ s) (mapT f r)
  | .returned x b => .returned (gρ x) b

def Config.mapErr (f : Nat → Nat) (gσ : σ → σ) (gρ : ρ → ρ) (c : Config σ ρ) : Config σ ρ :=
  { behs := c.behs.map (Beh.mapErr f), cap := c.cap, envCancelled := c.envCancelled, cancelled := c.cancelled,
    members := c.members.map (MPc.mapErr f), hist := c.hist.map (mapT f), taken := c.taken,
    closed := c.closed, closer := c.closer, cons := c.cons.mapErr f gσ gρ }

theorem respond_mapErr (f : Nat → Nat) (b : Beh) (canc : Bool) :
    (b.mapErr f).respond canc = (b.respond canc).mapErr f := by
  unfold Beh.respond Beh.mapErr
  cases canc
  · rfl
  · cases b.onCancel <;> rfl

theorem isDone_mapErr (f : Nat → Nat) (m : MPc) : (m.mapErr f).isDone = m.isDone := by
  cases m <;> rfl

theorem all_isDone_map (f : Nat → Nat) (l : List MPc) :
    (l.map (MPc.mapErr f)).all MPc.isDone = l.all MPc.isDone := by
  induction l with
  | nil => rfl
  | cons m l ih => simp only [List.map_cons, List.all_cons, isDone_mapErr, ih]

theorem isIdle_mapErr (f : Nat → Nat) (gσ : σ → σ) (gρ : ρ → ρ) (p : ConsPc σ ρ) :
    (p.mapErr f gσ gρ).isIdle = p.isIdle := by
  cases p <;> rfl

theorem stepMember_map (f : Nat → Nat) (gσ : σ → σ) (gρ : ρ → ρ) (c : Config σ ρ) (i : Nat) :
    stepMember (c.mapErr f gσ gρ) i = (stepMember c i).map (Config.mapErr f gσ gρ) := by
  unfold stepMember
  simp only [Config.mapErr, List.getElem?_map, List.length_map, isIdle_mapErr]
  cases hm : c.members[i]? with
  | none => rfl
  | some m =>
    cases m with
    | start =>
      cases hb : c.behs[i]? with
      | none => rfl
      | some b =>
        simp only [Option.map_some, MPc.mapErr, respond_mapErr]
        simp only [Config.mapErr, List.map_set, MPc.mapErr]
    | ran r =>
      simp only [Option.map_some, MPc.mapErr]
      split
      · simp only [Option.map_some, MPc.mapErr, mapT]
        simp only [Config.mapErr, List.map_set, List.map_append, List.map_cons, List.map_nil, MPc.mapErr, mapT]
      · rfl
    | sent r =>
      simp only [Option.map_some, MPc.mapErr]
      simp only [Config.mapErr, List.map_set, MPc.mapErr]
    | done r =>
      simp only [Option.map_some, MPc.mapErr]
      cases c.behs[i]? <;> rfl

theorem stepCloser_map (f : Nat → Nat) (gσ : σ → σ) (gρ : ρ → ρ) (c : Config σ ρ) :
    stepCloser (c.mapErr f gσ gρ) = (stepCloser c).map (Config.mapErr f gσ gρ) := by
  unfold stepCloser
  simp only [Config.mapErr, all_isDone_map]
  cases c.closer with
  | waiting =>
    simp only
    cases c.members.all MPc.isDone <;> rfl
  | woke => rfl
  | done => rfl

theorem stepConsumer_map (C : Consumer σ ρ) (f : Nat → Nat) (gσ : σ → σ) (gρ : ρ → ρ)
    (h : Equivariant C f gσ gρ) (c : Config σ ρ) :
    stepConsumer C (c.mapErr f gσ gρ) = (stepConsumer C c).map (Config.mapErr f gσ gρ) := by
  unfold stepConsumer
  simp only [Config.mapErr]
  cases hc : c.cons with
  | idle s =>
    simp only [ConsPc.mapErr, List.getElem?_map]
    cases c.hist[c.taken]? with
    | none =>
      simp only [Option.map_none]
      by_cases hcl : c.closed = true
      · simp [hcl, h.close, Config.mapErr, ConsPc.mapErr]
      · simp [hcl]
    | some r => rfl
  | got s r =>
    simp only [ConsPc.mapErr]
    rw [h.recv]
    cases C.onRecv s r with
    | next s' cn => rfl
    | ret x => rfl
  | returned x b => rfl

theorem step_map (C : Consumer σ ρ) (f : Nat → Nat) (gσ : σ → σ) (gρ : ρ → ρ)
    (h : Equivariant C f gσ gρ) (c : Config σ ρ) (t : Tid) :
    step C (c.mapErr f gσ gρ) t = (step C c t).map (Config.mapErr f gσ gρ) := by
  cases t with
  | member i => exact stepMember_map f gσ gρ c i
  | closer => exact stepCloser_map f gσ gρ c
  | consumer => exact stepConsumer_map C f gσ gρ h c
  | env => rfl

theorem stepD_map (C : Consumer σ ρ) (f : Nat → Nat) (gσ : σ → σ) (gρ : ρ → ρ)
    (h : Equivariant C f gσ gρ) (c : Config σ ρ) (t : Tid) :
    stepD C (c.mapErr f gσ gρ) t = (stepD C c t).mapErr f gσ gρ := by
  unfold stepD
  rw [step_map C f gσ gρ h]
  cases step C c t <;> rfl

theorem exec_map (C : Consumer σ ρ) (f : Nat → Nat) (gσ : σ → σ) (gρ : ρ → ρ)
    (h : Equivariant C f gσ gρ) (sched : List Tid) (c : Config σ ρ) :
    exec C (c.mapErr f gσ gρ) sched = (exec C c sched).mapErr f gσ gρ := by
  induction sched generalizing c with
  | nil => rfl
  | cons t ts ih =>
    show exec C (stepD C (c.mapErr f gσ gρ) t) ts = (exec C (stepD C c t) ts).mapErr f gσ gρ
    rw [stepD_map C f gσ gρ h, ih]

theorem spawn_map (C : Consumer σ ρ) (f : Nat → Nat) (gσ : σ → σ) (gρ : ρ → ρ)
    (h : Equivariant C f gσ gρ) (behs : List Beh) :
    Config.spawn C (behs.map (Beh.mapErr f)) = (Config.spawn C behs).mapErr f gσ gρ := by
  simp [Config.spawn, Config.init, Config.mapErr, ConsPc.mapErr, h.init, MPc.mapErr]

theorem alive_mapErr (f : Nat → Nat) (gσ : σ → σ) (gρ : ρ → ρ) (c : Config σ ρ) :
    (c.mapErr f gσ gρ).alive = c.alive := by
  unfold Config.alive Config.mapErr
  simp only [List.countP_map]
  congr 1
  apply List.countP_congr
  intro m _
  simp [Function.comp, isDone_mapErr]

end ScVerif.C17
