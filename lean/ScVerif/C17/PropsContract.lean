import ScVerif.C17.ContractLemmas
/-!
# C17 — the two numbers the Pull-pipeline model keeps of `group.Execute` are what `exec.go` does

`Pipeline.lean` abstracts `Execute` to `(allowed, retAfter)`: the step `execCancel` is enabled when more than
`allowed` member closures have ended, `execRet` when `retAfter` have.  Until this file that reading of exec.go
was prose (and a Go function of the harness).  Here it is a theorem about the thread-level model of
`executeEach` + each strategy's collector (`Threads.lean`, the model the pkg/group ties execute): for every
group size, every family of members none of which succeeds (a Pull member's stream only ever ends with an
error; cancellation-aware or not), EVERY schedule of member goroutines / closer / collector / the caller's
cancellation, at every point at which none of them can move - the points at which the pipeline model's
`execCancel` / `execRet` have fired if enabled - with `k` member goroutines ended:

* the call has returned  ⇔  `retAfter ≤ k`;
* the members' context is cancelled  ⇔  the caller cancelled, or `allowed < k`, or the call has returned

for `(allowed, retAfter) = execParams strategy n`, the function the driver computes the pipeline model's
parameters with (`pipe <trait> <n> <strategy> …`).
-/
namespace ScVerif.C17

/-- **C17_pipeline_contract_is_execute.** All / Most / Any / Fast / Race, every `n` (0 included). -/
theorem C17_pipeline_contract_is_execute (n : Nat) :
    MeetsContract (upTo n (allowedAll n)) n (execParams .all n)
    ∧ MeetsContract (upTo n (allowedMost n)) n (execParams .most n)
    ∧ MeetsContract (upTo n (allowedAny n)) n (execParams .any n)
    ∧ MeetsContract fast n (execParams .fast n)
    ∧ MeetsContract race n (execParams .race n) := by
  refine ⟨?_, ?_, ?_, meets_fast n, meets_race n⟩
  · apply meets_upTo
    intro k h0 hk; simp only [allowedAll]; omega
  · apply meets_upTo
    intro k h0 hk; simp only [allowedMost]; omega
  · apply meets_upTo
    intro k h0 hk; simp only [allowedAny]; omega

/-- **C17_pipeline_contract_one.** Strategy One over members none of which succeeds: `ExecuteOne` calls every
member, in index order, each after the one before it has returned (the loop is sequential; it has no context of
its own, so nothing is cancelled before it returns), and reports the first member's error with no message:
`allowed = retAfter = n`. -/
theorem C17_pipeline_contract_one (outs : List Resp) (h : ∀ r ∈ outs, r.err.isSome = true) :
    oneTried outs = (execParams .one outs.length).2
    ∧ (execParams .one outs.length).1 = outs.length
    ∧ (one outs).msg = none
    ∧ (one outs).err = (outs.head?.bind (·.err)).map Err.member := by
  have := oneLoop_fail outs h 0 none
  refine ⟨?_, rfl, ?_, ?_⟩
  · simp [oneTried, this, execParams]
  · simp [one, this]
  · simp only [one, this]
    cases outs.head?.bind (·.err) <;> rfl

/-- the contract is not vacuous and not trivial: Most over three failing members, first serial schedule.
After one member: nothing cancelled, not returned; after two: cancelled (budget 1 exceeded), not returned;
after three: returned. -/
example :
    let behs : List Beh := [⟨⟨none, some 1⟩, none⟩, ⟨⟨none, some 2⟩, none⟩, ⟨⟨none, some 3⟩, none⟩]
    let C := upTo 3 (allowedMost 3)
    let c1 := exec C (Config.spawn C behs) (settle ++ block 0)
    let c2 := exec C c1 (block 1)
    let c3 := exec C c2 (block 2)
    (∀ b ∈ behs, b.neverSucceeds) ∧ execParams .most 3 = (1, 3)
    ∧ c1.quiescent C = true ∧ c1.cancelled = false ∧ c1.consReturned = false
    ∧ c2.quiescent C = true ∧ c2.cancelled = true ∧ c2.consReturned = false
    ∧ c3.quiescent C = true ∧ c3.cancelled = true ∧ c3.consReturned = true := by
  refine ⟨?_, by decide⟩
  intro b hb
  simp at hb
  rcases hb with rfl | rfl | rfl <;> exact ⟨rfl, by intro r h; cases h⟩

/-- Race over two failing members returns, and cancels, at the first response: `(allowed, retAfter) = (2, 1)` -/
example :
    let behs : List Beh := [⟨⟨none, some 1⟩, none⟩, ⟨⟨none, some 2⟩, none⟩]
    let c1 := exec race (Config.spawn race behs) (settle ++ block 1)
    execParams .race 2 = (2, 1) ∧ c1.quiescent race = true ∧ c1.cancelled = true ∧ c1.consReturned = true
    ∧ c1.members.countP MPc.isDone = 1 := by
  decide

end ScVerif.C17
