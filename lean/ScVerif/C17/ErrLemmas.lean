import ScVerif.C17.Lemmas
/-!
# C17 — relabelling of error values

The strategies only ever test `err == nil`: they are equivariant under ANY map `f` of member error
values (injective or not).  `mapT f` relabels the error of a response; `Single.mapErr` / `Many.mapErr`
relabel the error of a result (`noResponse`, the package's own error, is left alone).
-/
namespace ScVerif.C17

def Resp.mapErr (f : Nat → Nat) (r : Resp) : Resp := { r with err := r.err.map f }

def mapT (f : Nat → Nat) (r : Tagged) : Tagged := (r.1, r.2.mapErr f)

def Err.mapE (f : Nat → Nat) : Err → Err
  | .member k => .member (f k)
  | .noResponse => .noResponse

def Single.mapErr (f : Nat → Nat) (s : Single) : Single := { s with err := s.err.map (Err.mapE f) }

def Many.mapErr (f : Nat → Nat) (m : Many) : Many := { m with err := m.err.map (Err.mapE f) }

def Step.map (gσ : σ → σ) (gρ : ρ → ρ) : Step σ ρ → Step σ ρ
  | .next s c => .next (gσ s) c
  | .ret x => .ret (gρ x)

def Run.map (gσ : σ → σ) (gρ : ρ → ρ) : Run σ ρ → Run σ ρ
  | .running s c => .running (gσ s) c
  | .returned x => .returned (gρ x)

/-- A consumer loop is equivariant under the relabelling `f` (with `gσ`, `gρ` the induced relabelling
of its locals and of its result). -/
structure Equivariant (C : Consumer σ ρ) (f : Nat → Nat) (gσ : σ → σ) (gρ : ρ → ρ) : Prop where
  init : gσ C.init = C.init
  recv : ∀ s r, C.onRecv (gσ s) (mapT f r) = (C.onRecv s r).map gσ gρ
  close : ∀ s, C.onClose (gσ s) = gρ (C.onClose s)

theorem feedRun_map (C : Consumer σ ρ) (f : Nat → Nat) (gσ : σ → σ) (gρ : ρ → ρ)
    (h : Equivariant C f gσ gρ) (run : Run σ ρ) (r : Tagged) :
    feedRun C (run.map gσ gρ) (mapT f r) = (feedRun C run r).map gσ gρ := by
  cases run with
  | returned x => rfl
  | running s c =>
    simp only [Run.map, feedRun]
    rw [h.recv]
    cases C.onRecv s r <;> rfl

theorem foldl_map (C : Consumer σ ρ) (f : Nat → Nat) (gσ : σ → σ) (gρ : ρ → ρ)
    (h : Equivariant C f gσ gρ) (rs : List Tagged) (run : Run σ ρ) :
    (rs.map (mapT f)).foldl (feedRun C) (run.map gσ gρ) = (rs.foldl (feedRun C) run).map gσ gρ := by
  induction rs generalizing run with
  | nil => rfl
  | cons r rs ih =>
    simp only [List.map_cons, List.foldl_cons]
    rw [feedRun_map C f gσ gρ h, ih]

theorem after_map (C : Consumer σ ρ) (f : Nat → Nat) (gσ : σ → σ) (gρ : ρ → ρ)
    (h : Equivariant C f gσ gρ) (rs : List Tagged) :
    C.after (rs.map (mapT f)) = (C.after rs).map gσ gρ := by
  unfold Consumer.after
  have hs : C.start = (C.start).map gσ gρ := by simp [Consumer.start, Run.map, h.init]
  rw [hs, foldl_map C f gσ gρ h]
  rw [← hs]

theorem result_map (C : Consumer σ ρ) (f : Nat → Nat) (gσ : σ → σ) (gρ : ρ → ρ)
    (h : Equivariant C f gσ gρ) (rs : List Tagged) :
    C.result (rs.map (mapT f)) = gρ (C.result rs) := by
  unfold Consumer.result
  rw [after_map C f gσ gρ h]
  cases C.after rs with
  | running s c => exact h.close s
  | returned x => rfl

theorem run_map_flags (gσ : σ → σ) (gρ : ρ → ρ) (run : Run σ ρ) :
    (run.map gσ gρ).isReturned = run.isReturned ∧ (run.map gσ gρ).cancelled = run.cancelled := by
  cases run <;> exact ⟨rfl, rfl⟩

def UpToSt.mapErr (f : Nat → Nat) (s : UpToSt) : UpToSt := { s with firstErr := s.firstErr.map f }

theorem upTo_equivariant (n : Nat) (allowed : Int) (f : Nat → Nat) :
    Equivariant (upTo n allowed) f (UpToSt.mapErr f) (Many.mapErr f) where
  init := rfl
  recv := by
    intro s r
    obtain ⟨i, m, e⟩ := r
    cases e with
    | none => rfl
    | some e =>
      simp only [upTo, mapT, Resp.mapErr, Option.map_some, UpToSt.mapErr, Step.map]
      cases s.firstErr <;> rfl
  close := by
    intro s
    simp only [upTo, UpToSt.mapErr, Many.mapErr]
    split
    · cases s.firstErr <;> rfl
    · rfl

theorem fast_equivariant (f : Nat → Nat) :
    Equivariant fast f (Option.map (mapT f)) (Single.mapErr f) where
  init := rfl
  recv := by
    intro s r
    obtain ⟨i, m, e⟩ := r
    cases e with
    | none => rfl
    | some e => cases s <;> rfl
  close := by
    intro s
    cases s with
    | none => rfl
    | some r =>
      obtain ⟨i, m, e⟩ := r
      cases e <;> rfl

theorem race_equivariant (f : Nat → Nat) :
    Equivariant race f id (Single.mapErr f) where
  init := rfl
  recv := by
    intro s r
    obtain ⟨i, m, e⟩ := r
    cases e <;> rfl
  close := by intro s; rfl

theorem oneLoop_map (f : Nat → Nat) (outs : List Resp) (i : Nat) (fe : Option Nat) :
    oneLoop i (fe.map f) (outs.map (Resp.mapErr f)) = ((oneLoop i fe outs).1.mapErr f, (oneLoop i fe outs).2) := by
  induction outs generalizing i fe with
  | nil =>
    simp only [List.map_nil, oneLoop, Single.mapErr]
    cases fe <;> rfl
  | cons r rs ih =>
    obtain ⟨m, e⟩ := r
    cases e with
    | none => rfl
    | some e =>
      simp only [List.map_cons, Resp.mapErr, Option.map_some, oneLoop]
      have : (if i = 0 then some (f e) else fe.map f) = (if i = 0 then some e else fe).map f := by
        split <;> rfl
      rw [this]
      exact ih (i + 1) _

theorem singleResult_mapErr (f : Nat → Nat) (n : Nat) (s : Single) :
    singleResult n (s.mapErr f) = (singleResult n s).mapErr f := rfl

theorem map_snd_mapT (f : Nat → Nat) (rs : List Tagged) :
    (rs.map (mapT f)).map (·.2) = (rs.map (·.2)).map (Resp.mapErr f) := by
  simp [List.map_map, mapT, Function.comp_def]

end ScVerif.C17
