import ScVerif.C17.Adapters
/-!
# C17 — what runs on behalf of the members of a Group subscription (`PullX` over the in-process client)

`(*Group).PullX` (pkg/trait/onoffpb/group.go, pkg/trait/lightpb/group.go) hands `group.Execute` one
member closure per named device.  With the client the library provides for `impl` (`WrapApi`, i.e.
`wrap.ServerToClient`) every member closure opens a stream whose other end is a *handler goroutine*
running the device's `PullX`; the two meet on the unbuffered channel `serverSend` of pkg/wrap/stream.go:

```
device handler i        wrap stream i                    member closure i                  group loop
server.Send(v)  ─────►  SendMsg: select {                stream.Recv(): select {           select {
                          <-ctx.Done(): ctx error          <-ctx.Done(): ctx error           err := <-returnErr: return err
                          serverSend <- v: nil }           v := <-serverSend }               msg := <-memberValues: reduce, dedup,
                                                         select {                                  server.Send(...)  (may park)
                                                           memberValues <- {i, v}                  on error: cancelFunc(); <-returnErr
                                                           <-ctx.Done(): return ctx.Err() }   }
```

The property's last clause - *every goroutine it starts ends once its members return* - read for a Group
whose members are devices behind `WrapApi` includes the handler goroutines: they are started for the
members and only the cancellation of the member's context can end them.  This file models the four
kinds of thread and the three rendezvous between them as a small-step system; `Execute` itself is
abstracted to what `Threads.lean` proves about it (it returns once `retAfter` members have returned -
all of them for All/Most/Any/Fast, one for Race - cancels its context when more than `allowed` members
have failed, and cancels it when it returns).  A Pull member never succeeds (its stream only ever ends
with an error), so Fast waits for all.  Strategy One calls its members one after the other: `Cfg.initSeq` and
the step `mStart i` (the member's turn comes when the one before it has failed; `ExecuteOne` never cancels:
`allowed = retAfter = n`; a member whose turn comes after the cancellation is refused by the in-process client).

`watch = true` is the code: `SendMsg` selects on `ctx.Done()` and the hand-over.  `watch = false` is the
variant with an up-front `ctx.Err()` check and a bare send (seeded change 15), kept for the witness
theorems.
-/
namespace ScVerif.C17.Pipe
open ScVerif.C17

/-- the device handler behind `WrapApi`: waiting for its next report (or its context), inside
`server.Send(v)` = `(*serverStream).SendMsg`, returned -/
inductive HSt (V : Type) where
  | idle | sending (v : V) | ended
deriving DecidableEq, Repr

/-- the member closure of `pullXActions`: not called yet (strategy One runs its members one after the other;
the handler of such a lane does not exist: `HSt.ended`), in `stream.Recv()`, in the select that hands `v` to
the loop, returned -/
inductive MSt (V : Type) where
  | notStarted | recv | holding (v : V) | ended
deriving DecidableEq, Repr

/-- the loop of `PullX`: in its select, inside `server.Send`, in `<-returnErr` after a failed Send,
returned -/
inductive LSt where
  | selecting | inSend | draining | returned
deriving DecidableEq, Repr

def HSt.isEnded : HSt V → Bool
  | .ended => true | _ => false
def MSt.isEnded : MSt V → Bool
  | .ended => true | _ => false
def MSt.isNotStarted : MSt V → Bool
  | .notStarted => true | _ => false

structure Lane (V : Type) where
  pend : List (Option V)   -- what the device will do next: report `some v`, or fail (`none`: its handler returns an error)
  h : HSt V
  m : MSt V
  acc : Nat                -- how many `server.Send`s of the device have returned nil
deriving DecidableEq

structure Cfg (V : Type) where
  cancelled : Bool          -- the context of the subscription (parent of every member's context)
  lanes : List (Lane V)
  execDone : Bool           -- `Execute` has returned; `returnErr` holds its error
  loop : LSt
  st : PullSt V             -- `lastChange`, `memberChanges`, what has been forwarded
  log : List (Nat × V)      -- ghost: the messages the loop has taken from `memberValues`, oldest first
deriving DecidableEq

structure Params (V : Type) where
  watch : Bool
  allowed : Nat
  retAfter : Nat
  red : List (Option V) → Option V

inductive Lbl (V : Type) where
  | mStart (i : Nat)    -- strategy One: member i's turn has come (the one before it has failed): it opens its stream
  | hStart (i : Nat)    -- handler i takes its next instruction: enters SendMsg / returns an error
  | hCtx (i : Nat)      -- handler i finds its context done
  | hand (i : Nat)      -- rendezvous on serverSend: SendMsg of handler i returns nil, Recv of member i returns v
  | mCtx (i : Nat)      -- member i finds its context done (in Recv or in the hand-over select)
  | mEof (i : Nat)      -- Recv of member i returns the error its handler ended with
  | give (i : Nat)      -- rendezvous on memberValues: the loop takes member i's message
  | execCancel          -- Execute: more than `allowed` members have failed: cancelFunc()
  | execRet             -- Execute returns (deferred cancelFunc), its error goes to returnErr
  | loopErr             -- the loop takes returnErr and returns
  -- the environment: the devices and the subscriber
  | poke (i : Nat) (x : Option V)
  | sendOk | sendFail | cancel
deriving DecidableEq

def Lbl.internal : Lbl V → Bool
  | .poke .. | .sendOk | .sendFail | .cancel => false
  | _ => true

/-- the strategies that run their members side by side: at the first point of quiescence every member closure
is in `Recv` and every handler waits -/
def Cfg.init (n : Nat) : Cfg V :=
  ⟨false, List.replicate n ⟨[], .idle, .recv, 0⟩, false, .selecting, pullInit n, []⟩

/-- strategy One: no member has been called yet -/
def Cfg.initSeq (n : Nat) : Cfg V :=
  ⟨false, List.replicate n ⟨[], .ended, .notStarted, 0⟩, false, .selecting, pullInit n, []⟩

/-- one step on lane `i` -/
def Cfg.onLane (c : Cfg V) (i : Nat) (f : Lane V → Option (Lane V)) : Option (Cfg V) :=
  match c.lanes[i]? with
  | some l => (f l).map fun l' => { c with lanes := c.lanes.set i l' }
  | none => none

def Cfg.endedCount (c : Cfg V) : Nat := c.lanes.countP fun l => l.m.isEnded

def hStartLane (watch cancelled : Bool) (l : Lane V) : Option (Lane V) :=
  match l.h, l.pend with
  | .idle, some v :: rest =>
    -- the variant's up-front check: `if s.ctx.Err() != nil { return s.ctxErr() }`; the device returns the error
    if !watch && cancelled then some { l with h := .ended, pend := rest }
    else some { l with h := .sending v, pend := rest }
  | .idle, none :: rest => some { l with h := .ended, pend := rest }
  | _, _ => none

def hCtxLane (watch : Bool) (l : Lane V) : Option (Lane V) :=
  match l.h with
  | .idle => some { l with h := .ended }
  | .sending _ => if watch then some { l with h := .ended } else none
  | .ended => none

def handLane (l : Lane V) : Option (Lane V) :=
  match l.h, l.m with
  | .sending v, .recv => some { l with h := .idle, m := .holding v, acc := l.acc + 1 }
  | _, _ => none

def mCtxLane (l : Lane V) : Option (Lane V) :=
  match l.m with
  | .ended => none
  | .notStarted => none
  | _ => some { l with m := .ended }

/-- `ExecuteOne` calls member `i`: `s.impl.PullX(ctx, …)` - the in-process client refuses a context that has
ended (`NewStream`: `if err := ctx.Err(); err != nil { return nil, … }`, no handler is started), otherwise it
starts the handler goroutine and the member closure goes into `Recv` -/
def mStartLane (cancelled : Bool) (l : Lane V) : Option (Lane V) :=
  match l.m with
  | .notStarted => some (if cancelled then { l with h := .ended, m := .ended } else { l with h := .idle, m := .recv })
  | _ => none

/-- `ExecuteOne`'s loop has reached member `i`: the members before it have returned (all with an error: a Pull
member never succeeds) -/
def Cfg.prevEnded (c : Cfg V) : Nat → Bool
  | 0 => true
  | j + 1 => match c.lanes[j]? with
    | some p => p.m.isEnded
    | none => false

def mEofLane (l : Lane V) : Option (Lane V) :=
  match l.h, l.m with
  | .ended, .recv => some { l with m := .ended }
  | _, _ => none

def step [DecidableEq V] (P : Params V) (c : Cfg V) : Lbl V → Option (Cfg V)
  | .mStart i => if c.prevEnded i then c.onLane i (mStartLane c.cancelled) else none
  | .hStart i => c.onLane i (hStartLane P.watch c.cancelled)
  | .hCtx i => if c.cancelled then c.onLane i (hCtxLane P.watch) else none
  | .hand i => c.onLane i handLane
  | .mCtx i => if c.cancelled then c.onLane i mCtxLane else none
  | .mEof i => c.onLane i mEofLane
  | .give i =>
    match c.lanes[i]? with
    | some l =>
      match l.m, c.loop with
      | .holding v, .selecting =>
        let st' := pullFeed P.red c.st (i, [v])
        some { c with lanes := c.lanes.set i { l with m := .recv }, st := st', log := c.log ++ [(i, v)],
                      loop := if st'.sent.length = c.st.sent.length then .selecting else .inSend }
      | _, _ => none
    | none => none
  | .execCancel =>
    if !c.cancelled && !c.execDone && decide (P.allowed < c.endedCount) then some { c with cancelled := true } else none
  | .execRet =>
    if !c.execDone && decide (P.retAfter ≤ c.endedCount) then some { c with execDone := true, cancelled := true } else none
  | .loopErr =>
    if c.execDone && (c.loop == .selecting || c.loop == .draining) then some { c with loop := .returned, cancelled := true }
    else none
  | .poke i x => c.onLane i fun l => some { l with pend := l.pend ++ [x] }
  | .sendOk => if c.loop == .inSend then some { c with loop := .selecting } else none
  | .sendFail => if c.loop == .inSend then some { c with loop := .draining, cancelled := true } else none
  | .cancel => some { c with cancelled := true }

/-- a schedule: every label must be enabled when its turn comes -/
def run [DecidableEq V] (P : Params V) : Cfg V → List (Lbl V) → Option (Cfg V)
  | c, [] => some c
  | c, l :: ls => match step P c l with
    | some c' => run P c' ls
    | none => none

/-! ## the measure: units of work the pipeline can still do without its environment -/

def hW : HSt V → Nat
  | .idle => 1 | .sending _ => 4 | .ended => 0
def mW : MSt V → Nat
  | .notStarted => 3 | .recv => 1 | .holding _ => 3 | .ended => 0
def lW : LSt → Nat
  | .selecting => 2 | .inSend => 3 | .draining => 1 | .returned => 0
def laneW (l : Lane V) : Nat := 4 * l.pend.length + hW l.h + mW l.m
def lanesW (ls : List (Lane V)) : Nat := (ls.map laneW).sum
def Cfg.work (c : Cfg V) : Nat :=
  lanesW c.lanes + (if c.cancelled then 0 else 1) + (if c.execDone then 0 else 1) + lW c.loop

/-- everything started for the members has ended -/
def Cfg.allEnded (c : Cfg V) : Prop := ∀ l ∈ c.lanes, l.h = .ended ∧ l.m = .ended

/-- the number of threads started for the members that have not ended -/
def Cfg.left (c : Cfg V) : Nat :=
  (c.lanes.countP fun l => !l.h.isEnded) + (c.lanes.countP fun l => !l.m.isEnded)

/-! ## for the driver: every point of quiescence the internal steps can reach -/

def internalLabels (n : Nat) : List (Lbl V) :=
  (List.range n).flatMap (fun i => [.mStart i, .hStart i, .hCtx i, .hand i, .mCtx i, .mEof i, .give i])
    ++ [.execCancel, .execRet, .loopErr]

def succs [DecidableEq V] (P : Params V) (c : Cfg V) : List (Cfg V) :=
  (internalLabels c.lanes.length).filterMap (step P c)

/-! The driver's exploration.  It is proved sound (`PipelineSettle.lean`, `C17_pipe_settle_sound`) and complete
(`PipelineComplete.lean`, `PipelineReduce.lean`, `C17_pipe_settle_complete`): the argument below is the theorem
`Pipe.diamond`.  Two economies, both invisible in what is observed:
the ghost `log` is dropped, and in a *calm* state - not cancelled, `Execute` running, no handler and no member
ended, no failure instruction waiting anywhere - the steps `hStart i` / `hand i` are taken at once when enabled:
in a calm state no thread of the pipeline can cancel the context or end (that needs a cancelled context, an
ended handler of a started lane or a failure instruction), so nothing can disable them or change what they do, and they commute
with every other enabled step (they touch lane `i`'s handler and its member in `Recv` only). -/

def Cfg.calm (c : Cfg V) : Bool :=
  !c.cancelled && !c.execDone
    && c.lanes.all fun l => (!l.h.isEnded || l.m.isNotStarted) && !l.m.isEnded && l.pend.all Option.isSome

def eagerLabels (n : Nat) : List (Lbl V) :=
  (List.range n).flatMap fun i => [.hStart i, .hand i]

def succsD [DecidableEq V] (P : Params V) (c : Cfg V) : List (Cfg V) :=
  let drop := fun (c : Cfg V) => { c with log := [] }
  let eager := if c.calm then (eagerLabels c.lanes.length).findSome? (step P c) else none
  match eager with
  | some c' => [drop c']
  | none => ((internalLabels c.lanes.length).filterMap (step P c)).map drop

/-- breadth first, one layer per unit of work: `front` = the states still moving, `acc` = the quiescent ones -/
def settleLayers [DecidableEq V] (P : Params V) : Nat → List (Cfg V) → List (Cfg V) → List (Cfg V)
  | 0, _, acc => acc
  | k + 1, front, acc =>
    let next := front.map fun c => (c, succsD P c)
    let q := (next.filter fun x => x.2.isEmpty).map (·.1)
    let nq := next.flatMap (·.2)
    if nq.isEmpty then (q ++ acc).eraseDups
    else settleLayers P k nq.eraseDups ((q ++ acc).eraseDups)

def maxWork (cs : List (Cfg V)) : Nat := cs.foldl (fun m c => max m c.work) 0

/-- all quiescent states reachable from the states `cs` by internal steps -/
def settle [DecidableEq V] (P : Params V) (cs : List (Cfg V)) : List (Cfg V) :=
  settleLayers P (maxWork cs + 1) (cs.map fun c => { c with log := [] }) []

end ScVerif.C17.Pipe
