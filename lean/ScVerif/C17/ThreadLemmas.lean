import ScVerif.C17.Threads
import ScVerif.C17.Lemmas
/-! Invariants of the thread-level model, preserved by every step of every thread. -/
namespace ScVerif.C17

/-- The consumer's control state agrees with the consumer loop run on the part of the channel log it
has received, and the members' context is cancelled exactly if the caller cancelled or the loop did. -/
def ConsOK (C : Consumer σ ρ) (c : Config σ ρ) : Prop :=
  match c.cons with
  | .idle s => ∃ cf, C.after (c.hist.take c.taken) = .running s cf ∧ c.cancelled = (c.envCancelled || cf)
  | .got s r => ∃ cf, 0 < c.taken ∧ C.after (c.hist.take (c.taken - 1)) = .running s cf
      ∧ c.hist[c.taken - 1]? = some r ∧ c.cancelled = (c.envCancelled || cf)
  | .returned x false => C.after (c.hist.take c.taken) = .returned x ∧ c.cancelled = true
  | .returned x true => c.taken = c.hist.length ∧ c.closed = true ∧ c.cancelled = true
      ∧ ∃ s cf, C.after c.hist = .running s cf ∧ x = C.onClose s

structure Inv (C : Consumer σ ρ) (c : Config σ ρ) : Prop where
  len : c.members.length = c.behs.length
  capOK : c.behs.length ≤ c.cap
  histLen : c.hist.length = c.members.countP MPc.hasSent
  takenLe : c.taken ≤ c.hist.length
  closerOK : c.closer ≠ .waiting → c.members.all MPc.isDone = true
  closedOK : c.closed = true → c.closer = .done
  cons : ConsOK C c

theorem inv_init (C : Consumer σ ρ) (behs : List Beh) (cap : Nat) (h : behs.length ≤ cap) :
    Inv C (Config.init C behs cap) := by
  refine ⟨by simp [Config.init], h, ?_, by simp [Config.init], by simp [Config.init], by simp [Config.init], ?_⟩
  · simp [Config.init, List.countP_replicate, MPc.hasSent]
  · simp [ConsOK, Config.init, Consumer.after, Consumer.start]

theorem countP_lt_of_not (p : α → Bool) (l : List α) (i : Nat) (a : α) (h : l[i]? = some a) (hp : p a = false) :
    l.countP p < l.length := by
  have hle : l.countP p ≤ l.length := List.countP_le_length
  rcases Nat.lt_or_ge (l.countP p) l.length with h1 | h1
  · exact h1
  · have heq : l.countP p = l.length := by omega
    have := (List.countP_eq_length.mp heq) a (List.mem_iff_getElem?.mpr ⟨i, h⟩)
    simp [hp] at this

theorem all_done_not (l : List MPc) (i : Nat) (a : MPc) (h : l[i]? = some a) (hall : l.all MPc.isDone = true) :
    a.isDone = true :=
  (List.all_eq_true.mp hall) a (List.mem_iff_getElem?.mpr ⟨i, h⟩)

theorem lt_of_getElem? {l : List α} {i : Nat} {a : α} (h : l[i]? = some a) : i < l.length := by
  rcases Nat.lt_or_ge i l.length with h1 | h1
  · exact h1
  · simp [List.getElem?_eq_none h1] at h

theorem getElem_of_getElem? {l : List α} {i : Nat} {a : α} (h : l[i]? = some a) (hi : i < l.length) : l[i] = a := by
  rw [List.getElem?_eq_getElem hi] at h
  exact Option.some.inj h

/-- A send is never blocked when the channel has room for one response per member. -/
theorem send_room (C : Consumer σ ρ) (c : Config σ ρ) (h : Inv C c) (i : Nat) (r : Resp)
    (hi : c.members[i]? = some (.ran r)) : c.hist.length < c.taken + c.cap := by
  have := countP_lt_of_not MPc.hasSent c.members i (.ran r) hi rfl
  have := h.histLen
  have := h.len
  have := h.capOK
  omega

theorem consOK_congr (C : Consumer σ ρ) (c c' : Config σ ρ)
    (h1 : c'.cons = c.cons) (h2 : c'.hist = c.hist) (h3 : c'.taken = c.taken)
    (h4 : c'.cancelled = c.cancelled) (h5 : c'.envCancelled = c.envCancelled) (h6 : c'.closed = c.closed)
    (h : ConsOK C c) : ConsOK C c' := by
  unfold ConsOK at h ⊢
  rw [h1, h2, h3, h4, h5, h6]
  exact h

theorem inv_member (C : Consumer σ ρ) (c c' : Config σ ρ) (i : Nat) (h : Inv C c)
    (hs : stepMember c i = some c') : Inv C c' := by
  unfold stepMember at hs
  split at hs
  · -- run
    rename_i b hm hb
    injection hs with hs
    subst hs
    have hi := lt_of_getElem? hm
    have hget := getElem_of_getElem? hm hi
    refine ⟨by simpa using h.len, h.capOK, ?_, h.takenLe, ?_, h.closedOK, ?_⟩
    · simp only
      rw [List.countP_set hi, hget]
      simpa [MPc.hasSent] using h.histLen
    · intro hc
      have := all_done_not _ _ _ hm (h.closerOK hc)
      simp [MPc.isDone] at this
    · exact consOK_congr C c _ rfl rfl rfl rfl rfl rfl h.cons
  · -- send
    rename_i r hm
    split at hs
    · injection hs with hs
      subst hs
      have hi := lt_of_getElem? hm
      have hget := getElem_of_getElem? hm hi
      have hnotdone : ¬ (c.members.all MPc.isDone = true) := by
        intro hall
        have := all_done_not _ _ _ hm hall
        simp [MPc.isDone] at this
      have hwait : c.closer = .waiting := by
        cases hcl : c.closer with
        | waiting => rfl
        | woke => exact absurd (h.closerOK (by simp [hcl])) hnotdone
        | done => exact absurd (h.closerOK (by simp [hcl])) hnotdone
      have hopen : c.closed = false := by
        cases hcd : c.closed with
        | false => rfl
        | true => have := h.closedOK hcd; simp [hwait] at this
      refine ⟨by simpa using h.len, h.capOK, ?_, ?_, ?_, h.closedOK, ?_⟩
      · simp only
        rw [List.countP_set hi, hget, List.length_append]
        have := h.histLen
        simp [MPc.hasSent]
        omega
      · simp only [List.length_append]; have := h.takenLe; omega
      · intro hc; exact absurd hwait hc
      · have hc := h.cons
        have hle := h.takenLe
        unfold ConsOK at hc ⊢
        simp only
        split
        · rename_i s hcs
          rw [hcs] at hc
          obtain ⟨cf, h1, h2⟩ := hc
          exact ⟨cf, by rw [List.take_append_of_le_length hle]; exact h1, h2⟩
        · rename_i s r' hcs
          rw [hcs] at hc
          obtain ⟨cf, h0, h1, h2, h3⟩ := hc
          refine ⟨cf, h0, ?_, ?_, h3⟩
          · rw [List.take_append_of_le_length (by omega)]; exact h1
          · rw [List.getElem?_append_left (by omega)]; exact h2
        · rename_i x hcs
          rw [hcs] at hc
          exact ⟨by rw [List.take_append_of_le_length hle]; exact hc.1, hc.2⟩
        · rename_i x hcs
          rw [hcs] at hc
          rw [hopen] at hc
          exact absurd hc.2.1 (by simp)
    · cases hs
  · -- all.Done()
    rename_i r hm
    injection hs with hs
    subst hs
    have hi := lt_of_getElem? hm
    have hget := getElem_of_getElem? hm hi
    have hnotdone : ¬ (c.members.all MPc.isDone = true) := by
      intro hall
      have := all_done_not _ _ _ hm hall
      simp [MPc.isDone] at this
    refine ⟨by simpa using h.len, h.capOK, ?_, h.takenLe, ?_, h.closedOK, ?_⟩
    · simp only
      rw [List.countP_set hi, hget]
      have := h.histLen
      have : 0 < c.members.countP MPc.hasSent :=
        List.countP_pos_iff.mpr ⟨_, List.mem_iff_getElem?.mpr ⟨i, hm⟩, rfl⟩
      simp [MPc.hasSent]
      omega
    · intro hc; exact absurd (h.closerOK hc) hnotdone
    · exact consOK_congr C c _ rfl rfl rfl rfl rfl rfl h.cons
  · cases hs

theorem inv_closer (C : Consumer σ ρ) (c c' : Config σ ρ) (h : Inv C c)
    (hs : stepCloser c = some c') : Inv C c' := by
  unfold stepCloser at hs
  split at hs
  · rename_i hcl
    split at hs
    · rename_i hall
      injection hs with hs
      subst hs
      refine ⟨h.len, h.capOK, h.histLen, h.takenLe, fun _ => hall, ?_, ?_⟩
      · intro hcd; have := h.closedOK hcd; simp [hcl] at this
      · exact consOK_congr C c _ rfl rfl rfl rfl rfl rfl h.cons
    · cases hs
  · rename_i hcl
    injection hs with hs
    subst hs
    have hopen : c.closed = false := by
      cases hcd : c.closed with
      | false => rfl
      | true => have := h.closedOK hcd; simp [hcl] at this
    refine ⟨h.len, h.capOK, h.histLen, h.takenLe, fun _ => h.closerOK (by simp [hcl]), fun _ => rfl, ?_⟩
    have hc := h.cons
    unfold ConsOK at hc ⊢
    simp only
    split
    · rename_i s hcs; rw [hcs] at hc; exact hc
    · rename_i s r hcs; rw [hcs] at hc; exact hc
    · rename_i x hcs; rw [hcs] at hc; exact hc
    · rename_i x hcs; rw [hcs, hopen] at hc; exact absurd hc.2.1 (by simp)
  · cases hs

theorem inv_consumer (C : Consumer σ ρ) (c c' : Config σ ρ) (h : Inv C c)
    (hs : stepConsumer C c = some c') : Inv C c' := by
  unfold stepConsumer at hs
  have hc := h.cons
  unfold ConsOK at hc
  split at hs
  · rename_i s hcs
    rw [hcs] at hc
    obtain ⟨cf, h1, h2⟩ := hc
    split at hs
    · -- recv
      rename_i r hr
      injection hs with hs
      subst hs
      have hlt := lt_of_getElem? hr
      refine ⟨h.len, h.capOK, h.histLen, by simp only; omega, h.closerOK, h.closedOK, ?_⟩
      unfold ConsOK
      simp only
      exact ⟨cf, by omega, by simpa using h1, by simpa using hr, h2⟩
    · rename_i hnone
      split at hs
      · -- close observed
        rename_i hcd
        injection hs with hs
        subst hs
        have hge : c.hist.length ≤ c.taken := by
          rcases Nat.lt_or_ge c.taken c.hist.length with hlt | hge
          · simp [List.getElem?_eq_getElem hlt] at hnone
          · exact hge
        have heq : c.taken = c.hist.length := by have := h.takenLe; omega
        refine ⟨h.len, h.capOK, h.histLen, h.takenLe, h.closerOK, h.closedOK, ?_⟩
        unfold ConsOK
        simp only
        refine ⟨heq, hcd, trivial, s, cf, ?_, rfl⟩
        rw [heq, List.take_length] at h1
        exact h1
      · cases hs
  · rename_i s r hcs
    rw [hcs] at hc
    obtain ⟨cf, h0, h1, h2, h3⟩ := hc
    have hlt := lt_of_getElem? h2
    have htake : c.hist.take c.taken = c.hist.take (c.taken - 1) ++ [r] := by
      have := List.take_succ_eq_append_getElem hlt
      rw [getElem_of_getElem? h2 hlt] at this
      have e : c.taken - 1 + 1 = c.taken := by omega
      rw [e] at this
      exact this
    have hafter : C.after (c.hist.take c.taken) = feedRun C (.running s cf) r := by
      rw [htake, after_snoc, h1]
    split at hs
    · rename_i s' cn hrecv
      injection hs with hs
      subst hs
      refine ⟨h.len, h.capOK, h.histLen, h.takenLe, h.closerOK, h.closedOK, ?_⟩
      unfold ConsOK
      simp only
      refine ⟨cf || cn, ?_, ?_⟩
      · rw [hafter]; simp [feedRun, hrecv]
      · rw [h3, Bool.or_assoc]
    · rename_i x hrecv
      injection hs with hs
      subst hs
      refine ⟨h.len, h.capOK, h.histLen, h.takenLe, h.closerOK, h.closedOK, ?_⟩
      unfold ConsOK
      simp only
      refine ⟨?_, trivial⟩
      rw [hafter]; simp [feedRun, hrecv]
  · cases hs

theorem inv_env (C : Consumer σ ρ) (c : Config σ ρ) (h : Inv C c) :
    Inv C { c with envCancelled := true, cancelled := true } := by
  refine ⟨h.len, h.capOK, h.histLen, h.takenLe, h.closerOK, h.closedOK, ?_⟩
  have hc := h.cons
  unfold ConsOK at hc ⊢
  simp only
  split
  · rename_i s hcs; rw [hcs] at hc; obtain ⟨cf, h1, _⟩ := hc; exact ⟨cf, h1, by simp⟩
  · rename_i s r hcs; rw [hcs] at hc; obtain ⟨cf, h0, h1, h2, _⟩ := hc; exact ⟨cf, h0, h1, h2, by simp⟩
  · rename_i x hcs; rw [hcs] at hc; exact ⟨hc.1, trivial⟩
  · rename_i x hcs; rw [hcs] at hc; exact ⟨hc.1, hc.2.1, trivial, hc.2.2.2⟩

theorem inv_step (C : Consumer σ ρ) (c c' : Config σ ρ) (t : Tid) (h : Inv C c)
    (hs : step C c t = some c') : Inv C c' := by
  cases t with
  | member i => exact inv_member C c c' i h hs
  | closer => exact inv_closer C c c' h hs
  | consumer => exact inv_consumer C c c' h hs
  | env =>
    simp only [step] at hs
    injection hs with hs
    subst hs
    exact inv_env C c h

theorem inv_stepD (C : Consumer σ ρ) (c : Config σ ρ) (t : Tid) (h : Inv C c) : Inv C (stepD C c t) := by
  unfold stepD
  cases hs : step C c t with
  | none => exact h
  | some c' => exact inv_step C c c' t h hs

theorem inv_exec (C : Consumer σ ρ) (sched : List Tid) (c : Config σ ρ) (h : Inv C c) : Inv C (exec C c sched) := by
  induction sched generalizing c with
  | nil => exact h
  | cons t ts ih => exact ih _ (inv_stepD C c t h)

/-! ## what no step changes -/

theorem step_static (C : Consumer σ ρ) (c c' : Config σ ρ) (t : Tid) (hs : step C c t = some c') :
    c'.behs = c.behs ∧ c'.cap = c.cap ∧ c'.members.length = c.members.length := by
  cases t with
  | member i =>
    simp only [step, stepMember] at hs
    split at hs
    · injection hs with hs; subst hs; simp
    · split at hs
      · injection hs with hs; subst hs; simp
      · cases hs
    · injection hs with hs; subst hs; simp
    · cases hs
  | closer =>
    simp only [step, stepCloser] at hs
    split at hs
    · split at hs
      · injection hs with hs; subst hs; simp
      · cases hs
    · injection hs with hs; subst hs; simp
    · cases hs
  | consumer =>
    simp only [step, stepConsumer] at hs
    split at hs
    · split at hs
      · injection hs with hs; subst hs; simp
      · split at hs
        · injection hs with hs; subst hs; simp
        · cases hs
    · split at hs
      · injection hs with hs; subst hs; simp
      · injection hs with hs; subst hs; simp
    · cases hs
  | env =>
    simp only [step] at hs
    injection hs with hs; subst hs; simp

theorem exec_static (C : Consumer σ ρ) (sched : List Tid) (c : Config σ ρ) :
    (exec C c sched).behs = c.behs ∧ (exec C c sched).cap = c.cap
      ∧ (exec C c sched).members.length = c.members.length := by
  induction sched generalizing c with
  | nil => exact ⟨rfl, rfl, rfl⟩
  | cons t ts ih =>
    show (exec C (stepD C c t) ts).behs = c.behs ∧ (exec C (stepD C c t) ts).cap = c.cap
      ∧ (exec C (stepD C c t) ts).members.length = c.members.length
    obtain ⟨h1, h2, h3⟩ := ih (stepD C c t)
    rw [h1, h2, h3]
    unfold stepD
    cases hs : step C c t with
    | none => exact ⟨rfl, rfl, rfl⟩
    | some c' => exact step_static C c c' t hs

/-! ## progress measure of the spawned threads -/

theorem sum_map_set (f : α → Nat) (l : List α) (i : Nat) (a : α) (hi : i < l.length) :
    ((l.set i a).map f).sum + f l[i] = (l.map f).sum + f a := by
  induction l generalizing i with
  | nil => simp at hi
  | cons x l ih =>
    cases i with
    | zero => simp; omega
    | succ k =>
      simp only [List.length_cons, Nat.add_lt_add_iff_right] at hi
      have := ih k hi
      simp only [List.set_cons_succ, List.map_cons, List.sum_cons, List.getElem_cons_succ]
      omega

theorem todo_sum_zero (l : List MPc) : (l.map MPc.todo).sum = 0 ↔ l.all MPc.isDone = true := by
  induction l with
  | nil => simp
  | cons m l ih =>
    simp only [List.map_cons, List.sum_cons, List.all_cons, Bool.and_eq_true]
    rw [← ih]
    cases m <;> simp [MPc.todo, MPc.isDone] <;> omega

theorem pending_member (c c' : Config σ ρ) (i : Nat) (hs : stepMember c i = some c') :
    c'.pending + 1 = c.pending := by
  unfold stepMember at hs
  split at hs
  · rename_i b hm hb
    injection hs with hs; subst hs
    have hi := lt_of_getElem? hm
    have := sum_map_set MPc.todo c.members i (.ran (b.respond c.cancelled)) hi
    rw [getElem_of_getElem? hm hi] at this
    simp only [Config.pending, MPc.todo] at this ⊢
    omega
  · rename_i r hm
    split at hs
    · injection hs with hs; subst hs
      have hi := lt_of_getElem? hm
      have := sum_map_set MPc.todo c.members i (.sent r) hi
      rw [getElem_of_getElem? hm hi] at this
      simp only [Config.pending, MPc.todo] at this ⊢
      omega
    · cases hs
  · rename_i r hm
    injection hs with hs; subst hs
    have hi := lt_of_getElem? hm
    have := sum_map_set MPc.todo c.members i (.done r) hi
    rw [getElem_of_getElem? hm hi] at this
    simp only [Config.pending, MPc.todo] at this ⊢
    omega
  · cases hs

theorem pending_closer (c c' : Config σ ρ) (hs : stepCloser c = some c') :
    c'.pending + 1 = c.pending := by
  unfold stepCloser at hs
  split at hs
  · rename_i hcl
    split at hs
    · injection hs with hs; subst hs
      simp [Config.pending, hcl, CloserPc.todo]
    · cases hs
  · rename_i hcl
    injection hs with hs; subst hs
    simp [Config.pending, hcl, CloserPc.todo]
  · cases hs

theorem pending_consumer (C : Consumer σ ρ) (c c' : Config σ ρ) (hs : stepConsumer C c = some c') :
    c'.pending = c.pending := by
  unfold stepConsumer at hs
  split at hs
  · split at hs
    · injection hs with hs; subst hs; rfl
    · split at hs
      · injection hs with hs; subst hs; rfl
      · cases hs
  · split at hs
    · injection hs with hs; subst hs; rfl
    · injection hs with hs; subst hs; rfl
  · cases hs

end ScVerif.C17

namespace ScVerif.C17

/-! ## what is on the channel: each member's own response, once -/

/-- the response a member goroutine holds / has sent -/
def MPc.resp : MPc → Option Resp
  | .start => none
  | .ran r | .sent r | .done r => some r

structure HistInv (c : Config σ ρ) : Prop where
  mem : ∀ (i : Nat) (r : Resp), (i, r) ∈ c.hist ↔ (c.members[i]? = some (.sent r) ∨ c.members[i]? = some (.done r))
  nodup : (c.hist.map (·.1)).Nodup
  own : ∀ (i : Nat) (m : MPc) (r : Resp), c.members[i]? = some m → m.resp = some r →
    ∃ b : Beh, c.behs[i]? = some b ∧ (r = b.normal ∨ b.onCancel = some r)

theorem histInv_init (C : Consumer σ ρ) (behs : List Beh) (cap : Nat) : HistInv (Config.init C behs cap) := by
  refine ⟨?_, by simp [Config.init], ?_⟩
  · intro i r
    simp only [Config.init, List.not_mem_nil, false_iff, not_or]
    constructor <;> intro h <;> simp [List.getElem?_replicate] at h
  · intro i m r hm hr
    simp only [Config.init, List.getElem?_replicate] at hm
    split at hm
    · injection hm with hm; subst hm; simp [MPc.resp] at hr
    · cases hm

theorem histInv_member (c c' : Config σ ρ) (i : Nat) (h : HistInv c)
    (hs : stepMember c i = some c') : HistInv c' := by
  unfold stepMember at hs
  split at hs
  · -- run
    rename_i b hm hb
    injection hs with hs
    subst hs
    have hi := lt_of_getElem? hm
    refine ⟨?_, h.nodup, ?_⟩
    · intro j r
      simp only
      by_cases hji : j = i
      · subst hji
        rw [List.getElem?_set_self hi]
        have := (h.mem j r)
        rw [hm] at this
        simpa using this
      · rw [List.getElem?_set_ne (fun e => hji e.symm)]
        exact h.mem j r
    · intro j m r hjm hr
      simp only at hjm ⊢
      by_cases hji : j = i
      · subst hji
        rw [List.getElem?_set_self hi] at hjm
        injection hjm with hjm
        subst hjm
        simp only [MPc.resp, Option.some.injEq] at hr
        subst hr
        refine ⟨b, hb, ?_⟩
        unfold Beh.respond
        split
        · cases hoc : b.onCancel with
          | none => left; simp
          | some x => right; simp
        · left; rfl
      · rw [List.getElem?_set_ne (fun e => hji e.symm)] at hjm
        exact h.own j m r hjm hr
  · -- send
    rename_i r hm
    split at hs
    · injection hs with hs
      subst hs
      have hi := lt_of_getElem? hm
      have hnot : ∀ r', (i, r') ∉ c.hist := by
        intro r' hin
        have := (h.mem i r').mp hin
        rw [hm] at this
        simp at this
      refine ⟨?_, ?_, ?_⟩
      · intro j r'
        simp only [List.mem_append, List.mem_singleton, Prod.mk.injEq]
        by_cases hji : j = i
        · subst hji
          rw [List.getElem?_set_self hi]
          constructor
          · rintro (hin | ⟨_, rfl⟩)
            · exact absurd hin (hnot r')
            · left; rfl
          · rintro (heq | heq)
            · injection heq with heq; injection heq with heq; right; exact ⟨rfl, heq.symm⟩
            · injection heq with heq; cases heq
        · rw [List.getElem?_set_ne (fun e => hji e.symm)]
          constructor
          · rintro (hin | ⟨hj, _⟩)
            · exact (h.mem j r').mp hin
            · exact absurd hj hji
          · intro hh; left; exact (h.mem j r').mpr hh
      · simp only [List.map_append, List.map_cons, List.map_nil]
        rw [List.nodup_append]
        refine ⟨h.nodup, by simp, ?_⟩
        intro a ha b hb
        simp only [List.mem_singleton] at hb
        subst hb
        intro hab
        subst hab
        obtain ⟨x, hx, hx1⟩ := List.mem_map.mp ha
        obtain ⟨j, r'⟩ := x
        simp only at hx1
        subst hx1
        exact hnot r' hx
      · intro j m r' hjm hr
        simp only at hjm ⊢
        by_cases hji : j = i
        · subst hji
          rw [List.getElem?_set_self hi] at hjm
          injection hjm with hjm
          subst hjm
          exact h.own j (.ran r) r' hm (by simpa [MPc.resp] using hr)
        · rw [List.getElem?_set_ne (fun e => hji e.symm)] at hjm
          exact h.own j m r' hjm hr
    · cases hs
  · -- all.Done()
    rename_i r hm
    injection hs with hs
    subst hs
    have hi := lt_of_getElem? hm
    refine ⟨?_, h.nodup, ?_⟩
    · intro j r'
      simp only
      by_cases hji : j = i
      · subst hji
        rw [List.getElem?_set_self hi]
        have := h.mem j r'
        rw [hm] at this
        rw [this]
        constructor
        · rintro (heq | heq)
          · injection heq with heq; injection heq with heq; right; rw [heq]
          · cases heq
        · rintro (heq | heq)
          · cases heq
          · injection heq with heq; injection heq with heq; left; rw [heq]
      · rw [List.getElem?_set_ne (fun e => hji e.symm)]
        exact h.mem j r'
    · intro j m r' hjm hr
      simp only at hjm ⊢
      by_cases hji : j = i
      · subst hji
        rw [List.getElem?_set_self hi] at hjm
        injection hjm with hjm
        subst hjm
        exact h.own j (.sent r) r' hm (by simpa [MPc.resp] using hr)
      · rw [List.getElem?_set_ne (fun e => hji e.symm)] at hjm
        exact h.own j m r' hjm hr
  · cases hs

theorem histInv_step (C : Consumer σ ρ) (c c' : Config σ ρ) (t : Tid) (h : HistInv c)
    (hs : step C c t = some c') : HistInv c' := by
  cases t with
  | member i => exact histInv_member c c' i h hs
  | closer =>
    simp only [step, stepCloser] at hs
    split at hs
    · split at hs
      · injection hs with hs; subst hs; exact ⟨h.mem, h.nodup, h.own⟩
      · cases hs
    · injection hs with hs; subst hs; exact ⟨h.mem, h.nodup, h.own⟩
    · cases hs
  | consumer =>
    simp only [step, stepConsumer] at hs
    split at hs
    · split at hs
      · injection hs with hs; subst hs; exact ⟨h.mem, h.nodup, h.own⟩
      · split at hs
        · injection hs with hs; subst hs; exact ⟨h.mem, h.nodup, h.own⟩
        · cases hs
    · split at hs
      · injection hs with hs; subst hs; exact ⟨h.mem, h.nodup, h.own⟩
      · injection hs with hs; subst hs; exact ⟨h.mem, h.nodup, h.own⟩
    · cases hs
  | env =>
    simp only [step] at hs
    injection hs with hs; subst hs; exact ⟨h.mem, h.nodup, h.own⟩

theorem histInv_exec (C : Consumer σ ρ) (sched : List Tid) (c : Config σ ρ) (h : HistInv c) :
    HistInv (exec C c sched) := by
  induction sched generalizing c with
  | nil => exact h
  | cons t ts ih =>
    apply ih
    unfold stepD
    cases hs : step C c t with
    | none => exact h
    | some c' => exact histInv_step C c c' t h hs

end ScVerif.C17
