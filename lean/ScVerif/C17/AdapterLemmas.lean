import ScVerif.C17.Adapters
import ScVerif.C17.Lemmas
/-!
# C17 — lemmas about the Group adapters' reducers
-/
namespace ScVerif.C17

/-- the non-nil entries, in order -/
def present (rs : List (Option α)) : List α := rs.filterMap id

/-- arithmetic mean; 0 for no values (the level of a fresh `traits.Brightness`) -/
def mean (vs : List Rat) : Rat := if vs = [] then 0 else vs.sum / (vs.length : Rat)

/-- "ON if any is ON, else OFF if any is OFF, else UNSPECIFIED" -/
def onoffSpec (vs : List Nat) : Nat := if 1 ∈ vs then 1 else if 2 ∈ vs then 2 else 0

@[simp] theorem present_nil : present ([] : List (Option α)) = [] := rfl
@[simp] theorem present_none (rs : List (Option α)) : present (none :: rs) = present rs := rfl
@[simp] theorem present_some (v : α) (rs : List (Option α)) : present (some v :: rs) = v :: present rs := rfl

/-! ## onoff -/

theorem onoffFold_spec (rs : List (Option Nat)) (acc : Nat) (hacc : acc ≤ 2)
    (h : ∀ v, v ∈ present rs → v ≤ 2) :
    rs.foldl onoffFeed acc =
      if acc = 1 ∨ 1 ∈ present rs then 1 else if acc = 2 ∨ 2 ∈ present rs then 2 else 0 := by
  induction rs generalizing acc with
  | nil =>
    simp only [List.foldl_nil, present_nil, List.not_mem_nil, or_false]
    have : acc = 0 ∨ acc = 1 ∨ acc = 2 := by omega
    rcases this with rfl | rfl | rfl <;> simp
  | cons r rs ih =>
    cases r with
    | none =>
      show rs.foldl onoffFeed acc = _
      rw [present_none]
      exact ih acc hacc (fun v hv => h v (by rw [present_none]; exact hv))
    | some v =>
      have hv : v ≤ 2 := h v (by simp)
      have hrest : ∀ w, w ∈ present rs → w ≤ 2 := fun w hw => h w (by simp [hw])
      have hstep : onoffStep acc v ≤ 2 := by
        unfold onoffStep
        split
        · exact hv
        · split <;> omega
      show rs.foldl onoffFeed (onoffStep acc v) = _
      rw [ih _ hstep hrest, present_some]
      have ha : acc = 0 ∨ acc = 1 ∨ acc = 2 := by omega
      have hv' : v = 0 ∨ v = 1 ∨ v = 2 := by omega
      rcases ha with rfl | rfl | rfl <;> rcases hv' with rfl | rfl | rfl <;> simp [onoffStep]

theorem onoffFoldChanges_some (rs : List (Option Nat)) (a : Nat) :
    rs.foldl onoffFeedChanges (some a) = some (rs.foldl onoffFeed a) := by
  induction rs generalizing a with
  | nil => rfl
  | cons r rs ih =>
    cases r with
    | none => exact ih a
    | some v => exact ih (onoffStep a v)

theorem onoffReduceChanges_eq (rs : List (Option Nat)) :
    onoffReduceChanges rs = if present rs = [] then none else some (onoffReduce rs) := by
  unfold onoffReduceChanges onoffReduce
  induction rs with
  | nil => rfl
  | cons r rs ih =>
    cases r with
    | none => exact ih
    | some v =>
      show rs.foldl onoffFeedChanges (some v) = _
      rw [onoffFoldChanges_some]
      simp [onoffFeed, onoffStep]

/-! ## light -/

theorem natCast_succ_rat (k : Nat) : ((k + 1 : Nat) : Rat) = (k : Rat) + 1 := by
  simp [Rat.natCast_add]

theorem natCast_succ_ne_zero (k : Nat) : ((k : Rat) + 1) ≠ 0 := by
  have h : (0 : Rat) ≤ (k : Rat) := by exact_mod_cast Nat.zero_le k
  intro h'
  grind

theorem lightStep_mul (acc v : Rat) (k : Nat) : lightStep acc v k * ((k : Rat) + 1) = acc * (k : Rat) + v := by
  unfold lightStep
  exact Rat.div_mul_cancel (natCast_succ_ne_zero k)

theorem lightFold_inv (rs : List (Option Rat)) (acc : Rat) (k : Nat) (S : Rat) (h : acc * (k : Rat) = S) :
    (rs.foldl lightFeed (acc, k)).2 = k + (present rs).length
    ∧ (rs.foldl lightFeed (acc, k)).1 * (((rs.foldl lightFeed (acc, k)).2 : Nat) : Rat) = S + (present rs).sum := by
  induction rs generalizing acc k S with
  | nil =>
    refine ⟨by simp, ?_⟩
    simp only [List.foldl_nil, present_nil, List.sum_nil]
    rw [h]; grind
  | cons r rs ih =>
    cases r with
    | none => exact ih acc k S h
    | some v =>
      have hstep : lightStep acc v k * ((k + 1 : Nat) : Rat) = S + v := by
        rw [natCast_succ_rat, lightStep_mul, h]
      have := ih (lightStep acc v k) (k + 1) (S + v) hstep
      simp only [List.foldl_cons, lightFeed, present_some, List.length_cons, List.sum_cons]
      refine ⟨by rw [this.1]; omega, ?_⟩
      rw [this.2]
      grind

theorem lightFold_none (rs : List (Option Rat)) (st : Rat × Nat) (h : present rs = []) :
    rs.foldl lightFeed st = st := by
  induction rs generalizing st with
  | nil => rfl
  | cons r rs ih =>
    cases r with
    | none => exact ih st h
    | some v => simp at h

theorem lightReduce_eq_mean (rs : List (Option Rat)) : lightReduce rs = mean (present rs) := by
  unfold lightReduce mean
  by_cases hp : present rs = []
  · rw [lightFold_none rs _ hp, if_pos hp]
  · rw [if_neg hp]
    have := lightFold_inv rs 0 0 0 (by simp)
    obtain ⟨h1, h2⟩ := this
    have hlen : 0 < (present rs).length := List.length_pos_iff.mpr hp
    rw [h1] at h2
    simp only [Nat.zero_add, Rat.zero_add] at h2
    have hne : (((present rs).length : Nat) : Rat) ≠ 0 := by
      have : (0 : Rat) < (((present rs).length : Nat) : Rat) := by exact_mod_cast hlen
      intro h0; rw [h0] at this; exact absurd this (by decide)
    rw [← h2, Rat.mul_div_cancel hne]

theorem lightFoldChanges_some (rs : List (Option Rat)) (a : Rat) (k : Nat) :
    rs.foldl lightFeedChanges (some a, k) = (some (rs.foldl lightFeed (a, k)).1, (rs.foldl lightFeed (a, k)).2) := by
  induction rs generalizing a k with
  | nil => rfl
  | cons r rs ih =>
    cases r with
    | none => exact ih a k
    | some v => exact ih (lightStep a v k) (k + 1)

theorem lightStep_zero (v : Rat) : lightStep 0 v 0 = v := by
  unfold lightStep
  grind

theorem lightReduceChanges_eq (rs : List (Option Rat)) :
    lightReduceChanges rs = if present rs = [] then none else some (lightReduce rs) := by
  unfold lightReduceChanges lightReduce
  induction rs with
  | nil => rfl
  | cons r rs ih =>
    cases r with
    | none => exact ih
    | some v =>
      show (rs.foldl lightFeedChanges (some v, 0 + 1)).1 = _
      rw [lightFoldChanges_some]
      show _ = if present (some v :: rs) = [] then none else some (rs.foldl lightFeed (lightStep 0 v 0, 0 + 1)).1
      rw [lightStep_zero]
      simp

/-! ## the single result of One / Fast / Race -/

theorem present_replicate_none (n : Nat) : present (List.replicate n (none : Option α)) = [] := by
  induction n with
  | zero => rfl
  | succ n ih => rw [List.replicate_succ, present_none, ih]

theorem present_set_replicate (n i : Nat) (m : Option α) (h : i < n) :
    present ((List.replicate n (none : Option α)).set i m) = m.toList := by
  induction n generalizing i with
  | zero => omega
  | succ n ih =>
    rw [List.replicate_succ]
    cases i with
    | zero =>
      rw [List.set_cons_zero]
      cases m with
      | none => rw [present_none, present_replicate_none]; rfl
      | some v => rw [present_some, present_replicate_none]; rfl
    | succ i =>
      rw [List.set_cons_succ, present_none]
      exact ih i (by omega)

theorem present_singleResult (n : Nat) (s : Single) :
    present (singleResult n s).results = if s.idx < n then s.msg.toList else [] := by
  unfold singleResult
  simp only
  split
  · rename_i h; exact present_set_replicate n s.idx s.msg h
  · exact present_replicate_none n

end ScVerif.C17

namespace ScVerif.C17

/-! ## nil results are skipped: the folds only see the present values -/

theorem onoffFold_present (rs : List (Option Nat)) (acc : Nat) :
    rs.foldl onoffFeed acc = (present rs).foldl onoffStep acc := by
  induction rs generalizing acc with
  | nil => rfl
  | cons r rs ih =>
    cases r with
    | none => exact ih acc
    | some v => exact ih (onoffStep acc v)

theorem present_map (g : α → β) (rs : List (Option α)) :
    present (rs.map (·.map g)) = (present rs).map g := by
  induction rs with
  | nil => rfl
  | cons r rs ih =>
    cases r with
    | none => exact ih
    | some v => simp only [List.map_cons, Option.map_some, present_some, ih]

theorem present_map_ite (p : Nat → Bool) (v : Nat → α) (l : List Nat) :
    present (l.map fun i => if p i then some (v i) else none) = (l.filter p).map v := by
  induction l with
  | nil => rfl
  | cons a l ih =>
    simp only [List.map_cons, List.filter_cons]
    cases hp : p a
    · simp only [Bool.false_eq_true, if_false, present_none]; exact ih
    · simp only [if_true, present_some, List.map_cons, ih]

theorem mean_singleton (x : Rat) : mean [x] = x := by
  unfold mean
  simp only [List.cons_ne_nil, if_false, List.sum_cons, List.sum_nil, List.length_cons, List.length_nil]
  show (x + 0) / (((0 + 1 : Nat)) : Rat) = x
  rw [natCast_succ_rat]
  have h : ((0 : Nat) : Rat) + 1 ≠ 0 := natCast_succ_ne_zero 0
  grind

theorem groupUnary_eq (reduce : List (Option Nat) → α) (m : Many) :
    (groupUnary reduce m).2 = m.err
    ∧ (groupUnary reduce m).1 = if m.err.isSome then none else some (reduce m.results) := by
  unfold groupUnary
  cases m.err <;> simp

end ScVerif.C17

namespace ScVerif.C17

/-! ## the subscription loop -/

/-- no two adjacent elements are equal -/
def NoStutter : List V → Prop
  | [] => True
  | [_] => True
  | a :: b :: rest => a ≠ b ∧ NoStutter (b :: rest)

theorem noStutter_snoc (l : List V) (x : V) (h : NoStutter l) (hx : ∀ y, l.getLast? = some y → y ≠ x) :
    NoStutter (l ++ [x]) := by
  induction l with
  | nil => trivial
  | cons a t ih =>
    cases t with
    | nil => exact ⟨hx a rfl, trivial⟩
    | cons b rest =>
      obtain ⟨hab, hrest⟩ := h
      refine ⟨hab, ?_⟩
      apply ih hrest
      intro y hy
      apply hx y
      simpa [List.getLast?_cons_cons] using hy

variable [DecidableEq V]

theorem pullFeed_slots (reduce : List (Option V) → Option V) (st : PullSt V) (ev : Nat × List V) :
    (pullFeed reduce st ev).slots = slotStep st.slots ev := by
  unfold pullFeed slotStep
  cases ev.2.getLast? with
  | none => rfl
  | some v =>
    simp only
    split <;> rfl

theorem pullFold_slots (reduce : List (Option V) → Option V) (evs : List (Nat × List V)) (st : PullSt V) :
    (evs.foldl (pullFeed reduce) st).slots = evs.foldl slotStep st.slots := by
  induction evs generalizing st with
  | nil => rfl
  | cons ev evs ih => rw [List.foldl_cons, List.foldl_cons, ih, pullFeed_slots]

/-- what every iteration keeps: the last forwarded value is `lastChange` (nothing forwarded: the empty
change), and no value is forwarded twice in a row -/
structure PullInv (st : PullSt V) : Prop where
  lastSent : st.sent.getLast?.getD none = st.last
  noStutter : NoStutter st.sent
  headSome : ∀ x, st.sent.head? = some x → x ≠ none

theorem pullInv_feed (reduce : List (Option V) → Option V) (st : PullSt V) (ev : Nat × List V)
    (h : PullInv st) : PullInv (pullFeed reduce st ev) := by
  unfold pullFeed
  cases ev.2.getLast? with
  | none => exact h
  | some v =>
    simp only
    split
    · exact ⟨h.lastSent, h.noStutter, h.headSome⟩
    · rename_i hne
      refine ⟨by simp, ?_, ?_⟩
      · apply noStutter_snoc _ _ h.noStutter
        intro y hy
        have : y = st.last := by have := h.lastSent; rw [hy] at this; exact this
        rw [this]; exact hne
      · intro x hx
        cases hs : st.sent with
        | nil =>
          rw [hs] at hx
          simp only [List.nil_append, List.head?_cons, Option.some.injEq] at hx
          have hl : st.last = none := by have := h.lastSent; rw [hs] at this; exact this.symm
          rw [← hx]; intro h0; exact hne (by rw [hl, h0])
        | cons a t =>
          rw [hs] at hx
          simp only [List.cons_append, List.head?_cons, Option.some.injEq] at hx
          exact h.headSome x (by rw [hs, ← hx]; rfl)

theorem pullInv_fold (reduce : List (Option V) → Option V) (evs : List (Nat × List V)) (st : PullSt V)
    (h : PullInv st) : PullInv (evs.foldl (pullFeed reduce) st) := by
  induction evs generalizing st with
  | nil => exact h
  | cons ev evs ih => exact ih _ (pullInv_feed reduce st ev h)

/-- once a non-empty message has been handled, `lastChange` is the reduction of the slots - and stays so -/
theorem pullFeed_current (reduce : List (Option V) → Option V) (st : PullSt V) (ev : Nat × List V)
    (h : st.last = reduce st.slots ∨ ev.2 ≠ []) :
    (pullFeed reduce st ev).last = reduce (pullFeed reduce st ev).slots := by
  unfold pullFeed
  cases hg : ev.2.getLast? with
  | none =>
    rcases h with h | h
    · exact h
    · exact absurd (List.getLast?_eq_none_iff.mp hg) h
  | some v =>
    simp only
    split
    · rename_i heq; exact heq
    · rfl

theorem pullFold_current (reduce : List (Option V) → Option V) (evs : List (Nat × List V)) (st : PullSt V)
    (h : st.last = reduce st.slots) :
    (evs.foldl (pullFeed reduce) st).last = reduce (evs.foldl (pullFeed reduce) st).slots := by
  induction evs generalizing st with
  | nil => exact h
  | cons ev evs ih => exact ih _ (pullFeed_current reduce st ev (Or.inl h))

theorem pullFeed_empty (reduce : List (Option V) → Option V) (st : PullSt V) (ev : Nat × List V)
    (h : ev.2 = []) : pullFeed reduce st ev = st := by
  unfold pullFeed
  rw [h]; rfl

theorem pullRun_current (reduce : List (Option V) → Option V) (n : Nat) (evs : List (Nat × List V))
    (h : ∃ ev ∈ evs, ev.2 ≠ []) :
    (pullRun reduce n evs).last = reduce (pullRun reduce n evs).slots := by
  unfold pullRun
  generalize pullInit n = st
  induction evs generalizing st with
  | nil => obtain ⟨ev, hev, _⟩ := h; cases hev
  | cons ev evs ih =>
    rw [List.foldl_cons]
    by_cases he : ev.2 = []
    · rw [pullFeed_empty reduce st ev he]
      apply ih
      obtain ⟨ev', hev', hne⟩ := h
      rcases List.mem_cons.mp hev' with rfl | hin
      · exact absurd he hne
      · exact ⟨ev', hin, hne⟩
    · exact pullFold_current reduce evs _ (pullFeed_current reduce st ev (Or.inr he))


end ScVerif.C17

namespace ScVerif.C17

/-! ## the loop when a Send fails -/

section
variable [DecidableEq V]

theorem pullFeed_sent (reduce : List (Option V) → Option V) (st : PullSt V) (ev : Nat × List V) :
    (pullFeed reduce st ev).sent = st.sent ∨ ∃ x, (pullFeed reduce st ev).sent = st.sent ++ [x] := by
  unfold pullFeed
  cases ev.2.getLast? with
  | none => exact Or.inl rfl
  | some v =>
    simp only
    split
    · exact Or.inl rfl
    · exact Or.inr ⟨_, rfl⟩

theorem pullFold_sent_prefix (reduce : List (Option V) → Option V) (evs : List (Nat × List V)) (st : PullSt V) :
    ∃ extra, (evs.foldl (pullFeed reduce) st).sent = st.sent ++ extra := by
  induction evs generalizing st with
  | nil => exact ⟨[], by simp⟩
  | cons ev evs ih =>
    obtain ⟨extra, he⟩ := ih (pullFeed reduce st ev)
    rw [List.foldl_cons, he]
    rcases pullFeed_sent reduce st ev with h | ⟨x, h⟩
    · exact ⟨extra, by rw [h]⟩
    · exact ⟨x :: extra, by rw [h]; simp⟩

theorem pullFoldFail_ended (reduce : List (Option V) → Option V) (failAt : Nat) (evs : List (Nat × List V))
    (st : PullSt V) (k i : Nat) :
    evs.foldl (pullFeedFail reduce failAt) (st, some k, i) = (st, some k, i) := by
  induction evs with
  | nil => rfl
  | cons ev evs ih => exact ih

theorem pullFoldFail_sent (reduce : List (Option V) → Option V) (failAt : Nat) (hk : failAt ≠ 0)
    (evs : List (Nat × List V)) (st : PullSt V) (i : Nat) (hlt : st.sent.length < failAt) :
    (evs.foldl (pullFeedFail reduce failAt) (st, none, i)).1.sent
        = ((evs.foldl (pullFeed reduce) st).sent).take failAt
    ∧ ((evs.foldl (pullFeedFail reduce failAt) (st, none, i)).2.1.isSome
        ↔ failAt ≤ (evs.foldl (pullFeed reduce) st).sent.length) := by
  induction evs generalizing st i with
  | nil =>
    refine ⟨?_, ?_⟩
    · show st.sent = st.sent.take failAt
      rw [List.take_of_length_le (by omega)]
    · show (none : Option Nat).isSome ↔ failAt ≤ st.sent.length
      simp; omega
  | cons ev evs ih =>
    rw [List.foldl_cons, List.foldl_cons]
    have hlen : (pullFeed reduce st ev).sent.length = st.sent.length
        ∨ (pullFeed reduce st ev).sent.length = st.sent.length + 1 := by
      rcases pullFeed_sent reduce st ev with h | ⟨x, h⟩
      · exact Or.inl (by rw [h])
      · exact Or.inr (by rw [h]; simp)
    by_cases hend : (pullFeed reduce st ev).sent.length = failAt
    · have hstep : pullFeedFail reduce failAt (st, none, i) ev = (pullFeed reduce st ev, some (i + 1), i + 1) := by
        simp only [pullFeedFail]
        rw [if_pos ⟨hk, hlt, hend⟩]
      rw [hstep, pullFoldFail_ended]
      obtain ⟨extra, he⟩ := pullFold_sent_prefix reduce evs (pullFeed reduce st ev)
      refine ⟨?_, ?_⟩
      · show (pullFeed reduce st ev).sent = _
        rw [he, ← hend, List.take_left']
        rfl
      · show (some (i + 1) : Option Nat).isSome ↔ _
        rw [he]; simp; omega
    · have hstep : pullFeedFail reduce failAt (st, none, i) ev = (pullFeed reduce st ev, none, i + 1) := by
        simp only [pullFeedFail]
        rw [if_neg (fun h => hend h.2.2)]
      rw [hstep]
      exact ih _ _ (by omega)

end

end ScVerif.C17
