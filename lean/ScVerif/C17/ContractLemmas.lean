import ScVerif.C17.ExecParams
import ScVerif.C17.PropsQuiescence
/-!
# C17 — lemmas for `PropsContract.lean`: what a collector has done after `k` failures, and what a point of
quiescence of the thread model looks like when no member ever succeeds
-/
namespace ScVerif.C17

/-- a member that never succeeds (a Pull member: its stream only ever ends with an error) -/
def Beh.neverSucceeds (b : Beh) : Prop :=
  b.normal.err.isSome = true ∧ ∀ r, b.onCancel = some r → r.err.isSome = true

/-- The contract the Pull-pipeline model assumes of `Execute`, stated on the thread-level model of
`executeEach` + the collector `C`: for every group of `n` members none of which succeeds and EVERY schedule, at
every point of quiescence, with `k` member goroutines ended: the call has returned exactly if `p.2 ≤ k`, and the
members' context is cancelled exactly if the caller cancelled, or `p.1 < k`, or the call has returned. -/
def MeetsContract (C : Consumer σ ρ) (n : Nat) (p : Nat × Nat) : Prop :=
  ∀ (behs : List Beh), behs.length = n → (∀ b ∈ behs, b.neverSucceeds) → ∀ (sched : List Tid),
    let c := exec C (Config.spawn C behs) sched
    c.quiescent C = true →
      c.consReturned = decide (p.2 ≤ c.members.countP MPc.isDone)
      ∧ c.cancelled = (c.envCancelled || decide (p.1 < c.members.countP MPc.isDone)
                        || decide (p.2 ≤ c.members.countP MPc.isDone))

theorem failuresT_all_fail (rs : List Tagged) (h : ∀ r ∈ rs, r.2.err.isSome = true) : failuresT rs = rs.length := by
  unfold failuresT
  exact List.countP_eq_length.mpr h

theorem upTo_after_not_returned (n : Nat) (allowed : Int) (rs : List Tagged) :
    ((upTo n allowed).after rs).isReturned = false := by
  rw [upTo_after]; rfl

theorem race_after (rs : List Tagged) : (race.after rs).isReturned = !rs.isEmpty := by
  cases rs with
  | nil => rfl
  | cons r rs =>
    have h : race.after [r] = .returned ⟨r.2.msg, r.1, r.2.err.map .member⟩ := rfl
    have := after_append race [r] rs
    simp only [List.singleton_append] at this
    rw [this, h, foldl_returned]
    rfl

theorem countP_eq_of_start_or_done (ms : List MPc)
    (h : ∀ m ∈ ms, m = .start ∨ m.isDone = true) : ms.countP MPc.hasSent = ms.countP MPc.isDone := by
  apply List.countP_congr
  intro m hm
  rcases h m hm with rfl | hd
  · simp [MPc.hasSent, MPc.isDone]
  · cases m <;> simp_all [MPc.hasSent, MPc.isDone]

/-- the shape of a point of quiescence of any schedule when no member succeeds: the collector has taken `k`
failures, `k` = the member goroutines that have ended -/
theorem quiescent_view (C : Consumer σ ρ) (behs : List Beh) (hb : ∀ b ∈ behs, b.neverSucceeds) (sched : List Tid)
    (c : Config σ ρ) (hc : c = exec C (Config.spawn C behs) sched) (hq : c.quiescent C = true) :
      ∃ rs : List Tagged, rs.length = c.members.countP MPc.isDone ∧ (∀ r ∈ rs, r.2.err.isSome = true)
        ∧ c.members.countP MPc.isDone ≤ behs.length
        ∧ c.consReturned = ((C.after rs).isReturned || decide (c.members.countP MPc.isDone = behs.length))
        ∧ c.cancelled = (c.envCancelled || c.consReturned || (C.after rs).cancelled) := by
  have hinv : Inv C c := by
    rw [hc]; exact inv_exec C sched _ (inv_init C behs behs.length (Nat.le_refl _))
  have hlen : c.members.length = behs.length := by
    rw [hc, (exec_static C sched _).2.2]; simp [Config.spawn, Config.init]
  have hdet := C17_quiescence_determined C behs sched
  have hlog := (C17_channel_log C behs sched).2.1
  dsimp only at hdet hlog
  rw [← hc] at hdet hlog
  obtain ⟨hmem, _, _, hret, _, _, hcan⟩ := hdet hq
  refine ⟨c.hist, ?_, ?_, ?_, ?_, hcan⟩
  · rw [hinv.histLen]
    apply countP_eq_of_start_or_done
    intro m hm
    obtain ⟨i, hi⟩ := List.mem_iff_getElem?.mp hm
    exact hmem i m hi
  · intro r hr
    obtain ⟨b, hbi, hrb⟩ := hlog r.1 r.2 hr
    have hbm : b ∈ behs := List.mem_iff_getElem?.mpr ⟨r.1, hbi⟩
    rcases hrb with h | h
    · rw [h]; exact (hb b hbm).1
    · exact (hb b hbm).2 _ h
  · rw [← hlen]; exact List.countP_le_length
  · rw [hret]
    congr 1
    rw [← hlen]
    cases hall : c.members.all MPc.isDone with
    | true =>
      have : c.members.countP MPc.isDone = c.members.length := List.countP_eq_length.mpr (by simpa using hall)
      simp [this]
    | false =>
      have : c.members.countP MPc.isDone ≠ c.members.length := by
        intro he
        have := List.countP_eq_length.mp he
        have h2 : c.members.all MPc.isDone = true := by simpa using this
        rw [hall] at h2; cases h2
      simp [this]

theorem meets_upTo (n : Nat) (allowed : Int) (a : Nat)
    (ha : ∀ k, 0 < k → k ≤ n → (((k : Nat) : Int) > allowed ↔ a < k ∨ n ≤ k)) :
    MeetsContract (upTo n allowed) n (a, n) := by
  intro behs hn hb sched
  dsimp only
  generalize hc : exec (upTo n allowed) (Config.spawn (upTo n allowed) behs) sched = c
  intro hq
  obtain ⟨rs, hlen, hfail, hle, hret, hcan⟩ := quiescent_view (upTo n allowed) behs hb sched c hc.symm hq
  rw [hn] at hle hret
  have hk : c.members.countP MPc.isDone = rs.length := hlen.symm
  rw [upTo_after_not_returned] at hret
  have hret' : c.consReturned = decide (n ≤ c.members.countP MPc.isDone) := by
    rw [hret]; simp; omega
  refine ⟨hret', ?_⟩
  rw [hcan, C17_upTo_cancel, failuresT_all_fail rs hfail, hret', hk]
  rw [hk] at hle
  by_cases h0 : 0 < rs.length
  · have := ha rs.length h0 hle
    by_cases hx : ((rs.length : Nat) : Int) > allowed
    · rcases this.mp hx with h | h <;> simp [h0, hx, h]
    · have h1 : ¬ a < rs.length := fun h => hx (this.mpr (Or.inl h))
      have h2 : ¬ n ≤ rs.length := fun h => hx (this.mpr (Or.inr h))
      simp [hx, h1, h2]
  · have h00 : rs.length = 0 := by omega
    simp [h00]

theorem meets_fast (n : Nat) : MeetsContract fast n (n, n) := by
  intro behs hn hb sched
  dsimp only
  generalize hc : exec fast (Config.spawn fast behs) sched = c
  intro hq
  obtain ⟨rs, hlen, hfail, hle, hret, hcan⟩ := quiescent_view fast behs hb sched c hc.symm hq
  rw [hn] at hle hret
  rw [fast_after_fail rs hfail] at hret hcan
  have hret' : c.consReturned = decide (n ≤ c.members.countP MPc.isDone) := by
    rw [hret]; simp [Run.isReturned]; omega
  refine ⟨hret', ?_⟩
  rw [hcan, hret']
  have : ¬ n < c.members.countP MPc.isDone := by omega
  simp [Run.cancelled, this]

theorem meets_race (n : Nat) : MeetsContract race n (n, min 1 n) := by
  intro behs hn hb sched
  dsimp only
  generalize hc : exec race (Config.spawn race behs) sched = c
  intro hq
  obtain ⟨rs, hlen, hfail, hle, hret, hcan⟩ := quiescent_view race behs hb sched c hc.symm hq
  rw [hn] at hle hret
  have hk : c.members.countP MPc.isDone = rs.length := hlen.symm
  rw [race_after] at hret
  have hret' : c.consReturned = decide (min 1 n ≤ c.members.countP MPc.isDone) := by
    rw [hret, hk]
    rw [hk] at hle
    cases rs with
    | nil => simp; omega
    | cons r rs => simp; omega
  refine ⟨hret', ?_⟩
  rw [hcan, hret']
  have h1 : ¬ n < c.members.countP MPc.isDone := by omega
  have h2 : (race.after rs).cancelled = true → min 1 n ≤ c.members.countP MPc.isDone := by
    intro h
    rw [hk]
    cases rs with
    | nil => simp [Consumer.after, Consumer.start, Run.cancelled] at h
    | cons r rs => simp; omega
  cases hc : (race.after rs).cancelled with
  | false => simp [h1]
  | true => simp [h1, h2 hc]

end ScVerif.C17
