import ScVerif.C17.Model
/-! Lemmas about the consumer loops (no threads). -/
namespace ScVerif.C17

/-! ## Vocabulary of the specification -/

/-- number of failing members in an outcome vector -/
def failures (outs : List Resp) : Nat := outs.countP (·.err.isSome)

/-- number of failures among received responses -/
def failuresT (rs : List Tagged) : Nat := rs.countP (·.2.err.isSome)

/-- the errors in the order they were received -/
def errorsOf (rs : List Tagged) : List Nat := rs.filterMap (·.2.err)

/-- the first error received -/
def firstFailure (rs : List Tagged) : Option Nat := (errorsOf rs).head?

/-! ## generic -/

theorem after_nil (C : Consumer σ ρ) : C.after [] = C.start := rfl

theorem after_append (C : Consumer σ ρ) (rs ss : List Tagged) :
    C.after (rs ++ ss) = ss.foldl (feedRun C) (C.after rs) := by
  simp [Consumer.after, List.foldl_append]

theorem after_snoc (C : Consumer σ ρ) (rs : List Tagged) (r : Tagged) :
    C.after (rs ++ [r]) = feedRun C (C.after rs) r := by
  simp [after_append]

theorem foldl_returned (C : Consumer σ ρ) (x : ρ) (ss : List Tagged) :
    ss.foldl (feedRun C) (.returned x) = .returned x := by
  induction ss with
  | nil => rfl
  | cons a t ih => simpa [List.foldl, feedRun] using ih

/-- Once the consumer has returned, later responses do not change its result. -/
theorem result_stable (C : Consumer σ ρ) (rs ss : List Tagged) (x : ρ)
    (h : C.after rs = .returned x) : C.result (rs ++ ss) = x := by
  simp [Consumer.result, after_append, h, foldl_returned, Consumer.finish]

/-! ## ExecuteUpTo -/

/-- has a failure pushed the count above the budget, counting from `cnt` earlier failures -/
def exceededFrom (allowed : Int) : Nat → List Tagged → Bool
  | _, [] => false
  | cnt, r :: rs =>
    match r.2.err with
    | none => exceededFrom allowed cnt rs
    | some _ => decide (((cnt + 1 : Nat) : Int) > allowed) || exceededFrom allowed (cnt + 1) rs

def placeAll (init : List (Option Nat)) (rs : List Tagged) : List (Option Nat) :=
  rs.foldl (fun res r => res.set r.1 r.2.msg) init

theorem upTo_feed_none (n : Nat) (allowed : Int) (s : UpToSt) (c : Bool) (i : Nat) (m : Option Nat) :
    feedRun (upTo n allowed) (.running s c) (i, ⟨m, none⟩) =
      .running { s with results := s.results.set i m } (c || false) := rfl

theorem upTo_feed_some (n : Nat) (allowed : Int) (s : UpToSt) (c : Bool) (i : Nat) (m : Option Nat) (e : Nat) :
    feedRun (upTo n allowed) (.running s c) (i, ⟨m, some e⟩) =
      .running ⟨s.errCount + 1, (match s.firstErr with | none => some e | some x => some x), s.results.set i m⟩
        (c || decide (((s.errCount + 1 : Nat) : Int) > allowed)) := rfl

theorem upTo_fold (n : Nat) (allowed : Int) (rs : List Tagged) (s : UpToSt) (c : Bool) :
    rs.foldl (feedRun (upTo n allowed)) (.running s c) =
      .running ⟨s.errCount + failuresT rs,
                (match s.firstErr with | some x => some x | none => firstFailure rs),
                placeAll s.results rs⟩ (c || exceededFrom allowed s.errCount rs) := by
  induction rs generalizing s c with
  | nil => cases s with | mk ec fe res => cases fe <;> simp [failuresT, firstFailure, errorsOf, placeAll, exceededFrom]
  | cons r rs ih =>
    obtain ⟨i, m, e⟩ := r
    cases e with
    | none =>
      rw [List.foldl_cons, upTo_feed_none, ih]
      simp [failuresT, firstFailure, errorsOf, placeAll, exceededFrom]
    | some e =>
      rw [List.foldl_cons, upTo_feed_some, ih]
      cases hfe : s.firstErr <;>
        simp [failuresT, firstFailure, errorsOf, placeAll, exceededFrom, Bool.or_assoc] <;> omega

theorem upTo_after (n : Nat) (allowed : Int) (rs : List Tagged) :
    (upTo n allowed).after rs =
      .running ⟨failuresT rs, firstFailure rs, placeAll (List.replicate n none) rs⟩
        (exceededFrom allowed 0 rs) := by
  have := upTo_fold n allowed rs ⟨0, none, List.replicate n none⟩ false
  simpa [Consumer.after, Consumer.start, upTo] using this

theorem exceededFrom_nonneg (allowed : Int) (rs : List Tagged) (cnt : Nat)
    (hc : (cnt : Int) ≤ allowed) :
    exceededFrom allowed cnt rs = decide (((cnt + failuresT rs : Nat) : Int) > allowed) := by
  induction rs generalizing cnt with
  | nil => simp [exceededFrom, failuresT]; omega
  | cons r rs ih =>
    obtain ⟨i, m, e⟩ := r
    cases e with
    | none => simp [exceededFrom, failuresT, ih cnt hc]
    | some e =>
      simp only [exceededFrom, failuresT, List.countP_cons, Option.isSome_some, if_true]
      by_cases h1 : ((cnt + 1 : Nat) : Int) ≤ allowed
      · have e1 : decide (((cnt + 1 : Nat) : Int) > allowed) = false := decide_eq_false (by omega)
        rw [ih (cnt + 1) h1, e1, Bool.false_or]
        apply decide_eq_decide.mpr
        simp only [failuresT]
        constructor <;> intro hh <;> omega
      · have h2 : ((cnt + 1 : Nat) : Int) > allowed := by omega
        have h3 : ((cnt + (List.countP (fun x : Tagged => x.2.err.isSome) rs + 1) : Nat) : Int) > allowed := by omega
        rw [decide_eq_true h2, decide_eq_true h3, Bool.true_or]

/-- for EVERY budget (negative ones included): `cancelFunc()` has been called in the loop exactly if a
failure has been seen and the failures exceed the budget -/
theorem exceededFrom_eq (allowed : Int) (rs : List Tagged) (cnt : Nat) :
    exceededFrom allowed cnt rs
      = decide (0 < failuresT rs ∧ ((cnt + failuresT rs : Nat) : Int) > allowed) := by
  induction rs generalizing cnt with
  | nil => simp [exceededFrom, failuresT]
  | cons r rs ih =>
    obtain ⟨i, m, e⟩ := r
    cases e with
    | none =>
      have : failuresT ((i, ⟨m, none⟩) :: rs) = failuresT rs := by simp [failuresT]
      rw [this]
      simpa [exceededFrom] using ih cnt
    | some e =>
      have hF : failuresT ((i, ⟨m, some e⟩) :: rs) = failuresT rs + 1 := by simp [failuresT]
      rw [hF]
      simp only [exceededFrom]
      rw [ih (cnt + 1)]
      by_cases h1 : ((cnt + 1 : Nat) : Int) > allowed
      · have h3 : 0 < failuresT rs + 1 ∧ ((cnt + (failuresT rs + 1) : Nat) : Int) > allowed := ⟨by omega, by omega⟩
        rw [decide_eq_true h1, decide_eq_true h3, Bool.true_or]
      · rw [decide_eq_false h1, Bool.false_or]
        apply decide_eq_decide.mpr
        constructor
        · rintro ⟨h2, h3⟩; exact ⟨by omega, by omega⟩
        · rintro ⟨_, h3⟩; exact ⟨by omega, by omega⟩

/-- placement: if every received response of member `i` carries message `f i`, slot `j` ends up with
`f j` exactly when `j` was received (and exists). -/
theorem placeAll_getElem? (f : Nat → Option Nat) (rs : List Tagged) (init : List (Option Nat))
    (h : ∀ r ∈ rs, r.2.msg = f r.1) (j : Nat) :
    (placeAll init rs)[j]? =
      if j ∈ rs.map (·.1) then (if j < init.length then some (f j) else none) else init[j]? := by
  induction rs generalizing init with
  | nil => simp [placeAll]
  | cons r rs ih =>
    have hr := h r (by simp)
    have ih' := ih (init.set r.1 r.2.msg) (fun x hx => h x (by simp [hx]))
    simp only [placeAll, List.foldl_cons] at ih' ⊢
    rw [ih']
    simp only [List.map_cons, List.mem_cons, List.length_set]
    by_cases hj : j ∈ rs.map (·.1)
    · simp [hj]
    · simp only [hj, if_false, or_false]
      by_cases hjr : j = r.1
      · subst hjr
        simp [List.getElem?_set, hr]
      · have : ¬ r.1 = j := fun h => hjr h.symm
        simp [hjr, List.getElem?_set, this]

theorem placeAll_length (rs : List Tagged) (init : List (Option Nat)) :
    (placeAll init rs).length = init.length := by
  induction rs generalizing init with
  | nil => rfl
  | cons r rs ih => simp [placeAll] at ih ⊢; rw [ih]; simp

/-! ## arrivals of a fixed outcome vector under a completion order -/

theorem arrivals_map_fst (outs : List Resp) (order : List Nat) :
    (arrivals outs order).map (·.1) = order := by
  simp [arrivals, Function.comp_def]

theorem outs_eq_map_range (outs : List Resp) :
    outs = (List.range outs.length).map (fun i => outs.getD i default) := by
  apply List.ext_getElem
  · simp
  · intro i h1 h2
    simp [List.getD_eq_getElem?_getD, List.getElem?_eq_getElem h1]

theorem failuresT_arrivals (outs : List Resp) (order : List Nat)
    (hp : order.Perm (List.range outs.length)) :
    failuresT (arrivals outs order) = failures outs := by
  have h1 : (arrivals outs order).Perm (arrivals outs (List.range outs.length)) := hp.map _
  unfold failuresT failures
  rw [h1.countP_eq]
  conv => rhs; rw [outs_eq_map_range outs]
  simp [arrivals, List.countP_map, Function.comp_def]

theorem placeAll_arrivals (outs : List Resp) (order : List Nat)
    (hp : order.Perm (List.range outs.length)) :
    placeAll (List.replicate outs.length none) (arrivals outs order) = outs.map (·.msg) := by
  apply List.ext_getElem?
  intro j
  rw [placeAll_getElem? (fun i => (outs.getD i default).msg)]
  · rw [arrivals_map_fst]
    have hm : j ∈ order ↔ j < outs.length := by rw [hp.mem_iff]; exact List.mem_range
    by_cases hj : j < outs.length
    · simp [hm.mpr hj, hj, List.getD_eq_getElem?_getD, List.getElem?_eq_getElem hj]
    · have : ¬ j ∈ order := fun h => hj (hm.mp h)
      simp [this]
      have h1 : outs.length ≤ j := by omega
      simp [List.getElem?_eq_none h1]
      omega
  · intro r hr
    simp only [arrivals, List.mem_map] at hr
    obtain ⟨i, _, rfl⟩ := hr
    rfl

/-! ## ExecuteFast / ExecuteRace -/

theorem fast_feed_none (s : Option Tagged) (c : Bool) (i : Nat) (m : Option Nat) :
    feedRun fast (.running s c) (i, ⟨m, none⟩) = .returned ⟨m, i, none⟩ := rfl

theorem fast_feed_some (s : Option Tagged) (c : Bool) (i : Nat) (m : Option Nat) (e : Nat) :
    feedRun fast (.running s c) (i, ⟨m, some e⟩) =
      .running (match s with | none => some (i, ⟨m, some e⟩) | some x => some x) (c || false) := rfl

theorem fast_fold_fail (rs : List Tagged) (h : ∀ r ∈ rs, r.2.err.isSome) (s : Option Tagged) (c : Bool) :
    rs.foldl (feedRun fast) (.running s c) =
      .running (match s with | some x => some x | none => rs.head?) c := by
  induction rs generalizing s c with
  | nil => cases s <;> rfl
  | cons r rs ih =>
    have hr := h r (by simp)
    obtain ⟨i, m, e⟩ := r
    cases e with
    | none => simp at hr
    | some e =>
      rw [List.foldl_cons, fast_feed_some, ih (fun x hx => h x (by simp [hx]))]
      cases s <;> simp

theorem fast_after_fail (rs : List Tagged) (h : ∀ r ∈ rs, r.2.err.isSome) :
    fast.after rs = .running rs.head? false := by
  have := fast_fold_fail rs h none false
  simpa [Consumer.after, Consumer.start, fast] using this

theorem fast_after_success (pre post : List Tagged) (r : Tagged)
    (hpre : ∀ x ∈ pre, x.2.err.isSome) (hr : r.2.err = none) :
    fast.after (pre ++ r :: post) = .returned ⟨r.2.msg, r.1, none⟩ := by
  obtain ⟨i, m, e⟩ := r
  simp only at hr
  subst hr
  rw [after_append, fast_after_fail pre hpre, List.foldl_cons, fast_feed_none]
  exact foldl_returned _ _ _

/-! ## ExecuteOne -/

theorem oneLoop_fail (outs : List Resp) (h : ∀ r ∈ outs, r.err.isSome) (i : Nat) (fe : Option Nat) :
    oneLoop i fe outs =
      (⟨none, 0, (if i = 0 then (outs.head?.bind (·.err)) <|> fe else fe).map .member⟩, i + outs.length) := by
  induction outs generalizing i fe with
  | nil => cases i <;> simp [oneLoop]
  | cons r rs ih =>
    have hr := h r (by simp)
    cases he : r.err with
    | none => simp [he] at hr
    | some e =>
      simp only [oneLoop, he]
      rw [ih (fun x hx => h x (by simp [hx]))]
      cases i with
      | zero => simp [he]; omega
      | succ k => simp; omega

theorem oneLoop_success (pre post : List Resp) (r : Resp) (hpre : ∀ x ∈ pre, x.err.isSome)
    (hr : r.err = none) (i : Nat) (fe : Option Nat) :
    oneLoop i fe (pre ++ r :: post) = (⟨r.msg, i + pre.length, none⟩, i + pre.length + 1) := by
  induction pre generalizing i fe with
  | nil => simp [oneLoop, hr]
  | cons a pre ih =>
    have ha := hpre a (by simp)
    cases he : a.err with
    | none => simp [he] at ha
    | some e =>
      simp only [List.cons_append, oneLoop, he]
      rw [ih (fun x hx => hpre x (by simp [hx]))]
      simp; omega

/-! ## small facts used by the property theorems -/

theorem firstFailure_isSome (rs : List Tagged) : (firstFailure rs).isSome ↔ 0 < failuresT rs := by
  induction rs with
  | nil => simp [firstFailure, errorsOf, failuresT]
  | cons r rs ih =>
    obtain ⟨i, m, e⟩ := r
    cases e with
    | none => simpa [firstFailure, errorsOf, failuresT] using ih
    | some e => simp [firstFailure, errorsOf, failuresT]

theorem split_first_ok (rs : List Tagged) :
    (∀ r ∈ rs, r.2.err.isSome) ∨
      ∃ pre r post, rs = pre ++ r :: post ∧ (∀ x ∈ pre, x.2.err.isSome) ∧ r.2.err = none := by
  induction rs with
  | nil => left; simp
  | cons a rs ih =>
    cases ha : a.2.err with
    | none => right; exact ⟨[], a, rs, rfl, by simp, ha⟩
    | some e =>
      rcases ih with h | ⟨pre, r, post, h1, h2, h3⟩
      · left; intro r hr
        rcases List.mem_cons.mp hr with rfl | h'
        · simp [ha]
        · exact h r h'
      · right
        refine ⟨a :: pre, r, post, by simp [h1], ?_, h3⟩
        intro x hx
        rcases List.mem_cons.mp hx with rfl | h'
        · simp [ha]
        · exact h2 x h'

theorem split_first_ok' (outs : List Resp) :
    (∀ r ∈ outs, r.err.isSome) ∨
      ∃ pre r post, outs = pre ++ r :: post ∧ (∀ x ∈ pre, x.err.isSome) ∧ r.err = none := by
  induction outs with
  | nil => left; simp
  | cons a rs ih =>
    cases ha : a.err with
    | none => right; exact ⟨[], a, rs, rfl, by simp, ha⟩
    | some e =>
      rcases ih with h | ⟨pre, r, post, h1, h2, h3⟩
      · left; intro r hr
        rcases List.mem_cons.mp hr with rfl | h'
        · simp [ha]
        · exact h r h'
      · right
        refine ⟨a :: pre, r, post, by simp [h1], ?_, h3⟩
        intro x hx
        rcases List.mem_cons.mp hx with rfl | h'
        · simp [ha]
        · exact h2 x h'

/-- a non-nil slot of `singleResult` is the reported index and carries the reported message -/
theorem singleResult_slot (n : Nat) (s : Single) (j m : Nat)
    (h : (singleResult n s).results[j]? = some (some m)) : j = s.idx ∧ s.msg = some m ∧ j < n := by
  unfold singleResult at h
  simp only at h
  split at h
  · rename_i hlt
    rw [List.getElem?_set] at h
    split at h
    · rename_i heq
      split at h
      · simp at h; exact ⟨heq.symm, h, by omega⟩
      · simp at h
    · rw [List.getElem?_replicate] at h
      split at h <;> simp at h
  · rw [List.getElem?_replicate] at h
    split at h <;> simp at h

theorem singleResult_length (n : Nat) (s : Single) : (singleResult n s).results.length = n := by
  unfold singleResult
  simp only
  split <;> simp

end ScVerif.C17
