import ScVerif.C17.AdapterLemmas
import ScVerif.C17.Props
/-!
# C17 — the Group adapters (`pkg/trait/onoffpb/group.go`, `pkg/trait/lightpb/group.go`): property theorems

What each RPC of a trait Group does with `group.Execute`'s results (model: `Adapters.lean`), for ALL
member counts, results (nil or not, in any slot), outcome vectors and completion orders.

Spec vocabulary (`AdapterLemmas.lean`): `present rs` = the non-nil entries in order; `mean vs` = the
arithmetic mean (0 for no values); `onoffSpec vs` = ON if any is ON, else OFF if any is OFF, else
UNSPECIFIED (states 0 = UNSPECIFIED, 1 = ON, 2 = OFF).
-/
namespace ScVerif.C17

/-- **C17_onoff_reduce.** The onoff reducers, for every result slice (nil entries anywhere, any length,
states within the enum): `reduce` yields ON iff some answering member is ON, otherwise OFF iff some is
OFF, otherwise UNSPECIFIED - whatever the order and the slots of the answers; `reduceOnOffChanges`
yields nothing until some member has been heard from, then the same reduction. -/
theorem C17_onoff_reduce (rs : List (Option Nat)) (h : ∀ v, v ∈ present rs → v ≤ 2) :
    onoffReduce rs = onoffSpec (present rs)
    ∧ onoffReduceChanges rs = (if present rs = [] then none else some (onoffSpec (present rs))) := by
  have h1 : onoffReduce rs = onoffSpec (present rs) := by
    unfold onoffReduce onoffSpec
    rw [onoffFold_spec rs 0 (by omega) h]
    simp
  exact ⟨h1, by rw [onoffReduceChanges_eq, h1]⟩

/-- **C17_light_reduce.** The light reducers (the code after the `fix:` commit), for every result
slice: `reduce` is the arithmetic mean of the answering members' levels (0 when none answered) - nil
results neither count nor shift the weights; `reduceBrightnessChanges` yields nothing until some
member has been heard from, then the mean of those heard from. -/
theorem C17_light_reduce (rs : List (Option Rat)) :
    lightReduce rs = mean (present rs)
    ∧ lightReduceChanges rs = (if present rs = [] then none else some (mean (present rs))) :=
  ⟨lightReduce_eq_mean rs, by rw [lightReduceChanges_eq, lightReduce_eq_mean]⟩

/-- The reducer before the fix (the member's slot index used as the number of members averaged so
far): the single answer 48 in slot 1 was reported as 24.  `C17_light_reduce` excludes this for the code
as it is now. -/
theorem C17_light_slot_reducer_was_wrong :
    lightReduceSlot [none, some 48] = 24 ∧ lightReduce [none, some 48] = 48 := by
  constructor
  · show lightStep 0 48 1 = 24
    unfold lightStep; grind
  · show lightStep 0 48 0 = 48
    exact lightStep_zero 48

/-- **C17_group_unary.** `GetX` / `UpdateX` of a Group under All / Most / Any, for every reducer,
member count, outcome vector and completion order: the RPC fails exactly when the strategy's contract
says so (All: some member fails; Most: more than half; Any: all of at least one), with `Execute`'s
error - the first failure in completion order - and no value; otherwise it answers with the reduction
of the members' messages, each in its own slot. -/
theorem C17_group_unary (reduce : List (Option Nat) → α) (outs : List Resp) (order : List Nat)
    (hp : order.Perm (List.range outs.length)) :
    let get := fun st => groupUnary reduce (execute st outs.length (arrivals outs order))
    ((get .all).2.isSome ↔ ∃ r ∈ outs, r.err.isSome)
    ∧ ((get .most).2.isSome ↔ 2 * failures outs > outs.length)
    ∧ ((get .any).2.isSome ↔ outs ≠ [] ∧ ∀ r ∈ outs, r.err.isSome)
    ∧ (get .all).2 = (firstFailure (arrivals outs order)).map Err.member
    ∧ ∀ st, st = .all ∨ st = .most ∨ st = .any →
        ((get st).2 = none → (get st).1 = some (reduce (outs.map (·.msg))))
        ∧ ((get st).2.isSome → (get st).1 = none) := by
  intro get
  have hall := C17_all outs order hp
  have hmost := C17_most outs order hp
  have hany := C17_any outs order hp
  refine ⟨?_, ?_, ?_, ?_, ?_⟩
  · show (groupUnary reduce _).2.isSome ↔ _
    rw [(groupUnary_eq reduce _).1]; exact hall.1
  · show (groupUnary reduce _).2.isSome ↔ _
    rw [(groupUnary_eq reduce _).1]; exact hmost.1
  · show (groupUnary reduce _).2.isSome ↔ _
    rw [(groupUnary_eq reduce _).1]; exact hany.1
  · show (groupUnary reduce _).2 = _
    rw [(groupUnary_eq reduce _).1]; exact hall.2.1
  · intro st hst
    have hres : (execute st outs.length (arrivals outs order)).results = outs.map (·.msg) := by
      rcases hst with rfl | rfl | rfl
      · exact hall.2.2
      · exact hmost.2
      · exact hany.2
    show ((groupUnary reduce _).2 = none → (groupUnary reduce _).1 = _)
      ∧ ((groupUnary reduce _).2.isSome → (groupUnary reduce _).1 = none)
    rw [(groupUnary_eq reduce _).1, (groupUnary_eq reduce _).2, hres]
    constructor
    · intro h; simp [h]
    · intro h; simp [h]

/-- the level / state a message number stands for; a nil message reduces like no message -/
def levelOfMsg : Option Nat → Rat
  | some k => levelOf k
  | none => 0

def onoffOfMsg : Option Nat → Nat
  | some k => onoffOf k
  | none => 0

/-- **C17_group_single_value.** `GetX` / `UpdateX` under One / Fast / Race: `Execute` reports the single
result at the winner's own index `i` (all other slots nil); the Group answers with exactly the
winner's value, whatever `i` is (this is what the `fix:` commit repaired for the light group: the
slot index no longer weighs in).  In particular for Fast over any arrivals whose first success is
`r`: the level of `r`'s message. -/
theorem C17_group_single_value :
    (∀ (n : Nat) (s : Single), s.idx < n → s.err = none →
        lightGet (singleResult n s) = (some (levelOfMsg s.msg), none)
        ∧ onoffGet (singleResult n s) = (some (onoffOfMsg s.msg), none))
    ∧ (∀ (n : Nat) (pre post : List Tagged) (r : Tagged), (∀ x ∈ pre, x.2.err.isSome) → r.2.err = none → r.1 < n →
        lightGet (execute .fast n (pre ++ r :: post)) = (some (levelOfMsg r.2.msg), none)
        ∧ onoffGet (execute .fast n (pre ++ r :: post)) = (some (onoffOfMsg r.2.msg), none)) := by
  have key : ∀ (n : Nat) (s : Single), s.idx < n → s.err = none →
      lightGet (singleResult n s) = (some (levelOfMsg s.msg), none)
      ∧ onoffGet (singleResult n s) = (some (onoffOfMsg s.msg), none) := by
    intro n s hi he
    have herr : (singleResult n s).err = none := he
    have hpres := present_singleResult n s
    rw [if_pos hi] at hpres
    constructor
    · unfold lightGet groupUnary
      rw [herr]
      simp only
      rw [lightReduce_eq_mean, present_map, hpres]
      cases hm : s.msg with
      | none => rfl
      | some k => simp only [Option.toList, List.map_cons, List.map_nil, mean_singleton]; rfl
    · unfold onoffGet groupUnary
      rw [herr]
      simp only
      unfold onoffReduce
      rw [onoffFold_present, present_map, hpres]
      cases hm : s.msg with
      | none => rfl
      | some k => simp [Option.toList, onoffStep, onoffOfMsg]
  refine ⟨key, ?_⟩
  intro n pre post r hpre hr hi
  have hf := (C17_fast.1 pre post r hpre hr).1
  have := key n ⟨r.2.msg, r.1, none⟩ hi rfl
  simp only [execute, hf]
  exact this

/-- **C17_group_pull_merge.** `PullX`: once the members in `started` have delivered their first
values `vals[i]`, the value the Group forwards is the reduction over exactly those members (in index
order): the mean of their levels / ON-wins of their states; nothing is forwarded before any member has
been heard from. -/
theorem C17_group_pull_merge (n : Nat) (vals started : List Nat) :
    let S := (List.range n).filter (fun i => started.contains i)
    lightPull n vals started = (if S = [] then none else some (mean (S.map fun i => levelOf (vals.getD i 0))))
    ∧ ((∀ i ∈ S, onoffOf (vals.getD i 0) ≤ 2) →
        onoffPull n vals started = (if S = [] then none else some (onoffSpec (S.map fun i => onoffOf (vals.getD i 0))))) := by
  intro S
  have hpres : ∀ {β : Type} (g : Nat → β), present ((memberChanges n vals started).map (·.map g))
      = S.map (fun i => g (vals.getD i 0)) := by
    intro β g
    rw [present_map]
    unfold memberChanges
    rw [present_map_ite (fun i => started.contains i) (fun i => vals.getD i 0)]
    simp [S, List.map_map, Function.comp_def]
  have hnil : ∀ {β : Type} (g : Nat → β), (S.map (fun i => g (vals.getD i 0)) = []) ↔ S = [] := by
    intro β g; simp
  constructor
  · unfold lightPull
    rw [(C17_light_reduce _).2, hpres]
    by_cases hS : S = []
    · simp [hS]
    · rw [if_neg (by rw [hnil]; exact hS), if_neg hS]
  · intro hle
    unfold onoffPull
    have hb : ∀ v, v ∈ present ((memberChanges n vals started).map (·.map onoffOf)) → v ≤ 2 := by
      intro v hv
      rw [hpres] at hv
      obtain ⟨i, hi, rfl⟩ := List.mem_map.mp hv
      exact hle i hi
    rw [(C17_onoff_reduce _ hb).2, hpres]
    by_cases hS : S = []
    · simp [hS]
    · rw [if_neg (by rw [hnil]; exact hS), if_neg hS]

/-- **C17_group_pull_loop.** The subscription loop of `PullX`, for every reducer, member count and
sequence of member messages (any member, any number of changes per message, in any order):
* no value is forwarded twice in a row, and the first value forwarded is not the empty change;
* `memberChanges` holds each member's latest change (the last change of its last non-empty message);
* once any non-empty message has been handled, the last value forwarded is the reduction of the
  members' latest changes (nothing forwarded yet: that reduction is still the empty change) - the
  subscriber's view converges to the group's value. -/
theorem C17_group_pull_loop [DecidableEq V] (reduce : List (Option V) → Option V) (n : Nat)
    (evs : List (Nat × List V)) :
    let st := pullRun reduce n evs
    NoStutter st.sent
    ∧ (∀ x, st.sent.head? = some x → x ≠ none)
    ∧ st.slots = latest n evs
    ∧ ((∃ ev ∈ evs, ev.2 ≠ []) → st.sent.getLast?.getD none = reduce (latest n evs)) := by
  intro st
  have hinv : PullInv st := pullInv_fold reduce evs (pullInit n) ⟨rfl, trivial, by intro x hx; cases hx⟩
  have hslots : st.slots = latest n evs := pullFold_slots reduce evs (pullInit n)
  refine ⟨hinv.noStutter, hinv.headSome, hslots, ?_⟩
  intro h
  rw [hinv.lastSent, pullRun_current reduce n evs h, hslots]

/-- **C17_group_pull_send_error.** The subscriber goes away: the `k`-th `server.Send` fails (`k ≥ 1`).
For every reducer, member count and sequence of member messages: what was forwarded is exactly the
first `k` values the undisturbed subscription forwards, and the subscription has ended by itself
(cancel the members, wait for `Execute`, return Send's error) iff the undisturbed one forwards at least
`k` values - it never ends early, never carries on after the failure. -/
theorem C17_group_pull_send_error [DecidableEq V] (reduce : List (Option V) → Option V) (n k : Nat)
    (hk : k ≠ 0) (evs : List (Nat × List V)) :
    (pullRunFail reduce n k evs).1.sent = (pullRun reduce n evs).sent.take k
    ∧ ((pullRunFail reduce n k evs).2.1.isSome ↔ k ≤ (pullRun reduce n evs).sent.length) :=
  pullFoldFail_sent reduce k hk evs (pullInit n) 0 (by show 0 < k; omega)

/-- for the two traits: the value a subscriber of a light / onoff Group holds after any sequence of
member messages is the mean of the latest levels / ON-wins of the latest states of the members heard
from -/
theorem C17_group_pull_converges (n : Nat) :
    (∀ evs : List (Nat × List Rat), (∃ ev ∈ evs, ev.2 ≠ []) →
      (pullRun lightReduceChanges n evs).sent.getLast?.getD none
        = (if present (latest n evs) = [] then none else some (mean (present (latest n evs)))))
    ∧ (∀ evs : List (Nat × List Nat), (∃ ev ∈ evs, ev.2 ≠ []) → (∀ v, v ∈ present (latest n evs) → v ≤ 2) →
      (pullRun onoffReduceChanges n evs).sent.getLast?.getD none
        = (if present (latest n evs) = [] then none else some (onoffSpec (present (latest n evs))))) := by
  constructor
  · intro evs h
    rw [(C17_group_pull_loop lightReduceChanges n evs).2.2.2 h, (C17_light_reduce _).2]
  · intro evs h hb
    rw [(C17_group_pull_loop onoffReduceChanges n evs).2.2.2 h, (C17_onoff_reduce _ hb).2]

/-! ## Non-vacuity -/

/-- Any over three lights, member 0 fails: the mean of the two that answered (not weighted by slot). -/
example : lightGet (execute .any 3 (arrivals [⟨none, some 7⟩, ⟨some 2, none⟩, ⟨some 4, none⟩] [2, 0, 1]))
    = (some 48, none) := by
  have : execute .any 3 (arrivals [⟨none, some 7⟩, ⟨some 2, none⟩, ⟨some 4, none⟩] [2, 0, 1])
      = ⟨[none, some 2, some 4], none⟩ := by decide
  rw [this]
  show (some (lightReduce [none, some (levelOf 2), some (levelOf 4)]), none) = _
  rw [lightReduce_eq_mean]
  simp [mean, levelOf]
  grind

/-- All over two onoff members, one fails: the call fails with that member's error and has no value. -/
example : onoffGet (execute .all 2 (arrivals [⟨some 2, none⟩, ⟨none, some 9⟩] [1, 0])) = (none, some (.member 9)) := by decide

/-- the loop on a concrete run: member 1 OFF, member 0 ON (group ON), member 1 repeats OFF (no stutter:
nothing forwarded), an empty message, member 0 goes OFF via ON (only the last change counts) -/
example : (pullRun onoffReduceChanges 2 [(1, [2]), (0, [1]), (1, [2]), (0, []), (0, [1, 2])]).sent
    = [some 2, some 1, some 2] := by decide

/-- the same run with the 2nd Send failing: two values forwarded, ended after the 2nd message -/
example : (pullRunFail onoffReduceChanges 2 2 [(1, [2]), (0, [1]), (1, [2]), (0, []), (0, [1, 2])]).1.sent = [some 2, some 1]
    ∧ (pullRunFail onoffReduceChanges 2 2 [(1, [2]), (0, [1]), (1, [2]), (0, []), (0, [1, 2])]).2.1 = some 2 := by decide

/-- the hypothesis of `C17_onoff_reduce` holds for the states of the enum -/
example : ∀ v, v ∈ present [some 1, none, some 2, some 0] → v ≤ 2 := by decide

end ScVerif.C17
