import ScVerif.C17.Lemmas
/-!
# C17 — group execution honours each strategy's contract: property theorems (consumer loops)

Every theorem is for ALL member counts (the length of `outs`, including 0), ALL outcome vectors
(`outs[i]` = what member `i` returns: any combination of nil/non-nil message and error) and ALL
completion orders (`order`, any permutation of the member indices).  The thread-level theorems
(every schedule of `executeEach`'s goroutines, cancellation-aware members, goroutines end) are in
`PropsThreads.lean`; `C17_threads_refine` there connects the two: under every schedule the call returns
`C.result` of the responses in the order they were sent.

Spec vocabulary (`Lemmas.lean`): `failures outs` = number of members whose error is non-nil;
`firstFailure rs` = the first error in completion order; `arrivals outs order` = the responses in
completion order, tagged with the member's index.
-/
namespace ScVerif.C17

/-- **C17_upTo.** ExecuteUpTo with budget `allowed`, every `n`, outcome vector and completion order:
* the error is the first failure in completion order if more than `allowed` members failed, else nil;
* `results[i]` is member `i`'s message (also for members that failed), one slot per member;
* the loop never returns before the channel is closed (it waits for all members);
* (budget ≥ 0) after any number `k` of completions the members' context has been cancelled by the
  call exactly if the failures among those `k` exceed the budget — i.e. it is cancelled when the
  budget is first exceeded, not earlier, not later. -/
theorem C17_upTo (allowed : Int) (outs : List Resp) (order : List Nat)
    (hp : order.Perm (List.range outs.length)) :
    let rs := arrivals outs order
    let C := upTo outs.length allowed
    (C.result rs).err = (if (failures outs : Int) > allowed then (firstFailure rs).map Err.member else none)
    ∧ (C.result rs).results = outs.map (·.msg)
    ∧ (∀ k, (C.after (rs.take k)).isReturned = false)
    ∧ (0 ≤ allowed → ∀ k, (C.after (rs.take k)).cancelled = decide ((failuresT (rs.take k) : Int) > allowed)) := by
  intro rs C
  refine ⟨?_, ?_, ?_, ?_⟩
  · simp only [C, Consumer.result, upTo_after, Consumer.finish]
    simp only [upTo, rs, failuresT_arrivals outs order hp]
    split <;> rfl
  · simp only [C, Consumer.result, upTo_after, Consumer.finish]
    simp only [upTo, rs, placeAll_arrivals outs order hp]
    split <;> rfl
  · intro k; simp [C, upTo_after, Run.isReturned]
  · intro h k
    simp only [C, upTo_after, Run.cancelled]
    rw [exceededFrom_nonneg allowed _ 0 (by simpa using h)]
    simp

/-- With a non-negative budget: an error is returned iff more than `allowed` members failed. -/
theorem C17_upTo_err_iff (allowed : Int) (h : 0 ≤ allowed) (outs : List Resp) (order : List Nat)
    (hp : order.Perm (List.range outs.length)) :
    ((upTo outs.length allowed).result (arrivals outs order)).err.isSome ↔ (failures outs : Int) > allowed := by
  have h1 := (C17_upTo allowed outs order hp).1
  rw [h1]
  split
  · rename_i hgt
    have : 0 < failuresT (arrivals outs order) := by rw [failuresT_arrivals outs order hp]; omega
    simp [Option.isSome_map, (firstFailure_isSome _).mpr this, hgt]
  · rename_i hle; simp [hle]

/-- the hypothesis of `C17_upTo_err_iff` holds for the budgets of All and Most -/
example (n : Nat) : 0 ≤ allowedAll n ∧ 0 ≤ allowedMost n := by
  constructor <;> simp [allowedAll, allowedMost] <;> omega

/-- **C17_upTo_cancel.** The cancellation clause for EVERY budget, negative ones included (ExecuteAny
over no members has budget −1; ExecuteUpTo accepts any int), and every sequence of arrivals (so: after
any number of completions): the loop has called `cancelFunc()` exactly if some member has failed and
the failures so far exceed the budget - the remaining members are cancelled when the outcome "error"
is decided, never before a failure, never on a success. -/
theorem C17_upTo_cancel (allowed : Int) (n : Nat) (rs : List Tagged) :
    ((upTo n allowed).after rs).cancelled = decide (0 < failuresT rs ∧ (failuresT rs : Int) > allowed) := by
  rw [upTo_after]
  simp only [Run.cancelled]
  rw [exceededFrom_eq]
  simp

/-- **C17_all.** `Execute(All)` (also `Unspecified` and out-of-range strategies) fails exactly when
some member fails, with the first failure in completion order, and reports every member's message at
its own index. -/
theorem C17_all (outs : List Resp) (order : List Nat) (hp : order.Perm (List.range outs.length)) :
    let out := execute .all outs.length (arrivals outs order)
    (out.err.isSome ↔ ∃ r ∈ outs, r.err.isSome)
    ∧ out.err = (firstFailure (arrivals outs order)).map Err.member
    ∧ out.results = outs.map (·.msg) := by
  intro out
  have h := C17_upTo (allowedAll outs.length) outs order hp
  have hi := C17_upTo_err_iff (allowedAll outs.length) (by simp [allowedAll]) outs order hp
  refine ⟨?_, ?_, h.2.1⟩
  · show ((upTo outs.length (allowedAll outs.length)).result (arrivals outs order)).err.isSome ↔ _
    rw [hi]
    simp only [allowedAll, failures]
    have := List.countP_pos_iff (p := fun r : Resp => r.err.isSome) (l := outs)
    constructor
    · intro hh; exact this.mp (by omega)
    · intro hh; have := this.mpr hh; omega
  · show ((upTo outs.length (allowedAll outs.length)).result (arrivals outs order)).err = _
    rw [h.1]
    split
    · rfl
    · rename_i hle
      have h0 : failuresT (arrivals outs order) = 0 := by
        rw [failuresT_arrivals outs order hp]; simp [allowedAll] at hle; omega
      have : ¬ (firstFailure (arrivals outs order)).isSome := by
        rw [firstFailure_isSome]; omega
      cases hf : firstFailure (arrivals outs order) with
      | none => rfl
      | some x => simp [hf] at this

/-- **C17_most.** `Execute(Most)` fails exactly when more than half of the members fail. -/
theorem C17_most (outs : List Resp) (order : List Nat) (hp : order.Perm (List.range outs.length)) :
    let out := execute .most outs.length (arrivals outs order)
    (out.err.isSome ↔ 2 * failures outs > outs.length)
    ∧ out.results = outs.map (·.msg) := by
  intro out
  have h := C17_upTo (allowedMost outs.length) outs order hp
  have hi := C17_upTo_err_iff (allowedMost outs.length) (by simp [allowedMost]; omega) outs order hp
  refine ⟨?_, h.2.1⟩
  show ((upTo outs.length (allowedMost outs.length)).result (arrivals outs order)).err.isSome ↔ _
  rw [hi]
  simp only [allowedMost]
  constructor <;> intro hh <;> omega

/-- **C17_any.** `Execute(Any)` fails exactly when there is at least one member and all of them fail
(with no members nothing failed and no error is reported). -/
theorem C17_any (outs : List Resp) (order : List Nat) (hp : order.Perm (List.range outs.length)) :
    let out := execute .any outs.length (arrivals outs order)
    (out.err.isSome ↔ outs ≠ [] ∧ ∀ r ∈ outs, r.err.isSome)
    ∧ out.results = outs.map (·.msg) := by
  intro out
  have h := C17_upTo (allowedAny outs.length) outs order hp
  refine ⟨?_, h.2.1⟩
  show ((upTo outs.length (allowedAny outs.length)).result (arrivals outs order)).err.isSome ↔ _
  have h1 := h.1
  rw [h1]
  have hdef : allowedAny outs.length = (outs.length : Int) - 1 := rfl
  have hle : failures outs ≤ outs.length := List.countP_le_length
  have hall : failures outs = outs.length ↔ ∀ r ∈ outs, r.err.isSome := List.countP_eq_length
  have hne : outs ≠ [] ↔ 0 < outs.length := by cases outs <;> simp
  by_cases hgt : (failures outs : Int) > allowedAny outs.length
  · rw [if_pos hgt]
    have hf : failures outs = outs.length := by omega
    rcases Nat.eq_zero_or_pos (failures outs) with h0 | h0
    · have hz : failuresT (arrivals outs order) = 0 := by rw [failuresT_arrivals outs order hp]; exact h0
      have hnone : ¬ (firstFailure (arrivals outs order)).isSome := by rw [firstFailure_isSome]; omega
      have hl : ¬ 0 < outs.length := by omega
      simp only [Option.isSome_map]
      constructor
      · intro hh; exact absurd hh hnone
      · rintro ⟨h2, _⟩; exact absurd (hne.mp h2) hl
    · have hpos : 0 < failuresT (arrivals outs order) := by
        rw [failuresT_arrivals outs order hp]; exact h0
      simp only [Option.isSome_map, (firstFailure_isSome _).mpr hpos, true_iff]
      exact ⟨hne.mpr (by omega), hall.mp hf⟩
  · rw [if_neg hgt]
    simp only [Option.isSome_none, Bool.false_eq_true, false_iff]
    rintro ⟨h2, h3⟩
    have := hall.mpr h3
    have := hne.mp h2
    omega

/-- **C17_one.** ExecuteOne tries the members in index order:
* if member `i` is the first that succeeds (all of `pre` fail), its message and index `i` are
  returned with no error and exactly `i+1` members were called (the later ones never run);
* if all fail, every member was called and the error is the first member's error. -/
theorem C17_one :
    (∀ (pre post : List Resp) (r : Resp), (∀ x ∈ pre, x.err.isSome) → r.err = none →
        one (pre ++ r :: post) = ⟨r.msg, pre.length, none⟩ ∧ oneTried (pre ++ r :: post) = pre.length + 1)
    ∧ (∀ outs : List Resp, (∀ x ∈ outs, x.err.isSome) →
        one outs = ⟨none, 0, (outs.head?.bind (·.err)).map Err.member⟩ ∧ oneTried outs = outs.length) := by
  constructor
  · intro pre post r hpre hr
    simp [one, oneTried, oneLoop_success pre post r hpre hr]
  · intro outs h
    simp [one, oneTried, oneLoop_fail outs h]

/-- **C17_fast.** ExecuteFast, for every sequence of arrivals:
* if `r` is the first success in completion order, the call returns `r`'s message and index with no
  error, and it returns exactly when `r` arrives (not before);
* if every member fails: the first error in completion order, with that member's index; with no
  members: the "no members returned a response" error;
* hence it errs iff every member fails. -/
theorem C17_fast :
    (∀ (pre post : List Tagged) (r : Tagged), (∀ x ∈ pre, x.2.err.isSome) → r.2.err = none →
        fast.result (pre ++ r :: post) = ⟨r.2.msg, r.1, none⟩
        ∧ (fast.after pre).isReturned = false ∧ (fast.after (pre ++ [r])).isReturned = true)
    ∧ (∀ rs : List Tagged, (∀ x ∈ rs, x.2.err.isSome) →
        fast.result rs = (match rs.head? with
          | none => ⟨none, 0, some .noResponse⟩
          | some r => ⟨none, r.1, r.2.err.map Err.member⟩)
        ∧ (fast.after rs).isReturned = false)
    ∧ (∀ rs : List Tagged, (fast.result rs).err.isSome ↔ ∀ x ∈ rs, x.2.err.isSome) := by
  refine ⟨?_, ?_, ?_⟩
  · intro pre post r hpre hr
    refine ⟨?_, ?_, ?_⟩
    · simp [Consumer.result, fast_after_success pre post r hpre hr, Consumer.finish]
    · simp [fast_after_fail pre hpre, Run.isReturned]
    · have := fast_after_success pre [] r hpre hr
      simp [this, Run.isReturned]
  · intro rs h
    simp only [Consumer.result, fast_after_fail rs h, Consumer.finish, Run.isReturned, and_true]
    cases rs with
    | nil => rfl
    | cons a t => rfl
  · intro rs
    rcases split_first_ok rs with h | ⟨pre, r, post, rfl, hpre, hr⟩
    · simp only [Consumer.result, fast_after_fail rs h, Consumer.finish]
      cases rs with
      | nil => simp [fast]
      | cons a t =>
        have ha := h a (by simp)
        simp only [fast, List.head?_cons, Option.isSome_map, ha, true_iff]
        exact h
    · simp only [Consumer.result, fast_after_success pre post r hpre hr, Consumer.finish]
      simp only [Option.isSome_none, Bool.false_eq_true, false_iff]
      intro hall
      have := hall r (by simp)
      simp [hr] at this

/-- **C17_race.** ExecuteRace returns the first response, whatever it is (message, index and error of
the member that completed first), as soon as it arrives; with no members: the "no members returned a
response" error. -/
theorem C17_race :
    (∀ (r : Tagged) (rs : List Tagged),
        race.result (r :: rs) = ⟨r.2.msg, r.1, r.2.err.map Err.member⟩
        ∧ (race.after [r]).isReturned = true)
    ∧ race.result [] = ⟨none, 0, some .noResponse⟩ := by
  refine ⟨?_, rfl⟩
  intro r rs
  have h1 : race.after [r] = .returned ⟨r.2.msg, r.1, r.2.err.map Err.member⟩ := rfl
  refine ⟨?_, by simp [h1, Run.isReturned]⟩
  exact result_stable race [r] rs _ h1

/-- **C17_indexing.** `Execute` with One / Fast / Race, every `n` *including 0* (the model of the
fixed code has no panic outcome; before the fix `allRes[i]` was evaluated unguarded), every outcome
vector and completion order (any list of member indices): the returned slice has one slot per member, and every non-nil slot `j`
holds member `j`'s own message (so the single result sits at the member's own index and all other
slots are nil). -/
theorem C17_indexing (outs : List Resp) (order : List Nat)
    (st : Strategy) (hst : st = .one ∨ st = .fast ∨ st = .race) :
    let out := execute st outs.length (arrivals outs (if st = .one then List.range outs.length else order))
    out.results.length = outs.length
    ∧ (∀ (j m : Nat), out.results[j]? = some (some m) → j < outs.length ∧ (outs.getD j default).msg = some m)
    ∧ (∀ (j j' m m' : Nat), out.results[j]? = some (some m) → out.results[j']? = some (some m') → j = j') := by
  intro out
  have key : ∃ s : Single, out = singleResult outs.length s ∧
      (∀ m, s.msg = some m → s.idx < outs.length → (outs.getD s.idx default).msg = some m) := by
    rcases hst with rfl | rfl | rfl
    · refine ⟨one ((arrivals outs (List.range outs.length)).map (·.2)), by simp [out, execute], ?_⟩
      have hmap : (arrivals outs (List.range outs.length)).map (·.2) = outs := by
        conv => rhs; rw [outs_eq_map_range outs]
        simp [arrivals]
      rw [hmap]
      intro m hm _
      rcases split_first_ok' outs with h | ⟨pre, r, post, heq, hpre, hr⟩
      · rw [(C17_one.2 outs h).1] at hm; simp at hm
      · have h1 := (C17_one.1 pre post r hpre hr).1
        rw [← heq] at h1
        rw [h1] at hm ⊢
        simp only at hm ⊢
        rw [heq]
        simp [List.getD_eq_getElem?_getD, hm]
    · have hmem : ∀ x ∈ arrivals outs order, x.2 = outs.getD x.1 default := by
        intro x hx
        simp only [arrivals, List.mem_map] at hx
        obtain ⟨i, _, rfl⟩ := hx
        rfl
      refine ⟨fast.result (arrivals outs order), by simp [out, execute], ?_⟩
      intro m hm _
      rcases split_first_ok (arrivals outs order) with h | ⟨pre, r, post, heq, hpre, hr⟩
      · rw [(C17_fast.2.1 _ h).1] at hm
        cases hh : (arrivals outs order).head? <;> simp [hh] at hm
      · rw [heq, (C17_fast.1 pre post r hpre hr).1] at hm ⊢
        simp only at hm ⊢
        rw [← hmem r (by rw [heq]; simp)]
        exact hm
    · have hmem : ∀ x ∈ arrivals outs order, x.2 = outs.getD x.1 default := by
        intro x hx
        simp only [arrivals, List.mem_map] at hx
        obtain ⟨i, _, rfl⟩ := hx
        rfl
      refine ⟨race.result (arrivals outs order), by simp [out, execute], ?_⟩
      intro m hm _
      cases hh : arrivals outs order with
      | nil => rw [hh, C17_race.2] at hm; simp at hm
      | cons r rs =>
        rw [hh] at hm
        rw [(C17_race.1 r rs).1] at hm ⊢
        simp only at hm ⊢
        rw [← hmem r (by rw [hh]; simp)]
        exact hm
  obtain ⟨s, hs, hown⟩ := key
  rw [hs]
  refine ⟨singleResult_length _ _, ?_, ?_⟩
  · intro j m h
    obtain ⟨h1, h2, h3⟩ := singleResult_slot _ _ _ _ h
    subst h1
    exact ⟨h3, hown m h2 h3⟩
  · intro j j' m m' h h'
    have := (singleResult_slot _ _ _ _ h).1
    have := (singleResult_slot _ _ _ _ h').1
    omega

/-- The index reported by One / Fast / Race is a member's index whenever there are members, so the
guard in `singleResult` only matters for the empty group. -/
theorem C17_index_in_range (outs : List Resp) (order : List Nat) (hp : order.Perm (List.range outs.length))
    (hn : 0 < outs.length) :
    (one outs).idx < outs.length
    ∧ (fast.result (arrivals outs order)).idx < outs.length
    ∧ (race.result (arrivals outs order)).idx < outs.length := by
  have hidx : ∀ x ∈ arrivals outs order, x.1 < outs.length := by
    intro x hx
    simp only [arrivals, List.mem_map] at hx
    obtain ⟨i, hi, rfl⟩ := hx
    exact List.mem_range.mp (hp.mem_iff.mp hi)
  refine ⟨?_, ?_, ?_⟩
  · rcases split_first_ok' outs with h | ⟨pre, r, post, heq, hpre, hr⟩
    · rw [(C17_one.2 outs h).1]; exact hn
    · rw [heq, (C17_one.1 pre post r hpre hr).1]; simp
  · rcases split_first_ok (arrivals outs order) with h | ⟨pre, r, post, heq, hpre, hr⟩
    · rw [(C17_fast.2.1 _ h).1]
      cases hh : (arrivals outs order).head? with
      | none => exact hn
      | some r => exact hidx r (List.mem_of_mem_head? hh)
    · rw [heq, (C17_fast.1 pre post r hpre hr).1]
      exact hidx r (by rw [heq]; simp)
  · cases hh : arrivals outs order with
    | nil => rw [C17_race.2]; exact hn
    | cons r rs =>
      rw [(C17_race.1 r rs).1]
      exact hidx r (by rw [hh]; simp)

/-! ## Non-vacuity: concrete instances (also pin the behaviour of corner cases) -/

/-- Most over 4 members, 2 failures (exactly half): no error. -/
example : (execute .most 4 (arrivals [⟨some 1, none⟩, ⟨none, some 2⟩, ⟨none, some 3⟩, ⟨some 4, none⟩] [2, 0, 3, 1])).err = none := by decide
/-- Most over 3 members, 2 failures: the first failure in completion order. -/
example : (execute .most 3 (arrivals [⟨none, some 1⟩, ⟨none, some 2⟩, ⟨some 3, none⟩] [1, 2, 0])).err = some (.member 2) := by decide
/-- Any with no members: no error; Fast and Race with no members: the package's error, empty slice. -/
example : execute .any 0 [] = ⟨[], none⟩ ∧ execute .fast 0 [] = ⟨[], some .noResponse⟩
    ∧ execute .race 0 [] = ⟨[], some .noResponse⟩ ∧ execute .one 0 [] = ⟨[], none⟩ := by decide
/-- Fast: the single result at the member's own index. -/
example : execute .fast 3 (arrivals [⟨none, some 1⟩, ⟨some 2, none⟩, ⟨some 3, none⟩] [0, 2, 1]) = ⟨[none, none, some 3], none⟩ := by decide

end ScVerif.C17
