import ScVerif.Base.Line
import ScVerif.C17.Threads
import ScVerif.C17.SerialLemmas
import ScVerif.C17.Adapters
import ScVerif.C17.Pipeline
import ScVerif.C17.ExecParams
/-!
Driver handler for C17.

Request: `exec <api> <strategy> <allowed> <n> <members> <order> <parentCancel>`
* api `x` = `group.Execute(strategy)`, `d` = the strategy's own function;
* members: `,`-separated `msg.err` or `msg.err/msg.err` (cancellation-aware: second response when the
  context is found cancelled), `mK`/`eK`/`-` for message K / error K / nil; `-` for no members;
* order: `,`-separated permutation of member indices (`-` if empty); parentCancel: `-` or `k` = the
  caller's context is cancelled after `k` completions.

Answer (same format as the Go harness prints for the real code):
`res=[..] err=E ret=K cancel=BITS seen=S inv=I left=L` or `msg=M idx=I err=E ret=…`.
The parallel strategies are run through the thread-level model under the serial schedule the harness
realises (`block`), `one` through `oneLoop`.
-/
namespace ScVerif.C17
open ScVerif.Line

def parseLab? (p : Char) (s : String) : Option (Option Nat) :=
  if s = "-" then some none
  else match s.toList with
    | c :: rest => if c = p then (String.ofList rest).toNat?.map some else none
    | [] => none

def parseResp? (s : String) : Option Resp :=
  match s.splitOn "." with
  | [m, e] => do
    let m ← parseLab? 'm' m
    let e ← parseLab? 'e' e
    pure ⟨m, e⟩
  | _ => none

def parseBeh? (s : String) : Option Beh :=
  match s.splitOn "/" with
  | [a] => do pure ⟨← parseResp? a, none⟩
  | [a, b] => do pure ⟨← parseResp? a, some (← parseResp? b)⟩
  | _ => none

def parseList? (f : String → Option α) (s : String) : Option (List α) :=
  if s = "-" then some [] else (s.splitOn ",").mapM f

def showLab (p : String) : Option Nat → String
  | none => "-"
  | some k => p ++ toString k

def showErr : Option Err → String
  | none => "-"
  | some (.member k) => "e" ++ toString k
  | some .noResponse => "noresp"

def showMany (m : Many) : String :=
  "res=[" ++ ",".intercalate (m.results.map (showLab "m")) ++ "] err=" ++ showErr m.err

def showSingle (s : Single) : String :=
  "msg=" ++ showLab "m" s.msg ++ " idx=" ++ toString s.idx ++ " err=" ++ showErr s.err

def dash (s : String) : String := if s = "" then "-" else s

def showBit (b : Bool) : String := if b then "1" else "0"

structure Trace (ρ : Type) where
  result : Option ρ
  ret : Option Nat
  cancel : List Bool
  seen : List (Option Bool)
  left : Nat
  /-- every observation point so far was a point of quiescence of the model (`Config.quiescent`, `SerialLemmas.lean`:
  nothing can move except members still waiting at their gate and the caller cancelling).  The harness observes
  the code only at such points; `C17_serial_points_quiescent` proves that the schedule run here (`settle`, `block`)
  reaches one at every observation point, so the flag is always true and `!model-not-quiescent` is never answered. -/
  quiet : Bool := true

def observe (C : Consumer σ ρ) (c : Config σ ρ) (k : Nat) (tr : Trace ρ) : Trace ρ :=
  { tr with
    quiet := tr.quiet && c.quiescent C
    cancel := tr.cancel ++ [c.cancelled]
    ret := match tr.ret, c.cons with
      | none, .returned _ _ => some k
      | r, _ => r }

def serialGo (C : Consumer σ ρ) (pc : Option Nat) : Nat → List Nat → Config σ ρ → Trace ρ → Config σ ρ × Trace ρ
  | _, [], c, tr => (c, tr)
  | k, i :: rest, c, tr =>
    let c := if pc = some k then stepD C c .env else c
    let tr := { tr with seen := tr.seen.set i (some c.cancelled) }
    let c := exec C c (block i)
    serialGo C pc (k + 1) rest c (observe C c (k + 1) tr)

/-- The thread-level model under the harness' schedule, with what the harness observes. -/
def runSerial (C : Consumer σ ρ) (behs : List Beh) (order : List Nat) (pc : Option Nat) : Trace ρ :=
  let c0 := exec C (Config.spawn C behs) settle
  let tr0 := observe C c0 0 ⟨none, none, [], List.replicate behs.length none, 0, true⟩
  let (c, tr) := serialGo C pc 0 order c0 tr0
  { tr with
    result := match c.cons with
      | .returned x _ => some x
      | _ => none
    left := c.alive }

def showSeen (xs : List (Option Bool)) : String :=
  dash (String.join (xs.map fun | none => "-" | some b => showBit b))

def showNats (xs : List Nat) : String := dash (",".intercalate (xs.map toString))

def showTrace (n : Nat) (out : Option String) (tr : Trace ρ) (inv : List Nat) : String :=
  if !tr.quiet then "!model-not-quiescent" else
  (out.getD "noreturn") ++ " ret=" ++ (match tr.ret with | none => "-" | some k => toString k)
    ++ " cancel=" ++ (if n = 0 then "-" else String.join (tr.cancel.map showBit))
    ++ " seen=" ++ showSeen tr.seen ++ " inv=" ++ showNats inv ++ " left=" ++ toString tr.left

/-- position of `i` in `order` -/
def posOf (order : List Nat) (i : Nat) : Nat := order.idxOf i

/-- `ExecuteOne` under gated members: member `i` is called once members `0..i-1` have failed and it
returns once its own gate is open, i.e. after release number `max_{j ≤ i} pos j`. -/
def runOne (behs : List Beh) (order : List Nat) (pc : Option Nat) : Single × Trace Single × List Nat :=
  let n := behs.length
  let runAt : List Nat := (List.range n).map fun i => ((List.range (i + 1)).map (posOf order)).foldl max 0
  let saw : List Bool := runAt.map fun p => match pc with | some k => decide (k ≤ p) | none => false
  let outs : List Resp := (List.range n).map fun i => (behs.getD i ⟨default, none⟩).respond (saw.getD i false)
  let (res, tried) := oneLoop 0 none outs
  let ret := if n = 0 then 0 else runAt.getD (tried - 1) 0 + 1
  let cancel := (List.range (n + 1)).map fun k => match pc with | some p => decide (p < k) | none => false
  let seen := (List.range n).map fun i => if i < tried then some (saw.getD i false) else none
  (res, ⟨some res, some ret, cancel, seen, 0, true⟩, List.range tried)

def runMany (n : Nat) (a : Int) (behs : List Beh) (order : List Nat) (pc : Option Nat) : String :=
  let tr := runSerial (upTo n a) behs order pc
  showTrace n (tr.result.map showMany) tr (List.range n)

def runSingle (C : Consumer σ Single) (api : String) (n : Nat) (behs : List Beh) (order : List Nat) (pc : Option Nat) : String :=
  let tr := runSerial C behs order pc
  let out := tr.result.map fun s => if api = "x" then showMany (singleResult n s) else showSingle s
  showTrace n out tr (List.range n)

def handleExec (api strat : String) (allowed : Int) (behs : List Beh) (order : List Nat) (pc : Option Nat) : Option String :=
  let n := behs.length
  match api, strat with
  | "x", "unspec" | "x", "other" | _, "all" => some (runMany n (allowedAll n) behs order pc)
  | _, "most" => some (runMany n (allowedMost n) behs order pc)
  | _, "any" => some (runMany n (allowedAny n) behs order pc)
  | "d", "upto" => some (runMany n allowed behs order pc)
  | _, "fast" => some (runSingle fast api n behs order pc)
  | _, "race" => some (runSingle race api n behs order pc)
  | _, "one" =>
    let (res, tr, inv) := runOne behs order pc
    let out := if api = "x" then showMany (singleResult n res) else showSingle res
    some (showTrace n (some out) tr inv)
  | _, _ => none

/-! ## Group adapters: `group <trait> <rpc> <strategy> <allowed> <n> <members> <order> <parentCancel> <vals>`

The members' functions are run by `Execute(strategy)` exactly as for `exec x`; the answer has the
adapter's value in place of the result slice: `val=V err=E ret=… cancel=… seen=… inv=… left=…`.
Get/Update: `V` = the reduced results (`-` when the call fails).  Pull: `vals[i]` is the value code
member `i`'s stream delivers first; `V` = the merge of the values of the members started (`-` if
none). -/

def showRat (q : Rat) : String :=
  if q.den = 1 then toString q.num else toString q.num ++ "/" ++ toString q.den

def showOnOff : Nat → String
  | 0 => "UNSPECIFIED"
  | 1 => "ON"
  | 2 => "OFF"
  | k => "?" ++ toString k

def runExecMany (a : Int) (behs : List Beh) (order : List Nat) (pc : Option Nat) : Option Many × Trace Unit × List Nat :=
  let n := behs.length
  let tr := runSerial (upTo n a) behs order pc
  (tr.result, ⟨none, tr.ret, tr.cancel, tr.seen, tr.left, tr.quiet⟩, List.range n)

def runExecSingle (C : Consumer σ Single) (behs : List Beh) (order : List Nat) (pc : Option Nat) : Option Many × Trace Unit × List Nat :=
  let n := behs.length
  let tr := runSerial C behs order pc
  (tr.result.map (singleResult n), ⟨none, tr.ret, tr.cancel, tr.seen, tr.left, tr.quiet⟩, List.range n)

/-- `Execute(strategy)` over gated members: the result, the trace and the members invoked. -/
def runExecute (strat : String) (behs : List Beh) (order : List Nat) (pc : Option Nat) :
    Option (Option Many × Trace Unit × List Nat) :=
  let n := behs.length
  match strat with
  | "all" => some (runExecMany (allowedAll n) behs order pc)
  | "most" => some (runExecMany (allowedMost n) behs order pc)
  | "any" => some (runExecMany (allowedAny n) behs order pc)
  | "fast" => some (runExecSingle fast behs order pc)
  | "race" => some (runExecSingle race behs order pc)
  | "one" =>
    let (res, tr, inv) := runOne behs order pc
    some (some (singleResult n res), ⟨none, tr.ret, tr.cancel, tr.seen, tr.left, tr.quiet⟩, inv)
  | _ => none

def handleGroup (trait rpc strat : String) (behs : List Beh) (order : List Nat) (pc : Option Nat)
    (vals : List Nat) : Option String := do
  let n := behs.length
  let (res, tr, inv) ← runExecute strat behs order pc
  let out : Option String ← match trait, rpc with
    | "onoff", "Pull" =>
      some (res.map fun m => "val=" ++ ((onoffPull n vals inv).map showOnOff).getD "-" ++ " err=" ++ showErr m.err)
    | "light", "Pull" =>
      some (res.map fun m => "val=" ++ ((lightPull n vals inv).map showRat).getD "-" ++ " err=" ++ showErr m.err)
    | "onoff", _ =>
      some (res.map fun m => let (v, e) := onoffGet m; "val=" ++ (v.map showOnOff).getD "-" ++ " err=" ++ showErr e)
    | "light", _ =>
      some (res.map fun m => let (v, e) := lightGet m; "val=" ++ (v.map showRat).getD "-" ++ " err=" ++ showErr e)
    | _, _ => none
  -- PullX runs Execute under `context.WithCancel(server.Context())` with a deferred `cancelFunc()`:
  -- whatever the strategy, the members' context is cancelled once the subscription has returned
  let tr := if rpc = "Pull" then
      { tr with cancel := tr.cancel.zipIdx.map fun (b, k) =>
          b || (match tr.ret with | some r => decide (r ≤ k) | none => false) }
    else tr
  pure (showTrace n out tr inv)

/-! ## the subscription loop: `pull <trait> <n> <events>`

events: `,`-separated `i:v1.v2…` (member `i` delivers a message with the value codes `v1 v2 …`; `i:` = a
message without changes; `-` = no events).  A 4th token `k`: the `k`-th Send fails (0: none).  Answer: `fwd=` the values forwarded, in order, then
`end=harness` (the subscription ran until the harness cancelled it) or `end=senderr after=<messages> ctx=1`. -/

def parseEvent? (s : String) : Option (Nat × List Nat) :=
  match s.splitOn ":" with
  | [i, vs] => do
    let i ← parseNat? i
    let vs ← if vs = "" then some [] else (vs.splitOn ".").mapM parseNat?
    pure (i, vs)
  | _ => none

def showPull (n : Nat) (show1 : Option V → String) (r : PullSt V × Option Nat × Nat) : String :=
  let fwd := "fwd=" ++ dash (",".intercalate (r.1.sent.map show1))
  match r.2.1 with
  | some k => fwd ++ " end=senderr after=" ++ toString k ++ " ctx=" ++ (if n = 0 then "-" else "1")
  | none => fwd ++ " end=harness"

def handlePull (trait : String) (n : Nat) (evs : List (Nat × List Nat)) (failAt : Nat) : Option String :=
  match trait with
  | "light" =>
    some (showPull n (fun v => (v.map showRat).getD "nil")
      (pullRunFail lightReduceChanges n failAt (evs.map fun ev => (ev.1, ev.2.map levelOf))))
  | "onoff" =>
    some (showPull n (fun v => (v.map showOnOff).getD "nil")
      (pullRunFail onoffReduceChanges n failAt (evs.map fun ev => (ev.1, ev.2.map onoffOf))))
  | _ => none


/-! ## the Pull pipeline: `pipe <trait> <n> <strategy> <steps>`

The strategy (`all|most|any|one|fast|race`) gives the model's parameters `(allowed, retAfter) = execParams strategy n`
(proved against the thread-level model of exec.go: `C17_pipeline_contract_is_execute`, `C17_pipeline_contract_one`)
and its initial state: the members run side by side (All, Most, Any, Fast, Race) or one after the other (One).

`steps`: `,`-separated `<op>=<observation>`; ops: `start` (nothing), `p<i>:<k>` (device `i` reports the value
message number `k` stands for; `p<i>:x`: it fails), `ok` / `sf` (the subscriber's parked Send returns nil /
an error), `cc` (the subscriber cancels).  After each op the model's internal steps are run to EVERY point
of quiescence they can reach (`Pipe.settle`), and the set of states is cut down to those that look like
the observation the harness made on the real goroutines at its point of quiescence:
`<lanes>;<loop>;<forwarded>` - per device `i|s|e` (waiting / inside `server.Send` / returned or not started) and the number
of its Sends that returned nil; `run|send|ret` for `PullX`; the values the subscriber was sent.
Answer: `ok left=<threads of the members not ended in the final state(s)>`, or
`!unreachable step=<k> …` when no point of quiescence of the model looks like the observation. -/

def showLaneObs (l : Pipe.Lane V) : String :=
  (match l.h with | .idle => "i" | .sending _ => "s" | .ended => "e") ++ toString l.acc

def pipeObs (show1 : Option V → String) (c : Pipe.Cfg V) : String :=
  dash (".".intercalate (c.lanes.map showLaneObs)) ++ ";"
    ++ (match c.loop with | .inSend => "send" | .returned => "ret" | _ => "run") ++ ";"
    ++ dash (".".intercalate (c.st.sent.map show1))

def pipeSteps [DecidableEq V] (P : Pipe.Params V) (show1 : Option V → String) :
    List (Pipe.Cfg V) → Nat → List (Option (Pipe.Lbl V) × String × String) → String
  | cs, _, [] => "ok left=" ++ "|".intercalate ((cs.map (·.left)).eraseDups.map toString)
  | cs, k, (lbl, name, obs) :: rest =>
    let cs1 := match lbl with
      | none => cs
      | some l => cs.filterMap fun c => Pipe.step P c l
    let qs := Pipe.settle P cs1
    let ms := qs.filter fun c => pipeObs show1 c == obs
    if ms.isEmpty then
      "!unreachable step=" ++ toString k ++ " op=" ++ name ++ " observed=" ++ obs ++ " possible="
        ++ dash ("|".intercalate ((qs.map (pipeObs show1)).eraseDups))
    else pipeSteps P show1 ms (k + 1) rest

def parsePipeOp? (val : Nat → V) (n : Nat) (s : String) : Option (Option (Pipe.Lbl V)) :=
  match s with
  | "start" => some none
  | "ok" => some (some .sendOk)
  | "sf" => some (some .sendFail)
  | "cc" => some (some .cancel)
  | _ =>
    match s.toList with
    | 'p' :: rest =>
      match (String.ofList rest).splitOn ":" with
      | [i, v] => do
        let i ← parseNat? i
        if i ≥ n then none
        if v = "x" then pure (some (.poke i none))
        else do
          let k ← parseNat? v
          pure (some (.poke i (some (val k))))
      | _ => none
    | _ => none

def parsePipeStep? (val : Nat → V) (n : Nat) (s : String) : Option (Option (Pipe.Lbl V) × String × String) :=
  match s.splitOn "=" with
  | [op, obs] => do
    let l ← parsePipeOp? val n op
    pure (l, op, obs)
  | _ => none

def handlePipe (trait : String) (n : Nat) (strat : Strategy) (steps : List String) : Option String :=
  let allowed := (execParams strat n).1
  let retAfter := (execParams strat n).2
  let seq := strat == .one
  match trait with
  | "onoff" => do
    let st ← steps.mapM (parsePipeStep? onoffOf n)
    pure (pipeSteps ⟨true, allowed, retAfter, onoffReduceChanges⟩ (fun v => (v.map showOnOff).getD "nil")
      [if seq then Pipe.Cfg.initSeq n else Pipe.Cfg.init n] 0 st)
  | "light" => do
    let st ← steps.mapM (parsePipeStep? levelOf n)
    pure (pipeSteps ⟨true, allowed, retAfter, lightReduceChanges⟩ (fun v => (v.map showRat).getD "nil")
      [if seq then Pipe.Cfg.initSeq n else Pipe.Cfg.init n] 0 st)
  | _ => none

def isPerm (order : List Nat) (n : Nat) : Bool :=
  order.length == n && (List.range n).all fun i => order.contains i

def handle (toks : List String) : String :=
  match toks with
  | ["exec", api, strat, allowed, n, behs, order, pc] =>
    let r : Option String := do
      let allowed ← parseInt? allowed
      let n ← parseNat? n
      let behs ← parseList? parseBeh? behs
      let order ← parseList? parseNat? order
      let pc ← if pc = "-" then some none else (parseNat? pc).map some
      if api ≠ "x" && api ≠ "d" then none
      if behs.length ≠ n || !isPerm order n then none
      handleExec api strat allowed behs order pc
    r.getD "!bad-op"
  | ["group", trait, rpc, strat, _allowed, n, behs, order, pc, vals] =>
    let r : Option String := do
      let n ← parseNat? n
      let behs ← parseList? parseBeh? behs
      let order ← parseList? parseNat? order
      let pc ← if pc = "-" then some none else (parseNat? pc).map some
      let vals ← parseList? parseNat? vals
      if rpc ≠ "Get" && rpc ≠ "Update" && rpc ≠ "Pull" then none
      if behs.length ≠ n || !isPerm order n then none
      if rpc = "Pull" && vals.length ≠ n then none
      handleGroup trait rpc strat behs order pc vals
    r.getD "!bad-op"
  | ["pull", trait, n, evs, failAt] =>
    let r : Option String := do
      let n ← parseNat? n
      let evs ← parseList? parseEvent? evs
      let failAt ← parseNat? failAt
      if evs.any (fun ev => ev.1 ≥ n) then none
      handlePull trait n evs failAt
    r.getD "!bad-op"
  | ["pipe", trait, n, strat, steps] =>
    let r : Option String := do
      let n ← parseNat? n
      let strat ← parseStrategy? strat
      handlePipe trait n strat (steps.splitOn ",")
    r.getD "!bad-op"
  | _ => "!bad-op"

end ScVerif.C17
