import ScVerif.Base.Line
/-! Driver handler for C17 (stub: replaced by the property's owner). -/
namespace ScVerif.C17

def handle (_toks : List String) : String := "!bad-op"

end ScVerif.C17
