import ScVerif.C17.Adapters
/-!
# C17 — the member list of a trait Group: names, indices, and the bounds of `memberChanges`

`lightpb.NewGroup(impl, members...)` / `onoffpb.NewGroup` take ANY list of strings.  Every RPC builds
`actions := make([]group.Member, len(s.members))` and, `for i, member := range s.members`, the closure
`actions[i]` that calls the device `member` and (Pull) reports each of its messages tagged with `i`.
`PullX` keeps `memberChanges := make([]*Change, len(s.members))` and executes
`memberChanges[msg.i] = endChange` - an indexed write, which in Go PANICS when `msg.i` is out of range.

The loop model of `Adapters.lean` writes with `List.set`, which ignores an index out of range; this file
models the write as Go does it (`none` = the panic) and the actions as built from the list of NAMES, so
that "the call never panics" and "results are reported at the member's own index" are statements about
what the code does with any member list - blank, repeated and odd names included.
-/
namespace ScVerif.C17

/-- the loop `for i, member := range s.members { actions[i] = closure(i, member) }` from index `i` on:
each closure is represented by what it closes over - its index and the name it calls -/
def actionsFrom (i : Nat) : List String → List (Nat × String)
  | [] => []
  | nm :: rest => (i, nm) :: actionsFrom (i + 1) rest

/-- `pullXActions` / the `actions` of `GetX`, `UpdateX`: one closure per ENTRY of the member list -/
def groupActions (members : List String) : List (Nat × String) := actionsFrom 0 members

/-- a variant that leaves out the entries with a blank name (`if member == "" { continue }` and
`append`), each remaining closure still carrying its index into the member list -/
def groupActionsSkipBlank (members : List String) : List (Nat × String) :=
  (groupActions members).filter (fun a => a.2 ≠ "")

/-- one message of member `ev.1` carrying the changes `ev.2`, with Go's bounds check on
`memberChanges[msg.i] = endChange`: `none` is the panic -/
def pullFeedChecked [DecidableEq V] (reduce : List (Option V) → Option V) (st : PullSt V) (ev : Nat × List V) :
    Option (PullSt V) :=
  match ev.2.getLast? with
  | none => some st
  | some _ => if ev.1 < st.slots.length then some (pullFeed reduce st ev) else none

/-- the loop over the messages `evs` with `slots` slots: `none` as soon as a write is out of range -/
def pullRunCheckedFrom [DecidableEq V] (reduce : List (Option V) → Option V) (st : PullSt V) :
    List (Nat × List V) → Option (PullSt V)
  | [] => some st
  | ev :: rest =>
    match pullFeedChecked reduce st ev with
    | none => none
    | some st' => pullRunCheckedFrom reduce st' rest

def pullRunChecked [DecidableEq V] (reduce : List (Option V) → Option V) (slots : Nat) (evs : List (Nat × List V)) :
    Option (PullSt V) :=
  pullRunCheckedFrom reduce (pullInit slots) evs

theorem actionsFrom_length (i : Nat) (ms : List String) : (actionsFrom i ms).length = ms.length := by
  induction ms generalizing i with
  | nil => rfl
  | cons nm rest ih => simp [actionsFrom, ih]

theorem actionsFrom_getElem? (i k : Nat) (ms : List String) :
    (actionsFrom i ms)[k]? = ms[k]?.map (fun nm => (i + k, nm)) := by
  induction ms generalizing i k with
  | nil => simp [actionsFrom]
  | cons nm rest ih =>
    cases k with
    | zero => simp [actionsFrom]
    | succ k =>
      simp only [actionsFrom, List.getElem?_cons_succ, ih]
      cases rest[k]? <;> simp <;> omega

theorem actionsFrom_mem (i : Nat) (ms : List String) (a : Nat × String) (h : a ∈ actionsFrom i ms) :
    i ≤ a.1 ∧ a.1 < i + ms.length ∧ ms[a.1 - i]? = some a.2 := by
  induction ms generalizing i with
  | nil => simp [actionsFrom] at h
  | cons nm rest ih =>
    simp only [actionsFrom, List.mem_cons] at h
    rcases h with h | h
    · subst h; simp
    · have := ih (i + 1) h
      refine ⟨by omega, by simp only [List.length_cons]; omega, ?_⟩
      have h2 : a.1 - i = (a.1 - (i + 1)) + 1 := by omega
      rw [h2, List.getElem?_cons_succ]; exact this.2.2

theorem pullFeed_slots_length [DecidableEq V] (reduce : List (Option V) → Option V) (st : PullSt V) (ev : Nat × List V) :
    (pullFeed reduce st ev).slots.length = st.slots.length := by
  unfold pullFeed
  cases ev.2.getLast? with
  | none => rfl
  | some v =>
    dsimp only
    split <;> simp

theorem pullRunCheckedFrom_eq [DecidableEq V] (reduce : List (Option V) → Option V) (n : Nat) (evs : List (Nat × List V))
    (st : PullSt V) (hst : st.slots.length = n) (h : ∀ ev ∈ evs, ev.1 < n) :
    pullRunCheckedFrom reduce st evs = some (evs.foldl (pullFeed reduce) st) := by
  induction evs generalizing st with
  | nil => rfl
  | cons ev rest ih =>
    have hev : ev.1 < n := h ev (by simp)
    have hfeed : pullFeedChecked reduce st ev = some (pullFeed reduce st ev) := by
      unfold pullFeedChecked
      cases hl : ev.2.getLast? with
      | none => simp [pullFeed, hl]
      | some v => simp [hst, hev]
    simp only [pullRunCheckedFrom, hfeed, List.foldl_cons]
    exact ih _ (by rw [pullFeed_slots_length, hst]) (fun e he => h e (by simp [he]))

end ScVerif.C17
