import ScVerif.C17.SerialLemmas
import ScVerif.C17.LiveLemmas
/-!
# C17 — what a point of quiescence looks like, whatever schedule led to it

Lemmas for `PropsQuiescence.lean`: at a configuration in which no step of the closer, the collector or a
released member goroutine is enabled, the closer's and the collector's states are functions of the channel
log and of which member goroutines have ended.
-/
namespace ScVerif.C17

theorem after_stable (C : Consumer σ ρ) (rs ss : List Tagged) (x : ρ) (h : C.after rs = .returned x) :
    C.after (rs ++ ss) = .returned x := by
  rw [after_append, h, foldl_returned]

/-- the channel log only ever grows at its end -/
theorem hist_append_only (C : Consumer σ ρ) (more : List Tid) (c : Config σ ρ) :
    ∃ ext, (exec C c more).hist = c.hist ++ ext := by
  induction more generalizing c with
  | nil => exact ⟨[], by simp [exec]⟩
  | cons t ts ih =>
    show ∃ ext, (exec C (stepD C c t) ts).hist = c.hist ++ ext
    obtain ⟨e2, h2⟩ := ih (stepD C c t)
    have h1 : ∃ e1, (stepD C c t).hist = c.hist ++ e1 := by
      unfold stepD
      cases hs : step C c t with
      | none => exact ⟨[], by simp⟩
      | some c' =>
        cases t with
        | member i =>
          simp only [step, stepMember] at hs
          split at hs
          · injection hs with hs; subst hs; exact ⟨[], by simp⟩
          · split at hs
            · injection hs with hs; subst hs; exact ⟨_, rfl⟩
            · cases hs
          · injection hs with hs; subst hs; exact ⟨[], by simp⟩
          · cases hs
        | closer =>
          simp only [step, stepCloser] at hs
          split at hs
          · split at hs
            · injection hs with hs; subst hs; exact ⟨[], by simp⟩
            · cases hs
          · injection hs with hs; subst hs; exact ⟨[], by simp⟩
          · cases hs
        | consumer =>
          simp only [step, stepConsumer] at hs
          split at hs
          · split at hs
            · injection hs with hs; subst hs; exact ⟨[], by simp⟩
            · split at hs
              · injection hs with hs; subst hs; exact ⟨[], by simp⟩
              · cases hs
          · split at hs
            · injection hs with hs; subst hs; exact ⟨[], by simp⟩
            · injection hs with hs; subst hs; exact ⟨[], by simp⟩
          · cases hs
        | env =>
          simp only [step] at hs
          injection hs with hs; subst hs; exact ⟨[], by simp⟩
    obtain ⟨e1, h1⟩ := h1
    exact ⟨e1 ++ e2, by rw [h2, h1, List.append_assoc]⟩

/-- a closer that cannot move waits for a member that has not ended, or has finished -/
theorem closer_stuck (C : Consumer σ ρ) (c : Config σ ρ) (hinv : Inv C c) (hcl : ClosedInv c)
    (hst : step C c .closer = none) :
    c.closer = (if c.members.all MPc.isDone then .done else .waiting)
    ∧ c.closed = c.members.all MPc.isDone := by
  simp only [step, stepCloser] at hst
  cases hc : c.closer with
  | waiting =>
    rw [hc] at hst
    have hall : c.members.all MPc.isDone = false := by
      cases h : c.members.all MPc.isDone with
      | false => rfl
      | true => simp [h] at hst
    refine ⟨by simp [hall], ?_⟩
    rw [hall]
    cases hcd : c.closed with
    | false => rfl
    | true => have := hinv.closedOK hcd; rw [hc] at this; cases this
  | woke => rw [hc] at hst; simp at hst
  | done =>
    have hall := hinv.closerOK (by rw [hc]; simp)
    exact ⟨by simp [hall], by rw [hall]; exact hcl hc⟩

/-- a collector that cannot move: what it holds is determined by the channel log -/
theorem consumer_stuck (C : Consumer σ ρ) (c : Config σ ρ) (hinv : Inv C c)
    (hst : step C c .consumer = none) :
    (∀ x b, c.cons = .returned x b → x = C.result c.hist
        ∧ ((C.after c.hist).isReturned = true ∨ c.closed = true))
    ∧ (c.cons.isReturned = false → c.closed = false ∧ c.taken = c.hist.length
        ∧ ∃ s cf, c.cons = .idle s ∧ C.after c.hist = .running s cf ∧ c.cancelled = (c.envCancelled || cf)) := by
  have hc := hinv.cons
  unfold ConsOK at hc
  simp only [step, stepConsumer] at hst
  cases hcs : c.cons with
  | idle s =>
    rw [hcs] at hst hc
    simp only at hst hc
    have hnone : c.hist[c.taken]? = none := by
      cases h : c.hist[c.taken]? with
      | none => rfl
      | some r => simp [h] at hst
    have hclosed : c.closed = false := by
      cases h : c.closed with
      | false => rfl
      | true => simp [hnone, h] at hst
    have htaken : c.taken = c.hist.length := by
      have := hinv.takenLe
      have : c.hist.length ≤ c.taken := by
        rcases Nat.lt_or_ge c.taken c.hist.length with h | h
        · rw [List.getElem?_eq_getElem h] at hnone; cases hnone
        · exact h
      omega
    obtain ⟨cf, h1, h2⟩ := hc
    rw [htaken, List.take_length] at h1
    refine ⟨(by intro x b h; cases h), fun _ => ⟨hclosed, htaken, s, cf, rfl, h1, h2⟩⟩
  | got s r =>
    rw [hcs] at hst
    simp only at hst
    split at hst <;> cases hst
  | returned x b =>
    rw [hcs] at hc
    refine ⟨?_, (by intro h; simp [ConsPc.isReturned] at h)⟩
    intro x' b' hx
    injection hx with hx1 hx2
    subst hx1; subst hx2
    cases b with
    | false =>
      simp only at hc
      have hsplit : c.hist = c.hist.take c.taken ++ c.hist.drop c.taken := (List.take_append_drop _ _).symm
      have hst' := after_stable C (c.hist.take c.taken) (c.hist.drop c.taken) x hc.1
      rw [← hsplit] at hst'
      refine ⟨?_, Or.inl (by rw [hst']; rfl)⟩
      simp [Consumer.result, hst', Consumer.finish]
    | true =>
      simp only at hc
      obtain ⟨_, h2, _, s, cf, h4, h5⟩ := hc
      refine ⟨?_, Or.inr h2⟩
      simp [Consumer.result, h4, Consumer.finish, h5]

end ScVerif.C17
