import ScVerif.C17.PipelineComplete
import ScVerif.C17.PipelineFlow
/-!
# C17 — the calm-state economy of the driver's exploration loses no point of quiescence
-/
namespace ScVerif.C17.Pipe
open ScVerif.C17

variable {V : Type}

/-- every lane: a member closure that has not been called has no handler -/
def Cfg.WF (c : Cfg V) : Prop := ∀ l ∈ c.lanes, l.wf

/-! ## well-formedness is kept by every step -/

theorem wf_set (c : Cfg V) (i : Nat) (l' : Lane V) (h : c.WF) (hl : l'.wf) :
    ∀ l ∈ c.lanes.set i l', l.wf := by
  intro l hm
  rcases List.mem_or_eq_of_mem_set hm with h1 | h1
  · exact h l h1
  · exact h1 ▸ hl

theorem onLane_wf (c c' : Cfg V) (i : Nat) (f : Lane V → Option (Lane V)) (h : c.onLane i f = some c')
    (hwf : c.WF) (hf : ∀ l l', f l = some l' → l.wf → l'.wf) : c'.WF := by
  obtain ⟨l, l', hl, hfl, rfl⟩ := onLane_some c c' i f h
  exact wf_set c i l' hwf (hf l l' hfl (hwf l (List.mem_of_getElem? hl)))

theorem hStartLane_wf (w k : Bool) (l l' : Lane V) (h : hStartLane w k l = some l') (hw : l.wf) : l'.wf := by
  unfold hStartLane at h
  split at h
  · split at h <;> (simp at h; subst h; intro hm; have := hw hm; simp_all)
  · simp at h; subst h; intro _; rfl
  · simp at h

theorem hCtxLane_wf (w : Bool) (l l' : Lane V) (h : hCtxLane w l = some l') (_hw : l.wf) : l'.wf := by
  unfold hCtxLane at h
  split at h
  · simp at h; subst h; intro _; rfl
  · split at h
    · simp at h; subst h; intro _; rfl
    · simp at h
  · simp at h

theorem handLane_wf (l l' : Lane V) (h : handLane l = some l') (_hw : l.wf) : l'.wf := by
  unfold handLane at h
  split at h
  · simp at h; subst h; intro hm; simp at hm
  · simp at h

theorem mCtxLane_wf (l l' : Lane V) (h : mCtxLane l = some l') (_hw : l.wf) : l'.wf := by
  unfold mCtxLane at h
  split at h
  · simp at h
  · simp at h
  · simp at h; subst h; intro hm; simp at hm

theorem mStartLane_wf (k : Bool) (l l' : Lane V) (h : mStartLane k l = some l') (_hw : l.wf) : l'.wf := by
  unfold mStartLane at h
  split at h
  · simp at h; subst h; intro hm; split at hm <;> simp at hm
  · simp at h

theorem mEofLane_wf (l l' : Lane V) (h : mEofLane l = some l') (_hw : l.wf) : l'.wf := by
  unfold mEofLane at h
  split at h
  · simp at h; subst h; intro hm; simp at hm
  · simp at h

theorem step_wf [DecidableEq V] (P : Params V) (c c' : Cfg V) (lbl : Lbl V) (h : step P c lbl = some c')
    (hwf : c.WF) : c'.WF := by
  cases lbl <;> simp only [step] at h
  case mStart i =>
    split at h
    · exact onLane_wf _ _ _ _ h hwf (mStartLane_wf _)
    · simp at h
  case hStart i => exact onLane_wf _ _ _ _ h hwf (hStartLane_wf _ _)
  case hCtx i =>
    split at h
    · exact onLane_wf _ _ _ _ h hwf (hCtxLane_wf _)
    · simp at h
  case hand i => exact onLane_wf _ _ _ _ h hwf handLane_wf
  case mCtx i =>
    split at h
    · exact onLane_wf _ _ _ _ h hwf mCtxLane_wf
    · simp at h
  case mEof i => exact onLane_wf _ _ _ _ h hwf mEofLane_wf
  case give i =>
    split at h
    · next l hl =>
      split at h
      · simp at h; subst h
        exact wf_set c i _ hwf (by intro hm; simp at hm)
      · simp at h
    · simp at h
  case poke i x =>
    refine onLane_wf _ _ _ _ h hwf ?_
    intro l l' hl hw
    simp at hl; subst hl; exact hw
  case cancel => simp at h; subst h; exact hwf
  all_goals
    split at h
    · simp at h; subst h; exact hwf
    · simp at h

/-! ## steps on different lanes commute -/

theorem onLane_comm (c c1 d : Cfg V) (i j : Nat) (f g : Lane V → Option (Lane V)) (hij : i ≠ j)
    (h1 : c.onLane i f = some c1) (h2 : c.onLane j g = some d) :
    ∃ d1, d.onLane i f = some d1 ∧ c1.onLane j g = some d1 := by
  obtain ⟨li, li', hli, hfi, rfl⟩ := onLane_some _ _ _ _ h1
  obtain ⟨lj, lj', hlj, hgj, rfl⟩ := onLane_some _ _ _ _ h2
  refine ⟨{ c with lanes := (c.lanes.set j lj').set i li' }, ?_, ?_⟩
  · simp only [Cfg.onLane]
    rw [List.getElem?_set_ne (Ne.symm hij)]
    simp [hli, hfi]
  · simp only [Cfg.onLane]
    rw [List.getElem?_set_ne hij]
    simp [hlj, hgj]
    exact List.set_comm _ _ hij

theorem give_onLane_comm [DecidableEq V] (P : Params V) (c c1 d : Cfg V) (i j : Nat) (f : Lane V → Option (Lane V))
    (hij : i ≠ j) (h1 : c.onLane i f = some c1) (h2 : step P c (.give j) = some d) :
    ∃ d1, d.onLane i f = some d1 ∧ step P c1 (.give j) = some d1 := by
  obtain ⟨li, li', hli, hfi, rfl⟩ := onLane_some _ _ _ _ h1
  simp only [step] at h2 ⊢
  rw [List.getElem?_set_ne hij]
  split at h2
  · next lj hlj =>
    split at h2
    · next v hm hloop =>
      simp at h2; subst h2
      simp only [hm, hloop, Cfg.onLane]
      rw [List.getElem?_set_ne (Ne.symm hij)]
      simp [hli, hfi]
      exact List.set_comm _ _ hij
    · simp at h2
  · simp at h2

/-! ## calm states -/

def Lane.calm (l : Lane V) : Bool :=
  (!l.h.isEnded || l.m.isNotStarted) && !l.m.isEnded && l.pend.all Option.isSome

theorem calm_iff (c : Cfg V) :
    c.calm = true ↔ c.cancelled = false ∧ c.execDone = false ∧ ∀ l ∈ c.lanes, l.calm = true := by
  simp only [Cfg.calm, Lane.calm, Bool.and_eq_true, List.all_eq_true, Bool.not_eq_true']
  constructor
  · rintro ⟨⟨h1, h2⟩, h3⟩; exact ⟨h1, h2, h3⟩
  · rintro ⟨h1, h2, h3⟩; exact ⟨⟨h1, h2⟩, h3⟩

theorem calm_endedCount (c : Cfg V) (h : c.calm = true) : c.endedCount = 0 := by
  obtain ⟨_, _, hl⟩ := (calm_iff c).mp h
  unfold Cfg.endedCount
  apply List.countP_eq_zero.mpr
  intro l hm
  have := hl l hm
  simp only [Lane.calm, Bool.and_eq_true, Bool.not_eq_true'] at this
  simp [this.1.2]

theorem calm_set (c : Cfg V) (i : Nat) (l' : Lane V) (h : c.calm = true) (hl : l'.calm = true) :
    ({ c with lanes := c.lanes.set i l' } : Cfg V).calm = true := by
  obtain ⟨h1, h2, h3⟩ := (calm_iff c).mp h
  refine (calm_iff _).mpr ⟨h1, h2, ?_⟩
  intro l hm
  rcases List.mem_or_eq_of_mem_set hm with h4 | h4
  · exact h3 l h4
  · exact h4 ▸ hl

theorem onLane_calm (c c' : Cfg V) (i : Nat) (f : Lane V → Option (Lane V)) (h : c.onLane i f = some c')
    (hc : c.calm = true) (hwf : c.WF) (hf : ∀ l l', f l = some l' → l.calm = true → l.wf → l'.calm = true) :
    c'.calm = true := by
  obtain ⟨l, l', hl, hfl, rfl⟩ := onLane_some c c' i f h
  have hm := List.mem_of_getElem? hl
  exact calm_set c i l' hc (hf l l' hfl (((calm_iff c).mp hc).2.2 l hm) (hwf l hm))

theorem hStartLane_calm (w : Bool) (l l' : Lane V) (h : hStartLane w false l = some l') (hc : l.calm = true)
    (_hw : l.wf) : l'.calm = true := by
  unfold hStartLane at h
  simp only [Lane.calm, Bool.and_eq_true, Bool.not_eq_true', Bool.or_eq_true] at hc ⊢
  split at h
  · next v rest hh hp =>
    simp at h; subst h
    simp only [hp, List.all_cons, Bool.and_eq_true] at hc
    refine ⟨⟨Or.inl rfl, hc.1.2⟩, hc.2.2⟩
  · next rest hh hp =>
    simp [hp] at hc
  · simp at h

theorem handLane_calm (l l' : Lane V) (h : handLane l = some l') (hc : l.calm = true) (_hw : l.wf) :
    l'.calm = true := by
  unfold handLane at h
  simp only [Lane.calm, Bool.and_eq_true, Bool.not_eq_true', Bool.or_eq_true] at hc ⊢
  split at h
  · simp at h; subst h
    exact ⟨⟨Or.inl rfl, rfl⟩, hc.2⟩
  · simp at h

theorem mStartLane_calm (l l' : Lane V) (h : mStartLane false l = some l') (hc : l.calm = true) (_hw : l.wf) :
    l'.calm = true := by
  unfold mStartLane at h
  simp only [Lane.calm, Bool.and_eq_true, Bool.not_eq_true', Bool.or_eq_true] at hc ⊢
  split at h
  · simp at h; subst h
    exact ⟨⟨Or.inl rfl, rfl⟩, hc.2⟩
  · simp at h

/-- in a calm state the steps that need a cancelled context, an ended thread or `Execute`'s return are not enabled -/
theorem calm_disabled [DecidableEq V] (P : Params V) (hret : 0 < P.retAfter) (c : Cfg V) (hc : c.calm = true) :
    (∀ j, step P c (.hCtx j) = none) ∧ (∀ j, step P c (.mCtx j) = none) ∧ (∀ j, step P c (.mEof j) = none)
    ∧ (∀ j, step P c (.mStart (j + 1)) = none)
    ∧ step P c .execCancel = none ∧ step P c .execRet = none ∧ step P c .loopErr = none := by
  obtain ⟨h1, h2, h3⟩ := (calm_iff c).mp hc
  have h0 := calm_endedCount c hc
  refine ⟨?_, ?_, ?_, ?_, ?_, ?_, ?_⟩
  · intro j; simp [step, h1]
  · intro j; simp [step, h1]
  · intro j
    simp only [step, Cfg.onLane]
    cases hl : c.lanes[j]? with
    | none => rfl
    | some l =>
      have := h3 l (List.mem_of_getElem? hl)
      simp only [Lane.calm, Bool.and_eq_true, Bool.not_eq_true', Bool.or_eq_true] at this
      simp only [Option.map_eq_none_iff]
      unfold mEofLane
      split
      · next hh hm => simp [hh, hm, HSt.isEnded, MSt.isNotStarted] at this
      · rfl
  · intro j
    have hp : c.prevEnded (j + 1) = false := by
      simp only [Cfg.prevEnded]
      split
      · next p hl =>
        have := h3 p (List.mem_of_getElem? hl)
        simp only [Lane.calm, Bool.and_eq_true, Bool.not_eq_true', Bool.or_eq_true] at this
        exact this.1.2
      · rfl
    simp [step, hp]
  · simp [step, h0]
  · simp [step, h0, h2]; omega
  · simp [step, h2]

theorem calm_of_set (c c' : Cfg V) (i : Nat) (l' : Lane V) (h : c.calm = true) (hl : l'.calm = true)
    (h1 : c'.cancelled = c.cancelled) (h2 : c'.execDone = c.execDone) (h3 : c'.lanes = c.lanes.set i l') :
    c'.calm = true := by
  have := calm_set c i l' h hl
  obtain ⟨a, b, d⟩ := (calm_iff _).mp this
  exact (calm_iff c').mpr ⟨by rw [h1]; exact a, by rw [h2]; exact b, by rw [h3]; exact d⟩

/-- the steps enabled in a calm state lead to calm states -/
theorem calm_step [DecidableEq V] (P : Params V) (hret : 0 < P.retAfter) (c d : Cfg V) (l : Lbl V)
    (hc : c.calm = true) (hwf : c.WF) (hi : l.internal = true) (h2 : step P c l = some d) : d.calm = true := by
  obtain ⟨h1, _, h3⟩ := (calm_iff c).mp hc
  obtain ⟨d1, d2, d3, d4, d5, d6, d7⟩ := calm_disabled P hret c hc
  cases l with
  | mStart j =>
    cases j with
    | zero =>
      simp only [step, Cfg.prevEnded, if_true, h1] at h2
      exact onLane_calm _ _ _ _ h2 hc hwf mStartLane_calm
    | succ j => rw [d4 j] at h2; cases h2
  | hStart j =>
    simp only [step, h1] at h2
    exact onLane_calm _ _ _ _ h2 hc hwf (hStartLane_calm _)
  | hand j =>
    simp only [step] at h2
    exact onLane_calm _ _ _ _ h2 hc hwf handLane_calm
  | give j =>
    simp only [step] at h2
    split at h2
    · next lj hlj =>
      split at h2
      · next v hm hloop =>
        simp at h2; subst h2
        refine calm_of_set c _ j { lj with m := .recv } hc ?_ rfl rfl rfl
        have := h3 lj (List.mem_of_getElem? hlj)
        simp only [Lane.calm, Bool.and_eq_true, Bool.not_eq_true', Bool.or_eq_true] at this ⊢
        rw [hm] at this
        refine ⟨⟨?_, rfl⟩, this.2⟩
        rcases this.1.1 with h | h
        · exact Or.inl h
        · simp [MSt.isNotStarted] at h
      · simp at h2
    · simp at h2
  | hCtx j => rw [d1 j] at h2; cases h2
  | mCtx j => rw [d2 j] at h2; cases h2
  | mEof j => rw [d3 j] at h2; cases h2
  | execCancel => rw [d5] at h2; cases h2
  | execRet => rw [d6] at h2; cases h2
  | loopErr => rw [d7] at h2; cases h2
  | poke j x => cases hi
  | sendOk => cases hi
  | sendFail => cases hi
  | cancel => cases hi

/-! ## the steps of a calm state that act on one lane only -/

def laneOp (P : Params V) : Lbl V → Option (Nat × (Lane V → Option (Lane V)))
  | .hStart i => some (i, hStartLane P.watch false)
  | .hand i => some (i, handLane)
  | .mStart 0 => some (0, mStartLane false)
  | _ => none

theorem step_laneOp [DecidableEq V] (P : Params V) (c : Cfg V) (lbl : Lbl V) (i : Nat) (f : Lane V → Option (Lane V))
    (h : laneOp P lbl = some (i, f)) (hc : c.cancelled = false) : step P c lbl = c.onLane i f := by
  cases lbl with
  | hStart j => simp [laneOp] at h; obtain ⟨rfl, rfl⟩ := h; simp [step, hc]
  | hand j => simp [laneOp] at h; obtain ⟨rfl, rfl⟩ := h; simp [step]
  | mStart j =>
    cases j with
    | zero => simp [laneOp] at h; obtain ⟨rfl, rfl⟩ := h; simp [step, hc, Cfg.prevEnded]
    | succ j => simp [laneOp] at h
  | _ => simp [laneOp] at h

theorem hStartLane_some (w k : Bool) (l l' : Lane V) (h : hStartLane w k l = some l') : l.h = .idle := by
  unfold hStartLane at h
  split at h
  · next hh _ => exact hh
  · next hh _ => exact hh
  · simp at h

theorem handLane_some (l l' : Lane V) (h : handLane l = some l') : (∃ v, l.h = .sending v) ∧ l.m = .recv := by
  unfold handLane at h
  split at h
  · next v hh hm => exact ⟨⟨v, hh⟩, hm⟩
  · simp at h

theorem mStartLane_some (k : Bool) (l l' : Lane V) (h : mStartLane k l = some l') : l.m = .notStarted := by
  unfold mStartLane at h
  split at h
  · next hm => exact hm
  · simp at h

/-- an eager step and a different lane step are never both enabled on one lane -/
theorem laneOp_exclusive (P : Params V) (e l : Lbl V) (i : Nat) (f g : Lane V → Option (Lane V))
    (he : e = .hStart i ∨ e = .hand i) (hne : l ≠ e)
    (hf : laneOp P e = some (i, f)) (hg : laneOp P l = some (i, g)) (li a b : Lane V) (hw : li.wf)
    (h1 : f li = some a) (h2 : g li = some b) : False := by
  rcases he with rfl | rfl
  · simp [laneOp] at hf; subst hf
    have hidle := hStartLane_some _ _ _ _ h1
    cases l with
    | hStart j => simp [laneOp] at hg; exact hne (by rw [hg.1])
    | hand j =>
      simp [laneOp] at hg; obtain ⟨_, rfl⟩ := hg
      obtain ⟨⟨v, hv⟩, _⟩ := handLane_some _ _ h2
      rw [hidle] at hv; cases hv
    | mStart j =>
      cases j with
      | zero =>
        simp [laneOp] at hg; obtain ⟨_, rfl⟩ := hg
        have := hw (mStartLane_some _ _ _ h2)
        rw [hidle] at this; cases this
      | succ j => simp [laneOp] at hg
    | _ => simp [laneOp] at hg
  · simp [laneOp] at hf; subst hf
    obtain ⟨⟨v, hv⟩, hm⟩ := handLane_some _ _ h1
    cases l with
    | hand j => simp [laneOp] at hg; exact hne (by rw [hg.1])
    | hStart j =>
      simp [laneOp] at hg; obtain ⟨_, rfl⟩ := hg
      have := hStartLane_some _ _ _ _ h2
      rw [hv] at this; cases this
    | mStart j =>
      cases j with
      | zero =>
        simp [laneOp] at hg; obtain ⟨_, rfl⟩ := hg
        have := mStartLane_some _ _ _ h2
        rw [hm] at this; cases this
      | succ j => simp [laneOp] at hg
    | _ => simp [laneOp] at hg

/-- handler `i` enters `SendMsg` / the loop takes what member `i` holds: in either order -/
theorem give_hStart_same [DecidableEq V] (P : Params V) (c c1 d : Cfg V) (i : Nat)
    (h1 : c.onLane i (hStartLane P.watch false) = some c1) (h2 : step P c (.give i) = some d) :
    ∃ d1, d.onLane i (hStartLane P.watch false) = some d1 ∧ step P c1 (.give i) = some d1 := by
  obtain ⟨li, a, hli, hfa, rfl⟩ := onLane_some _ _ _ _ h1
  have hlt : i < c.lanes.length := (List.getElem?_eq_some_iff.mp hli).1
  simp only [step, hli] at h2
  split at h2
  · next v hm hloop =>
    simp at h2; subst h2
    -- what hStartLane does does not depend on the member's state
    have ha : a.m = li.m ∧ hStartLane P.watch false { li with m := .recv } = some { a with m := .recv } := by
      unfold hStartLane at hfa ⊢
      split at hfa
      · next v' rest hh hp => simp at hfa; subst hfa; simp [hh, hp]
      · next rest hh hp => simp at hfa; subst hfa; simp [hh, hp]
      · simp at hfa
    refine ⟨{ c with lanes := c.lanes.set i { a with m := .recv }, st := pullFeed P.red c.st (i, [v]),
                       log := c.log ++ [(i, v)],
                       loop := if (pullFeed P.red c.st (i, [v])).sent.length = c.st.sent.length then .selecting else .inSend },
      ?_, ?_⟩
    · simp only [Cfg.onLane]
      rw [List.getElem?_set_self (by simpa using hlt)]
      simp only [ha.2, Option.map_some, List.set_set]
    · simp only [step]
      rw [List.getElem?_set_self (by simpa using hlt)]
      simp only [ha.1, hm, hloop, List.set_set]
  · simp at h2

/-- **the diamond.** In a calm state an eager step `e` (`hStart i` / `hand i`) and any other enabled step `l` of the
pipeline's own threads can be taken in either order, with the same result. -/
theorem diamond [DecidableEq V] (P : Params V) (hret : 0 < P.retAfter) (c c1 d : Cfg V) (i : Nat) (e l : Lbl V)
    (he : e = .hStart i ∨ e = .hand i) (hc : c.calm = true) (hwf : c.WF) (hi : l.internal = true) (hne : l ≠ e)
    (h1 : step P c e = some c1) (h2 : step P c l = some d) :
    ∃ d1, step P d e = some d1 ∧ step P c1 l = some d1 := by
  have hei : e.internal = true := by rcases he with rfl | rfl <;> rfl
  have hdc := calm_step P hret c d l hc hwf hi h2
  have hc1c := calm_step P hret c c1 e hc hwf hei h1
  have hcn := ((calm_iff c).mp hc).1
  have hdn := ((calm_iff d).mp hdc).1
  have hc1n := ((calm_iff c1).mp hc1c).1
  obtain ⟨f, hf⟩ : ∃ f, laneOp P e = some (i, f) := by rcases he with rfl | rfl <;> exact ⟨_, rfl⟩
  rw [step_laneOp P c e i f hf hcn] at h1
  rw [step_laneOp P d e i f hf hdn]
  cases hlo : laneOp P l with
  | some jg =>
    obtain ⟨j, g⟩ := jg
    rw [step_laneOp P c l j g hlo hcn] at h2
    rw [step_laneOp P c1 l j g hlo hc1n]
    by_cases hij : i = j
    · subst hij
      obtain ⟨li, a, hli, hfa, _⟩ := onLane_some _ _ _ _ h1
      obtain ⟨li', b, hli', hgb, _⟩ := onLane_some _ _ _ _ h2
      rw [hli] at hli'; cases hli'
      exact (laneOp_exclusive P e l i f g he hne hf hlo li a b (hwf li (List.mem_of_getElem? hli)) hfa hgb).elim
    · exact onLane_comm c c1 d i j f g hij h1 h2
  | none =>
    obtain ⟨d1, d2, d3, d4, d5, d6, d7⟩ := calm_disabled P hret c hc
    cases l with
    | give j =>
      by_cases hij : i = j
      · subst hij
        rcases he with rfl | rfl
        · simp [laneOp] at hf; subst hf
          exact give_hStart_same P c c1 d i h1 h2
        · simp [laneOp] at hf; subst hf
          obtain ⟨li, a, hli, hfa, _⟩ := onLane_some _ _ _ _ h1
          obtain ⟨_, hm⟩ := handLane_some _ _ hfa
          simp only [step, hli, hm] at h2
          cases h2
      · exact give_onLane_comm P c c1 d i j f hij h1 h2
    | hStart j => simp [laneOp] at hlo
    | hand j => simp [laneOp] at hlo
    | mStart j =>
      cases j with
      | zero => simp [laneOp] at hlo
      | succ j => rw [d4 j] at h2; cases h2
    | hCtx j => rw [d1 j] at h2; cases h2
    | mCtx j => rw [d2 j] at h2; cases h2
    | mEof j => rw [d3 j] at h2; cases h2
    | execCancel => rw [d5] at h2; cases h2
    | execRet => rw [d6] at h2; cases h2
    | loopErr => rw [d7] at h2; cases h2
    | poke j x => cases hi
    | sendOk => cases hi
    | sendFail => cases hi
    | cancel => cases hi

/-- an eager step enabled in a calm state can be moved to the front of any run of internal steps that ends at a
point of quiescence -/
theorem eager_first [DecidableEq V] (P : Params V) (hret : 0 < P.retAfter) (ls : List (Lbl V)) (c c1 q : Cfg V)
    (i : Nat) (e : Lbl V) (he : e = .hStart i ∨ e = .hand i) (hc : c.calm = true) (hwf : c.WF)
    (hall : ∀ l ∈ ls, l.internal = true) (h1 : step P c e = some c1) (hrun : run P c ls = some q) (hq : Quiet P q) :
    ∃ ls', ls'.length + 1 = ls.length ∧ (∀ l ∈ ls', l.internal = true) ∧ run P c1 ls' = some q := by
  have hei : e.internal = true := by rcases he with rfl | rfl <;> rfl
  induction ls generalizing c c1 with
  | nil =>
    simp [run] at hrun; subst hrun
    rw [hq e hei] at h1; cases h1
  | cons l rest ih =>
    simp only [run] at hrun
    cases hs : step P c l with
    | none => simp [hs] at hrun
    | some d =>
      simp only [hs] at hrun
      have hli := hall l (by simp)
      by_cases hle : l = e
      · subst hle
        rw [hs] at h1; cases h1
        exact ⟨rest, rfl, fun x hx => hall x (by simp [hx]), hrun⟩
      · obtain ⟨d1, hd1, hc1l⟩ := diamond P hret c c1 d i e l he hc hwf hli hle h1 hs
        have hdc := calm_step P hret c d l hc hwf hli hs
        have hdw := step_wf P c d l hs hwf
        obtain ⟨ls', hlen, hint, hr⟩ := ih d d1 hdc hdw (fun x hx => hall x (by simp [hx])) hd1 hrun
        refine ⟨l :: ls', by simp [hlen], ?_, ?_⟩
        · intro x hx
          simp only [List.mem_cons] at hx
          rcases hx with rfl | hx
          · exact hli
          · exact hint x hx
        · simp only [run, hc1l]; exact hr

/-! ## completeness of the exploration -/

theorem internal_mem [DecidableEq V] (P : Params V) (c d : Cfg V) (l : Lbl V) (hi : l.internal = true)
    (hs : step P c l = some d) : l ∈ internalLabels c.lanes.length := by
  have key : ∀ i, (c.lanes.length ≤ i → False) → i < c.lanes.length := fun i h => by
    by_cases h2 : c.lanes.length ≤ i
    · exact (h h2).elim
    · omega
  cases l with
  | mStart i => exact (mem_internalLabels _ i (key i fun h => by rw [(step_out_of_range P c i h).1] at hs; cases hs)).1
  | hStart i => exact (mem_internalLabels _ i (key i fun h => by rw [(step_out_of_range P c i h).2.1] at hs; cases hs)).2.1
  | hCtx i => exact (mem_internalLabels _ i (key i fun h => by rw [(step_out_of_range P c i h).2.2.1] at hs; cases hs)).2.2.1
  | hand i => exact (mem_internalLabels _ i (key i fun h => by rw [(step_out_of_range P c i h).2.2.2.1] at hs; cases hs)).2.2.2.1
  | mCtx i => exact (mem_internalLabels _ i (key i fun h => by rw [(step_out_of_range P c i h).2.2.2.2.1] at hs; cases hs)).2.2.2.2.1
  | mEof i => exact (mem_internalLabels _ i (key i fun h => by rw [(step_out_of_range P c i h).2.2.2.2.2.1] at hs; cases hs)).2.2.2.2.2.1
  | give i => exact (mem_internalLabels _ i (key i fun h => by rw [(step_out_of_range P c i h).2.2.2.2.2.2] at hs; cases hs)).2.2.2.2.2.2
  | execCancel => simp [internalLabels]
  | execRet => simp [internalLabels]
  | loopErr => simp [internalLabels]
  | poke i x => cases hi
  | sendOk => cases hi
  | sendFail => cases hi
  | cancel => cases hi

/-- a step of the model from `c` is a step from its log-free copy, to the log-free copy of the result -/
theorem step_of_eraseLog [DecidableEq V] (P : Params V) (c d : Cfg V) (l : Lbl V) (hs : step P c l = some d) :
    ∃ d', step P (eraseLog c) l = some d' ∧ eraseLog d' = eraseLog d := by
  have := step_eraseLog P c l
  rw [hs] at this
  cases h : step P (eraseLog c) l with
  | none => simp [h] at this
  | some d' => simp [h] at this; exact ⟨d', rfl, this⟩

theorem step_to_eraseLog [DecidableEq V] (P : Params V) (c x : Cfg V) (l : Lbl V) (hs : step P (eraseLog c) l = some x) :
    ∃ d, step P c l = some d ∧ eraseLog d = eraseLog x := by
  have := step_eraseLog P c l
  rw [hs] at this
  cases h : step P c l with
  | none => simp [h] at this
  | some d => simp [h] at this; exact ⟨d, rfl, this.symm⟩

theorem step_mem_succsD [DecidableEq V] (P : Params V) (c d : Cfg V) (l : Lbl V)
    (hfull : succsD P (eraseLog c) = (succs P (eraseLog c)).map eraseLog) (hi : l.internal = true)
    (hs : step P c l = some d) : eraseLog d ∈ succsD P (eraseLog c) := by
  obtain ⟨d', hd', he⟩ := step_of_eraseLog P c d l hs
  rw [hfull, ← he]
  apply List.mem_map_of_mem
  simp only [succs, List.mem_filterMap]
  exact ⟨l, internal_mem P (eraseLog c) d' l hi hd', hd'⟩

theorem quiet_eraseLog [DecidableEq V] (P : Params V) (q : Cfg V) (hq : Quiet P q) : Quiet P (eraseLog q) := by
  intro l hi
  cases h : step P (eraseLog q) l with
  | none => rfl
  | some x =>
    obtain ⟨d, hd, _⟩ := step_to_eraseLog P q x l h
    rw [hq l hi] at hd; cases hd

theorem quiet_succsD_empty [DecidableEq V] (P : Params V) (c : Cfg V) (hq : Quiet P c) : (succsD P c).isEmpty = true := by
  have hs : (succs P c).isEmpty = true := (succs_isEmpty_iff P c).mpr hq
  unfold succsD
  simp only
  split
  · next c' he =>
    split at he
    · obtain ⟨l₁, a, l₂, hl, hsa, _⟩ := List.findSome?_eq_some_iff.mp he
      rw [hq a (eagerLabels_internal _ a (by rw [hl]; simp))] at hsa; cases hsa
    · cases he
  · simp only [succs, List.isEmpty_iff] at hs
    simp [hs]

theorem mem_eagerLabels (n : Nat) (e : Lbl V) (h : e ∈ (eagerLabels n : List (Lbl V))) :
    ∃ i, e = .hStart i ∨ e = .hand i := by
  simp only [eagerLabels, List.mem_flatMap, List.mem_range] at h
  obtain ⟨i, _, hm⟩ := h
  simp at hm
  exact ⟨i, hm⟩

theorem step_lanes_length [DecidableEq V] (P : Params V) (c d : Cfg V) (l : Lbl V) (hs : step P c l = some d) :
    d.lanes.length = c.lanes.length :=
  run_lanes_length P [l] c d (by simp [run, hs])

/-- every point of quiescence the model reaches from `c` by steps of its own threads is reached by the driver's
successor function from the log-free copy of `c` -/
theorem reduced_reaches [DecidableEq V] (P : Params V) (m : Nat) :
    ∀ (ls : List (Lbl V)) (c q : Cfg V), ls.length = m → c.WF → (c.lanes.length ≠ 0 → 0 < P.retAfter) →
      (∀ l ∈ ls, l.internal = true) → run P c ls = some q → Quiet P q → PathD P (eraseLog c) (eraseLog q) := by
  induction m with
  | zero =>
    intro ls c q hlen _ _ _ hrun _
    cases ls with
    | nil => simp [run] at hrun; subst hrun; exact PathD.refl _
    | cons a as => simp at hlen
  | succ m ih =>
    intro ls c q hlen hwf hret hall hrun hq
    -- the first step of the run is a successor of the exploration whenever the exploration lists all successors
    have full : succsD P (eraseLog c) = (succs P (eraseLog c)).map eraseLog → PathD P (eraseLog c) (eraseLog q) := by
      intro hfull
      cases ls with
      | nil => simp at hlen
      | cons l rest =>
        simp only [run] at hrun
        cases hs : step P c l with
        | none => simp [hs] at hrun
        | some d =>
          simp only [hs] at hrun
          have hli := hall l (by simp)
          refine PathD.step _ (eraseLog d) _ (step_mem_succsD P c d l hfull hli hs) ?_
          exact ih rest d q (by simpa using hlen) (step_wf P c d l hs hwf)
            (by rw [step_lanes_length P c d l hs]; exact hret) (fun x hx => hall x (by simp [hx])) hrun hq
    cases hcalm : (eraseLog c).calm with
    | false => exact full (succsD_not_calm P _ hcalm)
    | true =>
      cases hfind : (eagerLabels (eraseLog c).lanes.length).findSome? (step P (eraseLog c)) with
      | none => exact full (succsD_calm_none P _ hfind)
      | some x =>
        obtain ⟨l₁, e, l₂, hl, hse, _⟩ := List.findSome?_eq_some_iff.mp hfind
        obtain ⟨i, he⟩ := mem_eagerLabels _ e (by rw [hl]; simp)
        obtain ⟨c1, hc1, hce⟩ := step_to_eraseLog P c x e hse
        have hne : c.lanes.length ≠ 0 := by
          intro h0
          have : (eagerLabels (eraseLog c).lanes.length : List (Lbl V)) = [] := by
            show (eagerLabels c.lanes.length : List (Lbl V)) = []
            rw [h0]; rfl
          rw [this] at hl
          simp at hl
        obtain ⟨ls', hlen', hint, hr⟩ := eager_first P (hret hne) ls c c1 q i e he hcalm hwf hall hc1 hrun hq
        have hp := ih ls' c1 q (by omega) (step_wf P c c1 e hc1 hwf)
          (by rw [step_lanes_length P c c1 e hc1]; exact hret) hint hr hq
        refine PathD.step _ (eraseLog x) _ ?_ (hce ▸ hp)
        rw [succsD_calm_some P _ x hcalm hfind]
        simp

theorem quiet_of_eraseLog [DecidableEq V] (P : Params V) (q : Cfg V) (hq : Quiet P (eraseLog q)) : Quiet P q := by
  intro l hi
  cases h : step P q l with
  | none => rfl
  | some d =>
    obtain ⟨d', hd', _⟩ := step_of_eraseLog P q d l h
    rw [hq l hi] at hd'; cases hd'

/-- **completeness of `settle`**: every point of quiescence the model reaches from a state of `cs` by steps of its
own threads is (log dropped) in `settle P cs` -/
theorem settle_complete_full [DecidableEq V] (P : Params V) (cs : List (Cfg V))
    (c q : Cfg V) (hc : c ∈ cs) (hwf : c.WF) (hret : c.lanes.length ≠ 0 → 0 < P.retAfter)
    (ls : List (Lbl V)) (hall : ∀ l ∈ ls, l.internal = true)
    (hrun : run P c ls = some q) (hq : Quiet P q) : eraseLog q ∈ settle P cs :=
  settle_complete P cs c (eraseLog q) hc (reduced_reaches P ls.length ls c q rfl hwf hret hall hrun hq)
    (quiet_succsD_empty P _ (quiet_eraseLog P q hq))

theorem wf_init (n : Nat) : (Cfg.init n : Cfg V).WF := by
  intro l hl
  simp only [Cfg.init, List.mem_replicate] at hl
  obtain ⟨_, rfl⟩ := hl
  intro h; cases h

theorem wf_initSeq (n : Nat) : (Cfg.initSeq n : Cfg V).WF := by
  intro l hl
  simp only [Cfg.initSeq, List.mem_replicate] at hl
  obtain ⟨_, rfl⟩ := hl
  intro _; rfl

theorem run_wf [DecidableEq V] (P : Params V) (ls : List (Lbl V)) (c c' : Cfg V) (h : run P c ls = some c')
    (hwf : c.WF) : c'.WF := by
  induction ls generalizing c with
  | nil => simp [run] at h; subst h; exact hwf
  | cons l ls ih =>
    simp only [run] at h
    cases hs : step P c l with
    | none => simp [hs] at h
    | some d => simp only [hs] at h; exact ih d h (step_wf P c d l hs hwf)

end ScVerif.C17.Pipe
