import ScVerif.C17.SerialDrvLemmas
/-!
# C17 — the driver's serial schedule observes the model at its points of quiescence

The tie compares what the harness sees of the code at points of quiescence (every goroutine of the call
parked, members still gated excepted) with what the driver reports of the thread-level model at the end of
`settle` and of each `block i`.  For the comparison to mean "same schedule", those ends must be points of
quiescence of the model too - for every collector loop, group, release order and cancellation point, not
only for the cases a run happens to execute.
-/
namespace ScVerif.C17

/-- **C17_serial_points_quiescent.** For every collector loop, every group of behaviours (cancellation-aware
or not, the empty group included), every release order `order` (any list of indices: repeated or
out-of-range ones release nobody) and every point `pc` at which the caller cancels: every observation
point of `runSerial` - after the initial `settle` and after each `block i` - is a point of quiescence of
the thread-level model: no step of the closer, of the collector, or of a member goroutine that has been
released is enabled; only gated members and the caller can move.  So the driver's answers describe the
model exactly where the harness looks at the code, and `settle` / `block` are long enough for every
case (a schedule that stopped short would leave a step enabled). -/
theorem C17_serial_points_quiescent (C : Consumer σ ρ) (behs : List Beh) (order : List Nat) (pc : Option Nat) :
    (runSerial C behs order pc).quiet = true := by
  unfold runSerial
  have hq0 : Quiet C (exec C (Config.spawn C behs) settle) := spawn_settle_quiet C behs behs.length
  have hinv0 : Inv C (exec C (Config.spawn C behs) settle) :=
    inv_exec C _ _ (inv_init C behs behs.length (Nat.le_refl _))
  have h := serialGo_quiet C pc order 0 _
    (observe C (exec C (Config.spawn C behs) settle) 0 ⟨none, none, [], List.replicate behs.length none, 0, true⟩)
    hq0 hinv0 (by simp [observe, quiet_quiescent C _ hq0])
  simp only
  exact h.1

/-- a quiescent point really is one: after releasing member 1 of two under Fast, the collector has
returned, member 1 and nobody else has ended, the closer waits - and no step but member 0's is enabled -/
example :
    let c := exec fast (exec fast (Config.spawn fast [⟨⟨none, some 1⟩, none⟩, ⟨⟨some 2, none⟩, none⟩]) settle) (block 1)
    c.quiescent fast = true ∧ c.alive = 2 ∧ (step fast c (.member 0)).isSome = true := by decide

/-- ... and a configuration in the middle of a block is not: member 1 has sent, the collector has not yet
received -/
example :
    let c := exec fast (Config.spawn fast [⟨⟨none, some 1⟩, none⟩, ⟨⟨some 2, none⟩, none⟩]) [.member 1, .member 1]
    c.quiescent fast = false := by decide

end ScVerif.C17
