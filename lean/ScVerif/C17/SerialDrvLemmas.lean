import ScVerif.C17.Drv
import ScVerif.C17.SerialLemmas
/-! The driver's `serialGo` keeps the shape `Quiet` from observation point to observation point. -/
namespace ScVerif.C17

theorem serialGo_quiet (C : Consumer σ ρ) (pc : Option Nat) :
    ∀ (order : List Nat) (k : Nat) (c : Config σ ρ) (tr : Trace ρ), Quiet C c → Inv C c → tr.quiet = true →
      (serialGo C pc k order c tr).2.quiet = true
        ∧ Quiet C (serialGo C pc k order c tr).1 ∧ Inv C (serialGo C pc k order c tr).1 := by
  intro order
  induction order with
  | nil => intro k c tr hq hinv ht; exact ⟨ht, hq, hinv⟩
  | cons i rest ih =>
    intro k c tr hq hinv ht
    simp only [serialGo]
    have hq1 : Quiet C (if pc = some k then stepD C c .env else c) := by
      split
      · exact quiet_env C c hq
      · exact hq
    have hinv1 : Inv C (if pc = some k then stepD C c .env else c) := by
      split
      · exact inv_stepD C c .env hinv
      · exact hinv
    have hq2 := block_quiet C _ hq1 hinv1 i
    have hinv2 : Inv C (exec C (if pc = some k then stepD C c .env else c) (block i)) := inv_exec C _ _ hinv1
    apply ih (k + 1) _ _ hq2 hinv2
    simp [observe, ht, quiet_quiescent C _ hq2]

end ScVerif.C17
