import ScVerif.C17.LiveLemmas
import ScVerif.C17.PropsThreads
/-!
# C17 — the call returns, for every schedule, every group size (including none) and every channel with
room for one response per member

`PropsThreads.lean` shows that the goroutines `executeEach` starts end.  Here the other half of "the call
never blocks": the caller's own goroutine.  `Config.init C behs cap` is a call whose response channel has
capacity `cap`; the code makes `cap = len(members)` (`Config.spawn`).
-/
namespace ScVerif.C17

/-- **C17_call_returns.** For every collector loop `C` (UpTo with any budget, Fast, Race), every group
`behs` - the empty one included -, every channel capacity `cap ≥ len(members)` and every schedule `sched`
(the caller cancelling its context at any time included), in the state `c` reached:
1. *no deadlock*: if neither the collector nor any goroutine of `executeEach` can take a step, then the call
   has returned and every goroutine it started has ended - with no members the closer still closes the
   channel, so the collector's `range` ends (what change 11 of the seeded set breaks: nobody closes);
2. *progress*: every step of the collector or of a goroutine of `executeEach` uses up one unit of `work`,
   and there are at most `5n+4` units: under ANY scheduling, after at most `5n+4` steps of the call's own
   threads the call has returned and all its goroutines have ended - it does not depend on fairness
   between them, on the members' outcomes, or on the caller's cancellation. -/
theorem C17_call_returns (C : Consumer σ ρ) (behs : List Beh) (cap : Nat) (hcap : behs.length ≤ cap)
    (sched : List Tid) :
    let c := exec C (Config.init C behs cap) sched
    ((∀ t : Tid, t ≠ .env → step C c t = none) → c.consReturned = true ∧ c.spawnedDone = true)
    ∧ (∀ t c', t ≠ .env → step C c t = some c' → c'.work < c.work)
    ∧ c.work ≤ 5 * behs.length + 4 := by
  intro c
  have hinv : Inv C c := inv_exec C sched _ (inv_init C behs cap hcap)
  have hclosed : ClosedInv c := closedInv_exec C sched _ (closedInv_init C behs cap)
  have hstat := exec_static C sched (Config.init C behs cap)
  refine ⟨?_, ?_, ?_⟩
  · intro hst
    have hsp : c.spawnedDone = true := by
      apply spawned_stuck_done C c hinv
      intro t ht
      apply hst
      intro he; subst he; simp [Tid.spawned] at ht
    refine ⟨?_, hsp⟩
    have hd : c.closer = .done := by
      simp only [Config.spawnedDone, Bool.and_eq_true, beq_iff_eq] at hsp
      exact hsp.2
    have hcons := hst .consumer (by intro h; cases h)
    exact consumer_stuck_returned C c (hclosed hd) hcons
  · intro t c' hne hs
    unfold Config.work
    cases t with
    | member i =>
      simp only [step] at hs
      have h1 := pending_member c c' i hs
      have h2 := consTodo_keeps c c' (member_keeps c c' i hs)
      omega
    | closer =>
      simp only [step] at hs
      have h1 := pending_closer c c' hs
      have h2 := consTodo_keeps c c' (closer_keeps c c' hs)
      omega
    | consumer =>
      simp only [step] at hs
      have h1 := pending_consumer C c c' hs
      have h2 := consTodo_consumer C c c' hinv hs
      omega
    | env => exact absurd rfl hne
  · have h1 := pending_le c
    have h2 := consTodo_le c
    have h3 : c.members.length = behs.length := by
      rw [hstat.2.2]; simp [Config.init]
    have h4 : c.behs.length = behs.length := by rw [hstat.1]; simp [Config.init]
    unfold Config.work
    omega

/-- The empty group, concretely: under the schedule closer, closer, collector every strategy's loop has
returned - UpTo (All / Most / Any) with an empty slice and no error, Fast and Race with "no members
returned a response" - and nothing is left. -/
example :
    (exec (upTo 0 (allowedAny 0)) (Config.spawn (upTo 0 (allowedAny 0)) []) [.closer, .closer, .consumer]).cons
        = .returned ⟨[], none⟩ true
    ∧ (exec fast (Config.spawn fast []) [.closer, .closer, .consumer]).cons = .returned ⟨none, 0, some .noResponse⟩ true
    ∧ (exec race (Config.spawn race []) [.closer, .closer, .consumer]).cons = .returned ⟨none, 0, some .noResponse⟩ true
    ∧ (exec race (Config.spawn race []) [.closer, .closer, .consumer]).work = 0 := by
  refine ⟨rfl, rfl, rfl, rfl⟩

/-- **C17_room_suffices.** `C17_goroutines_end` for every channel capacity `cap ≥ len(members)`, not only
the one the code makes: whatever the collector does (returning after the first response and never
receiving again included), under every schedule, goroutines of `executeEach` that cannot move have all
ended, and their work is bounded by `3n+2` steps. -/
theorem C17_room_suffices (C : Consumer σ ρ) (behs : List Beh) (cap : Nat) (hcap : behs.length ≤ cap)
    (sched : List Tid) :
    let c := exec C (Config.init C behs cap) sched
    ((∀ t : Tid, t.spawned = true → step C c t = none) → c.spawnedDone = true)
    ∧ c.pending ≤ 3 * behs.length + 2 := by
  intro c
  have hinv : Inv C c := inv_exec C sched _ (inv_init C behs cap hcap)
  refine ⟨spawned_stuck_done C c hinv, ?_⟩
  have h1 := pending_le c
  have h3 : c.members.length = behs.length := by
    rw [(exec_static C sched (Config.init C behs cap)).2.2]; simp [Config.init]
  omega

/-- **C17_fast_race_end_to_end.** ExecuteFast and ExecuteRace under every schedule, with
cancellation-aware members and the caller cancelling at any time.  Let `got` be the responses the
collector has taken from the channel, in the order they were sent, when the call has returned `x`:
* every response in `got` is tagged with a member's index and is one of that member's own possible
  responses (its normal one, or the one it gives under a cancelled context);
* Race: `x` is the first response of `got` - message, index and error - and if there is none the group is
  empty and `x` is "no members returned a response";
* Fast: if `r` is the first success in `got`, `x` is `r`'s message at `r`'s index without error; if `got`
  holds no success, the call returned because the channel was closed, `got` holds one response per member
  (all failed, every member goroutine has ended) and `x` is the first error received, or "no members
  returned a response" for the empty group. -/
theorem C17_fast_race_end_to_end (behs : List Beh) (sched : List Tid) :
    (let c := exec race (Config.spawn race behs) sched
     let got := c.hist.take c.taken
     ∀ x b, c.cons = .returned x b →
      (∀ r ∈ got, ∃ bh, behs[r.1]? = some bh ∧ (r.2 = bh.normal ∨ bh.onCancel = some r.2))
      ∧ (∀ r rest, got = r :: rest → x = ⟨r.2.msg, r.1, r.2.err.map Err.member⟩)
      ∧ (got = [] → behs = [] ∧ x = ⟨none, 0, some .noResponse⟩))
    ∧ (let c := exec fast (Config.spawn fast behs) sched
       let got := c.hist.take c.taken
       ∀ x b, c.cons = .returned x b →
        (∀ r ∈ got, ∃ bh, behs[r.1]? = some bh ∧ (r.2 = bh.normal ∨ bh.onCancel = some r.2))
        ∧ (∀ pre r post, got = pre ++ r :: post → (∀ y ∈ pre, y.2.err.isSome) → r.2.err = none →
            x = ⟨r.2.msg, r.1, none⟩)
        ∧ ((∀ y ∈ got, y.2.err.isSome) →
            b = true ∧ got.length = behs.length ∧ c.members.all MPc.isDone = true
            ∧ x = (match got.head? with
              | none => ⟨none, 0, some .noResponse⟩
              | some r => ⟨none, r.1, r.2.err.map Err.member⟩))) := by
  have own : ∀ {σ : Type} (C : Consumer σ Single) (r : Tagged),
      r ∈ (exec C (Config.spawn C behs) sched).hist.take (exec C (Config.spawn C behs) sched).taken →
      ∃ bh, behs[r.1]? = some bh ∧ (r.2 = bh.normal ∨ bh.onCancel = some r.2) := by
    intro σ C r hr
    exact (C17_channel_log C behs sched).2.1 r.1 r.2 (List.mem_of_mem_take hr)
  constructor
  · intro c got x b hx
    have href := (C17_threads_refine race behs sched).1 x b hx
    refine ⟨fun r hr => own race r hr, ?_, ?_⟩
    · intro r rest hgot
      have h1 := href.1
      rw [show c.hist.take c.taken = r :: rest from hgot, (C17_race.1 r rest).1] at h1
      exact h1
    · intro hgot
      have h1 := href.1
      rw [show c.hist.take c.taken = [] from hgot, C17_race.2] at h1
      cases b with
      | false =>
        -- returned from inside the loop: some response was received
        have hinv : Inv race c := inv_exec race sched _ (inv_init race behs behs.length (Nat.le_refl _))
        have hc := hinv.cons
        unfold ConsOK at hc
        rw [hx] at hc
        simp only at hc
        rw [show c.hist.take c.taken = [] from hgot] at hc
        have : race.after [] = .running () false := rfl
        rw [this] at hc
        cases hc.1
      | true =>
        obtain ⟨h2, _, h4⟩ := href.2.2 rfl
        have hlen : got.length = behs.length := by
          show (c.hist.take c.taken).length = behs.length
          rw [h2, List.take_length]; exact h4
        rw [show got = [] from hgot] at hlen
        exact ⟨List.eq_nil_of_length_eq_zero hlen.symm, h1⟩
  · intro c got x b hx
    have href := (C17_threads_refine fast behs sched).1 x b hx
    refine ⟨fun r hr => own fast r hr, ?_, ?_⟩
    · intro pre r post hgot hpre hr
      have h1 := href.1
      rw [show c.hist.take c.taken = pre ++ r :: post from hgot, (C17_fast.1 pre post r hpre hr).1] at h1
      exact h1
    · intro hall
      have hb : b = true := by
        cases b with
        | true => rfl
        | false =>
          have hinv : Inv fast c := inv_exec fast sched _ (inv_init fast behs behs.length (Nat.le_refl _))
          have hc := hinv.cons
          unfold ConsOK at hc
          rw [hx] at hc
          simp only at hc
          have h2 := fast_after_fail (c.hist.take c.taken) hall
          rw [h2] at hc
          cases hc.1
      subst hb
      obtain ⟨h2, h3, h4⟩ := href.2.2 rfl
      refine ⟨rfl, ?_, h3, ?_⟩
      · show (c.hist.take c.taken).length = behs.length
        rw [h2, List.take_length]; exact h4
      · have h1 := href.1
        rw [(C17_fast.2.1 (c.hist.take c.taken) hall).1] at h1
        exact h1

/-- **C17_room_needed.** The converse of `C17_room_suffices`, for every collector loop, every group, every
channel capacity and EVERY schedule: the number of member goroutines that have ended never exceeds the
number of responses the collector has taken plus the capacity (plus one for an unbuffered channel: the
rendezvous); hence all goroutines of `executeEach` can only have ended if the collector took at least
`n - cap` responses; and once the collector has returned it never takes another one, whatever happens
afterwards.  So a collector that returns after `k` responses on a channel with less room than `n - k`
leaves member goroutines behind in EVERY execution - not only under unlucky timing. -/
theorem C17_room_needed (C : Consumer σ ρ) (behs : List Beh) (cap : Nat) (sched : List Tid) :
    let c := exec C (Config.init C behs cap) sched
    c.members.countP MPc.isDone ≤ c.taken + max cap 1
    ∧ (c.spawnedDone = true → behs.length ≤ c.taken + max cap 1)
    ∧ (c.consReturned = true → ∀ more : List Tid,
        (exec C c more).taken = c.taken ∧ (exec C c more).cons = c.cons) := by
  intro c
  have hr : Room c := room_exec C sched _ (room_init C behs cap)
  have hlen : c.members.length = behs.length := by
    rw [(exec_static C sched (Config.init C behs cap)).2.2]; simp [Config.init]
  have hcap : c.cap = cap := by
    rw [(exec_static C sched (Config.init C behs cap)).2.1]; simp [Config.init]
  have hcnt : c.members.countP MPc.isDone ≤ c.taken + max cap 1 := by
    have h1 := countP_isDone_le_hasSent c.members
    have h2 := hr.histLen
    have h3 := hr.room
    rw [hcap] at h3
    omega
  refine ⟨hcnt, ?_, ?_⟩
  · intro hsd
    simp only [Config.spawnedDone, Bool.and_eq_true] at hsd
    have := List.countP_eq_length.mpr (fun m hm => (List.all_eq_true.mp hsd.1) m hm)
    omega
  · intro hret more
    exact returned_frozen C more c hret

/-- **C17_small_buffer_race_always_leaks.** `C17_room_needed` for ExecuteRace, which takes at most one
response: on a response channel of capacity `cap` with at least `cap + 2` members (`2 + 1` for an
unbuffered channel), whatever the members return, however the goroutines are scheduled, whenever the
caller cancels, never more than `cap + 1` member goroutines get past their send: at every moment of every
execution at least `n - cap - 1` member goroutines have not ended, so the goroutines of `executeEach`
never all end (and the closer, which waits for them, neither).  A bounded buffer (seeded change 12:
`min(len(members), 8)`, leaking from 10 members on) is therefore not a matter of unlucky timing: every
call leaks.  Only a capacity that grows with the group (`C17_room_suffices`: `cap ≥ n`) is safe for all
collectors. -/
theorem C17_small_buffer_race_always_leaks (behs : List Beh) (cap : Nat)
    (h : max cap 1 + 2 ≤ behs.length) (sched : List Tid) :
    let c := exec race (Config.init race behs cap) sched
    c.members.length = behs.length
    ∧ c.members.countP MPc.isDone ≤ max cap 1 + 1
    ∧ c.spawnedDone = false := by
  intro c
  have ht : RaceTaken c := raceTaken_exec sched _ (by simp [RaceTaken, Config.init])
  have hlen : c.members.length = behs.length := by
    rw [(exec_static race sched (Config.init race behs cap)).2.2]; simp [Config.init]
  have hcnt : c.members.countP MPc.isDone ≤ max cap 1 + 1 := by
    have h1 : c.members.countP MPc.isDone ≤ c.taken + max cap 1 := (C17_room_needed race behs cap sched).1
    have h4 : c.taken ≤ 1 := ht.2
    omega
  refine ⟨hlen, hcnt, ?_⟩
  cases hsd : c.spawnedDone with
  | false => rfl
  | true =>
    simp only [Config.spawnedDone, Bool.and_eq_true] at hsd
    have := List.countP_eq_length.mpr (fun m hm => (List.all_eq_true.mp hsd.1) m hm)
    omega

/-- the hypothesis is satisfiable by what seeded change 12 makes: capacity 8, ten members -/
example : max 8 1 + 2 ≤ (List.replicate 10 (⟨⟨some 1, none⟩, none⟩ : Beh)).length := by decide

/-- ten members that all succeed -/
def tenOK : List Beh := (List.range 10).map fun i => ⟨⟨some (i + 1), none⟩, none⟩

/-- every member's function returns; members 0..7 send (the buffer is full); the collector takes one
response and returns (Race); member 8 sends into the slot that became free; the members that have sent end -/
def leakSched8 : List Tid :=
  (List.range 10).map Tid.member ++ (List.range 8).map Tid.member ++ [.consumer, .consumer, .member 8]
    ++ (List.range 9).map Tid.member

set_option maxRecDepth 20000 in
/-- **C17_bounded_buffer_would_leak.** Why the capacity must grow with the group (seeded change 12: a
buffer of `min(len(members), 8)`): Race over ten succeeding members on a channel of capacity 8 has a
schedule after which every member function has returned and the call has returned - with the right
value, member 0's response - yet member 9's goroutine can never send and the closer never wakes: no
goroutine of `executeEach` can move and two of them have not ended.  `C17_room_suffices` excludes this
for every capacity ≥ the number of members; groups of up to 9 members never show it with capacity 8. -/
theorem C17_bounded_buffer_would_leak :
    let c := exec race (Config.init race tenOK 8) leakSched8
    c.allReturned = true
    ∧ (match c.cons with | .returned x byClose => some (x, byClose) | _ => none) = some (⟨some 1, 0, none⟩, false)
    ∧ c.spawnedDone = false
    ∧ c.alive = 2
    ∧ (∀ t : Tid, t.spawned = true → (step race c t).isNone = true) := by
  refine ⟨by rfl, by rfl, by rfl, by rfl, ?_⟩
  intro t ht
  cases t with
  | member i =>
    match i with
    | 0 => rfl
    | 1 => rfl
    | 2 => rfl
    | 3 => rfl
    | 4 => rfl
    | 5 => rfl
    | 6 => rfl
    | 7 => rfl
    | 8 => rfl
    | 9 => rfl
    | k + 10 => rfl
  | closer => rfl
  | consumer => simp [Tid.spawned] at ht
  | env => simp [Tid.spawned] at ht

set_option maxRecDepth 20000 in
/-- ... and the same members and schedule on the channel the code makes (capacity 10): member 9 can send. -/
example :
    (step race (exec race (Config.spawn race tenOK) leakSched8) (.member 9)).isSome = true := by rfl

end ScVerif.C17
