import ScVerif.C17.PipelineLemmas
/-!
# C17 — the driver's exploration of the Pull pipeline (`Pipe.settle`) only returns what the model can do

`settle P cs` is what the driver answers the harness with: the points of quiescence reachable from the states
`cs` by the pipeline's own steps.  Here: every state it returns IS such a point (soundness of the set the real
observation is looked up in - the tie cannot accept an observation the model does not allow).  The ghost `log`
is dropped by the exploration; no step reads it.
-/
namespace ScVerif.C17.Pipe
open ScVerif.C17

variable {V : Type}

def eraseLog (c : Cfg V) : Cfg V := { c with log := [] }

theorem eraseLog_idem (c : Cfg V) : eraseLog (eraseLog c) = eraseLog c := rfl

theorem onLane_eraseLog (c : Cfg V) (i : Nat) (f : Lane V → Option (Lane V)) :
    (eraseLog c).onLane i f = (c.onLane i f).map eraseLog := by
  simp only [Cfg.onLane, eraseLog]
  cases c.lanes[i]? with
  | none => rfl
  | some l => cases hf : f l <;> simp [hf] <;> rfl

theorem ite_map_eraseLog (b : Bool) (x y : Cfg V) (h : eraseLog x = eraseLog y) :
    (if b = true then some x else none).map eraseLog = (if b = true then some y else none).map eraseLog := by
  cases b <;> simp [h]

/-- no step reads the ghost log -/
theorem step_eraseLog [DecidableEq V] (P : Params V) (c : Cfg V) (lbl : Lbl V) :
    (step P (eraseLog c) lbl).map eraseLog = (step P c lbl).map eraseLog := by
  cases lbl <;> simp only [step]
  case mStart i =>
    show (if c.prevEnded i = true then (eraseLog c).onLane i (mStartLane c.cancelled) else none).map eraseLog = _
    split
    · rw [onLane_eraseLog]; cases c.onLane i (mStartLane c.cancelled) <;> rfl
    · rfl
  case hStart i => rw [show (eraseLog c).cancelled = c.cancelled from rfl, onLane_eraseLog]; cases c.onLane i _ <;> rfl
  case hCtx i =>
    rw [show (eraseLog c).cancelled = c.cancelled from rfl]
    split
    · rw [onLane_eraseLog]; cases c.onLane i _ <;> rfl
    · rfl
  case hand i => rw [onLane_eraseLog]; cases c.onLane i _ <;> rfl
  case mCtx i =>
    rw [show (eraseLog c).cancelled = c.cancelled from rfl]
    split
    · rw [onLane_eraseLog]; cases c.onLane i _ <;> rfl
    · rfl
  case mEof i => rw [onLane_eraseLog]; cases c.onLane i _ <;> rfl
  case poke i x => rw [onLane_eraseLog]; cases c.onLane i _ <;> rfl
  case give i =>
    show (match c.lanes[i]? with | some l => _ | none => none).map eraseLog = _
    cases hl : c.lanes[i]? with
    | none => simp [eraseLog, hl]
    | some l =>
      simp only [eraseLog, hl]
      cases hm : l.m <;> cases hloop : c.loop <;> simp [hm, hloop, eraseLog] <;> rfl
  case cancel => rfl
  all_goals exact ite_map_eraseLog _ _ _ rfl

theorem run_append [DecidableEq V] (P : Params V) (c c1 c2 : Cfg V) (ls : List (Lbl V)) (l : Lbl V)
    (h1 : run P c ls = some c1) (h2 : step P c1 l = some c2) : run P c (ls ++ [l]) = some c2 := by
  induction ls generalizing c with
  | nil => simp [run] at h1; subst h1; simp [run, h2]
  | cons a as ih =>
    simp only [run, List.cons_append] at h1 ⊢
    cases hm : step P c a with
    | none => simp [hm] at h1
    | some cm =>
      simp only [hm] at h1 ⊢
      exact ih cm h1

/-- `c'` (log dropped) is reached from one of `cs` by steps of the pipeline's own threads -/
def Reach [DecidableEq V] (P : Params V) (cs : List (Cfg V)) (c' : Cfg V) : Prop :=
  ∃ c ∈ cs, ∃ (ls : List (Lbl V)) (c'' : Cfg V), (∀ l ∈ ls, l.internal = true) ∧ run P c ls = some c'' ∧ eraseLog c'' = c'

def Quiet [DecidableEq V] (P : Params V) (c : Cfg V) : Prop := ∀ lbl : Lbl V, lbl.internal = true → step P c lbl = none

theorem internalLabels_internal (n : Nat) : ∀ l ∈ (internalLabels n : List (Lbl V)), l.internal = true := by
  intro l hl
  simp only [internalLabels, List.mem_append, List.mem_flatMap, List.mem_range] at hl
  rcases hl with ⟨i, _, hm⟩ | hm
  · simp at hm; rcases hm with rfl | rfl | rfl | rfl | rfl | rfl | rfl <;> rfl
  · simp at hm; rcases hm with rfl | rfl | rfl <;> rfl

theorem eagerLabels_internal (n : Nat) : ∀ l ∈ (eagerLabels n : List (Lbl V)), l.internal = true := by
  intro l hl
  simp only [eagerLabels, List.mem_flatMap, List.mem_range] at hl
  obtain ⟨i, _, hm⟩ := hl
  simp at hm; rcases hm with rfl | rfl <;> rfl

/-- every successor the exploration lists is a successor in the model (log dropped) -/
theorem succsD_sound [DecidableEq V] (P : Params V) (c c1 : Cfg V) (h : c1 ∈ succsD P c) :
    ∃ (l : Lbl V) (c1' : Cfg V), l.internal = true ∧ step P c l = some c1' ∧ eraseLog c1' = c1 := by
  unfold succsD at h
  simp only at h
  split at h
  · next c' he =>
    simp at h; subst h
    split at he
    · obtain ⟨l₁, a, l₂, hl, hs, _⟩ := List.findSome?_eq_some_iff.mp he
      exact ⟨a, c', eagerLabels_internal _ a (by rw [hl]; simp), hs, rfl⟩
    · simp at he
  · simp only [List.mem_map, List.mem_filterMap] at h
    obtain ⟨c1', ⟨l, hl, hs⟩, rfl⟩ := h
    exact ⟨l, c1', internalLabels_internal _ l hl, hs, rfl⟩

theorem succsD_nil_quiet [DecidableEq V] (P : Params V) (c : Cfg V) (h : (succsD P c).isEmpty = true) : Quiet P c := by
  apply (succs_isEmpty_iff P c).mp
  unfold succsD at h
  simp only at h
  split at h
  · simp at h
  · simpa [succs] using h

theorem reach_step [DecidableEq V] (P : Params V) (cs : List (Cfg V)) (c c1 : Cfg V) (hr : Reach P cs c)
    (h : c1 ∈ succsD P c) : Reach P cs c1 := by
  obtain ⟨c0, hc0, ls, c'', hall, hrun, rfl⟩ := hr
  obtain ⟨l, c1', hi, hs, rfl⟩ := succsD_sound P _ c1 h
  have := step_eraseLog P c'' l
  rw [hs] at this
  cases hs' : step P c'' l with
  | none => simp [hs'] at this
  | some c2 =>
    simp [hs'] at this
    refine ⟨c0, hc0, ls ++ [l], c2, ?_, run_append P c0 c'' c2 ls l hrun hs', ?_⟩
    · intro x hx; simp at hx; rcases hx with hx | rfl
      · exact hall x hx
      · exact hi
    · exact this.symm

theorem settleLayers_sound [DecidableEq V] (P : Params V) (cs : List (Cfg V)) (k : Nat) (front acc : List (Cfg V))
    (hf : ∀ c ∈ front, Reach P cs c) (ha : ∀ c ∈ acc, Reach P cs c ∧ Quiet P c) :
    ∀ c ∈ settleLayers P k front acc, Reach P cs c ∧ Quiet P c := by
  induction k generalizing front acc with
  | zero => simpa [settleLayers] using ha
  | succ k ih =>
    have hq : ∀ c ∈ ((front.map fun c => (c, succsD P c)).filter fun x => x.2.isEmpty).map (·.1) ++ acc,
        Reach P cs c ∧ Quiet P c := by
      intro c hc
      simp only [List.mem_append, List.mem_map, List.mem_filter] at hc
      rcases hc with ⟨x, ⟨⟨c0, hc0, rfl⟩, hx⟩, rfl⟩ | hc
      · exact ⟨hf c0 hc0, succsD_nil_quiet P c0 hx⟩
      · exact ha c hc
    have hn : ∀ c ∈ (front.map fun c => (c, succsD P c)).flatMap (·.2), Reach P cs c := by
      intro c hc
      simp only [List.mem_flatMap, List.mem_map] at hc
      obtain ⟨x, ⟨c0, hc0, rfl⟩, hx⟩ := hc
      exact reach_step P cs c0 c (hf c0 hc0) hx
    simp only [settleLayers]
    split
    · intro c hc
      exact hq c (List.mem_eraseDups.mp hc)
    · exact ih _ _ (fun c hc => hn c (List.mem_eraseDups.mp hc)) (fun c hc => hq c (List.mem_eraseDups.mp hc))

theorem settle_sound [DecidableEq V] (P : Params V) (cs : List (Cfg V)) :
    ∀ c ∈ settle P cs, Reach P cs c ∧ Quiet P c := by
  apply settleLayers_sound
  · intro c hc
    simp only [List.mem_map] at hc
    obtain ⟨c0, hc0, rfl⟩ := hc
    exact ⟨c0, hc0, [], c0, by simp, rfl, rfl⟩
  · simp

end ScVerif.C17.Pipe
