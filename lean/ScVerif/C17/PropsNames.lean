import ScVerif.C17.Names
/-!
# C17 — any member list: one member per entry, its own index, no slot out of range

The member list of a trait Group is any list of strings (blank, repeated, odd names included).  These
theorems are about what `pullXActions` / the `actions` loops of `GetX`, `UpdateX` build from it and about
the indexed write `memberChanges[msg.i] = endChange` of the subscription loop, modelled with Go's bounds
check (`Names.lean`).  The harness feeds the same lists to the real Groups (`naming.go`); the driver's
loop model has no names - by `C17_group_actions_one_per_entry` the member list enters only through its
length.
-/
namespace ScVerif.C17

/-- **C17_group_actions_one_per_entry.** For every member list: the Group builds exactly one action per
entry, and the action at position `k` carries the index `k` and calls the name of entry `k` - whatever
that name is, and whether or not another entry has the same one.  (So group.Execute's "member k" is
entry k of the list, and a response tagged by closure `k` is reported at that entry's own index.) -/
theorem C17_group_actions_one_per_entry (members : List String) :
    (groupActions members).length = members.length
    ∧ ∀ k : Nat, (groupActions members)[k]? = members[k]?.map (fun nm => (k, nm)) := by
  refine ⟨actionsFrom_length 0 members, fun k => ?_⟩
  simpa [groupActions] using actionsFrom_getElem? 0 k members

/-- **C17_group_pull_slots_in_range.** "The call never panics", for the indexed write of the
subscription loop: for every member list, every reducer, and every sequence of member messages each
tagged by one of the closures the Group built from that list, `memberChanges` - one slot per entry of the
list - is never written out of range, and the loop does exactly what the unchecked loop model
(`pullRun`, the one the tie executes and the other Pull theorems speak of) does. -/
theorem C17_group_pull_slots_in_range [DecidableEq V] (reduce : List (Option V) → Option V)
    (members : List String) (evs : List (Nat × List V))
    (h : ∀ ev ∈ evs, ∃ a ∈ groupActions members, a.1 = ev.1) :
    pullRunChecked reduce members.length evs = some (pullRun reduce members.length evs) := by
  unfold pullRunChecked pullRun
  apply pullRunCheckedFrom_eq reduce members.length evs _ (by simp [pullInit])
  intro ev hev
  obtain ⟨a, ha, hae⟩ := h ev hev
  have := actionsFrom_mem 0 members a ha
  omega

/-- **C17_group_pull_slots_needed.** One slot per entry is also needed: for every member list and every
number of slots smaller than the list, the first non-empty message of the last member is a write out of
range (a panic).  In particular sizing `memberChanges` by anything that can be smaller than
`len(s.members)` - the number of subscriptions started, the number of named members - is not safe. -/
theorem C17_group_pull_slots_needed [DecidableEq V] (reduce : List (Option V) → Option V)
    (members : List String) (slots : Nat) (hs : slots < members.length) (v : V) :
    (∃ a ∈ groupActions members, a.1 = members.length - 1)
    ∧ pullRunChecked reduce slots [(members.length - 1, [v])] = none := by
  constructor
  · have h := (C17_group_actions_one_per_entry members).2 (members.length - 1)
    have hlt : members.length - 1 < members.length := by omega
    rw [List.getElem?_eq_getElem hlt] at h
    exact ⟨_, List.mem_of_getElem? h, rfl⟩
  · have hn : ¬ (members.length - 1 < slots) := by omega
    simp [pullRunChecked, pullRunCheckedFrom, pullFeedChecked, pullInit, hn]

/-- **C17_blank_skip_slot_out_of_range** (seeded change 20, both sites).  Leaving the blank names out of
the actions while the closures keep their index into the member list, and giving `memberChanges` one slot
per action: for EVERY member list that holds a blank name and ends with a named member, that member's
closure is still built, and its first non-empty message panics the loop. -/
theorem C17_blank_skip_slot_out_of_range [DecidableEq V] (reduce : List (Option V) → Option V)
    (pre : List String) (last : String) (hblank : "" ∈ pre) (hlast : last ≠ "") (v : V) :
    let members := pre ++ [last]
    (members.length - 1, last) ∈ groupActionsSkipBlank members
    ∧ pullRunChecked reduce (groupActionsSkipBlank members).length [(members.length - 1, [v])] = none := by
  intro members
  have hlen : members.length = pre.length + 1 := by simp [members]
  have hmem : (members.length - 1, last) ∈ groupActions members := by
    have h := (C17_group_actions_one_per_entry members).2 (members.length - 1)
    have hlt : members.length - 1 < members.length := by omega
    rw [List.getElem?_eq_getElem hlt] at h
    have hl : members[members.length - 1] = last := by
      simp [members, hlen]
    rw [hl] at h
    exact List.mem_of_getElem? h
  have hshort : (groupActionsSkipBlank members).length < members.length := by
    unfold groupActionsSkipBlank
    rw [← (C17_group_actions_one_per_entry members).1]
    apply List.length_filter_lt_length_iff_exists.mpr
    obtain ⟨k, hk, hkk⟩ := List.getElem_of_mem hblank
    refine ⟨(k, ""), ?_, by simp⟩
    have h := (C17_group_actions_one_per_entry members).2 k
    have hk' : k < members.length := by omega
    rw [List.getElem?_eq_getElem hk'] at h
    have : members[k] = "" := by
      simp [members, List.getElem_append_left hk, hkk]
    rw [this] at h
    exact List.mem_of_getElem? h
  refine ⟨?_, ?_⟩
  · unfold groupActionsSkipBlank
    exact List.mem_filter.mpr ⟨hmem, by simpa using hlast⟩
  · have hn : ¬ (members.length - 1 < (groupActionsSkipBlank members).length) := by omega
    simp [pullRunChecked, pullRunCheckedFrom, pullFeedChecked, pullInit, hn]

/-- non-vacuity: the member list of the seeded demo - a blank name ahead of a named member -/
example : groupActions ["", "x"] = [(0, ""), (1, "x")]
    ∧ groupActionsSkipBlank ["", "x"] = [(1, "x")]
    ∧ (pullRunChecked lightReduceChanges 2 [(1, [(40 : Rat)])]).isSome = true
    ∧ pullRunChecked lightReduceChanges 1 [(1, [(40 : Rat)])] = none := by decide

/-- ... and with the blank name last nothing goes wrong, which is what hid it -/
example : groupActionsSkipBlank ["x", ""] = [(0, "x")]
    ∧ (pullRunChecked lightReduceChanges 1 [(0, [(40 : Rat)])]).isSome = true := by decide

/-- repeated names are distinct members: two entries, two actions, two slots -/
example : groupActions ["d", "d"] = [(0, "d"), (1, "d")]
    ∧ (pullRunChecked onoffReduceChanges 2 [(0, [1]), (1, [2])]).map (·.sent) = some [some 1] := by decide

end ScVerif.C17
