import ScVerif.C17.PipelineSettle
/-!
# C17 — the driver's breadth-first exploration loses nothing of its successor relation

`settle_sound` (PipelineSettle.lean): everything `Pipe.settle` returns is a point of quiescence of the model.
Here the converse for the exploration itself: `settle P cs` contains EVERY state without successors that the
successor function the driver uses (`succsD`) can reach from `cs` - the fuel (`maxWork cs + 1` layers, one unit
of work per layer) is always enough, and neither the layering nor the removal of duplicates drops a state.
`succsD` is the model's full successor relation (`succs`, log dropped) except in calm states in which a step
`hStart i` / `hand i` is enabled, where it follows that step alone (`succsD_not_calm`, `succsD_calm_none`);
that this economy loses no point of quiescence (those steps commute with everything enabled in a calm state)
remains argued in Pipeline.lean, not proved.
-/
namespace ScVerif.C17.Pipe
open ScVerif.C17

variable {V : Type}

/-- reachability along the driver's successor function -/
inductive PathD [DecidableEq V] (P : Params V) : Cfg V → Cfg V → Prop where
  | refl (c : Cfg V) : PathD P c c
  | step (c c1 q : Cfg V) : c1 ∈ succsD P c → PathD P c1 q → PathD P c q

theorem eraseLog_work (c : Cfg V) : (eraseLog c).work = c.work := rfl

theorem succsD_work [DecidableEq V] (P : Params V) (c c1 : Cfg V) (h : c1 ∈ succsD P c) : c1.work < c.work := by
  obtain ⟨l, c1', hi, hs, rfl⟩ := succsD_sound P c c1 h
  rw [eraseLog_work]
  exact step_work P c c1' l hi hs

theorem settleLayers_complete [DecidableEq V] (P : Params V) (k : Nat) (front acc : List (Cfg V))
    (hw : ∀ c ∈ front, c.work < k) (q : Cfg V)
    (hq : q ∈ acc ∨ ∃ c ∈ front, PathD P c q ∧ (succsD P q).isEmpty = true) :
    q ∈ settleLayers P k front acc := by
  induction k generalizing front acc with
  | zero =>
    rcases hq with hq | ⟨c, hc, _⟩
    · simpa [settleLayers] using hq
    · exact absurd (hw c hc) (Nat.not_lt_zero _)
  | succ k ih =>
    -- where `q` is after this layer: among the quiescent states, or reachable from the next front
    have hsplit : q ∈ ((front.map fun c => (c, succsD P c)).filter fun x => x.2.isEmpty).map (·.1) ++ acc
        ∨ ∃ c1 ∈ (front.map fun c => (c, succsD P c)).flatMap (·.2), PathD P c1 q ∧ (succsD P q).isEmpty = true := by
      rcases hq with hq | ⟨c, hc, hp, hqq⟩
      · exact Or.inl (List.mem_append.mpr (Or.inr hq))
      · cases hp with
        | refl =>
          refine Or.inl (List.mem_append.mpr (Or.inl ?_))
          simp only [List.mem_map, List.mem_filter]
          exact ⟨(q, succsD P q), ⟨⟨q, hc, rfl⟩, hqq⟩, rfl⟩
        | step _ c1 _ h1 hrest =>
          refine Or.inr ⟨c1, ?_, hrest, hqq⟩
          simp only [List.mem_flatMap, List.mem_map]
          exact ⟨(c, succsD P c), ⟨c, hc, rfl⟩, h1⟩
    simp only [settleLayers]
    split
    · next hemp =>
      rcases hsplit with h | ⟨c1, hc1, _, _⟩
      · exact List.mem_eraseDups.mpr h
      · simp only [List.isEmpty_iff] at hemp
        rw [hemp] at hc1
        cases hc1
    · apply ih
      · intro c1 hc1
        have hc1' := List.mem_eraseDups.mp hc1
        simp only [List.mem_flatMap, List.mem_map] at hc1'
        obtain ⟨x, ⟨c0, hc0, rfl⟩, hx⟩ := hc1'
        have := succsD_work P c0 c1 hx
        have := hw c0 hc0
        omega
      · rcases hsplit with h | ⟨c1, hc1, hp, hqq⟩
        · exact Or.inl (List.mem_eraseDups.mpr h)
        · exact Or.inr ⟨c1, List.mem_eraseDups.mpr hc1, hp, hqq⟩

theorem foldl_max_le (cs : List (Cfg V)) (m : Nat) :
    m ≤ cs.foldl (fun m c => max m c.work) m ∧ ∀ c ∈ cs, c.work ≤ cs.foldl (fun m c => max m c.work) m := by
  induction cs generalizing m with
  | nil => simp
  | cons a as ih =>
    simp only [List.foldl_cons]
    obtain ⟨h1, h2⟩ := ih (max m a.work)
    refine ⟨by omega, ?_⟩
    intro c hc
    simp only [List.mem_cons] at hc
    rcases hc with rfl | hc
    · omega
    · exact h2 c hc

theorem work_le_maxWork (cs : List (Cfg V)) (c : Cfg V) (h : c ∈ cs) : c.work ≤ maxWork cs :=
  (foldl_max_le cs 0).2 c h

/-- every state without successors that `succsD` reaches from (the log-free copy of) a state of `cs` is in `settle P cs` -/
theorem settle_complete [DecidableEq V] (P : Params V) (cs : List (Cfg V)) (c q : Cfg V) (hc : c ∈ cs)
    (hp : PathD P (eraseLog c) q) (hq : (succsD P q).isEmpty = true) : q ∈ settle P cs := by
  apply settleLayers_complete
  · intro c' hc'
    simp only [List.mem_map] at hc'
    obtain ⟨c0, hc0, rfl⟩ := hc'
    have := work_le_maxWork cs c0 hc0
    show (eraseLog c0).work < _
    rw [eraseLog_work]
    omega
  · exact Or.inr ⟨eraseLog c, List.mem_map.mpr ⟨c, hc, rfl⟩, hp, hq⟩

/-- outside calm states the driver's successor function is the model's (log dropped) -/
theorem succsD_not_calm [DecidableEq V] (P : Params V) (c : Cfg V) (h : c.calm = false) :
    succsD P c = (succs P c).map eraseLog := by
  unfold succsD succs
  simp only [h]
  rfl

/-- in a calm state in which no `hStart i` / `hand i` is enabled as well -/
theorem succsD_calm_none [DecidableEq V] (P : Params V) (c : Cfg V)
    (h : (eagerLabels c.lanes.length).findSome? (step P c) = none) :
    succsD P c = (succs P c).map eraseLog := by
  unfold succsD succs
  simp only [h]
  cases c.calm <;> rfl

/-- in a calm state with such a step enabled it follows that step alone: a step of the model -/
theorem succsD_calm_some [DecidableEq V] (P : Params V) (c c1 : Cfg V) (hcalm : c.calm = true)
    (h : (eagerLabels c.lanes.length).findSome? (step P c) = some c1) :
    succsD P c = [eraseLog c1] := by
  unfold succsD
  simp only [hcalm, h]
  rfl

end ScVerif.C17.Pipe
