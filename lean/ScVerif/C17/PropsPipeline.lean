import ScVerif.C17.PipelineLemmas
import ScVerif.C17.PipelineFlow
import ScVerif.C17.PipelineSettle
/-!
# C17 — everything started for the members of a Group subscription ends once the subscription is cancelled

The last clause of the property, *every goroutine it starts ends once its members return*, for `PullX` of
a trait Group whose members are devices behind the library's in-process client (`WrapApi`): the member
closures handed to `group.Execute`, and behind each of them the device's handler goroutine, which meets
the member on the unbuffered channel of pkg/wrap/stream.go.  `Pipeline.lean` is the small-step model
(handler - wrap stream - member closure - group loop - subscriber; `Execute` abstracted to its proved
contract).  The theorems quantify over every number of members, every reducer, every state, every
behaviour of the devices and of the subscriber, and every scheduling of the threads.
-/
namespace ScVerif.C17
open ScVerif.C17.Pipe

/-- **C17_pull_members_released.** Take ANY state `c₀` of a Group subscription over `n` devices (any
strategy that runs its members side by side: `retAfter ≤ n`) in which the subscription's context is
cancelled - by the subscriber going away, by a failed `server.Send`, by `Execute` when too many members
have failed, or by `Execute` returning - and let the devices, the subscriber and the scheduler go on in
any way at all (`sched`: any sequence of enabled steps, the environment's included).  In the state `c`
reached:
1. the context is still cancelled;
2. *nobody is parked for ever*: if no thread of the pipeline can take a step, then every device handler
   and every member closure has ended (`left = 0`), `Execute` has returned, and the loop has returned or
   sits in the subscriber's `Send` (which is the subscriber's to end);
3. *and that point comes*: every run of the pipeline's own steps from `c` is at most `c.work` long -
   under any scheduling, with no fairness assumed (a select that has both its arms ready may take
   either), after at most `work` steps nothing of the subscription is left. -/
theorem C17_pull_members_released [DecidableEq V] (P : Params V) (hw : P.watch = true) (c₀ : Cfg V)
    (hret : P.retAfter ≤ c₀.lanes.length) (hc : c₀.cancelled = true) (sched : List (Lbl V)) (c : Cfg V)
    (hrun : run P c₀ sched = some c) :
    c.cancelled = true
    ∧ ((∀ lbl : Lbl V, lbl.internal = true → step P c lbl = none) →
        c.allEnded ∧ c.left = 0 ∧ c.execDone = true ∧ (c.loop = .returned ∨ c.loop = .inSend))
    ∧ (∀ (ls : List (Lbl V)) (c' : Cfg V), (∀ l ∈ ls, l.internal = true) → run P c ls = some c' →
        ls.length + c'.work ≤ c.work) := by
  have hc' := run_cancelled P sched c₀ c hrun hc
  have hlen := run_lanes_length P sched c₀ c hrun
  refine ⟨hc', ?_, ?_⟩
  · intro hst
    obtain ⟨h1, h2, h3⟩ := stuck_cancelled_ended P c hw hc' (by omega) hst
    exact ⟨h1, left_zero_of_allEnded c h1, h2, h3⟩
  · intro ls c' hall h
    exact run_internal_bound P ls c c' hall h

/-- **C17_pull_pipeline_progress.** Cancelled or not: every step of a thread of the pipeline uses up one
unit of `work`, and only the environment (a device producing a report, the subscriber answering a Send)
adds work.  Between two actions of its environment the subscription reaches a point of quiescence after
at most `work` steps, whatever the scheduler does - the points at which the harness observes the real
goroutines exist in every execution. -/
theorem C17_pull_pipeline_progress [DecidableEq V] (P : Params V) (c c' : Cfg V) (lbl : Lbl V)
    (hi : lbl.internal = true) (h : step P c lbl = some c') : c'.work < c.work :=
  step_work P c c' lbl hi h

/-- **C17_pull_pipeline_forwards_loop.** For every schedule from the start of the subscription (`Cfg.init`: the strategies that run their members
side by side; `Cfg.initSeq`: strategy One, which calls them one after the other), what
the subscriber has been sent (and the loop's `lastChange` / `memberChanges`) is the sequential Pull loop
of `Adapters.lean` run on the messages the loop has taken from its members, in the order taken: the
theorems of `PropsAdapters.lean` (never the same value twice in a row, convergence to the reduction of
the members' latest values) speak about the pipeline's output under every interleaving. -/
theorem C17_pull_pipeline_forwards_loop [DecidableEq V] (P : Params V) (n : Nat) (c₀ : Cfg V)
    (h₀ : c₀ = Cfg.init n ∨ c₀ = Cfg.initSeq n) (sched : List (Lbl V))
    (c : Cfg V) (hrun : run P c₀ sched = some c) :
    c.st = pullRun P.red n (c.log.map fun e => (e.1, [e.2])) :=
  run_logInv P n sched _ c hrun (by rcases h₀ with rfl | rfl <;> simp [Cfg.logInv, Cfg.init, Cfg.initSeq, pullRun])

/-- **C17_bare_send_leak_is_permanent.** The variant of `SendMsg` without the watch on the context (an
up-front `ctx.Err()` check and a bare `serverSend <- m`: seeded change 15): a device handler that is
inside `SendMsg` when its member closure returns stays there under EVERY continuation - whatever the
devices, the subscriber and the scheduler do afterwards, the goroutine is never released. -/
theorem C17_bare_send_leak_is_permanent [DecidableEq V] (P : Params V) (hw : P.watch = false) (c : Cfg V)
    (i : Nat) (hp : c.parked i) (sched : List (Lbl V)) (c' : Cfg V) (hrun : run P c sched = some c') :
    c'.parked i ∧ 0 < c'.left := by
  have := run_parked P hw sched c c' i hrun hp
  exact ⟨this, left_pos_of_parked c' i this⟩

/-- The schedule of seeded change 15 for one device: its first report reaches the subscriber, whose `Send`
parks; the second is held by the member closure (the loop is busy); the third is inside `SendMsg`; then
the subscriber's `Send` fails; the member sees its context and returns, `Execute` returns, `PullX` returns. -/
def stallSchedule : List (Lbl Nat) :=
  [.poke 0 (some 1), .hStart 0, .hand 0, .give 0,
   .poke 0 (some 2), .hStart 0, .hand 0,
   .poke 0 (some 1), .hStart 0,
   .sendFail, .mCtx 0, .execRet, .loopErr]

def onoffParams (watch : Bool) (n : Nat) : Params Nat := ⟨watch, 0, n, onoffReduceChanges⟩

/-- `p` holds in the state the schedule leads to (and the schedule is executable) -/
def holdsAfter (P : Params Nat) (n : Nat) (sched : List (Lbl Nat)) (p : Cfg Nat → Bool) : Bool :=
  match run P (Cfg.init n) sched with
  | some c => p c
  | none => false

def laneIs (c : Cfg Nat) (i : Nat) (h : HSt Nat) (m : MSt Nat) : Bool :=
  match c.lanes[i]? with
  | some l => l.h == h && l.m == m
  | none => false

/-- **C17_bare_send_would_leak.** Witness: under that schedule the variant reaches a state in which `PullX`
has returned, `Execute` has returned, the member closure has returned, nothing can move - and the device
handler is still inside `SendMsg` with its third report. -/
theorem C17_bare_send_would_leak :
    ∃ c : Cfg Nat, run (onoffParams false 1) (Cfg.init 1) stallSchedule = some c
      ∧ c.loop = .returned ∧ c.execDone = true ∧ c.parked 0 ∧ c.left = 1
      ∧ (∀ lbl : Lbl Nat, lbl.internal = true → step (onoffParams false 1) c lbl = none) := by
  have h : holdsAfter (onoffParams false 1) 1 stallSchedule (fun c =>
      c.loop == .returned && c.execDone && laneIs c 0 (.sending 1) .ended && c.left == 1
        && (succs (onoffParams false 1) c).isEmpty) = true := by decide
  unfold holdsAfter at h
  split at h
  · next c hc =>
    simp only [Bool.and_eq_true, beq_iff_eq] at h
    obtain ⟨⟨⟨⟨h1, h2⟩, h3⟩, h4⟩, h5⟩ := h
    refine ⟨c, hc, h1, h2, ?_, h4, (succs_isEmpty_iff _ c).mp h5⟩
    unfold laneIs at h3
    split at h3
    · next l hl =>
      simp only [Bool.and_eq_true, beq_iff_eq] at h3
      exact ⟨l, hl, ⟨1, h3.1⟩, h3.2⟩
    · simp at h3
  · simp at h

/-- Non-vacuity of `C17_pull_members_released`, and the same schedule on the code (`watch = true`): the
handler is released by the cancellation (`hCtx 0`), and then nothing is left and nothing can move. -/
example : holdsAfter (onoffParams true 1) 1 (stallSchedule ++ [.hCtx 0]) (fun c =>
    c.cancelled && c.loop == .returned && c.left == 0 && (succs (onoffParams true 1) c).isEmpty) = true := by
  decide

/-- the hypothesis `c₀.cancelled` of `C17_pull_members_released` is reached in the middle of the stall:
after the failed Send of `stallSchedule` the context is cancelled while the handler is in `SendMsg`, the
member holds a report and the loop waits for `Execute`: two threads left, 9 units of work. -/
example : holdsAfter (onoffParams true 1) 1 (stallSchedule.take 10) (fun c =>
    c.cancelled && c.left == 2 && c.loop == .draining && c.work == 9
      && laneIs c 0 (.sending 1) (.holding 2)) = true := by
  decide

/-- **C17_pull_lane_fifo.** For every schedule from the start of a subscription over `n` devices (devices
reporting and failing, the subscriber answering or not, cancellations, every interleaving of the threads) and
every device `i` (also under strategy One, where a device waits for its turn - a lane whose turn has not come
counts as alive): the values the loop has taken from member `i`, followed by the one the member closure holds,
are a prefix of what the device was told to report - nothing is duplicated, nothing overtakes, nothing is
invented on the way through the handler, the wrap stream and the member closure; and while both the handler
and the member closure of the lane are alive nothing is lost either: delivered ++ held ++ inside `SendMsg` ++
still waiting is EXACTLY the device's instruction sequence. -/
theorem C17_pull_lane_fifo [DecidableEq V] (P : Params V) (n : Nat) (c₀ : Cfg V)
    (h₀ : c₀ = Cfg.init n ∨ c₀ = Cfg.initSeq n) (sched : List (Lbl V)) (c : Cfg V)
    (hrun : run P c₀ sched = some c) (i : Nat) (l : Lane V) (hl : c.lanes[i]? = some l) :
    (l.alive = true → (c.delivered i).map some ++ l.inflight = pokes i sched)
    ∧ (c.delivered i ++ l.m.held).map some <+: pokes i sched := by
  have h0 : FlowInv c₀ i [] := by
    rcases h₀ with rfl | rfl
    · exact flow_init n i
    · exact flow_initSeq n i
  have := run_flow P sched c₀ c i [] hrun h0
  have := (this l hl).2
  simpa using this

/-- **C17_pull_quiescent_all_delivered.** ... and when the subscriber keeps up: at any point of any schedule at
which lane `i` cannot move (its handler has nothing to start, no hand-over is possible) while the loop is in its
select and both threads of the lane are alive, EVERY report the device was told to make has reached the loop. -/
theorem C17_pull_quiescent_all_delivered [DecidableEq V] (P : Params V) (n : Nat) (sched : List (Lbl V)) (c : Cfg V)
    (hrun : run P (Cfg.init n) sched = some c) (i : Nat) (l : Lane V) (hl : c.lanes[i]? = some l)
    (halive : l.alive = true) (hstarted : l.m.isNotStarted = false) (hloop : c.loop = .selecting)
    (h1 : step P c (.hStart i) = none) (h2 : step P c (.hand i) = none) (h3 : step P c (.give i) = none) :
    (c.delivered i).map some = pokes i sched := by
  have hf := (C17_pull_lane_fifo P n _ (Or.inl rfl) sched c hrun i l hl).1 halive
  have hm : l.m = .recv := by
    simp only [step, hl, hloop] at h3
    cases hm : l.m with
    | notStarted => simp [hm, MSt.isNotStarted] at hstarted
    | recv => rfl
    | holding v => simp [hm] at h3
    | ended => simp [Lane.alive, hm, MSt.isEnded] at halive
  have hh : l.h = .idle := by
    have := onLane_none_of c i _ l hl h2
    cases hh : l.h with
    | idle => rfl
    | sending v => simp [handLane, hh, hm] at this
    | ended => simp [Lane.alive, hh, HSt.isEnded, hstarted] at halive
  have hp : l.pend = [] := by
    have := onLane_none_of c i _ l hl h1
    cases hp : l.pend with
    | nil => rfl
    | cons x xs => cases x <;> simp [hStartLane, hh, hp] at this <;> split at this <;> simp at this
  rw [← hf]
  simp [Lane.inflight, hm, hh, hp, MSt.held, HSt.inSendMsg]

/-- non-vacuity: after two reports with an answering subscriber both have been delivered, the lane is alive and at rest -/
example : holdsAfter (onoffParams true 1) 1
    [.poke 0 (some 1), .hStart 0, .hand 0, .give 0, .sendOk, .poke 0 (some 2), .hStart 0, .hand 0, .give 0, .sendOk]
    (fun c => c.delivered 0 == [1, 2] && c.loop == .selecting && laneIs c 0 .idle .recv
      && (succs (onoffParams true 1) c).isEmpty) = true := by decide

/-- Strategy One, non-vacuity: the first device fails, the second gets its turn and delivers; then the subscriber
cancels and everything ends - and a member whose turn comes after the cancellation is refused by the in-process
client (no handler is started). -/
example :
    (match run (⟨true, 2, 2, onoffReduceChanges⟩ : Params Nat) (Cfg.initSeq 2)
        [.mStart 0, .poke 0 none, .hStart 0, .mEof 0, .mStart 1, .poke 1 (some 1), .hStart 1, .hand 1, .give 1,
         .cancel, .hCtx 1, .mCtx 1, .execRet, .sendFail, .loopErr] with
      | some c => c.delivered 1 == [1] && c.left == 0 && c.loop == .returned && laneIs c 1 .ended .ended
      | none => false) = true
    ∧ (match run (⟨true, 2, 2, onoffReduceChanges⟩ : Params Nat) (Cfg.initSeq 2)
        [.mStart 0, .cancel, .mCtx 0, .hCtx 0, .mStart 1, .execRet, .loopErr] with
      | some c => c.left == 0 && c.loop == .returned && laneIs c 1 .ended .ended && c.work == 0
      | none => false) = true := by decide

/-- **C17_pipe_settle_sound.** What the driver answers the harness with (`Pipe.settle`: the set of states an
observation made on the real goroutines is looked up in) contains only points of quiescence the model really has:
every state it returns is reached from one of the given states by steps of the pipeline's own threads (the ghost
log dropped - no step reads it), and in it no thread of the pipeline can move.  So the tie `group-pull-pipeline`
never accepts an observation the model does not allow - including the two economies of the exploration (the calm-state
reduction and the layer-wise removal of duplicates). -/
theorem C17_pipe_settle_sound [DecidableEq V] (P : Params V) (cs : List (Cfg V)) (c : Cfg V) (h : c ∈ settle P cs) :
    (∃ c₀ ∈ cs, ∃ (ls : List (Lbl V)) (c' : Cfg V),
        (∀ l ∈ ls, l.internal = true) ∧ run P c₀ ls = some c' ∧ eraseLog c' = c)
    ∧ (∀ lbl : Lbl V, lbl.internal = true → step P c lbl = none) :=
  settle_sound P cs c h

/-- non-vacuity: two devices that have each been told to report twice, nobody answering the subscriber: the
exploration finds exactly two points of quiescence (the loop took device 0's first report, or device 1's). -/
example :
    (match run (onoffParams true 2) (Cfg.init 2) [.poke 0 (some 1), .poke 1 (some 2), .poke 0 (some 2), .poke 1 (some 1)] with
      | some c => ((settle (onoffParams true 2) [c]).map fun c => (c.st.sent, c.lanes.map (·.acc))).length
      | none => 0) = 2 := by decide

end ScVerif.C17
