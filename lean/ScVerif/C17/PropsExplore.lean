import ScVerif.C17.PipelineReduce
import ScVerif.C17.ExecParams
/-!
# C17 — the set the tie `group-pull-pipeline` looks an observation up in is EXACTLY the model's points of quiescence

The tie is set-valued: after every action of the environment the driver explores the Pull-pipeline model's own
steps to every point of quiescence (`Pipe.settle`) and asks whether the observation made on the real goroutines is
one of them.  `C17_pipe_settle_sound` (PropsPipeline.lean) is one half: nothing is in the set that the model cannot
do.  This file is the other half, which until now was argued in a comment and would only have shown up as a
disagreement: nothing the model can do is missing from the set - the fuel of the breadth-first search (one layer
per unit of `work`) always suffices, neither the layering nor the removal of duplicates nor the erasure of the
ghost log drops a state, and the calm-state economy (in a state in which nothing is cancelled, nothing has ended
and no failure is waiting, a handler entering `SendMsg` / a hand-over to a member in `Recv` is followed alone) loses
no point of quiescence: such a step commutes with every other step enabled in a calm state (`Pipe.diamond`) and
stays enabled until taken, so every run to a point of quiescence can be reordered to start with it
(`Pipe.eager_first`).

Hypotheses: the lanes are well-formed (a member closure that has not been called has no handler: true of both
initial states and kept by every step, the environment's included: `C17_pipe_states_wellformed`), and `Execute` does
not return before any member has (`0 < retAfter` unless the group is empty: true of `execParams` for every strategy).
-/
namespace ScVerif.C17.Pipe
open ScVerif.C17

variable {V : Type}

/-- **C17_pipe_settle_complete.** Every point of quiescence `q` the model reaches from a state `c` of `cs` by any
run `ls` of steps of the pipeline's own threads is, its ghost log dropped, in `settle P cs`. -/
theorem C17_pipe_settle_complete [DecidableEq V] (P : Params V) (cs : List (Cfg V)) (c q : Cfg V) (hc : c ∈ cs)
    (hwf : c.WF) (hret : c.lanes.length ≠ 0 → 0 < P.retAfter)
    (ls : List (Lbl V)) (hall : ∀ l ∈ ls, l.internal = true) (hrun : run P c ls = some q)
    (hq : ∀ lbl : Lbl V, lbl.internal = true → step P q lbl = none) :
    eraseLog q ∈ settle P cs :=
  settle_complete_full P cs c q hc hwf hret ls hall hrun hq

/-- **C17_pipe_settle_exact.** Soundness and completeness together: for well-formed states, `settle P cs` is exactly
the set of (log-free copies of) the points of quiescence reachable from `cs` by the pipeline's own steps. -/
theorem C17_pipe_settle_exact [DecidableEq V] (P : Params V) (cs : List (Cfg V))
    (hwf : ∀ c ∈ cs, c.WF) (hret : ∀ c ∈ cs, c.lanes.length ≠ 0 → 0 < P.retAfter) (x : Cfg V) :
    x ∈ settle P cs ↔
      ∃ c ∈ cs, ∃ (ls : List (Lbl V)) (q : Cfg V), (∀ l ∈ ls, l.internal = true) ∧ run P c ls = some q
        ∧ (∀ lbl : Lbl V, lbl.internal = true → step P q lbl = none) ∧ eraseLog q = x := by
  constructor
  · intro hx
    obtain ⟨⟨c, hc, ls, q, hall, hrun, he⟩, hquiet⟩ := settle_sound P cs x hx
    refine ⟨c, hc, ls, q, hall, hrun, ?_, he⟩
    exact quiet_of_eraseLog P q (he ▸ hquiet)
  · rintro ⟨c, hc, ls, q, hall, hrun, hq, rfl⟩
    exact settle_complete_full P cs c q hc (hwf c hc) (hret c hc) ls hall hrun hq

/-- **C17_pipe_states_wellformed.** The hypotheses of the two theorems above hold of every state the driver ever
explores from: both initial states are well-formed, every step (the environment's included) keeps that, dropping the
log does not matter, and the parameters of every strategy have `0 < retAfter` for a non-empty group. -/
theorem C17_pipe_states_wellformed [DecidableEq V] (P : Params V) (n : Nat) :
    (Cfg.init n : Cfg V).WF ∧ (Cfg.initSeq n : Cfg V).WF
    ∧ (∀ (c c' : Cfg V) (ls : List (Lbl V)), c.WF → run P c ls = some c' → c'.WF ∧ (eraseLog c').WF
          ∧ c'.lanes.length = c.lanes.length)
    ∧ (∀ st : Strategy, n ≠ 0 → 0 < (execParams st n).2) := by
  refine ⟨wf_init n, wf_initSeq n, ?_, ?_⟩
  · intro c c' ls hwf hrun
    have := run_wf P ls c c' hrun hwf
    exact ⟨this, this, run_lanes_length P ls c c' hrun⟩
  · intro st hn
    cases st <;> simp [execParams] <;> omega

/-- the diamond at work: two devices told to report, nobody has moved yet - the state is calm, the exploration
follows `hStart 0` alone, and still finds the two points of quiescence (the loop took device 0's report first, or
device 1's), the same set as the exploration without the economy would -/
example :
    (match run (⟨true, 0, 2, onoffReduceChanges⟩ : Params Nat) (Cfg.init 2) [.poke 0 (some 1), .poke 1 (some 2)] with
      | some c => c.calm && (succsD (⟨true, 0, 2, onoffReduceChanges⟩ : Params Nat) c).length == 1
          && ((settle (⟨true, 0, 2, onoffReduceChanges⟩ : Params Nat) [c]).map fun q => q.st.sent).length == 2
      | none => false) = true := by decide

end ScVerif.C17.Pipe
