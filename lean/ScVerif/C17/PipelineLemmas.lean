import ScVerif.C17.Pipeline
/-!
# C17 — lemmas about the Pull pipeline (`Pipeline.lean`)
-/
namespace ScVerif.C17.Pipe
open ScVerif.C17

variable {V : Type}

theorem lanesW_set (ls : List (Lane V)) (i : Nat) (l l' : Lane V) (h : ls[i]? = some l) :
    lanesW (ls.set i l') + laneW l = lanesW ls + laneW l' := by
  induction ls generalizing i with
  | nil => simp at h
  | cons a as ih =>
    cases i with
    | zero =>
      simp at h; subst h
      simp [lanesW]; omega
    | succ j =>
      simp at h
      have := ih j h
      simp [lanesW] at this ⊢; omega

/-- what a step on one lane leaves alone -/
theorem onLane_some (c c' : Cfg V) (i : Nat) (f : Lane V → Option (Lane V)) (h : c.onLane i f = some c') :
    ∃ l l', c.lanes[i]? = some l ∧ f l = some l' ∧ c' = { c with lanes := c.lanes.set i l' } := by
  unfold Cfg.onLane at h
  split at h
  · next l hl =>
    cases hf : f l with
    | none => simp [hf] at h
    | some l' =>
      simp [hf] at h
      exact ⟨l, l', hl, hf, h.symm⟩
  · simp at h

theorem onLane_work (c c' : Cfg V) (i : Nat) (f : Lane V → Option (Lane V)) (h : c.onLane i f = some c')
    (hf : ∀ l l', f l = some l' → laneW l' < laneW l) : c'.work < c.work := by
  obtain ⟨l, l', hl, hfl, rfl⟩ := onLane_some c c' i f h
  have := lanesW_set c.lanes i l l' hl
  have := hf l l' hfl
  simp only [Cfg.work]
  omega

theorem hStartLane_lt (w k : Bool) (l l' : Lane V) (h : hStartLane w k l = some l') : laneW l' < laneW l := by
  unfold hStartLane at h
  split at h
  · split at h <;> (simp at h; subst h; simp_all [laneW, hW]) <;> omega
  · simp at h; subst h; simp_all [laneW, hW]; omega
  · simp at h

theorem hCtxLane_lt (w : Bool) (l l' : Lane V) (h : hCtxLane w l = some l') : laneW l' < laneW l := by
  unfold hCtxLane at h
  split at h
  · simp at h; subst h; simp_all [laneW, hW]
  · split at h
    · simp at h; subst h; simp_all [laneW, hW]
    · simp at h
  · simp at h

theorem handLane_lt (l l' : Lane V) (h : handLane l = some l') : laneW l' < laneW l := by
  unfold handLane at h
  split at h
  · simp at h; subst h; simp_all [laneW, hW, mW]
  · simp at h

theorem mCtxLane_lt (l l' : Lane V) (h : mCtxLane l = some l') : laneW l' < laneW l := by
  unfold mCtxLane at h
  split at h
  · simp at h
  · simp at h
  · simp at h; subst h
    cases hm : l.m <;> simp_all [laneW, mW]

theorem mStartLane_lt (k : Bool) (l l' : Lane V) (h : mStartLane k l = some l') : laneW l' < laneW l := by
  unfold mStartLane at h
  split at h
  · next hm =>
    simp at h; subst h
    cases k <;> simp [laneW, hm, mW, hW] <;> cases l.h <;> simp [hW] <;> omega
  · simp at h

theorem mEofLane_lt (l l' : Lane V) (h : mEofLane l = some l') : laneW l' < laneW l := by
  unfold mEofLane at h
  split at h
  · simp at h; subst h; simp_all [laneW, mW]
  · simp at h

/-- **progress**: every internal step uses up a unit of work. -/
theorem step_work [DecidableEq V] (P : Params V) (c c' : Cfg V) (lbl : Lbl V) (hi : lbl.internal = true)
    (h : step P c lbl = some c') : c'.work < c.work := by
  cases lbl with
  | mStart i =>
    simp only [step] at h
    split at h
    · exact onLane_work c c' i _ h (mStartLane_lt _)
    · simp at h
  | hStart i => exact onLane_work c c' i _ h (hStartLane_lt _ _)
  | hCtx i =>
    simp only [step] at h
    split at h
    · exact onLane_work c c' i _ h (hCtxLane_lt _)
    · simp at h
  | hand i => exact onLane_work c c' i _ h handLane_lt
  | mCtx i =>
    simp only [step] at h
    split at h
    · exact onLane_work c c' i _ h mCtxLane_lt
    · simp at h
  | mEof i => exact onLane_work c c' i _ h mEofLane_lt
  | give i =>
    simp only [step] at h
    split at h
    · next l hl =>
      split at h
      · next v hm hloop =>
        simp at h; subst h
        have := lanesW_set c.lanes i l { l with m := .recv } hl
        have h1 : laneW ({ l with m := .recv } : Lane V) + 2 = laneW l := by simp [laneW, hm, mW]
        have key : ∀ x : LSt, (x = .selecting ∨ x = .inSend) → lW x ≤ 3 := by
          intro x hx; rcases hx with rfl | rfl <;> simp [lW]
        have hx := key (if (pullFeed P.red c.st (i, [v])).sent.length = c.st.sent.length then LSt.selecting else LSt.inSend)
          (by split <;> simp)
        have h2 : lW LSt.selecting = 2 := rfl
        simp only [Cfg.work, hloop]
        omega
      · simp at h
    · simp at h
  | execCancel =>
    simp only [step] at h
    split at h
    · next hc =>
      simp at h; subst h
      simp at hc
      simp [Cfg.work, hc.1.1]
    · simp at h
  | execRet =>
    simp only [step] at h
    split at h
    · next hc =>
      simp at h; subst h
      simp at hc
      simp [Cfg.work, hc.1]
      split <;> omega
    · simp at h
  | loopErr =>
    simp only [step] at h
    split at h
    · next hc =>
      simp at h; subst h
      simp at hc
      simp only [Cfg.work]
      rcases hc.2 with h2 | h2 <;> simp [h2, lW] <;> split <;> omega
    · simp at h
  | poke i x => simp [Lbl.internal] at hi
  | sendOk => simp [Lbl.internal] at hi
  | sendFail => simp [Lbl.internal] at hi
  | cancel => simp [Lbl.internal] at hi

/-- a run of internal steps is no longer than the work available -/
theorem run_internal_bound [DecidableEq V] (P : Params V) (ls : List (Lbl V)) (c c' : Cfg V)
    (hall : ∀ l ∈ ls, l.internal = true) (h : run P c ls = some c') : ls.length + c'.work ≤ c.work := by
  induction ls generalizing c with
  | nil => simp [run] at h; subst h; simp
  | cons l ls ih =>
    simp only [run] at h
    split at h
    · next c1 h1 =>
      have := step_work P c c1 l (hall l (by simp)) h1
      have := ih c1 (fun x hx => hall x (by simp [hx])) h
      simp; omega
    · simp at h

/-! ## stuck under cancellation means ended -/

theorem onLane_none_of (c : Cfg V) (i : Nat) (f : Lane V → Option (Lane V)) (l : Lane V)
    (hl : c.lanes[i]? = some l) (h : c.onLane i f = none) : f l = none := by
  unfold Cfg.onLane at h
  simp [hl] at h
  exact h

theorem countP_all (ls : List (Lane V)) (p : Lane V → Bool) (h : ∀ l ∈ ls, p l = true) : ls.countP p = ls.length := by
  induction ls with
  | nil => rfl
  | cons a as ih =>
    have ha := h a (by simp)
    have := ih (fun l hl => h l (by simp [hl]))
    simp [ha, this]

/-- a lane whose turn has come and none of whose threads can move under cancellation has ended -/
theorem lane_stuck_ended [DecidableEq V] (P : Params V) (c : Cfg V) (hw : P.watch = true) (hc : c.cancelled = true)
    (hst : ∀ lbl : Lbl V, lbl.internal = true → step P c lbl = none) (i : Nat) (hi : i < c.lanes.length)
    (hprev : c.prevEnded i = true) : c.lanes[i].h = .ended ∧ c.lanes[i].m = .ended := by
  have hli : c.lanes[i]? = some c.lanes[i] := by simp [hi]
  have hns : c.lanes[i].m ≠ .notStarted := by
    intro hm
    have := hst (.mStart i) rfl
    simp only [step, hprev, if_true] at this
    have := onLane_none_of c i _ _ hli this
    simp [mStartLane, hm] at this
  constructor
  · have := hst (.hCtx i) rfl
    simp only [step, hc, if_true] at this
    have := onLane_none_of c i _ _ hli this
    unfold hCtxLane at this
    split at this
    · simp at this
    · simp [hw] at this
    · assumption
  · have := hst (.mCtx i) rfl
    simp only [step, hc, if_true] at this
    have := onLane_none_of c i _ _ hli this
    unfold mCtxLane at this
    split at this
    · assumption
    · next h => exact absurd h hns
    · simp at this

theorem stuck_cancelled_ended [DecidableEq V] (P : Params V) (c : Cfg V) (hw : P.watch = true) (hc : c.cancelled = true)
    (hret : P.retAfter ≤ c.lanes.length)
    (hst : ∀ lbl : Lbl V, lbl.internal = true → step P c lbl = none) :
    c.allEnded ∧ c.execDone = true ∧ (c.loop = .returned ∨ c.loop = .inSend) := by
  have hidx : ∀ i (hi : i < c.lanes.length), c.lanes[i].h = .ended ∧ c.lanes[i].m = .ended := by
    intro i
    induction i with
    | zero =>
      intro hi
      exact lane_stuck_ended P c hw hc hst 0 hi (by simp [Cfg.prevEnded])
    | succ j ih =>
      intro hi
      have hj := ih (by omega)
      refine lane_stuck_ended P c hw hc hst (j + 1) hi ?_
      have : c.lanes[j]? = some c.lanes[j] := by simp [show j < c.lanes.length by omega]
      simp [Cfg.prevEnded, this, hj.2, MSt.isEnded]
  have hall : c.allEnded := by
    intro l hl
    obtain ⟨i, hi, rfl⟩ := List.getElem_of_mem hl
    exact hidx i hi
  have hcount : c.endedCount = c.lanes.length := by
    apply countP_all
    intro l hl
    simp [(hall l hl).2, MSt.isEnded]
  have hdone : c.execDone = true := by
    have := hst .execRet rfl
    simp only [step] at this
    cases hd : c.execDone with
    | true => rfl
    | false => simp [hd, hcount, hret] at this
  refine ⟨hall, hdone, ?_⟩
  have := hst .loopErr rfl
  simp only [step, hdone] at this
  cases hl : c.loop <;> simp [hl] at this ⊢

/-! ## monotone facts (every label, the environment's included) -/

theorem onLane_cancelled (c c' : Cfg V) (i : Nat) (f : Lane V → Option (Lane V)) (h : c.onLane i f = some c') :
    c'.cancelled = c.cancelled := by
  obtain ⟨_, _, _, _, rfl⟩ := onLane_some _ _ _ _ h; rfl

theorem step_cancelled [DecidableEq V] (P : Params V) (c c' : Cfg V) (lbl : Lbl V) (h : step P c lbl = some c')
    (hc : c.cancelled = true) : c'.cancelled = true := by
  cases lbl <;> simp only [step] at h
  case mStart i =>
    split at h
    · rw [onLane_cancelled _ _ _ _ h]; exact hc
    · simp at h
  case hStart i => rw [onLane_cancelled _ _ _ _ h]; exact hc
  case hCtx i =>
    rw [if_pos hc] at h
    rw [onLane_cancelled _ _ _ _ h]; exact hc
  case hand i => rw [onLane_cancelled _ _ _ _ h]; exact hc
  case mCtx i =>
    rw [if_pos hc] at h
    rw [onLane_cancelled _ _ _ _ h]; exact hc
  case mEof i => rw [onLane_cancelled _ _ _ _ h]; exact hc
  case give i =>
    split at h
    · split at h
      · simp at h; subst h; exact hc
      · simp at h
    · simp at h
  case poke i x => rw [onLane_cancelled _ _ _ _ h]; exact hc
  case cancel => simp at h; subst h; rfl
  all_goals
    split at h
    · simp at h; subst h; first | exact hc | rfl
    · simp at h


/-! ## the variant without the watch in `SendMsg`: a handler parked in the bare send stays there -/

/-- lane `l`: the handler is inside `SendMsg` and the member closure it sends to has returned -/
def Lane.parked (l : Lane V) : Prop := (∃ v, l.h = .sending v) ∧ l.m = .ended

def Cfg.parked (c : Cfg V) (i : Nat) : Prop := ∃ l, c.lanes[i]? = some l ∧ l.parked

theorem onLane_parked (c c' : Cfg V) (i j : Nat) (f : Lane V → Option (Lane V)) (h : c.onLane j f = some c')
    (hf : ∀ l l', f l = some l' → l.parked → l'.parked) (hp : c.parked i) : c'.parked i := by
  obtain ⟨l, l', hl, hfl, rfl⟩ := onLane_some c c' j f h
  obtain ⟨li, hli, hq⟩ := hp
  by_cases hji : j = i
  · subst hji
    rw [hl] at hli; cases hli
    refine ⟨l', ?_, hf l l' hfl hq⟩
    have : j < c.lanes.length := by
      rcases Nat.lt_or_ge j c.lanes.length with h | h
      · exact h
      · simp [List.getElem?_eq_none h] at hl
    simp [this]
  · exact ⟨li, by simp [List.getElem?_set_ne hji, hli], hq⟩

theorem step_parked [DecidableEq V] (P : Params V) (hw : P.watch = false) (c c' : Cfg V) (lbl : Lbl V) (i : Nat)
    (h : step P c lbl = some c') (hp : c.parked i) : c'.parked i := by
  cases lbl <;> simp only [step] at h
  case mStart j =>
    split at h
    · refine onLane_parked c c' i j _ h ?_ hp
      intro l l' hl ⟨_, hm⟩
      simp [mStartLane, hm] at hl
    · simp at h
  case hStart j =>
    refine onLane_parked c c' i j _ h ?_ hp
    intro l l' hl ⟨⟨v, hv⟩, _⟩
    simp [hStartLane, hv] at hl
  case hCtx j =>
    split at h
    · refine onLane_parked c c' i j _ h ?_ hp
      intro l l' hl ⟨⟨v, hv⟩, _⟩
      simp [hCtxLane, hv, hw] at hl
    · simp at h
  case hand j =>
    refine onLane_parked c c' i j _ h ?_ hp
    intro l l' hl ⟨⟨v, hv⟩, hm⟩
    simp [handLane, hv, hm] at hl
  case mCtx j =>
    split at h
    · refine onLane_parked c c' i j _ h ?_ hp
      intro l l' hl ⟨_, hm⟩
      simp [mCtxLane, hm] at hl
    · simp at h
  case mEof j =>
    refine onLane_parked c c' i j _ h ?_ hp
    intro l l' hl ⟨⟨v, hv⟩, hm⟩
    simp [mEofLane, hv] at hl
  case give j =>
    split at h
    · next l hl =>
      split at h
      · next v hm hloop =>
        simp at h; subst h
        obtain ⟨li, hli, hq⟩ := hp
        by_cases hji : j = i
        · subst hji
          rw [hl] at hli; cases hli
          rw [hq.2] at hm; cases hm
        · exact ⟨li, by simp [List.getElem?_set_ne hji, hli], hq⟩
      · simp at h
    · simp at h
  case poke j x =>
    refine onLane_parked c c' i j _ h ?_ hp
    intro l l' hl hq
    simp at hl; subst hl; exact hq
  case cancel => simp at h; subst h; exact hp
  all_goals
    split at h
    · simp at h; subst h; exact hp
    · simp at h

theorem run_parked [DecidableEq V] (P : Params V) (hw : P.watch = false) (ls : List (Lbl V)) (c c' : Cfg V) (i : Nat)
    (h : run P c ls = some c') (hp : c.parked i) : c'.parked i := by
  induction ls generalizing c with
  | nil => simp [run] at h; subst h; exact hp
  | cons l ls ih =>
    simp only [run] at h
    split at h
    · next c1 h1 => exact ih c1 h (step_parked P hw c c1 l i h1 hp)
    · simp at h

/-! ## what the subscriber is sent is the sequential Pull loop run on the messages taken -/

def Cfg.logInv [DecidableEq V] (red : List (Option V) → Option V) (n : Nat) (c : Cfg V) : Prop :=
  c.st = pullRun red n (c.log.map fun e => (e.1, [e.2]))

theorem onLane_st_log (c c' : Cfg V) (i : Nat) (f : Lane V → Option (Lane V)) (h : c.onLane i f = some c') :
    c'.st = c.st ∧ c'.log = c.log := by
  obtain ⟨_, _, _, _, rfl⟩ := onLane_some _ _ _ _ h; exact ⟨rfl, rfl⟩

theorem step_logInv [DecidableEq V] (P : Params V) (n : Nat) (c c' : Cfg V) (lbl : Lbl V)
    (h : step P c lbl = some c') (hi : c.logInv P.red n) : c'.logInv P.red n := by
  unfold Cfg.logInv at *
  cases lbl <;> simp only [step] at h
  case mStart j =>
    split at h
    · obtain ⟨h1, h2⟩ := onLane_st_log _ _ _ _ h; rw [h1, h2]; exact hi
    · simp at h
  case hStart j => obtain ⟨h1, h2⟩ := onLane_st_log _ _ _ _ h; rw [h1, h2]; exact hi
  case hCtx j =>
    split at h
    · obtain ⟨h1, h2⟩ := onLane_st_log _ _ _ _ h; rw [h1, h2]; exact hi
    · simp at h
  case hand j => obtain ⟨h1, h2⟩ := onLane_st_log _ _ _ _ h; rw [h1, h2]; exact hi
  case mCtx j =>
    split at h
    · obtain ⟨h1, h2⟩ := onLane_st_log _ _ _ _ h; rw [h1, h2]; exact hi
    · simp at h
  case mEof j => obtain ⟨h1, h2⟩ := onLane_st_log _ _ _ _ h; rw [h1, h2]; exact hi
  case poke j x => obtain ⟨h1, h2⟩ := onLane_st_log _ _ _ _ h; rw [h1, h2]; exact hi
  case give j =>
    split at h
    · split at h
      · simp at h; subst h
        simp [pullRun, List.foldl_append] at hi ⊢
        rw [← hi]
      · simp at h
    · simp at h
  case cancel => simp at h; subst h; exact hi
  all_goals
    split at h
    · simp at h; subst h; exact hi
    · simp at h

theorem run_logInv [DecidableEq V] (P : Params V) (n : Nat) (ls : List (Lbl V)) (c c' : Cfg V)
    (h : run P c ls = some c') (hi : c.logInv P.red n) : c'.logInv P.red n := by
  induction ls generalizing c with
  | nil => simp [run] at h; subst h; exact hi
  | cons l ls ih =>
    simp only [run] at h
    split at h
    · next c1 h1 => exact ih c1 h (step_logInv P n c c1 l h1 hi)
    · simp at h

theorem run_cancelled [DecidableEq V] (P : Params V) (ls : List (Lbl V)) (c c' : Cfg V)
    (h : run P c ls = some c') (hc : c.cancelled = true) : c'.cancelled = true := by
  induction ls generalizing c with
  | nil => simp [run] at h; subst h; exact hc
  | cons l ls ih =>
    simp only [run] at h
    split at h
    · next c1 h1 => exact ih c1 h (step_cancelled P c c1 l h1 hc)
    · simp at h

theorem run_lanes_length [DecidableEq V] (P : Params V) (ls : List (Lbl V)) (c c' : Cfg V)
    (h : run P c ls = some c') : c'.lanes.length = c.lanes.length := by
  induction ls generalizing c with
  | nil => simp [run] at h; subst h; rfl
  | cons l ls ih =>
    simp only [run] at h
    split at h
    · next c1 h1 =>
      rw [ih c1 h]
      cases l <;> simp only [step] at h1
      case give j =>
        split at h1
        · split at h1
          · simp at h1; subst h1; simp
          · simp at h1
        · simp at h1
      case cancel => simp at h1; subst h1; rfl
      case hCtx j =>
        split at h1
        · obtain ⟨_, _, _, _, rfl⟩ := onLane_some _ _ _ _ h1; simp
        · simp at h1
      case mStart j =>
        split at h1
        · obtain ⟨_, _, _, _, rfl⟩ := onLane_some _ _ _ _ h1; simp
        · simp at h1
      case mCtx j =>
        split at h1
        · obtain ⟨_, _, _, _, rfl⟩ := onLane_some _ _ _ _ h1; simp
        · simp at h1
      case hStart j => obtain ⟨_, _, _, _, rfl⟩ := onLane_some _ _ _ _ h1; simp
      case hand j => obtain ⟨_, _, _, _, rfl⟩ := onLane_some _ _ _ _ h1; simp
      case mEof j => obtain ⟨_, _, _, _, rfl⟩ := onLane_some _ _ _ _ h1; simp
      case poke j x => obtain ⟨_, _, _, _, rfl⟩ := onLane_some _ _ _ _ h1; simp
      all_goals
        split at h1
        · simp at h1; subst h1; rfl
        · simp at h1
    · simp at h


theorem left_zero_of_allEnded (c : Cfg V) (h : c.allEnded) : c.left = 0 := by
  unfold Cfg.left
  have h1 : (c.lanes.countP fun l => !l.h.isEnded) = 0 := by
    rw [List.countP_eq_zero]; intro l hl; simp [(h l hl).1, HSt.isEnded]
  have h2 : (c.lanes.countP fun l => !l.m.isEnded) = 0 := by
    rw [List.countP_eq_zero]; intro l hl; simp [(h l hl).2, MSt.isEnded]
  omega

theorem left_pos_of_parked (c : Cfg V) (i : Nat) (h : c.parked i) : 0 < c.left := by
  obtain ⟨l, hl, ⟨v, hv⟩, _⟩ := h
  unfold Cfg.left
  have : 0 < c.lanes.countP fun l => !l.h.isEnded := by
    rw [List.countP_pos_iff]
    exact ⟨l, List.mem_of_getElem? hl, by simp [hv, HSt.isEnded]⟩
  omega


/-! ## `succs` decides quiescence -/

theorem onLane_out_of_range (c : Cfg V) (i : Nat) (f : Lane V → Option (Lane V)) (h : c.lanes.length ≤ i) :
    c.onLane i f = none := by
  simp [Cfg.onLane, List.getElem?_eq_none h]

theorem step_out_of_range [DecidableEq V] (P : Params V) (c : Cfg V) (i : Nat) (h : c.lanes.length ≤ i) :
    step P c (.mStart i) = none ∧ step P c (.hStart i) = none ∧ step P c (.hCtx i) = none ∧ step P c (.hand i) = none
    ∧ step P c (.mCtx i) = none ∧ step P c (.mEof i) = none ∧ step P c (.give i) = none := by
  simp [step, onLane_out_of_range c i _ h, List.getElem?_eq_none h]

theorem mem_internalLabels (n i : Nat) (h : i < n) :
    (.mStart i : Lbl V) ∈ internalLabels n ∧ (.hStart i : Lbl V) ∈ internalLabels n ∧ (.hCtx i : Lbl V) ∈ internalLabels n
    ∧ (.hand i : Lbl V) ∈ internalLabels n ∧ (.mCtx i : Lbl V) ∈ internalLabels n ∧ (.mEof i : Lbl V) ∈ internalLabels n
    ∧ (.give i : Lbl V) ∈ internalLabels n := by
  simp [internalLabels, List.mem_flatMap, List.mem_range, h]

/-- no successor listed = no thread of the pipeline can take a step -/
theorem succs_isEmpty_iff [DecidableEq V] (P : Params V) (c : Cfg V) :
    (succs P c).isEmpty = true ↔ ∀ lbl : Lbl V, lbl.internal = true → step P c lbl = none := by
  simp only [succs, List.isEmpty_iff, List.filterMap_eq_nil_iff]
  constructor
  · intro h lbl hi
    have hin : ∀ i, i < c.lanes.length ∨ c.lanes.length ≤ i := fun i => Nat.lt_or_ge i c.lanes.length
    cases lbl with
    | mStart i => rcases hin i with hi | hi
                  · exact h _ (mem_internalLabels _ i hi).1
                  · exact (step_out_of_range P c i hi).1
    | hStart i => rcases hin i with hi | hi
                  · exact h _ (mem_internalLabels _ i hi).2.1
                  · exact (step_out_of_range P c i hi).2.1
    | hCtx i => rcases hin i with hi | hi
                · exact h _ (mem_internalLabels _ i hi).2.2.1
                · exact (step_out_of_range P c i hi).2.2.1
    | hand i => rcases hin i with hi | hi
                · exact h _ (mem_internalLabels _ i hi).2.2.2.1
                · exact (step_out_of_range P c i hi).2.2.2.1
    | mCtx i => rcases hin i with hi | hi
                · exact h _ (mem_internalLabels _ i hi).2.2.2.2.1
                · exact (step_out_of_range P c i hi).2.2.2.2.1
    | mEof i => rcases hin i with hi | hi
                · exact h _ (mem_internalLabels _ i hi).2.2.2.2.2.1
                · exact (step_out_of_range P c i hi).2.2.2.2.2.1
    | give i => rcases hin i with hi | hi
                · exact h _ (mem_internalLabels _ i hi).2.2.2.2.2.2
                · exact (step_out_of_range P c i hi).2.2.2.2.2.2
    | execCancel => exact h _ (by simp [internalLabels])
    | execRet => exact h _ (by simp [internalLabels])
    | loopErr => exact h _ (by simp [internalLabels])
    | poke i x => simp [Lbl.internal] at hi
    | sendOk => simp [Lbl.internal] at hi
    | sendFail => simp [Lbl.internal] at hi
    | cancel => simp [Lbl.internal] at hi
  · intro h lbl hl
    apply h
    simp only [internalLabels, List.mem_append, List.mem_flatMap, List.mem_range] at hl
    rcases hl with ⟨i, _, hm⟩ | hm
    · simp at hm; rcases hm with rfl | rfl | rfl | rfl | rfl | rfl | rfl <;> rfl
    · simp at hm; rcases hm with rfl | rfl | rfl <;> rfl

end ScVerif.C17.Pipe
