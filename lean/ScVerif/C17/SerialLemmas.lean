import ScVerif.C17.ThreadLemmas
/-!
# C17 — the serial schedule the driver runs (`settle`, `block`) ends in points of quiescence

The harness observes the code only when nothing can move except members still waiting at their gates.
The driver runs the thread-level model under `settle` and then one `block i` per released member and
reports what holds at the end of each.  Here: those ends are exactly the model's points of quiescence
(`Config.quiescent`): no step of the closer, of the collector or of a released member goroutine is enabled.
-/
namespace ScVerif.C17

/-- Nothing can move except members still at their gate (`.start`) and the caller cancelling. -/
def Config.quiescent (C : Consumer σ ρ) (c : Config σ ρ) : Bool :=
  (step C c .closer).isNone && (step C c .consumer).isNone
    && (List.range c.members.length).all fun i =>
      match c.members[i]? with
      | some .start => true
      | _ => (step C c (.member i)).isNone

/-- The shape of a configuration at a point of quiescence of the serial schedule. -/
structure Quiet (C : Consumer σ ρ) (c : Config σ ρ) : Prop where
  mem : ∀ (j : Nat) (m : MPc), c.members[j]? = some m → m = .start ∨ m.isDone = true
  closer : (c.closer = .waiting ∧ c.members.all MPc.isDone = false ∧ c.closed = false)
    ∨ (c.closer = .done ∧ c.closed = true)
  cons : c.cons.isReturned = true ∨ ∃ s, c.cons = .idle s ∧ c.taken = c.hist.length ∧ c.closed = false

theorem stepD_none (C : Consumer σ ρ) (c : Config σ ρ) (t : Tid) (h : step C c t = none) : stepD C c t = c := by
  simp [stepD, h]

theorem stepD_some (C : Consumer σ ρ) (c c' : Config σ ρ) (t : Tid) (h : step C c t = some c') : stepD C c t = c' := by
  simp [stepD, h]

theorem quiet_closer_none (C : Consumer σ ρ) (c : Config σ ρ) (h : Quiet C c) : step C c .closer = none := by
  simp only [step, stepCloser]
  rcases h.closer with ⟨h1, h2, _⟩ | ⟨h1, _⟩
  · simp [h1, h2]
  · simp [h1]

theorem quiet_consumer_none (C : Consumer σ ρ) (c : Config σ ρ) (h : Quiet C c) : step C c .consumer = none := by
  simp only [step, stepConsumer]
  rcases h.cons with h1 | ⟨s, h1, h2, h3⟩
  · cases hc : c.cons with
    | idle s => simp [hc, ConsPc.isReturned] at h1
    | got s r => simp [hc, ConsPc.isReturned] at h1
    | returned x b => rfl
  · simp [h1, h2, h3]

theorem quiet_member_none (C : Consumer σ ρ) (c : Config σ ρ) (h : Quiet C c) (i : Nat)
    (hi : c.members[i]? ≠ some .start) : step C c (.member i) = none := by
  simp only [step, stepMember]
  cases hm : c.members[i]? with
  | none => simp
  | some m =>
    rcases h.mem i m hm with h1 | h1
    · subst h1; exact absurd hm hi
    · cases m <;> simp [MPc.isDone] at h1 ⊢

/-- a configuration of that shape is quiescent -/
theorem quiet_quiescent (C : Consumer σ ρ) (c : Config σ ρ) (h : Quiet C c) : c.quiescent C = true := by
  simp only [Config.quiescent, Bool.and_eq_true, Option.isNone_iff_eq_none, List.all_eq_true, List.mem_range]
  refine ⟨⟨quiet_closer_none C c h, quiet_consumer_none C c h⟩, ?_⟩
  intro i _
  cases hm : c.members[i]? with
  | none => simp only; rw [quiet_member_none C c h i (by simp [hm])]; rfl
  | some m =>
    cases m with
    | start => rfl
    | ran r => simp only; rw [quiet_member_none C c h i (by simp [hm])]; rfl
    | sent r => simp only; rw [quiet_member_none C c h i (by simp [hm])]; rfl
    | done r => simp only; rw [quiet_member_none C c h i (by simp [hm])]; rfl

/-- at such a point a whole `settle` changes nothing -/
theorem quiet_settle (C : Consumer σ ρ) (c : Config σ ρ) (h : Quiet C c) : exec C c settle = c := by
  have h1 := stepD_none C c .closer (quiet_closer_none C c h)
  have h2 := stepD_none C c .consumer (quiet_consumer_none C c h)
  simp [exec, settle, h1, h2]

/-- the caller cancelling keeps the shape -/
theorem quiet_env (C : Consumer σ ρ) (c : Config σ ρ) (h : Quiet C c) : Quiet C (stepD C c .env) := by
  have : stepD C c .env = { c with envCancelled := true, cancelled := true } := by simp [stepD, step]
  rw [this]
  exact ⟨h.mem, h.closer, h.cons⟩

/-! ## what the collector does with at most one unread response -/

theorem exec_none (C : Consumer σ ρ) (c : Config σ ρ) (sched : List Tid)
    (h : ∀ t ∈ sched, step C c t = none) : exec C c sched = c := by
  induction sched with
  | nil => rfl
  | cons t ts ih =>
    show exec C (stepD C c t) ts = c
    rw [stepD_none C c t (h t (by simp))]
    exact ih (fun t' ht' => h t' (by simp [ht']))

theorem exec_cons (C : Consumer σ ρ) (c : Config σ ρ) (t : Tid) (ts : List Tid) :
    exec C c (t :: ts) = exec C (stepD C c t) ts := rfl

/-- The collector has settled: it has returned, or it waits on an empty, open channel. -/
def ConsSettled (e e' : Config σ ρ) : Prop :=
  e'.members = e.members ∧ e'.closer = e.closer ∧ e'.closed = e.closed
    ∧ (e'.cons.isReturned = true ∨ ∃ s, e'.cons = .idle s ∧ e'.taken = e'.hist.length ∧ e'.closed = false)

theorem cons_returned_stay (C : Consumer σ ρ) (e : Config σ ρ) (h : e.cons.isReturned = true) (k : Nat) :
    exec C e (List.replicate k .consumer) = e := by
  apply exec_none
  intro t ht
  rw [List.eq_of_mem_replicate ht]
  simp only [step, stepConsumer]
  cases hc : e.cons with
  | idle s => simp [hc, ConsPc.isReturned] at h
  | got s r => simp [hc, ConsPc.isReturned] at h
  | returned x b => rfl

theorem cons_idle0 (C : Consumer σ ρ) (e : Config σ ρ) (s : σ) (h1 : e.cons = .idle s)
    (h2 : e.taken = e.hist.length) (k : Nat) :
    ConsSettled e (exec C e (List.replicate (k + 1) .consumer)) := by
  have hnone : e.hist[e.taken]? = none := by rw [h2]; simp
  cases hcl : e.closed with
  | false =>
    have : exec C e (List.replicate (k + 1) .consumer) = e := by
      apply exec_none
      intro t ht
      rw [List.eq_of_mem_replicate ht]
      simp [step, stepConsumer, h1, hnone, hcl]
    rw [this]
    exact ⟨rfl, rfl, rfl, Or.inr ⟨s, h1, h2, hcl⟩⟩
  | true =>
    have hs : step C e .consumer = some { e with cons := .returned (C.onClose s) true, cancelled := true } := by
      simp [step, stepConsumer, h1, hnone, hcl]
    rw [List.replicate_succ, exec_cons, stepD_some C e _ _ hs, cons_returned_stay C _ (by simp [ConsPc.isReturned]) k]
    exact ⟨rfl, rfl, rfl, Or.inl (by simp [ConsPc.isReturned])⟩

theorem cons_idle1 (C : Consumer σ ρ) (e : Config σ ρ) (s : σ) (h1 : e.cons = .idle s)
    (h2 : e.taken + 1 = e.hist.length) (k : Nat) :
    ConsSettled e (exec C e (List.replicate (k + 3) .consumer)) := by
  have hlt : e.taken < e.hist.length := by omega
  have hsome : e.hist[e.taken]? = some e.hist[e.taken] := List.getElem?_eq_getElem hlt
  have hs1 : step C e .consumer = some { e with cons := .got s e.hist[e.taken], taken := e.taken + 1 } := by
    simp [step, stepConsumer, h1, hsome]
  rw [show k + 3 = (k + 2) + 1 from rfl, List.replicate_succ, exec_cons, stepD_some C e _ _ hs1]
  cases hr : C.onRecv s e.hist[e.taken] with
  | next s' cn =>
    have hs2 : step C { e with cons := .got s e.hist[e.taken], taken := e.taken + 1 } .consumer
        = some { e with cons := .idle s', taken := e.taken + 1, cancelled := e.cancelled || cn } := by
      simp [step, stepConsumer, hr]
    rw [show k + 2 = (k + 1) + 1 from rfl, List.replicate_succ, exec_cons, stepD_some C _ _ _ hs2]
    have := cons_idle0 C { e with cons := .idle s', taken := e.taken + 1, cancelled := e.cancelled || cn } s' rfl
      (by simp only; omega) k
    exact this
  | ret x =>
    have hs2 : step C { e with cons := .got s e.hist[e.taken], taken := e.taken + 1 } .consumer
        = some { e with cons := .returned x false, taken := e.taken + 1, cancelled := true } := by
      simp [step, stepConsumer, hr]
    rw [show k + 2 = (k + 1) + 1 from rfl, List.replicate_succ, exec_cons, stepD_some C _ _ _ hs2,
      cons_returned_stay C _ (by simp [ConsPc.isReturned]) (k + 1)]
    exact ⟨rfl, rfl, rfl, Or.inl (by simp [ConsPc.isReturned])⟩

/-! ## `settle` and `block` -/

theorem settle_eq : settle = .closer :: .closer :: List.replicate 4 .consumer := rfl

theorem exec_append (C : Consumer σ ρ) (c : Config σ ρ) (a b : List Tid) :
    exec C c (a ++ b) = exec C (exec C c a) b := by
  simp [exec, List.foldl_append]

/-- From a configuration in which the closer still waits, every member goroutine is at its gate or has
ended, and the collector has returned or waits with at most one unread response, `settle` leads to a point
of quiescence. -/
theorem settle_quiet (C : Consumer σ ρ) (d : Config σ ρ)
    (hmem : ∀ (j : Nat) (m : MPc), d.members[j]? = some m → m = .start ∨ m.isDone = true)
    (hcl : d.closer = .waiting) (hclosed : d.closed = false)
    (hcons : d.cons.isReturned = true
      ∨ ∃ s, d.cons = .idle s ∧ (d.taken = d.hist.length ∨ d.taken + 1 = d.hist.length)) :
    Quiet C (exec C d settle) := by
  -- the collector part, for any configuration e that agrees with d on the collector's view
  have consPart : ∀ e : Config σ ρ, e.cons = d.cons → e.taken = d.taken → e.hist = d.hist →
      ConsSettled e (exec C e (List.replicate 4 .consumer)) := by
    intro e h1 h2 h3
    rcases hcons with hr | ⟨s, hs, h0 | h1'⟩
    · rw [cons_returned_stay C e (by rw [h1]; exact hr) 4]
      exact ⟨rfl, rfl, rfl, Or.inl (by rw [h1]; exact hr)⟩
    · exact cons_idle0 C e s (by rw [h1]; exact hs) (by rw [h2, h3]; exact h0) 3
    · exact cons_idle1 C e s (by rw [h1]; exact hs) (by rw [h2, h3]; exact h1') 1
  rw [settle_eq]
  cases hall : d.members.all MPc.isDone with
  | true =>
    have hs1 : step C d .closer = some { d with closer := .woke } := by
      simp [step, stepCloser, hcl, hall]
    have hs2 : step C { d with closer := .woke } .closer = some { d with closed := true, closer := .done } := by
      simp [step, stepCloser]
    rw [exec_cons, stepD_some C d _ _ hs1, exec_cons, stepD_some C _ _ _ hs2]
    obtain ⟨e1, e2, e3, e4⟩ := consPart { d with closed := true, closer := .done } rfl rfl rfl
    refine ⟨?_, Or.inr ⟨by rw [e2], by rw [e3]⟩, e4⟩
    intro j m hj
    rw [e1] at hj
    exact hmem j m hj
  | false =>
    have hs1 : step C d .closer = none := by simp [step, stepCloser, hcl, hall]
    rw [exec_cons, stepD_none C d _ hs1, exec_cons, stepD_none C d _ hs1]
    obtain ⟨e1, e2, e3, e4⟩ := consPart d rfl rfl rfl
    refine ⟨?_, Or.inl ⟨by rw [e2]; exact hcl, by rw [e1]; exact hall, by rw [e3]; exact hclosed⟩, e4⟩
    intro j m hj
    rw [e1] at hj
    exact hmem j m hj

/-- the start of a call: `settle` on the configuration `executeEach` has just set up -/
theorem spawn_settle_quiet (C : Consumer σ ρ) (behs : List Beh) (cap : Nat) :
    Quiet C (exec C (Config.init C behs cap) settle) := by
  apply settle_quiet
  · intro j m hj
    simp only [Config.init] at hj
    left
    rw [List.getElem?_replicate] at hj
    split at hj
    · exact (Option.some.inj hj).symm
    · cases hj
  · rfl
  · rfl
  · exact Or.inr ⟨C.init, rfl, Or.inl rfl⟩

/-- releasing one member: `block i` leads from a point of quiescence to a point of quiescence -/
theorem block_quiet (C : Consumer σ ρ) (c : Config σ ρ) (hq : Quiet C c) (hinv : Inv C c) (i : Nat) :
    Quiet C (exec C c (block i)) := by
  have hblock : block i = [.member i, .member i, .member i] ++ settle := rfl
  by_cases hst : c.members[i]? = some .start
  · have hi : i < c.members.length := lt_of_getElem? hst
    have hib : i < c.behs.length := by rw [← hinv.len]; exact hi
    have hb : c.behs[i]? = some c.behs[i] := List.getElem?_eq_getElem hib
    generalize hr : (c.behs[i]).respond c.cancelled = r
    -- the three steps of the member goroutine
    have hs1 : step C c (.member i) = some { c with members := c.members.set i (.ran r) } := by
      simp [step, stepMember, hst, hb, hr]
    have hm1 : (c.members.set i (.ran r))[i]? = some (.ran r) := by simp [hi]
    have hinv1 : Inv C { c with members := c.members.set i (.ran r) } := inv_step C c _ _ hinv hs1
    have hroom := send_room C _ hinv1 i r hm1
    simp only at hroom
    have hs2 : step C { c with members := c.members.set i (.ran r) } (.member i)
        = some { c with hist := c.hist ++ [(i, r)], members := c.members.set i (.sent r) } := by
      simp [step, stepMember, hm1, hroom]
    have hm2 : (c.members.set i (.sent r))[i]? = some (.sent r) := by simp [hi]
    have hs3 : step C { c with hist := c.hist ++ [(i, r)], members := c.members.set i (.sent r) } (.member i)
        = some { c with hist := c.hist ++ [(i, r)], members := c.members.set i (.done r) } := by
      simp [step, stepMember, hm2]
    rw [hblock, exec_append, exec_cons, stepD_some C c _ _ hs1, exec_cons, stepD_some C _ _ _ hs2,
      exec_cons, stepD_some C _ _ _ hs3]
    show Quiet C (exec C { c with hist := c.hist ++ [(i, r)], members := c.members.set i (.done r) } settle)
    -- the closer was still waiting: member i had not ended
    have hcw : c.closer = .waiting ∧ c.closed = false := by
      rcases hq.closer with ⟨h1, _, h3⟩ | ⟨h1, _⟩
      · exact ⟨h1, h3⟩
      · have := hinv.closerOK (by rw [h1]; simp)
        have := all_done_not _ _ _ hst this
        simp [MPc.isDone] at this
    apply settle_quiet
    · intro j m hj
      simp only at hj
      by_cases hji : j = i
      · subst hji
        rw [List.getElem?_set_self hi] at hj
        right
        rw [← Option.some.inj hj]; rfl
      · rw [List.getElem?_set_ne (fun h => hji h.symm)] at hj
        exact hq.mem j m hj
    · exact hcw.1
    · exact hcw.2
    · rcases hq.cons with h | ⟨s, h1, h2, _⟩
      · exact Or.inl h
      · refine Or.inr ⟨s, h1, Or.inr ?_⟩
        simp only [List.length_append, List.length_cons, List.length_nil]
        omega
  · have hn := quiet_member_none C c hq i hst
    rw [hblock, exec_append, exec_none C c [.member i, .member i, .member i] (by
      intro t ht
      simp only [List.mem_cons, List.mem_nil_iff, or_false, or_self] at ht
      rw [ht]; exact hn), quiet_settle C c hq]
    exact hq

end ScVerif.C17
