import ScVerif.C17.PipelineLemmas
/-!
# C17 — the Pull pipeline delivers each device's reports to the loop in order, once each

Ghost bookkeeping over `Pipeline.lean`: `pokes i sched` = what the environment made device `i` do, in order;
`delivered i c` = the values the loop has taken from member `i` (from the ghost `log`).  While both threads of
lane `i` are alive, the delivered values followed by the one the member holds, the one inside `SendMsg` and the
instructions still waiting are EXACTLY the device's instructions so far; in every state the delivered values
(and the one held) are a prefix of them.
-/
namespace ScVerif.C17.Pipe
open ScVerif.C17

variable {V : Type}

/-- the values the loop has taken from member `i` -/
def deliveredOf (i : Nat) (log : List (Nat × V)) : List V := (log.filter fun e => e.1 == i).map (·.2)

def Cfg.delivered (c : Cfg V) (i : Nat) : List V := deliveredOf i c.log

def MSt.held : MSt V → List V
  | .holding v => [v] | _ => []
def HSt.inSendMsg : HSt V → List V
  | .sending v => [v] | _ => []

/-- both threads of the lane are running - or the lane's turn has not come yet (strategy One) -/
def Lane.alive (l : Lane V) : Bool := (!l.h.isEnded || l.m.isNotStarted) && !l.m.isEnded

/-- everything of lane `l` that is on its way to the loop, oldest first -/
def Lane.inflight (l : Lane V) : List (Option V) := (l.m.held ++ l.h.inSendMsg).map some ++ l.pend

/-- a lane whose member has not been called has no handler -/
def Lane.wf (l : Lane V) : Prop := l.m = .notStarted → l.h = .ended

/-- the invariant of lane `i` against the instructions `pk` its device has been given -/
def FlowInv (c : Cfg V) (i : Nat) (pk : List (Option V)) : Prop :=
  ∀ l, c.lanes[i]? = some l →
    l.wf
    ∧ (l.alive = true → (c.delivered i).map some ++ l.inflight = pk)
    ∧ ((c.delivered i ++ l.m.held).map some) <+: pk

/-- the instructions label `lbl` gives to device `i` -/
def pokeOf (i : Nat) : Lbl V → List (Option V)
  | .poke j x => if j = i then [x] else []
  | _ => []

def pokes (i : Nat) (sched : List (Lbl V)) : List (Option V) := sched.flatMap (pokeOf i)

theorem deliveredOf_append_ne (i j : Nat) (v : V) (log : List (Nat × V)) (h : j ≠ i) :
    deliveredOf i (log ++ [(j, v)]) = deliveredOf i log := by
  simp [deliveredOf, List.filter_append, h]

theorem deliveredOf_append_eq (i : Nat) (v : V) (log : List (Nat × V)) :
    deliveredOf i (log ++ [(i, v)]) = deliveredOf i log ++ [v] := by
  simp [deliveredOf, List.filter_append]

/-- what a step on the lane itself has to show -/
def LaneKeeps (l l' : Lane V) (pk ex : List (Option V)) : Prop :=
  l.wf →
    l'.wf
    ∧ (l'.alive = true → l.alive = true ∧ l'.inflight = l.inflight ++ ex)
    ∧ (∀ d : List V, ((l.alive = true → d.map some ++ l.inflight = pk) ∧ (d ++ l.m.held).map some <+: pk) →
          (d ++ l'.m.held).map some <+: pk ++ ex)

/-- a step on lane `j` that leaves the log alone: the invariant of lane `i` follows from a per-lane fact -/
theorem onLane_flow (c c' : Cfg V) (i j : Nat) (f : Lane V → Option (Lane V)) (pk ex : List (Option V))
    (h : c.onLane j f = some c') (hi : FlowInv c i pk)
    (hf : ∀ l l', f l = some l' → j = i → LaneKeeps l l' pk ex)
    (hne : j ≠ i → ex = []) : FlowInv c' i (pk ++ ex) := by
  obtain ⟨l, l', hl, hfl, rfl⟩ := onLane_some c c' j f h
  intro li hli
  by_cases hji : j = i
  · subst hji
    have hlt : j < c.lanes.length := by
      rcases Nat.lt_or_ge j c.lanes.length with h | h
      · exact h
      · simp [List.getElem?_eq_none h] at hl
    simp [hlt] at hli; subst hli
    obtain ⟨h0, h1, h2⟩ := hi l hl
    obtain ⟨g0, g1, g2⟩ := hf l l' hfl rfl h0
    refine ⟨g0, ?_, ?_⟩
    · intro ha
      obtain ⟨ha0, hin⟩ := g1 ha
      show (deliveredOf j c.log).map some ++ l'.inflight = pk ++ ex
      rw [hin, ← List.append_assoc]
      have := h1 ha0
      simp only [Cfg.delivered] at this
      rw [this]
    · exact g2 (c.delivered j) ⟨h1, h2⟩
  · rw [hne hji, List.append_nil]
    have : (c.lanes.set j l')[i]? = c.lanes[i]? := by simp [List.getElem?_set_ne hji]
    simp only [this] at hli
    exact hi li hli

theorem prefix_append_right {α : Type} (a b c : List α) (h : a <+: b) : a <+: b ++ c :=
  List.IsPrefix.trans h (List.prefix_append b c)

/-- a thread of the lane ends (or the lane is refused): nothing is claimed any more, and what the member held is dropped -/
theorem laneKeeps_dead (l l' : Lane V) (pk : List (Option V)) (hdead : l'.alive = false) (hwf : l'.wf)
    (hheld : l'.m.held = [] ∨ l'.m.held = l.m.held) : LaneKeeps l l' pk [] := by
  intro _
  refine ⟨hwf, fun ha => by simp [hdead] at ha, ?_⟩
  intro d hd
  rw [List.append_nil]
  rcases hheld with h | h
  · rw [h, List.append_nil]
    have := hd.2
    rw [List.map_append] at this
    exact List.IsPrefix.trans (List.prefix_append _ _) this
  · rw [h]; exact hd.2

theorem wf_of_started (l : Lane V) (hns : l.m.isNotStarted = false) : l.wf := by
  intro hm; rw [hm] at hns; simp [MSt.isNotStarted] at hns

theorem started_of_wf (l : Lane V) (hwf : l.wf) (hh : l.h ≠ .ended) : l.m.isNotStarted = false := by
  cases hm : l.m <;> simp [MSt.isNotStarted]
  exact hh (hwf hm)

/-- one step keeps the flow invariant of every lane -/
theorem step_flow [DecidableEq V] (P : Params V) (c c' : Cfg V) (lbl : Lbl V) (i : Nat) (pk : List (Option V))
    (h : step P c lbl = some c') (hi : FlowInv c i pk) : FlowInv c' i (pk ++ pokeOf i lbl) := by
  cases lbl <;> simp only [step] at h
  case mStart j =>
    simp only [pokeOf]
    split at h
    · refine onLane_flow c c' i j _ pk [] h hi ?_ (fun _ => rfl)
      intro l l' hl _
      unfold mStartLane at hl
      split at hl
      · next hm =>
        simp at hl; subst hl
        split
        · exact laneKeeps_dead _ _ pk (by simp [Lane.alive, MSt.isEnded]) (by simp [Lane.wf]) (Or.inl rfl)
        · intro hwf
          have hh := hwf hm
          refine ⟨by simp [Lane.wf], fun _ => ⟨by simp [Lane.alive, hm, MSt.isNotStarted, MSt.isEnded], ?_⟩, ?_⟩
          · simp [Lane.inflight, hm, hh, MSt.held, HSt.inSendMsg]
          · intro d hd; simpa [MSt.held, hm] using hd.2
      · simp at hl
    · simp at h
  case hStart j =>
    simp only [pokeOf]
    refine onLane_flow c c' i j _ pk [] h hi ?_ (fun _ => rfl)
    intro l l' hl _
    unfold hStartLane at hl
    split at hl
    · next v rest hh hp =>
      split at hl
      · simp at hl; subst hl
        intro hwf
        have hns := started_of_wf l hwf (by simp [hh])
        exact laneKeeps_dead l _ pk (by simp [Lane.alive, HSt.isEnded, hns]) (wf_of_started _ hns) (Or.inr rfl) hwf
      · simp at hl; subst hl
        intro hwf
        have hns := started_of_wf l hwf (by simp [hh])
        refine ⟨wf_of_started _ hns,
          fun ha => ⟨by simpa [Lane.alive, HSt.isEnded, hh, hns] using ha, by simp [Lane.inflight, hh, hp, HSt.inSendMsg]⟩, ?_⟩
        intro d hd; simpa using hd.2
    · next rest hh hp =>
      simp at hl; subst hl
      intro hwf
      have hns := started_of_wf l hwf (by simp [hh])
      exact laneKeeps_dead l _ pk (by simp [Lane.alive, HSt.isEnded, hns]) (wf_of_started _ hns) (Or.inr rfl) hwf
    · simp at hl
  case hCtx j =>
    simp only [pokeOf]
    split at h
    · refine onLane_flow c c' i j _ pk [] h hi ?_ (fun _ => rfl)
      intro l l' hl _
      unfold hCtxLane at hl
      split at hl
      · next hh =>
        simp at hl; subst hl
        intro hwf
        have hns := started_of_wf l hwf (by simp [hh])
        exact laneKeeps_dead l _ pk (by simp [Lane.alive, HSt.isEnded, hns]) (wf_of_started _ hns) (Or.inr rfl) hwf
      · next v hh =>
        split at hl
        · simp at hl; subst hl
          intro hwf
          have hns := started_of_wf l hwf (by simp [hh])
          exact laneKeeps_dead l _ pk (by simp [Lane.alive, HSt.isEnded, hns]) (wf_of_started _ hns) (Or.inr rfl) hwf
        · simp at hl
      · simp at hl
    · simp at h
  case hand j =>
    simp only [pokeOf]
    refine onLane_flow c c' i j _ pk [] h hi ?_ (fun _ => rfl)
    intro l l' hl _
    unfold handLane at hl
    split at hl
    · next v hh hm =>
      simp at hl; subst hl
      intro _
      have hal : l.alive = true := by simp [Lane.alive, hh, hm, HSt.isEnded, MSt.isEnded]
      refine ⟨by simp [Lane.wf], fun _ => ⟨hal, by simp [Lane.inflight, hh, hm, HSt.inSendMsg, MSt.held]⟩, ?_⟩
      intro d hd
      have := hd.1 hal
      simp [Lane.inflight, hh, hm, HSt.inSendMsg, MSt.held] at this
      simp [MSt.held]
      rw [← this]
      refine ⟨l.pend, by simp⟩
    · simp at hl
  case mCtx j =>
    simp only [pokeOf]
    split at h
    · refine onLane_flow c c' i j _ pk [] h hi ?_ (fun _ => rfl)
      intro l l' hl _
      unfold mCtxLane at hl
      split at hl
      · simp at hl
      · simp at hl
      · simp at hl; subst hl
        exact laneKeeps_dead l _ pk (by simp [Lane.alive, MSt.isEnded]) (by simp [Lane.wf]) (Or.inl rfl)
    · simp at h
  case mEof j =>
    simp only [pokeOf]
    refine onLane_flow c c' i j _ pk [] h hi ?_ (fun _ => rfl)
    intro l l' hl _
    unfold mEofLane at hl
    split at hl
    · simp at hl; subst hl
      exact laneKeeps_dead l _ pk (by simp [Lane.alive, MSt.isEnded]) (by simp [Lane.wf]) (Or.inl rfl)
    · simp at hl
  case poke j x =>
    simp only [pokeOf]
    by_cases hji : j = i
    · subst hji
      simp only [if_true]
      refine onLane_flow c c' j j _ pk [x] h hi ?_ (fun hne => absurd rfl hne)
      intro l l' hl _
      simp at hl; subst hl
      intro hwf
      refine ⟨hwf, fun ha => ⟨by simpa [Lane.alive] using ha, by simp [Lane.inflight]⟩, ?_⟩
      intro d hd
      exact prefix_append_right _ _ _ hd.2
    · simp only [hji, if_false]
      exact onLane_flow c c' i j _ pk [] h hi (fun _ _ _ hj => absurd hj hji) (fun _ => rfl)
  case give j =>
    simp only [pokeOf, List.append_nil]
    split at h
    · next l hl =>
      split at h
      · next v hm hloop =>
        simp at h; subst h
        intro li hli
        by_cases hji : j = i
        · subst hji
          have hlt : j < c.lanes.length := by
            rcases Nat.lt_or_ge j c.lanes.length with h | h
            · exact h
            · simp [List.getElem?_eq_none h] at hl
          simp [hlt] at hli; subst hli
          obtain ⟨_, h1, h2⟩ := hi l hl
          simp only [Cfg.delivered, deliveredOf_append_eq]
          refine ⟨by simp [Lane.wf], ?_, ?_⟩
          · intro ha
            have ha0 : l.alive = true := by simpa [Lane.alive, hm, MSt.isEnded, MSt.isNotStarted] using ha
            have := h1 ha0
            simp [Lane.inflight, hm, MSt.held, Cfg.delivered] at this ⊢
            exact this
          · simpa [hm, MSt.held, Cfg.delivered] using h2
        · have : (c.lanes.set j { l with m := .recv })[i]? = c.lanes[i]? := by simp [List.getElem?_set_ne hji]
          simp only [this] at hli
          simp only [Cfg.delivered, deliveredOf_append_ne i j v c.log hji]
          exact hi li hli
      · simp at h
    · simp at h
  case cancel => simp at h; subst h; simp only [pokeOf, List.append_nil]; exact hi
  all_goals
    simp only [pokeOf, List.append_nil]
    split at h
    · simp at h; subst h; exact hi
    · simp at h

theorem pokes_cons (i : Nat) (l : Lbl V) (ls : List (Lbl V)) : pokes i (l :: ls) = pokeOf i l ++ pokes i ls := by
  simp [pokes]

theorem run_flow [DecidableEq V] (P : Params V) (ls : List (Lbl V)) (c c' : Cfg V) (i : Nat) (pk : List (Option V))
    (h : run P c ls = some c') (hi : FlowInv c i pk) : FlowInv c' i (pk ++ pokes i ls) := by
  induction ls generalizing c pk with
  | nil => simp [run] at h; subst h; simpa [pokes] using hi
  | cons l ls ih =>
    simp only [run] at h
    split at h
    · next c1 h1 =>
      have := ih c1 (pk ++ pokeOf i l) h (step_flow P c c1 l i pk h1 hi)
      rw [pokes_cons, ← List.append_assoc]; exact this
    · simp at h

theorem flow_init (n i : Nat) : FlowInv (Cfg.init n : Cfg V) i [] := by
  intro l hl
  simp [Cfg.init, List.getElem?_replicate] at hl
  obtain ⟨_, rfl⟩ := hl
  simp [Cfg.delivered, deliveredOf, Cfg.init, Lane.inflight, MSt.held, HSt.inSendMsg, Lane.wf]

theorem flow_initSeq (n i : Nat) : FlowInv (Cfg.initSeq n : Cfg V) i [] := by
  intro l hl
  simp [Cfg.initSeq, List.getElem?_replicate] at hl
  obtain ⟨_, rfl⟩ := hl
  simp [Cfg.delivered, deliveredOf, Cfg.initSeq, Lane.inflight, MSt.held, HSt.inSendMsg, Lane.wf]

end ScVerif.C17.Pipe
