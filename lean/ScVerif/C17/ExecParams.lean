import ScVerif.C17.Model
/-!
# C17 — `group.Execute` as the Pull-pipeline model sees it: two numbers per strategy

`Pipeline.lean` does not run `executeEach` + the strategy's collector; it keeps two numbers (`Pipe.Params`):
`Execute` cancels its members' context once more than `allowed` member closures have returned (a Pull member
only ever returns an error) and returns (cancelling, deferred) once `retAfter` of them have.  This file says
which numbers belong to which strategy; the driver computes them from the strategy's name with this function,
and `PropsContract.lean` proves them against the thread-level model of `exec.go` (`Threads.lean`), for every
group size and every schedule.
-/
namespace ScVerif.C17

/-- `(allowed, retAfter)` for a group of `n` members none of which succeeds -/
def execParams : Strategy → Nat → Nat × Nat
  | .all, n => (0, n)
  | .most, n => (n / 2, n)
  | .any, n => (n - 1, n)
  | .fast, n => (n, n)        -- no success: waits for the close
  | .race, n => (n, min 1 n)  -- the first response
  | .one, n => (n, n)         -- one after the other; `ExecuteOne` has no context of its own

def parseStrategy? : String → Option Strategy
  | "all" => some .all
  | "most" => some .most
  | "any" => some .any
  | "one" => some .one
  | "fast" => some .fast
  | "race" => some .race
  | _ => none

end ScVerif.C17
