import ScVerif.C17.ThreadLemmas
/-!
# C17 — the call itself terminates: lemmas

`ThreadLemmas` bounds the work of the goroutines `executeEach` starts (`pending`).  Here: the work left to
the caller's goroutine (the collector loop), and the fact that a closer that has finished has closed the
channel - together they give deadlock freedom of the whole call (`PropsLive.lean`).
-/
namespace ScVerif.C17

/-- Steps the collector still has to take at most: two per response not yet taken (receive, loop body),
one for the close. -/
def Config.consTodo (c : Config σ ρ) : Nat :=
  match c.cons with
  | .idle _ => 2 * (c.behs.length - c.taken) + 1
  | .got _ _ => 2 * (c.behs.length - c.taken) + 2
  | .returned _ _ => 0

/-- All the work left in one call: the goroutines of `executeEach` and the collector. -/
def Config.work (c : Config σ ρ) : Nat := c.pending + c.consTodo

/-- The closer has finished only after closing the channel. -/
def ClosedInv (c : Config σ ρ) : Prop := c.closer = .done → c.closed = true

theorem closedInv_init (C : Consumer σ ρ) (behs : List Beh) (cap : Nat) : ClosedInv (Config.init C behs cap) := by
  intro h; simp [Config.init] at h

theorem closedInv_step (C : Consumer σ ρ) (c c' : Config σ ρ) (t : Tid) (h : ClosedInv c)
    (hs : step C c t = some c') : ClosedInv c' := by
  unfold ClosedInv at *
  cases t with
  | member i =>
    simp only [step, stepMember] at hs
    split at hs
    · injection hs with hs; subst hs; exact h
    · split at hs
      · injection hs with hs; subst hs; exact h
      · cases hs
    · injection hs with hs; subst hs; exact h
    · cases hs
  | closer =>
    simp only [step, stepCloser] at hs
    split at hs
    · split at hs
      · injection hs with hs; subst hs; intro hd; cases hd
      · cases hs
    · injection hs with hs; subst hs; intro _; rfl
    · cases hs
  | consumer =>
    simp only [step, stepConsumer] at hs
    split at hs
    · split at hs
      · injection hs with hs; subst hs; exact h
      · split at hs
        · injection hs with hs; subst hs; exact h
        · cases hs
    · split at hs
      · injection hs with hs; subst hs; exact h
      · injection hs with hs; subst hs; exact h
    · cases hs
  | env =>
    simp only [step] at hs
    injection hs with hs; subst hs; exact h

theorem closedInv_exec (C : Consumer σ ρ) (sched : List Tid) (c : Config σ ρ) (h : ClosedInv c) :
    ClosedInv (exec C c sched) := by
  induction sched generalizing c with
  | nil => exact h
  | cons t ts ih =>
    show ClosedInv (exec C (stepD C c t) ts)
    apply ih
    unfold stepD
    cases hs : step C c t with
    | none => exact h
    | some c' => exact closedInv_step C c c' t h hs

/-- the static parts a member / closer step leaves alone -/
theorem member_keeps (c c' : Config σ ρ) (i : Nat) (hs : stepMember c i = some c') :
    c'.cons = c.cons ∧ c'.taken = c.taken ∧ c'.behs = c.behs := by
  unfold stepMember at hs
  split at hs
  · injection hs with hs; subst hs; exact ⟨rfl, rfl, rfl⟩
  · split at hs
    · injection hs with hs; subst hs; exact ⟨rfl, rfl, rfl⟩
    · cases hs
  · injection hs with hs; subst hs; exact ⟨rfl, rfl, rfl⟩
  · cases hs

theorem closer_keeps (c c' : Config σ ρ) (hs : stepCloser c = some c') :
    c'.cons = c.cons ∧ c'.taken = c.taken ∧ c'.behs = c.behs := by
  unfold stepCloser at hs
  split at hs
  · split at hs
    · injection hs with hs; subst hs; exact ⟨rfl, rfl, rfl⟩
    · cases hs
  · injection hs with hs; subst hs; exact ⟨rfl, rfl, rfl⟩
  · cases hs

theorem consTodo_keeps (c c' : Config σ ρ) (h : c'.cons = c.cons ∧ c'.taken = c.taken ∧ c'.behs = c.behs) :
    c'.consTodo = c.consTodo := by
  unfold Config.consTodo
  rw [h.1, h.2.1, h.2.2]

/-- every step of the collector uses up one of its steps -/
theorem consTodo_consumer (C : Consumer σ ρ) (c c' : Config σ ρ) (hinv : Inv C c)
    (hs : stepConsumer C c = some c') : c'.consTodo < c.consTodo := by
  have hle : c.hist.length ≤ c.behs.length := by
    rw [hinv.histLen, ← hinv.len]; exact List.countP_le_length
  unfold stepConsumer at hs
  split at hs
  · rename_i s hcs
    split at hs
    · rename_i r hr
      injection hs with hs; subst hs
      have hlt : c.taken < c.hist.length := lt_of_getElem? hr
      simp only [Config.consTodo, hcs]
      omega
    · split at hs
      · injection hs with hs; subst hs
        simp [Config.consTodo, hcs]
      · cases hs
  · rename_i s r hcs
    split at hs
    · injection hs with hs; subst hs
      simp [Config.consTodo, hcs]
    · injection hs with hs; subst hs
      simp [Config.consTodo, hcs]
  · cases hs

/-- With room for one response per member (`Inv.capOK`), goroutines of `executeEach` that cannot move have
all ended. -/
theorem spawned_stuck_done (C : Consumer σ ρ) (c : Config σ ρ) (hinv : Inv C c)
    (hst : ∀ t : Tid, t.spawned = true → step C c t = none) : c.spawnedDone = true := by
  have hall : c.members.all MPc.isDone = true := by
    apply List.all_eq_true.mpr
    intro m hm
    obtain ⟨i, hi⟩ := List.mem_iff_getElem?.mp hm
    have hnone := hst (.member i) rfl
    simp only [step] at hnone
    cases m with
    | start =>
      have hlt : i < c.behs.length := by rw [← hinv.len]; exact lt_of_getElem? hi
      unfold stepMember at hnone
      rw [hi, List.getElem?_eq_getElem hlt] at hnone
      simp at hnone
    | ran r =>
      have hroom := send_room C c hinv i r hi
      unfold stepMember at hnone
      rw [hi] at hnone
      simp [hroom] at hnone
    | sent r =>
      unfold stepMember at hnone
      rw [hi] at hnone
      simp at hnone
    | done r => rfl
  have hcl := hst .closer rfl
  simp only [step, stepCloser] at hcl
  cases hcs : c.closer with
  | waiting => rw [hcs] at hcl; simp [hall] at hcl
  | woke => rw [hcs] at hcl; simp at hcl
  | done => simp [Config.spawnedDone, hall, hcs]

/-- A collector that cannot move although the channel is closed has returned. -/
theorem consumer_stuck_returned (C : Consumer σ ρ) (c : Config σ ρ) (hclosed : c.closed = true)
    (hst : stepConsumer C c = none) : c.cons.isReturned = true := by
  unfold stepConsumer at hst
  split at hst
  · split at hst
    · cases hst
    · simp [hclosed] at hst
  · split at hst <;> cases hst
  · rename_i hcs; simp [hcs, ConsPc.isReturned]

theorem pending_le (c : Config σ ρ) : c.pending ≤ 3 * c.members.length + 2 := by
  have hb : ∀ l : List MPc, (l.map MPc.todo).sum ≤ 3 * l.length := by
    intro l
    induction l with
    | nil => simp
    | cons m l ih =>
      simp only [List.map_cons, List.sum_cons, List.length_cons]
      have : m.todo ≤ 3 := by cases m <;> simp [MPc.todo]
      omega
  have h1 := hb c.members
  have h2 : c.closer.todo ≤ 2 := by cases c.closer <;> simp [CloserPc.todo]
  unfold Config.pending
  omega

theorem consTodo_le (c : Config σ ρ) : c.consTodo ≤ 2 * c.behs.length + 2 := by
  unfold Config.consTodo
  split <;> omega

/-! ## a channel smaller than the group: how many responses can ever be sent -/

theorem countP_set_eq (p : α → Bool) (l : List α) (i : Nat) (a b : α) (h : l[i]? = some a) :
    (l.set i b).countP p + (if p a then 1 else 0) = l.countP p + (if p b then 1 else 0) := by
  induction l generalizing i with
  | nil => simp at h
  | cons x l ih =>
    cases i with
    | zero =>
      simp only [List.getElem?_cons_zero, Option.some.injEq] at h
      subst h
      simp only [List.set_cons_zero, List.countP_cons]
      omega
    | succ k =>
      simp only [List.getElem?_cons_succ] at h
      have := ih k h
      simp only [List.set_cons_succ, List.countP_cons]
      omega

/-- What holds under every schedule, for every collector, on a channel of any capacity: the log is the
responses of the members that have passed their send, and it never runs ahead of the collector by more
than the capacity (one, for an unbuffered channel: the rendezvous in flight). -/
structure Room (c : Config σ ρ) : Prop where
  histLen : c.hist.length = c.members.countP MPc.hasSent
  room : c.hist.length ≤ c.taken + max c.cap 1

theorem room_init (C : Consumer σ ρ) (behs : List Beh) (cap : Nat) : Room (Config.init C behs cap) := by
  refine ⟨?_, by simp [Config.init]⟩
  simp [Config.init, List.countP_replicate, MPc.hasSent]

theorem room_step (C : Consumer σ ρ) (c c' : Config σ ρ) (t : Tid) (h : Room c)
    (hs : step C c t = some c') : Room c' := by
  cases t with
  | member i =>
    simp only [step] at hs
    unfold stepMember at hs
    split at hs
    · rename_i b hm hb
      injection hs with hs; subst hs
      have := countP_set_eq MPc.hasSent c.members i .start (.ran (b.respond c.cancelled)) hm
      simp only [MPc.hasSent] at this
      exact ⟨by simp only; rw [h.histLen]; simpa using this.symm, h.room⟩
    · rename_i r hm
      split at hs
      · rename_i hroom
        injection hs with hs; subst hs
        have := countP_set_eq MPc.hasSent c.members i (.ran r) (.sent r) hm
        simp only [MPc.hasSent] at this
        refine ⟨?_, ?_⟩
        · simp only [List.length_append, List.length_cons, List.length_nil]
          rw [h.histLen]; simpa using this.symm
        · simp only [List.length_append, List.length_cons, List.length_nil]
          simp only [Bool.or_eq_true, decide_eq_true_eq, Bool.and_eq_true, beq_iff_eq] at hroom
          rcases hroom with h1 | ⟨⟨h1, h2⟩, _⟩
          · omega
          · omega
      · cases hs
    · rename_i r hm
      injection hs with hs; subst hs
      have := countP_set_eq MPc.hasSent c.members i (.sent r) (.done r) hm
      simp only [MPc.hasSent] at this
      exact ⟨by simp only; rw [h.histLen]; simpa using this.symm, h.room⟩
    · cases hs
  | closer =>
    simp only [step, stepCloser] at hs
    split at hs
    · split at hs
      · injection hs with hs; subst hs; exact ⟨h.histLen, h.room⟩
      · cases hs
    · injection hs with hs; subst hs; exact ⟨h.histLen, h.room⟩
    · cases hs
  | consumer =>
    simp only [step, stepConsumer] at hs
    split at hs
    · split at hs
      · injection hs with hs; subst hs
        refine ⟨h.histLen, ?_⟩
        have := h.room; simp only; omega
      · split at hs
        · injection hs with hs; subst hs; exact ⟨h.histLen, h.room⟩
        · cases hs
    · split at hs
      · injection hs with hs; subst hs; exact ⟨h.histLen, h.room⟩
      · injection hs with hs; subst hs; exact ⟨h.histLen, h.room⟩
    · cases hs
  | env =>
    simp only [step] at hs
    injection hs with hs; subst hs
    exact ⟨h.histLen, h.room⟩

theorem room_exec (C : Consumer σ ρ) (sched : List Tid) (c : Config σ ρ) (h : Room c) :
    Room (exec C c sched) := by
  induction sched generalizing c with
  | nil => exact h
  | cons t ts ih =>
    show Room (exec C (stepD C c t) ts)
    apply ih
    unfold stepD
    cases hs : step C c t with
    | none => exact h
    | some c' => exact room_step C c c' t h hs

/-- Race receives at most once. -/
def RaceTaken (c : Config Unit Single) : Prop := (c.cons.isIdle = true → c.taken = 0) ∧ c.taken ≤ 1

theorem raceTaken_step (c c' : Config Unit Single) (t : Tid) (h : RaceTaken c)
    (hs : step race c t = some c') : RaceTaken c' := by
  cases t with
  | member i =>
    simp only [step] at hs
    have hk := member_keeps c c' i hs
    unfold RaceTaken; rw [hk.1, hk.2.1]; exact h
  | closer =>
    simp only [step] at hs
    have hk := closer_keeps c c' hs
    unfold RaceTaken; rw [hk.1, hk.2.1]; exact h
  | consumer =>
    simp only [step, stepConsumer] at hs
    split at hs
    · rename_i s hcs
      have h0 : c.taken = 0 := h.1 (by simp [hcs, ConsPc.isIdle])
      split at hs
      · injection hs with hs; subst hs
        simp [RaceTaken, ConsPc.isIdle, h0]
      · split at hs
        · injection hs with hs; subst hs
          simp [RaceTaken, ConsPc.isIdle, h0]
        · cases hs
    · rename_i s r hcs
      simp only [race] at hs
      injection hs with hs; subst hs
      simp [RaceTaken, ConsPc.isIdle, h.2]
    · cases hs
  | env =>
    simp only [step] at hs
    injection hs with hs; subst hs
    exact h

theorem raceTaken_exec (sched : List Tid) (c : Config Unit Single) (h : RaceTaken c) :
    RaceTaken (exec race c sched) := by
  induction sched generalizing c with
  | nil => exact h
  | cons t ts ih =>
    show RaceTaken (exec race (stepD race c t) ts)
    apply ih
    unfold stepD
    cases hs : step race c t with
    | none => exact h
    | some c' => exact raceTaken_step c c' t h hs

/-- Once the collector has returned it never receives again: `taken` and its result are frozen. -/
theorem returned_frozen (C : Consumer σ ρ) (more : List Tid) (c : Config σ ρ) (h : c.cons.isReturned = true) :
    (exec C c more).taken = c.taken ∧ (exec C c more).cons = c.cons := by
  induction more generalizing c with
  | nil => exact ⟨rfl, rfl⟩
  | cons t ts ih =>
    show (exec C (stepD C c t) ts).taken = c.taken ∧ (exec C (stepD C c t) ts).cons = c.cons
    have hk : (stepD C c t).taken = c.taken ∧ (stepD C c t).cons = c.cons := by
      unfold stepD
      cases hs : step C c t with
      | none => exact ⟨rfl, rfl⟩
      | some c' =>
        cases t with
        | member i => simp only [step] at hs; have := member_keeps c c' i hs; exact ⟨this.2.1, this.1⟩
        | closer => simp only [step] at hs; have := closer_keeps c c' hs; exact ⟨this.2.1, this.1⟩
        | consumer =>
          simp only [step, stepConsumer] at hs
          cases hc : c.cons with
          | idle s => simp [hc, ConsPc.isReturned] at h
          | got s r => simp [hc, ConsPc.isReturned] at h
          | returned x b => simp [hc] at hs
        | env => simp only [step] at hs; injection hs with hs; subst hs; exact ⟨rfl, rfl⟩
    have := ih (stepD C c t) (by rw [hk.2]; exact h)
    rw [this.1, this.2, hk.1, hk.2]
    exact ⟨rfl, rfl⟩

theorem countP_isDone_le_hasSent (l : List MPc) : l.countP MPc.isDone ≤ l.countP MPc.hasSent := by
  induction l with
  | nil => simp
  | cons m l ih =>
    simp only [List.countP_cons]
    cases m <;> simp [MPc.isDone, MPc.hasSent] <;> omega

end ScVerif.C17
