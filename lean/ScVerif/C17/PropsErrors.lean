import ScVerif.C17.ErrLemmas
import ScVerif.C17.CancelLemmas
import ScVerif.C17.ErrThreadLemmas
import ScVerif.C17.PropsThreads
/-!
# C17 — member errors are opaque; the caller's context is cancelled before / during the call

* `C17_errors_opaque`: "a member fails" means its error is non-nil - the strategies never look at WHAT
  the error is.  Stated as equivariance under an arbitrary relabelling `f` of member error values
  (not necessarily injective: no two error values can be told apart, in particular a member's own
  `context.Canceled` / `DeadlineExceeded` is an error like any other).
* `C17_caller_cancel`: the caller's context being cancelled - before the call or at any moment during
  it - is only ever passed on to the members; the call itself goes on by its strategy's rule.
* `C17_one_caller_context`: the same for the sequential One.
-/
namespace ScVerif.C17

/-- **C17_errors_opaque.** For every relabelling `f` of member error values and every sequence of
arrivals: each strategy's result on the relabelled arrivals is the relabelled result - same messages,
same indices, same slots, error present in the same cases, and the error reported is the relabelled
one; the loop returns after the same number of responses and calls `cancelFunc()` at the same moments.
Also for `Execute`'s dispatch and for the sequential One (same number of members tried). -/
theorem C17_errors_opaque (f : Nat → Nat) :
    (∀ (st : Strategy) (n : Nat) (rs : List Tagged),
        execute st n (rs.map (mapT f)) = (execute st n rs).mapErr f)
    ∧ (∀ (n : Nat) (allowed : Int) (rs : List Tagged) (k : Nat),
        (upTo n allowed).result (rs.map (mapT f)) = ((upTo n allowed).result rs).mapErr f
        ∧ ((upTo n allowed).after ((rs.map (mapT f)).take k)).cancelled = ((upTo n allowed).after (rs.take k)).cancelled)
    ∧ (∀ (rs : List Tagged) (k : Nat),
        fast.result (rs.map (mapT f)) = (fast.result rs).mapErr f
        ∧ (fast.after ((rs.map (mapT f)).take k)).isReturned = (fast.after (rs.take k)).isReturned
        ∧ race.result (rs.map (mapT f)) = (race.result rs).mapErr f
        ∧ (race.after ((rs.map (mapT f)).take k)).isReturned = (race.after (rs.take k)).isReturned)
    ∧ (∀ outs : List Resp,
        one (outs.map (Resp.mapErr f)) = (one outs).mapErr f
        ∧ oneTried (outs.map (Resp.mapErr f)) = oneTried outs) := by
  have hone : ∀ outs : List Resp,
      one (outs.map (Resp.mapErr f)) = (one outs).mapErr f
      ∧ oneTried (outs.map (Resp.mapErr f)) = oneTried outs := by
    intro outs
    have := oneLoop_map f outs 0 none
    simp only [Option.map_none] at this
    simp [one, oneTried, this]
  refine ⟨?_, ?_, ?_, hone⟩
  · intro st n rs
    cases st with
    | all => exact result_map _ f _ _ (upTo_equivariant n _ f) rs
    | most => exact result_map _ f _ _ (upTo_equivariant n _ f) rs
    | any => exact result_map _ f _ _ (upTo_equivariant n _ f) rs
    | one =>
      simp only [execute]
      rw [map_snd_mapT, (hone _).1, singleResult_mapErr]
    | fast =>
      simp only [execute]
      rw [result_map _ f _ _ (fast_equivariant f) rs, singleResult_mapErr]
    | race =>
      simp only [execute]
      rw [result_map _ f _ _ (race_equivariant f) rs, singleResult_mapErr]
  · intro n allowed rs k
    refine ⟨result_map _ f _ _ (upTo_equivariant n allowed f) rs, ?_⟩
    rw [← List.map_take, after_map _ f _ _ (upTo_equivariant n allowed f)]
    exact (run_map_flags _ _ _).2
  · intro rs k
    refine ⟨result_map _ f _ _ (fast_equivariant f) rs, ?_, result_map _ f _ _ (race_equivariant f) rs, ?_⟩
    · rw [← List.map_take, after_map _ f _ _ (fast_equivariant f)]
      exact (run_map_flags _ _ _).1
    · rw [← List.map_take, after_map _ f _ _ (race_equivariant f)]
      exact (run_map_flags _ _ _).1

/-- A loop that DOES look at the error value (gives up as soon as a member reports error number 100 -
"the call has been cancelled anyway") is not equivariant: `C17_errors_opaque` is a real constraint on
the strategies, and the tie's error-class generator is what checks it on the code. -/
def fastPeeking : Consumer (Option Tagged) Single where
  init := none
  onRecv s r :=
    match r.2.err with
    | none => .ret ⟨r.2.msg, r.1, none⟩
    | some e => if e = 100 then .ret ⟨none, r.1, some (.member e)⟩
      else .next (match s with | none => some r | some x => some x) false
  onClose s := fast.onClose s

example : ∃ (f : Nat → Nat) (rs : List Tagged),
    fastPeeking.result (rs.map (mapT f)) ≠ (fastPeeking.result rs).mapErr f :=
  ⟨fun _ => 100, [(0, ⟨none, some 1⟩), (1, ⟨some 5, none⟩)], by decide⟩

/-- **C17_errors_opaque_threads.** The same at the level of goroutines: for every relabelling `f` of
member error values, every equivariant consumer loop (UpTo with any budget, Fast, Race - the three
instances are stated), all member behaviours (cancellation-aware or not) and EVERY schedule, running
the relabelled members goes through exactly the relabelled configurations: every goroutine is at the
same point, the same responses (relabelled) are on the channel in the same order, the members'
context is cancelled at the same moments, the call has returned in the same cases with the relabelled
value, and the same number of goroutines is alive. -/
theorem C17_errors_opaque_threads (f : Nat → Nat) (behs : List Beh) (sched : List Tid) :
    (∀ (n : Nat) (allowed : Int),
        let C := upTo n allowed
        exec C (Config.spawn C (behs.map (Beh.mapErr f))) sched
          = (exec C (Config.spawn C behs) sched).mapErr f (UpToSt.mapErr f) (Many.mapErr f))
    ∧ exec fast (Config.spawn fast (behs.map (Beh.mapErr f))) sched
        = (exec fast (Config.spawn fast behs) sched).mapErr f (Option.map (mapT f)) (Single.mapErr f)
    ∧ exec race (Config.spawn race (behs.map (Beh.mapErr f))) sched
        = (exec race (Config.spawn race behs) sched).mapErr f id (Single.mapErr f)
    ∧ (∀ (C : Consumer σ ρ) (gσ : σ → σ) (gρ : ρ → ρ), Equivariant C f gσ gρ →
        let c := exec C (Config.spawn C behs) sched
        let c' := exec C (Config.spawn C (behs.map (Beh.mapErr f))) sched
        c'.cancelled = c.cancelled ∧ c'.alive = c.alive ∧ c'.hist = c.hist.map (mapT f)
        ∧ (∀ x b, c.cons = .returned x b → c'.cons = .returned (gρ x) b)) := by
  have key : ∀ {σ ρ : Type} (C : Consumer σ ρ) (gσ : σ → σ) (gρ : ρ → ρ), Equivariant C f gσ gρ →
      exec C (Config.spawn C (behs.map (Beh.mapErr f))) sched
        = (exec C (Config.spawn C behs) sched).mapErr f gσ gρ := by
    intro σ ρ C gσ gρ h
    rw [spawn_map C f gσ gρ h, exec_map C f gσ gρ h]
  refine ⟨fun n allowed => key _ _ _ (upTo_equivariant n allowed f), key _ _ _ (fast_equivariant f),
    key _ _ _ (race_equivariant f), ?_⟩
  intro C gσ gρ h c c'
  have hc : c' = c.mapErr f gσ gρ := key C gσ gρ h
  refine ⟨by rw [hc]; rfl, by rw [hc]; exact alive_mapErr f gσ gρ c, by rw [hc]; rfl, ?_⟩
  intro x b hx
  rw [hc]
  show (c.cons).mapErr f gσ gρ = _
  rw [hx]; rfl

/-- **C17_caller_cancel.** The caller's context is cancelled after an arbitrary prefix `sched1` of the
schedule (empty prefix: before the call has started anything), then the threads go on under an
arbitrary `sched2`.  For every consumer loop, member behaviours and schedules:
* the members' context is cancelled from then on;
* every member that had not run yet by then either still has not run or has responded as it does to
  a cancelled context - and only such responses of these members ever reach the channel;
* nothing else changes: the call's return value is still the strategy's function of the responses in
  the order sent (`C17_threads_refine`), it only returns by the strategy's own rule, and every
  goroutine ends (`C17_goroutines_end`) - both hold for this schedule as for every other.
With the empty prefix: every response ever received is the member's response to a cancelled context,
and for UpTo the call still waits for every member and counts failures by the same rule. -/
theorem C17_caller_cancel (C : Consumer σ ρ) (behs : List Beh) (sched1 sched2 : List Tid) :
    let c1 := exec C (Config.spawn C behs) (sched1 ++ [.env])
    let c2 := exec C c1 sched2
    c2.cancelled = true
    ∧ (∀ (i : Nat) (m : MPc), c1.members[i]? = some .start → c2.members[i]? = some m →
        m = .start ∨ ∃ b : Beh, behs[i]? = some b ∧ m.resp = some (b.respond true))
    ∧ (∀ (i : Nat) (r : Resp), c1.members[i]? = some .start → (i, r) ∈ c2.hist →
        ∃ b : Beh, behs[i]? = some b ∧ r = b.respond true)
    ∧ (sched1 = [] → ∀ (i : Nat) (r : Resp), (i, r) ∈ c2.hist → ∃ b : Beh, behs[i]? = some b ∧ r = b.respond true)
    ∧ (∀ x b, c2.cons = .returned x b → x = C.result (c2.hist.take c2.taken)) := by
  intro c1 c2
  have hc1 : c1.cancelled = true := by
    show (exec C (Config.spawn C behs) (sched1 ++ [.env])).cancelled = true
    rw [exec_append]
    rfl
  have hbehs1 : c1.behs = behs := (exec_static C _ _).1
  have hlate : Late c1 c2 := late_exec C sched2 c1 c1 (late_refl c1 hc1)
  have hh : HistInv c2 := by
    have : c2 = exec C (Config.spawn C behs) ((sched1 ++ [.env]) ++ sched2) := by
      rw [exec_append]
    rw [this]
    exact histInv_exec C _ _ (histInv_init C behs behs.length)
  have hmem : ∀ (i : Nat) (m : MPc), c1.members[i]? = some .start → c2.members[i]? = some m →
      m = .start ∨ ∃ b : Beh, behs[i]? = some b ∧ m.resp = some (b.respond true) := by
    intro i m h1 h2
    rcases hlate.late i m h2 h1 with h | ⟨b, hb, hr⟩
    · exact Or.inl h
    · exact Or.inr ⟨b, by rw [← hbehs1]; exact hb, hr⟩
  have hhist : ∀ (i : Nat) (r : Resp), c1.members[i]? = some .start → (i, r) ∈ c2.hist →
      ∃ b : Beh, behs[i]? = some b ∧ r = b.respond true := by
    intro i r h1 hin
    rcases (hh.mem i r).mp hin with hm | hm
    · rcases hmem i _ h1 hm with h | ⟨b, hb, hr⟩
      · cases h
      · exact ⟨b, hb, by simpa [MPc.resp] using hr⟩
    · rcases hmem i _ h1 hm with h | ⟨b, hb, hr⟩
      · cases h
      · exact ⟨b, hb, by simpa [MPc.resp] using hr⟩
  refine ⟨hlate.canc, hmem, hhist, ?_, ?_⟩
  · intro hs i r hin
    subst hs
    have hlt : i < c2.members.length := by
      rcases (hh.mem i r).mp hin with hm | hm <;> exact lt_of_getElem? hm
    have hlen : c2.members.length = behs.length := by
      have := (exec_static C sched2 c1).2.2
      rw [this]
      show (exec C (Config.spawn C behs) ([] ++ [.env])).members.length = _
      rw [(exec_static C _ _).2.2]
      simp [Config.spawn, Config.init]
    have hstart : c1.members[i]? = some .start := by
      show (exec C (Config.spawn C behs) ([] ++ [Tid.env])).members[i]? = some .start
      simp only [List.nil_append, exec, List.foldl_cons, List.foldl_nil, stepD, step, Option.getD_some,
        Config.spawn, Config.init]
      rw [List.getElem?_replicate]
      simp [← hlen, hlt]
    exact hhist i r hstart hin
  · intro x b hx
    have hr := (C17_threads_refine C behs ((sched1 ++ [.env]) ++ sched2)).1
    rw [exec_append] at hr
    exact (hr x b hx).1

/-- **C17_one_caller_context.** ExecuteOne under a caller context that is cancelled at any moment
(`canc i` = member `i` finds it cancelled when it is called; `fun _ => true` = cancelled before the
call): with `outs` what the members then return, One still tries them in index order until one
succeeds - it errs iff there are members and every one of them fails, and every member was tried
unless one succeeded.  If no member looks at its context, the cancellation changes nothing at all. -/
theorem C17_one_caller_context (behs : List Beh) (canc : Nat → Bool) :
    let outs := behs.mapIdx fun i b => b.respond (canc i)
    ((one outs).err.isSome ↔ outs ≠ [] ∧ ∀ r ∈ outs, r.err.isSome)
    ∧ (oneTried outs = outs.length ∨ ∃ r ∈ outs, r.err = none)
    ∧ ((∀ b ∈ behs, b.onCancel = none) →
        one outs = one (behs.map (·.normal)) ∧ oneTried outs = oneTried (behs.map (·.normal))) := by
  intro outs
  refine ⟨?_, ?_, ?_⟩
  · rcases split_first_ok' outs with h | ⟨pre, r, post, heq, hpre, hr⟩
    · rw [(C17_one.2 outs h).1]
      cases ho : outs with
      | nil => simp
      | cons a t =>
        have ha : a.err.isSome := h a (by rw [ho]; simp)
        rw [ho] at h
        simp only [List.head?_cons, Option.bind_some, Option.isSome_map, ha, ne_eq, reduceCtorEq,
          not_false_eq_true, true_and, true_iff]
        exact h
    · rw [heq, (C17_one.1 pre post r hpre hr).1]
      simp only [Option.isSome_none, Bool.false_eq_true, false_iff, not_and]
      intro _ hall
      have := hall r (by simp)
      simp [hr] at this
  · rcases split_first_ok' outs with h | ⟨pre, r, post, heq, hpre, hr⟩
    · exact Or.inl (C17_one.2 outs h).2
    · exact Or.inr ⟨r, by rw [heq]; simp, hr⟩
  · intro hob
    have : outs = behs.map (·.normal) := by
      show (behs.mapIdx fun i b => b.respond (canc i)) = _
      apply List.ext_getElem?
      intro i
      rw [List.getElem?_mapIdx, List.getElem?_map]
      cases hb : behs[i]? with
      | none => rfl
      | some b =>
        have hmem : b ∈ behs := List.mem_of_getElem? hb
        simp [Beh.respond, hob b hmem]
    rw [this]
    exact ⟨rfl, rfl⟩

end ScVerif.C17
