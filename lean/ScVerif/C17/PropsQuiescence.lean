import ScVerif.C17.QuiescenceLemmas
import ScVerif.C17.PropsThreads
/-!
# C17 — what is observed at a point of quiescence does not depend on the interleaving that led to it

The harness releases one member, waits until nothing can move, observes, releases the next.  Between two
observation points the real scheduler interleaves the released member's goroutine, the closer and the
collector as it likes; the driver runs one particular order (`block`).  `C17_serial_points_quiescent` shows
that the driver's order ends at a point of quiescence.  Here: at ANY point of quiescence reached by ANY
schedule, everything the harness observes - has the call returned, with which value, is the members'
context cancelled, is the channel closed, which goroutines are left - is a function of the channel log (the
order in which the responses were sent), of which member goroutines have ended and of whether the caller
has cancelled; and the log only grows at its end, each member appearing once.  With one member released at
a time the order of the log is the release order, whatever the scheduler does in between: the serial
schedules the tie executes are representative of every interleaving between two observation points.
-/
namespace ScVerif.C17

/-- **C17_quiescence_determined.** For every collector loop, every group and EVERY schedule, in a state `c`
in which no step of the closer, the collector or a released member goroutine is enabled:
1. every member goroutine is still at its gate or has ended (none is parked in its send);
2. the channel is closed, and the closer has ended, exactly if every member goroutine has ended;
3. the call has returned exactly if the collector's loop returns from inside on the log, or every member
   goroutine has ended; the value it returned is `C.result` of the whole log; if it has not returned, the
   collector waits having received the whole log;
4. the members' context is cancelled exactly if the caller cancelled, or the call has returned, or the
   loop called `cancelFunc()` on the log. -/
theorem C17_quiescence_determined (C : Consumer σ ρ) (behs : List Beh) (sched : List Tid) :
    let c := exec C (Config.spawn C behs) sched
    c.quiescent C = true →
      (∀ (i : Nat) (m : MPc), c.members[i]? = some m → m = .start ∨ m.isDone = true)
      ∧ c.closed = c.members.all MPc.isDone
      ∧ c.closer = (if c.members.all MPc.isDone then .done else .waiting)
      ∧ c.consReturned = ((C.after c.hist).isReturned || c.members.all MPc.isDone)
      ∧ (∀ x b, c.cons = .returned x b → x = C.result c.hist)
      ∧ (c.consReturned = false →
          c.taken = c.hist.length ∧ ∃ s cf, c.cons = .idle s ∧ C.after c.hist = .running s cf)
      ∧ c.cancelled = (c.envCancelled || c.consReturned || (C.after c.hist).cancelled) := by
  intro c hq
  have hinv : Inv C c := inv_exec C sched _ (inv_init C behs behs.length (Nat.le_refl _))
  have hcl : ClosedInv c := closedInv_exec C sched _ (closedInv_init C behs behs.length)
  simp only [Config.quiescent, Bool.and_eq_true, Option.isNone_iff_eq_none, List.all_eq_true,
    List.mem_range] at hq
  obtain ⟨⟨hqcl, hqco⟩, hqm⟩ := hq
  obtain ⟨hcloser, hclosed⟩ := closer_stuck C c hinv hcl hqcl
  obtain ⟨hret, hnot⟩ := consumer_stuck C c hinv hqco
  have hmem : ∀ (i : Nat) (m : MPc), c.members[i]? = some m → m = .start ∨ m.isDone = true := by
    intro i m hm
    have hi := lt_of_getElem? hm
    have h := hqm i hi
    rw [hm] at h
    cases m with
    | start => exact Or.inl rfl
    | ran r =>
      simp only [Option.isNone_iff_eq_none, step] at h
      have hroom := send_room C c hinv i r hm
      unfold stepMember at h
      rw [hm] at h
      simp [hroom] at h
    | sent r =>
      simp only [Option.isNone_iff_eq_none, step] at h
      unfold stepMember at h
      rw [hm] at h
      simp at h
    | done r => exact Or.inr rfl
  refine ⟨hmem, hclosed, hcloser, ?_, fun x b hx => (hret x b hx).1, ?_, ?_⟩
  · unfold Config.consReturned
    cases hr : c.cons.isReturned with
    | true =>
      cases hcs : c.cons with
      | idle s => simp [hcs, ConsPc.isReturned] at hr
      | got s r => simp [hcs, ConsPc.isReturned] at hr
      | returned x b =>
        rcases (hret x b hcs).2 with h | h
        · simp [h]
        · rw [← hclosed, h]; simp
    | false =>
      obtain ⟨h1, _, s, cf, _, h4, _⟩ := hnot hr
      rw [← hclosed, h1, h4]; rfl
  · intro hr
    obtain ⟨_, h2, s, cf, h3, h4, _⟩ := hnot hr
    exact ⟨h2, s, cf, h3, h4⟩
  · unfold Config.consReturned
    cases hr : c.cons.isReturned with
    | true =>
      have hc := hinv.cons
      unfold ConsOK at hc
      cases hcs : c.cons with
      | idle s => simp [hcs, ConsPc.isReturned] at hr
      | got s r => simp [hcs, ConsPc.isReturned] at hr
      | returned x b =>
        rw [hcs] at hc
        cases b with
        | false => simp only at hc; simp [hc.2]
        | true => simp only at hc; simp [hc.2.2.1]
    | false =>
      obtain ⟨_, _, s, cf, _, h4, h5⟩ := hnot hr
      rw [h5, h4]; simp [Run.cancelled]

/-- **C17_log_append_only.** Whatever happens after a state `c` reached by any schedule (any further
schedule `more`): the channel log only grows at its end, and a member whose response is among the new
entries had no response in the log before (each member's response appears once, after all the earlier
ones).  So when one member is released between two observation points, the log at the second point is the
log at the first followed by that member's response: the order of the log is the release order. -/
theorem C17_log_append_only (C : Consumer σ ρ) (behs : List Beh) (sched more : List Tid) :
    let c := exec C (Config.spawn C behs) sched
    let c' := exec C c more
    ∃ ext, c'.hist = c.hist ++ ext ∧ ∀ i r, (i, r) ∈ ext → ∀ r0, (i, r0) ∉ c.hist := by
  intro c c'
  obtain ⟨ext, hext⟩ := hist_append_only C more c
  refine ⟨ext, hext, ?_⟩
  intro i r hin r0 hin0
  have hc' : c' = exec C (Config.spawn C behs) (sched ++ more) := by
    show exec C (exec C (Config.spawn C behs) sched) more = _
    simp [exec, List.foldl_append]
  have hnd : (c'.hist.map (·.1)).Nodup := by
    rw [hc']; exact (C17_channel_log C behs (sched ++ more)).1
  rw [hext, List.map_append, List.nodup_append] at hnd
  exact hnd.2.2 i (List.mem_map.mpr ⟨(i, r0), hin0, rfl⟩) i (List.mem_map.mpr ⟨(i, r), hin, rfl⟩) rfl

/-- two different interleavings of releasing member 1 of two under Fast (the driver's `block 1`, and one in
which the collector receives before the member's goroutine ends and the closer is tried in between) end in
points of quiescence with the same log - and, as the theorem says they must, the same observations -/
example :
    let c0 := exec fast (Config.spawn fast [⟨⟨none, some 1⟩, none⟩, ⟨⟨some 2, none⟩, none⟩]) settle
    let a := exec fast c0 (block 1)
    let b := exec fast c0 [.member 1, .closer, .member 1, .consumer, .closer, .consumer, .member 1, .consumer, .closer]
    a.quiescent fast = true ∧ b.quiescent fast = true ∧ a.hist = b.hist
    ∧ a.consReturned = b.consReturned ∧ a.cancelled = b.cancelled ∧ a.closed = b.closed ∧ a.alive = b.alive := by
  decide

end ScVerif.C17
