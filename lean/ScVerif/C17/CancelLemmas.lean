import ScVerif.C17.ThreadLemmas
/-!
# C17 — the caller's context is cancelled before / during the call

`Late c0 c`: the members' context was already cancelled in `c0` and `c` is a later state: the context
stays cancelled, and every member that had not run in `c0` has either still not run, or responded as
it does to a cancelled context (`b.respond true`).
-/
namespace ScVerif.C17

structure Late (c0 c : Config σ ρ) : Prop where
  canc : c.cancelled = true
  behs : c.behs = c0.behs
  late : ∀ (i : Nat) (m : MPc), c.members[i]? = some m → c0.members[i]? = some .start →
    m = .start ∨ ∃ b : Beh, c0.behs[i]? = some b ∧ m.resp = some (b.respond true)

theorem late_refl (c0 : Config σ ρ) (h : c0.cancelled = true) : Late c0 c0 :=
  ⟨h, rfl, fun i m hm h0 => Or.inl (by rw [hm] at h0; injection h0)⟩

theorem late_of_members (c0 c c' : Config σ ρ) (h : Late c0 c) (hc : c'.cancelled = true)
    (hb : c'.behs = c.behs) (hm : c'.members = c.members) : Late c0 c' :=
  ⟨hc, by rw [hb, h.behs], fun i m hmi h0 => h.late i m (by rw [← hm]; exact hmi) h0⟩

theorem late_member (c0 c c' : Config σ ρ) (i : Nat) (h : Late c0 c) (hs : stepMember c i = some c') :
    Late c0 c' := by
  unfold stepMember at hs
  split at hs
  · rename_i b hmi hbi
    injection hs with hs; subst hs
    refine ⟨h.canc, h.behs, ?_⟩
    intro j m hjm h0
    simp only at hjm
    by_cases hji : j = i
    · subst hji
      have hlt : j < c.members.length := lt_of_getElem? hmi
      rw [List.getElem?_set_self hlt] at hjm
      injection hjm with hjm; subst hjm
      right
      refine ⟨b, by rw [← h.behs]; exact hbi, ?_⟩
      simp [MPc.resp, h.canc]
    · rw [List.getElem?_set_ne (fun e => hji e.symm)] at hjm
      exact h.late j m hjm h0
  · rename_i r hmi
    split at hs
    · injection hs with hs; subst hs
      refine ⟨h.canc, h.behs, ?_⟩
      intro j m hjm h0
      simp only at hjm
      by_cases hji : j = i
      · subst hji
        have hlt : j < c.members.length := lt_of_getElem? hmi
        rw [List.getElem?_set_self hlt] at hjm
        injection hjm with hjm; subst hjm
        rcases h.late j (.ran r) hmi h0 with hst | ⟨b, hb, hr⟩
        · cases hst
        · exact Or.inr ⟨b, hb, by simpa [MPc.resp] using hr⟩
      · rw [List.getElem?_set_ne (fun e => hji e.symm)] at hjm
        exact h.late j m hjm h0
    · cases hs
  · rename_i r hmi
    injection hs with hs; subst hs
    refine ⟨h.canc, h.behs, ?_⟩
    intro j m hjm h0
    simp only at hjm
    by_cases hji : j = i
    · subst hji
      have hlt : j < c.members.length := lt_of_getElem? hmi
      rw [List.getElem?_set_self hlt] at hjm
      injection hjm with hjm; subst hjm
      rcases h.late j (.sent r) hmi h0 with hst | ⟨b, hb, hr⟩
      · cases hst
      · exact Or.inr ⟨b, hb, by simpa [MPc.resp] using hr⟩
    · rw [List.getElem?_set_ne (fun e => hji e.symm)] at hjm
      exact h.late j m hjm h0
  · cases hs

theorem late_step (C : Consumer σ ρ) (c0 c c' : Config σ ρ) (t : Tid) (h : Late c0 c)
    (hs : step C c t = some c') : Late c0 c' := by
  cases t with
  | member i => exact late_member c0 c c' i h hs
  | closer =>
    simp only [step, stepCloser] at hs
    split at hs
    · split at hs
      · injection hs with hs; subst hs; exact late_of_members c0 c _ h h.canc rfl rfl
      · cases hs
    · injection hs with hs; subst hs; exact late_of_members c0 c _ h h.canc rfl rfl
    · cases hs
  | consumer =>
    simp only [step, stepConsumer] at hs
    split at hs
    · split at hs
      · injection hs with hs; subst hs; exact late_of_members c0 c _ h h.canc rfl rfl
      · split at hs
        · injection hs with hs; subst hs; exact late_of_members c0 c _ h rfl rfl rfl
        · cases hs
    · split at hs
      · injection hs with hs; subst hs
        exact late_of_members c0 c _ h (by simp [h.canc]) rfl rfl
      · injection hs with hs; subst hs; exact late_of_members c0 c _ h rfl rfl rfl
    · cases hs
  | env =>
    simp only [step] at hs
    injection hs with hs; subst hs; exact late_of_members c0 c _ h rfl rfl rfl

theorem late_exec (C : Consumer σ ρ) (sched : List Tid) (c0 c : Config σ ρ) (h : Late c0 c) :
    Late c0 (exec C c sched) := by
  induction sched generalizing c with
  | nil => exact h
  | cons t ts ih =>
    apply ih
    unfold stepD
    cases hs : step C c t with
    | none => exact h
    | some c' => exact late_step C c0 c c' t h hs

theorem exec_append (C : Consumer σ ρ) (c : Config σ ρ) (s1 s2 : List Tid) :
    exec C c (s1 ++ s2) = exec C (exec C c s1) s2 := by
  simp [exec, List.foldl_append]

end ScVerif.C17
