/-!
# C17 — executable model of `pkg/group/exec.go` (the code as it is after the two `fix:` commits)

Two layers, both executable and both used by the driver:

* this file: what each strategy's *consumer loop* does with the responses it receives from the
  `responses` channel, written as a small state machine `Consumer` (one `onRecv` per loop iteration,
  `onClose` for the code after the loop), the sequential `ExecuteOne`, and `Execute`'s dispatch with
  the placement of the single result;
* `Threads.lean`: `executeEach` as threads (members, closer) + the consumer + the caller cancelling
  its context, interleaved by an arbitrary schedule.

Messages and errors are identified by numbers (the harness compares by identity).
-/
namespace ScVerif.C17

/-- An error value: a member's error, or the package's own "no members returned a response". -/
inductive Err where
  | member (k : Nat)
  | noResponse
deriving DecidableEq, Repr

/-- What a member function returns: `(proto.Message, error)`; both may be nil, both may be set. -/
structure Resp where
  msg : Option Nat
  err : Option Nat
deriving DecidableEq, Repr

instance : Inhabited Resp := ⟨⟨none, none⟩⟩

/-- `memberResponse{i, msg, err}` -/
abbrev Tagged := Nat × Resp

/-- `(proto.Message, int, error)` -/
structure Single where
  msg : Option Nat
  idx : Nat
  err : Option Err
deriving DecidableEq, Repr

/-- `([]proto.Message, error)` -/
structure Many where
  results : List (Option Nat)
  err : Option Err
deriving DecidableEq, Repr

/-- One iteration of `for response := range executeEach(...)`: carry on (and say whether
`cancelFunc()` was called in this iteration) or return from inside the loop. -/
inductive Step (σ ρ : Type) where
  | next (s : σ) (cancel : Bool)
  | ret (x : ρ)

/-- A strategy's consumer loop. -/
structure Consumer (σ ρ : Type) where
  init : σ
  onRecv : σ → Tagged → Step σ ρ
  onClose : σ → ρ

/-- Where the consumer is: still looping (with the state of its locals and whether it has called
`cancelFunc()`), or returned. -/
inductive Run (σ ρ : Type) where
  | running (s : σ) (cancelled : Bool)
  | returned (x : ρ)

def feedRun (C : Consumer σ ρ) : Run σ ρ → Tagged → Run σ ρ
  | .running s c, r =>
    match C.onRecv s r with
    | .next s' c' => .running s' (c || c')
    | .ret x => .returned x
  | .returned x, _ => .returned x

def Consumer.start (C : Consumer σ ρ) : Run σ ρ := .running C.init false

/-- The consumer after receiving `rs` (in this order). -/
def Consumer.after (C : Consumer σ ρ) (rs : List Tagged) : Run σ ρ := rs.foldl (feedRun C) C.start

/-- The value returned if the channel is closed now. -/
def Consumer.finish (C : Consumer σ ρ) : Run σ ρ → ρ
  | .running s _ => C.onClose s
  | .returned x => x

/-- Result of the call when the channel delivers `rs` and is then closed. -/
def Consumer.result (C : Consumer σ ρ) (rs : List Tagged) : ρ := C.finish (C.after rs)

/-- Is the members' context cancelled by the call itself (a `cancelFunc()` in the loop, or the
deferred one at return)? -/
def Run.cancelled : Run σ ρ → Bool
  | .running _ c => c
  | .returned _ => true

def Run.isReturned : Run σ ρ → Bool
  | .running _ _ => false
  | .returned _ => true

/-! ## ExecuteUpTo (ExecuteAll / ExecuteMost / ExecuteAny) -/

structure UpToSt where
  errCount : Nat
  firstErr : Option Nat
  results : List (Option Nat)
deriving DecidableEq, Repr

def upTo (n : Nat) (allowed : Int) : Consumer UpToSt Many where
  init := ⟨0, none, List.replicate n none⟩
  onRecv s r :=
    let results := s.results.set r.1 r.2.msg
    match r.2.err with
    | none => .next { s with results := results } false
    | some e =>
      let firstErr := match s.firstErr with
        | none => some e
        | some x => some x
      let errCount := s.errCount + 1
      .next ⟨errCount, firstErr, results⟩ (decide ((errCount : Int) > allowed))
  onClose s :=
    if (s.errCount : Int) > allowed then ⟨s.results, s.firstErr.map Err.member⟩ else ⟨s.results, none⟩

def allowedAll (_n : Nat) : Int := 0
/-- `int(math.Floor(float64(len(members)) / 2))` -/
def allowedMost (n : Nat) : Int := ((n / 2 : Nat) : Int)
/-- `len(members) - 1` (−1 for the empty group) -/
def allowedAny (n : Nat) : Int := (n : Int) - 1

/-! ## ExecuteFast, ExecuteRace -/

def fast : Consumer (Option Tagged) Single where
  init := none
  onRecv s r :=
    match r.2.err with
    | none => .ret ⟨r.2.msg, r.1, none⟩
    | some _ => .next (match s with | none => some r | some x => some x) false
  onClose s :=
    match s with
    | none => ⟨none, 0, some .noResponse⟩
    | some r => ⟨none, r.1, r.2.err.map .member⟩

def race : Consumer Unit Single where
  init := ()
  onRecv _ r := .ret ⟨r.2.msg, r.1, r.2.err.map .member⟩
  onClose _ := ⟨none, 0, some .noResponse⟩

/-! ## ExecuteOne: sequential, in index order -/

/-- `outs[i]` is what member `i` returns if it is called. Returns the result and how many members
were called. -/
def oneLoop : Nat → Option Nat → List Resp → Single × Nat
  | i, firstErr, [] => (⟨none, 0, firstErr.map .member⟩, i)
  | i, firstErr, r :: rs =>
    match r.err with
    | none => (⟨r.msg, i, none⟩, i + 1)
    | some e => oneLoop (i + 1) (if i = 0 then some e else firstErr) rs

def one (outs : List Resp) : Single := (oneLoop 0 none outs).1
def oneTried (outs : List Resp) : Nat := (oneLoop 0 none outs).2

/-! ## Execute: dispatch and placement of the single result -/

inductive Strategy where
  | all | most | any | one | fast | race
deriving DecidableEq, Repr

/-- `singleResult(n, res, i, err)` -/
def singleResult (n : Nat) (s : Single) : Many :=
  let allRes := List.replicate n none
  ⟨if s.idx < n then allRes.set s.idx s.msg else allRes, s.err⟩

/-- `Execute` for a strategy, given the responses in the order the strategy receives them (for `one`:
in index order, as far as they are called). `unspecified` and out-of-range values are `all`. -/
def execute (st : Strategy) (n : Nat) (rs : List Tagged) : Many :=
  match st with
  | .all => (upTo n (allowedAll n)).result rs
  | .most => (upTo n (allowedMost n)).result rs
  | .any => (upTo n (allowedAny n)).result rs
  | .one => singleResult n (one (rs.map (·.2)))
  | .fast => singleResult n (fast.result rs)
  | .race => singleResult n (race.result rs)

/-- The arrivals when member `i` returns `outs[i]` and members complete in `order`. -/
def arrivals (outs : List Resp) (order : List Nat) : List Tagged :=
  order.map fun i => (i, outs.getD i default)

end ScVerif.C17
