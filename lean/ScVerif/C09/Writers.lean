import ScVerif.C09.Change
/-
C09 — two kinds of writers on one `Collection`, and the order in which the bus gets their events
(pkg/resource/collection.go).

* `Update` (also `Add`, `Update(WithCreateIfAbsent)`): commits under the collection's lock (`GetAndUpdate`),
  RELEASES the lock, then builds its event and calls `bus.Send` — move `update i v` (the commit; the event goes
  to `pending` with its commit number) and, at any later moment, `publish n` (the n-th pending event is sent;
  pending events of different writers go out in any order).
* `Delete`: takes the lock, removes the item, calls `bus.Send` with the REMOVE and only then unlocks — one
  atomic move `delete i` with respect to every other commit (commit and publication together).

`published` is the order in which `Bus.Send` is entered, i.e. the order in which every listener is handed the
events (C09_mixed_listener_progress / C09_bus_exactly_once); the commit numbers are ghost state.
-/
namespace ScVerif.C09

structure WCfg (ι μ : Type) where
  store : View ι μ
  pending : List (Nat × Change ι μ)
  published : List (Nat × Change ι μ)
  next : Nat

inductive WMove (ι μ : Type) where
  | update (i : ι) (v : μ)
  | publish (n : Nat)
  | delete (i : ι)

variable {ι μ : Type} [DecidableEq ι]

def WCfg.init (s : View ι μ) : WCfg ι μ := ⟨s, [], [], 0⟩

def wstep (c : WCfg ι μ) : WMove ι μ → WCfg ι μ
  | .update i v =>
    let k : Kind := if (c.store i).isSome then .update else .add
    { store := c.store.set i (some v)
      pending := c.pending ++ [(c.next, ⟨i, k, 0, c.store i, some v, false, false⟩)]
      published := c.published
      next := c.next + 1 }
  | .publish n =>
    match c.pending[n]? with
    | none => c
    | some p => { c with pending := c.pending.eraseIdx n, published := c.published ++ [p] }
  | .delete i =>
    match c.store i with
    | none => c                                        -- NotFound / allow-missing: nothing is published
    | some o =>
      { store := c.store.set i none
        pending := c.pending
        published := c.published ++ [(c.next, ⟨i, .remove, 0, some o, none, false, false⟩)]
        next := c.next + 1 }

def wrun (c : WCfg ι μ) (ms : List (WMove ι μ)) : WCfg ι μ := ms.foldl wstep c

structure WInv (c : WCfg ι μ) : Prop where
  pub_lt : ∀ p ∈ c.published, p.1 < c.next
  pend_lt : ∀ p ∈ c.pending, p.1 < c.next
  pend_kind : ∀ p ∈ c.pending, p.2.kind ≠ .remove
  ord : ∀ (i j : Nat) (x r : Nat × Change ι μ), c.published[i]? = some x → c.published[j]? = some r → r.2.kind = .remove →
    i < j → x.1 < r.1

omit [DecidableEq ι] in
theorem WInv_init (s : View ι μ) : WInv (WCfg.init s) where
  pub_lt := by intro p hp; cases hp
  pend_lt := by intro p hp; cases hp
  pend_kind := by intro p hp; cases hp
  ord := by intro i j x r hi; simp [WCfg.init] at hi

theorem getElem?_concat_cases {α : Type} (l : List α) (p x : α) (i : Nat)
    (h : (l ++ [p])[i]? = some x) : (i < l.length ∧ l[i]? = some x) ∨ (i = l.length ∧ x = p) := by
  by_cases hi : i < l.length
  · rw [List.getElem?_append_left hi] at h
    exact Or.inl ⟨hi, h⟩
  · rw [List.getElem?_append_right (by omega)] at h
    have : i - l.length = 0 := by
      cases hk : i - l.length with
      | zero => rfl
      | succ k => rw [hk] at h; simp at h
    rw [this] at h
    simp at h
    exact Or.inr ⟨by omega, h.symm⟩

theorem WInv_step {c : WCfg ι μ} (h : WInv c) (m : WMove ι μ) : WInv (wstep c m) := by
  cases m with
  | update i v =>
    refine ⟨?_, ?_, ?_, h.ord⟩
    · intro p hp
      have := h.pub_lt p hp
      show p.1 < c.next + 1
      omega
    · intro p hp
      have hp' : p ∈ c.pending ++ [(c.next, _)] := hp
      simp only [List.mem_append, List.mem_singleton] at hp'
      show p.1 < c.next + 1
      rcases hp' with h1 | h1
      · have := h.pend_lt p h1; omega
      · subst h1; exact Nat.lt_succ_self _
    · intro p hp
      have hp' : p ∈ c.pending ++ [(c.next, _)] := hp
      simp only [List.mem_append, List.mem_singleton] at hp'
      rcases hp' with h1 | h1
      · exact h.pend_kind p h1
      · subst h1
        show (if (c.store i).isSome then Kind.update else Kind.add) ≠ Kind.remove
        split <;> simp
  | publish n =>
    cases hn : c.pending[n]? with
    | none =>
      have : wstep c (.publish n) = c := by simp only [wstep, hn]
      rw [this]; exact h
    | some p =>
      have hstep : wstep c (.publish n) =
          { c with pending := c.pending.eraseIdx n, published := c.published ++ [p] } := by
        simp only [wstep, hn]
      rw [hstep]
      have hp : p ∈ c.pending := List.mem_of_getElem? hn
      refine ⟨?_, ?_, ?_, ?_⟩
      · intro q hq
        have hq' : q ∈ c.published ++ [p] := hq
        simp only [List.mem_append, List.mem_singleton] at hq'
        rcases hq' with h1 | h1
        · exact h.pub_lt q h1
        · subst h1; exact h.pend_lt q hp
      · intro q hq
        exact h.pend_lt q (List.mem_of_mem_eraseIdx hq)
      · intro q hq
        exact h.pend_kind q (List.mem_of_mem_eraseIdx hq)
      · intro i j x r hi hj hr hij
        rcases getElem?_concat_cases _ _ _ _ hj with ⟨hjl, hj'⟩ | ⟨_, hj'⟩
        · rcases getElem?_concat_cases _ _ _ _ hi with ⟨_, hi'⟩ | ⟨hil, _⟩
          · exact h.ord i j x r hi' hj' hr hij
          · omega
        · subst hj'
          exact absurd hr (h.pend_kind r hp)
  | delete i =>
    cases hs : c.store i with
    | none =>
      have : wstep c (.delete i) = c := by simp only [wstep, hs]
      rw [this]; exact h
    | some o =>
      have hstep : wstep c (.delete i) =
          { store := c.store.set i none, pending := c.pending
            published := c.published ++ [(c.next, ⟨i, .remove, 0, some o, none, false, false⟩)]
            next := c.next + 1 } := by
        simp only [wstep, hs]
      rw [hstep]
      refine ⟨?_, ?_, h.pend_kind, ?_⟩
      · intro q hq
        have hq' : q ∈ c.published ++ [(c.next, _)] := hq
        simp only [List.mem_append, List.mem_singleton] at hq'
        show q.1 < c.next + 1
        rcases hq' with h1 | h1
        · have := h.pub_lt q h1; omega
        · subst h1; exact Nat.lt_succ_self _
      · intro q hq
        have := h.pend_lt q hq
        show q.1 < c.next + 1
        omega
      · intro a j x r hi hj hr hij
        rcases getElem?_concat_cases _ _ _ _ hj with ⟨hjl, hj'⟩ | ⟨hjl, hj'⟩
        · rcases getElem?_concat_cases _ _ _ _ hi with ⟨_, hi'⟩ | ⟨hil, _⟩
          · exact h.ord a j x r hi' hj' hr hij
          · omega
        · subst hj'
          rcases getElem?_concat_cases _ _ _ _ hi with ⟨_, hi'⟩ | ⟨hil, _⟩
          · exact h.pub_lt x (List.mem_of_getElem? hi')
          · omega

theorem WInv_run {c : WCfg ι μ} (h : WInv c) (ms : List (WMove ι μ)) : WInv (wrun c ms) := by
  induction ms generalizing c with
  | nil => exact h
  | cons m ms ih => exact ih (WInv_step h m)

end ScVerif.C09
