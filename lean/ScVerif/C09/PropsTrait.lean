import ScVerif.C09.TraitAdapter
import ScVerif.C09.Props
/-!
# C09 — property theorems, part 8: the trait packages' conversions behind `Collection.Pull`

Model: `ScVerif/C09/TraitAdapter.lean` — the hand-over stage every trait package (and every `ModelServer.PullXs`
loop on top of it) puts between `Collection.Pull` and its subscriber, with the conversion as coded: the change
type is copied and each of OldValue / NewValue is attached whenever it is non-nil, whatever the change type.
The harness drives the real stages of parentpb, hailpb, publicationpb, vendingpb (two collections), electricpb and
metadatapb from the subscriber's end with every merged kind (monitor trait-collection-stream).

Quantifiers: any id and message types, any message conversion `f`, any upstream stream that is a well-formed
history, EVERY interleaving of the stage's take / deliver moves with the upstream (a take beyond what the
upstream has produced is a no-op); in the end-to-end theorem any forwarder transform `T` with `Sim T R` (the
identity, or `include` as coded for any filter: C09_include_sim) and every interleaving of the lossy pipeline.

Only property theorems and their non-vacuity examples live in this file.
-/
namespace ScVerif.C09

variable {ι μ ν : Type} [DecidableEq ι]

/-- One conversion stage, any interleaving: what its subscriber received plus the event it holds is exactly the
converted prefix of the upstream it has taken (nothing lost, duplicated or reordered); that stream — and the
received part alone — is a well-formed history of the converted view (every kind keeps the values it is about,
REPLACE included: old values chain per id in the converted message type) and folds to the conversion of what the
taken prefix folds to; once the stage has taken everything and holds nothing, the subscriber's fold is the
conversion of the upstream's fold.  The statement is about ANY upstream list, so it applies again to a second
conversion on top (model change -> proto change): `castChange g ∘ castChange f = castChange (g ∘ f)`. -/
theorem C09_trait_adapter_stage (f : μ → ν) (s : View ι μ) (up : List (Change ι μ)) (hw : WFHist s up)
    (ms : List AMove) :
    let c := arun (castChange f) up (ACfg.init : ACfg ι ν) ms
    c.out ++ c.inHand.toList = (up.take c.taken).map (castChange f) ∧
    WFHist (mapView f s) (c.out ++ c.inHand.toList) ∧
    WFHist (mapView f s) c.out ∧
    fold (c.out ++ c.inHand.toList) (mapView f s) = mapView f (fold (up.take c.taken) s) ∧
    (c.taken = up.length → c.inHand = none → fold c.out (mapView f s) = mapView f (fold up s)) ∧
    (∀ (g : ν → ν) (x : Change ι μ), castChange g (castChange f x) = castChange (g ∘ f) x) := by
  intro c
  obtain ⟨h1, _⟩ := AInv_run (castChange f) up ms ACfg.init (AInv_init _ up)
  have hm := map_cast f (WFHist_take hw c.taken)
  refine ⟨h1, ?_, ?_, ?_, ?_, ?_⟩
  · rw [h1]; exact hm.1
  · have : WFHist (mapView f s) (c.out ++ c.inHand.toList) := by rw [h1]; exact hm.1
    exact (WFHist_append.mp this).1
  · rw [h1]; exact hm.2
  · intro ht hh
    have h2 := hm.2
    rw [← h1, hh, ht, List.take_length] at h2
    simpa using h2
  · intro g x
    simp [castChange, Option.map_map]

/-- End to end: the lossy pipeline of `Collection.Pull` (merge buffer, forwarder with any simulating transform:
with or without `WithInclude`) followed by a trait package's conversion stage, every interleaving of both.  The
stream the TRAIT's subscriber receives is a well-formed history of the converted (filtered) view; and once
nothing is pending, in the forwarder's hand or in the stage's hand, it folds to the conversion of the (filtered)
view of everything that was written — the trait's subscriber holds what the trait's List shows. -/
theorem C09_trait_stream_view (T : Change ι μ → Option (Change ι μ)) (R : View ι μ → View ι μ)
    (hsim : Sim T R) (f : μ → ν) (s0 : View ι μ) (ms : List (PMove (Change ι μ)))
    (hw : WFHist s0 (pinputs ms)) (as : List AMove) :
    let c := prun T PCfg.init ms
    let a := arun (castChange f) c.delivered (ACfg.init : ACfg ι ν) as
    WFHist (mapView f (R s0)) a.out ∧
    WFHist (mapView f (R s0)) (a.out ++ a.inHand.toList) ∧
    (c.inHand = none → c.st.pending = [] → a.taken = c.delivered.length → a.inHand = none →
      ∀ i, fold a.out (mapView f (R s0)) i = (R (fold (pinputs ms) s0) i).map f) := by
  intro c a
  obtain ⟨_, _, hdel, _, hdrain⟩ := C09_pipeline_view T R hsim s0 ms hw
  obtain ⟨_, h2, h3, _, h5, _⟩ := C09_trait_adapter_stage f (R s0) c.delivered hdel as
  refine ⟨h3, h2, ?_⟩
  intro hh hp ht hah i
  have := h5 ht hah
  rw [this]
  simp only [mapView]
  rw [hdrain hh hp i]

/-- non-vacuity, and why the conversion must not go by kind: a REMOVE merged with an ADD reaches the stage as a
REPLACE; the conversion as coded keeps both values and the subscriber's view moves to the new child, the
by-kind variant (no arm for REPLACE) delivers a change that is not well formed and names no item -/
example :
    let c : Change String String := ⟨"x", .replace, 0, some "t1", some "t2", false, false⟩
    (castChange (fun v => v ++ "!") c).new = some "t2!" ∧ (castChange (fun v => v ++ "!") c).old = some "t1!" ∧
    (castByKind (fun v => v ++ "!") c).new = none ∧ (castByKind (fun v => v ++ "!") c).old = none := by
  decide
example :
    (arun (castChange (fun v : String => v ++ "!"))
      [(⟨"x", .replace, 0, some "t1", some "t2", false, false⟩ : Change String String)]
      ACfg.init [.take, .deliver, .take]).out.map (fun c => (c.kind, c.new)) = [(.replace, some "t2!")] := by
  decide

end ScVerif.C09
