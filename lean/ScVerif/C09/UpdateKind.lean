import ScVerif.C09.Writers
/-
C09 — `Collection.Update`'s two reads and the kind of the event it announces (pkg/resource/collection.go,
pkg/resource/atomic.go `GetAndUpdate`).

`Update(id, msg, opts…)` reads the item under the READ lock (first read), releases it, runs the caller's
callbacks (`WithExpectedCheck`, `InterceptBefore`: arbitrary code, in particular other writers), takes the WRITE
lock, reads again (re-validation), gives up with Aborted when the two reads differ (`proto.Equal`), saves, unlocks,
and then decides the change type of the event: ADD iff `oldValue == nil || (created != nil && !createdMeanwhile)`.
When the first read finds nothing and `WithCreateIfAbsent` is set, it returns a PROVISIONAL message (`created`, the
empty message of msg's type) so that the comparison has something to compare; a rival that creates the item with
exactly that empty message in between is not detected by the comparison — `createdMeanwhile` records it, and the
write is then the UPDATE of an item every subscriber has been told about.  On the lossy path the difference is not
cosmetic: a second ADD merges with a following REMOVE into nothing (`mergeChanges`), and the subscriber keeps an
item that no longer exists.

* `firstRead`   the GetFn's first call: `none` = NotFound
* `commit`      the GetFn's second call (all four branches as coded, including "present at the first read, gone at
                the second, create-if-absent": the second call then makes the provisional message), the
                comparison, `save`, and the kind decision; the store at that moment is ANY store (whatever the
                callbacks and other writers did since the first read)
* new value     the message written (the harness writes whole values; field masks are C01/C05's subject)
-/
namespace ScVerif.C09

structure UReq (ι μ : Type) where
  id : ι
  msg : μ
  createIfAbsent : Bool

/-- a call between its first read and its commit -/
structure UCall (ι μ : Type) where
  req : UReq ι μ
  oldValue : μ       -- what the first read returned: the stored body, or the provisional message
  created : Bool     -- `created != nil`

inductive UResult (ι μ : Type) where
  | aborted
  | ok (store : View ι μ) (ev : Change ι μ)

variable {ι μ : Type} [DecidableEq ι]

def firstRead (zero : μ) (s : View ι μ) (r : UReq ι μ) : Option (UCall ι μ) :=
  match s r.id with
  | some b => some ⟨r, b, false⟩
  | none => if r.createIfAbsent then some ⟨r, zero, true⟩ else none

/-- the re-validation read: (what it returns, `created != nil` afterwards, `createdMeanwhile`) -/
def secondRead (zero : μ) (s : View ι μ) (u : UCall ι μ) : Option μ × Bool × Bool :=
  if u.created then
    match s u.req.id with
    | some b => (some b, true, true)
    | none => (some zero, true, false)
  else
    match s u.req.id with
    | some b => (some b, false, false)
    | none => if u.req.createIfAbsent then (some zero, true, false) else (none, false, false)

/-- the event built after unlocking: ADD without old value iff `add`, else UPDATE from the first read's value -/
def updEvent (u : UCall ι μ) (add : Bool) : Change ι μ :=
  ⟨u.req.id, if add then .add else .update, 0, if add then none else some u.oldValue, some u.req.msg, false, false⟩

def commit [DecidableEq μ] (zero : μ) (s : View ι μ) (u : UCall ι μ) : UResult ι μ :=
  if (secondRead zero s u).1 = some u.oldValue then
    .ok (s.set u.req.id (some u.req.msg))
      (updEvent u ((secondRead zero s u).2.1 && !(secondRead zero s u).2.2))
  else .aborted

/-- SPEC: the event of an update that commits at store `s` (what `wstep … (.update i v)` of Writers.lean queues) -/
def commitEvent (s : View ι μ) (i : ι) (v : μ) : Change ι μ :=
  ⟨i, if (s i).isSome then .update else .add, 0, s i, some v, false, false⟩

theorem commit_ok_event [DecidableEq μ] (zero : μ) (s0 s : View ι μ) (r : UReq ι μ) (u : UCall ι μ)
    (hu : firstRead zero s0 r = some u) (s' : View ι μ) (ev : Change ι μ)
    (hc : commit zero s u = .ok s' ev) :
    ev = commitEvent s r.id r.msg ∧ s' = s.set r.id (some r.msg) := by
  have hreq : u.req = r ∧ (u.created = true → u.oldValue = zero) := by
    unfold firstRead at hu
    cases h0 : s0 r.id with
    | some b => rw [h0] at hu; cases hu; exact ⟨rfl, fun h => by cases h⟩
    | none =>
      rw [h0] at hu
      cases hcia : r.createIfAbsent with
      | false => rw [hcia] at hu; cases hu
      | true => rw [hcia] at hu; cases hu; exact ⟨rfl, fun _ => rfl⟩
  obtain ⟨hr, hz⟩ := hreq
  subst hr
  by_cases h : (secondRead zero s u).1 = some u.oldValue
  · rw [commit, if_pos h] at hc
    cases hc
    refine ⟨?_, rfl⟩
    cases hcr : u.created with
    | true =>
      cases hs : s u.req.id with
      | some b =>
        simp only [secondRead, hcr, hs, if_true] at h
        cases h
        simp [secondRead, updEvent, commitEvent, hcr, hs]
      | none => simp [secondRead, updEvent, commitEvent, hcr, hs]
    | false =>
      cases hs : s u.req.id with
      | some b =>
        simp only [secondRead, hcr, hs, Bool.false_eq_true, if_false] at h
        cases h
        simp [secondRead, updEvent, commitEvent, hcr, hs]
      | none =>
        cases hcia : u.req.createIfAbsent with
        | true => simp [secondRead, updEvent, commitEvent, hcr, hs, hcia]
        | false => simp [secondRead, hcr, hs, hcia] at h
  · rw [commit, if_neg h] at hc
    cases hc

omit [DecidableEq ι] in
theorem commitEvent_wf (s : View ι μ) (i : ι) (v : μ) : WFChange s (commitEvent s i v) := by
  unfold WFChange commitEvent
  cases hs : s i with
  | none => simp
  | some b => simp

theorem commitEvent_apply (s : View ι μ) (i : ι) (v : μ) :
    apply (commitEvent s i v) s = s.set i (some v) := by
  unfold apply commitEvent
  cases hs : s i <;> simp

/-- the event `wstep` (Writers.lean) queues for an update committing at `c.store` is `commitEvent` -/
theorem wstep_update_event (c : WCfg ι μ) (i : ι) (v : μ) :
    wstep c (.update i v) =
      { store := c.store.set i (some v), pending := c.pending ++ [(c.next, commitEvent c.store i v)],
        published := c.published, next := c.next + 1 } := rfl

/-- no spurious Aborted: a call whose item is, at commit time, what its first read saw goes through -/
theorem commit_ok_of_unchanged [DecidableEq μ] (zero : μ) (s0 s : View ι μ) (r : UReq ι μ) (u : UCall ι μ)
    (hu : firstRead zero s0 r = some u) (hsame : s r.id = s0 r.id) :
    ∃ s' ev, commit zero s u = .ok s' ev := by
  unfold firstRead at hu
  cases h0 : s0 r.id with
  | some b =>
    rw [h0] at hu; cases hu
    have h : (secondRead zero s (⟨r, b, false⟩ : UCall ι μ)).1 = some b := by
      simp [secondRead, hsame, h0]
    exact ⟨_, _, by rw [commit, if_pos h]⟩
  | none =>
    rw [h0] at hu
    cases hcia : r.createIfAbsent with
    | false => rw [hcia] at hu; cases hu
    | true =>
      rw [hcia] at hu; cases hu
      have h : (secondRead zero s (⟨r, zero, true⟩ : UCall ι μ)).1 = some zero := by
        simp [secondRead, hsame, h0]
      exact ⟨_, _, by rw [commit, if_pos h]⟩

end ScVerif.C09
