import ScVerif.C09.MachineLemmas
/-
C09 — the three stages of a lossy `Pull`:

  bus ─recv→ merge machine (`mergeCollectionExcess` / `DropExcess`) ─take→ forwarder ─deliver→ consumer

The forwarder is the goroutine of `Collection.Pull` / `Value.Pull` ranging over the machine's output:
it takes one event, transforms it (`T`: include ▸ read mask ▸ equivalence for a collection — `none` =
`continue`; the identity for the plain statement of C09), and then blocks on `send <- change` holding
that ONE event *in hand* until the consumer receives.  Three moves:

  `recv e`   the machine accepts an input                      (always enabled)
  `take`     the forwarder takes the machine's front event      (enabled iff nothing in hand and something pending)
  `deliver`  the consumer receives the event in hand            (enabled iff something is in hand)

A move that is not enabled leaves the configuration unchanged.  `taken` is a ghost history: the raw
events the forwarder took from the machine, in order.
-/
namespace ScVerif.C09

variable {ι μ : Type}

inductive PMove (α : Type) where
  | recv (e : α)
  | take
  | deliver

structure PCfg (ι μ : Type) where
  st : MState ι μ
  taken : List (Change ι μ)
  inHand : Option (Change ι μ)
  delivered : List (Change ι μ)
  received : List (Change ι μ)

def PCfg.init : PCfg ι μ := ⟨MState.init, [], none, [], []⟩

def pinputs {α : Type} : List (PMove α) → List α
  | [] => []
  | .recv e :: ms => e :: pinputs ms
  | _ :: ms => pinputs ms

variable [DecidableEq ι]

def pstep (T : Change ι μ → Option (Change ι μ)) (c : PCfg ι μ) : PMove (Change ι μ) → PCfg ι μ
  | .recv e => { c with st := recv c.st e, received := c.received ++ [e] }
  | .take =>
    match c.inHand, emit c.st with
    | none, some (o, st') => { c with st := st', taken := c.taken ++ [o], inHand := T o }
    | _, _ => c
  | .deliver =>
    match c.inHand with
    | some d => { c with inHand := none, delivered := c.delivered ++ [d] }
    | none => c

def prun (T : Change ι μ → Option (Change ι μ)) (c : PCfg ι μ) (ms : List (PMove (Change ι μ))) : PCfg ι μ :=
  ms.foldl (pstep T) c

theorem prun_nil (T : Change ι μ → Option (Change ι μ)) (c : PCfg ι μ) : prun T c [] = c := rfl
theorem prun_cons (T : Change ι μ → Option (Change ι μ)) (c : PCfg ι μ) (m : PMove (Change ι μ))
    (ms : List (PMove (Change ι μ))) : prun T c (m :: ms) = prun T (pstep T c m) ms := rfl

/-- The pipeline invariant: the two-stage invariant on (machine, taken, received), and what left the
forwarder (delivered, then in hand) is the transform of what it took. -/
structure PInv (T : Change ι μ → Option (Change ι μ)) (s0 : View ι μ) (c : PCfg ι μ) : Prop where
  inv : Inv s0 ⟨c.st, c.taken, c.received⟩
  out : c.delivered ++ c.inHand.toList = c.taken.filterMap T

theorem PInv_init (T : Change ι μ → Option (Change ι μ)) (s0 : View ι μ) : PInv T s0 (PCfg.init : PCfg ι μ) :=
  ⟨Inv_init s0, by simp [PCfg.init]⟩

theorem PInv_step {T : Change ι μ → Option (Change ι μ)} {s0 : View ι μ} {c : PCfg ι μ}
    (h : PInv T s0 c) (m : PMove (Change ι μ))
    (hw : ∀ e, m = .recv e → WFChange (fold c.received s0) e) : PInv T s0 (pstep T c m) := by
  obtain ⟨hinv, hout⟩ := h
  cases m with
  | recv e =>
    exact ⟨Inv_recv (c := ⟨c.st, c.taken, c.received⟩) hinv (hw e rfl), hout⟩
  | take =>
    simp only [pstep]
    cases hh : c.inHand with
    | some d => simp only; exact ⟨hinv, hout⟩
    | none =>
      cases he : emit c.st with
      | none => simp only; exact ⟨hinv, hout⟩
      | some p =>
        obtain ⟨o, st'⟩ := p
        simp only
        have h2 := Inv_emit (c := ⟨c.st, c.taken, c.received⟩) hinv
        simp only [step, he] at h2
        refine ⟨h2, ?_⟩
        rw [hh] at hout
        simp only [Option.toList_none, List.append_nil] at hout
        rw [List.filterMap_append, ← hout]
        cases hT : T o <;> simp [hT]
  | deliver =>
    simp only [pstep]
    cases hh : c.inHand with
    | none => simp only; exact ⟨hinv, hout⟩
    | some d =>
      simp only
      refine ⟨hinv, ?_⟩
      rw [hh] at hout
      simpa using hout

theorem pstep_received (T : Change ι μ → Option (Change ι μ)) (c : PCfg ι μ) (m : PMove (Change ι μ)) :
    (pstep T c m).received = c.received ++ pinputs [m] := by
  cases m with
  | recv e => simp [pstep, pinputs]
  | take =>
    simp only [pstep, pinputs]
    cases c.inHand <;> cases emit c.st <;> simp
  | deliver =>
    simp only [pstep, pinputs]
    cases c.inHand <;> simp

theorem prun_received (T : Change ι μ → Option (Change ι μ)) (c : PCfg ι μ) (ms : List (PMove (Change ι μ))) :
    (prun T c ms).received = c.received ++ pinputs ms := by
  induction ms generalizing c with
  | nil => simp [prun_nil, pinputs]
  | cons m ms ih =>
    rw [prun_cons, ih, pstep_received]
    cases m <;> simp [pinputs]

theorem PInv_run {T : Change ι μ → Option (Change ι μ)} {s0 : View ι μ} {c : PCfg ι μ}
    (ms : List (PMove (Change ι μ))) (h : PInv T s0 c)
    (hw : WFHist (fold c.received s0) (pinputs ms)) : PInv T s0 (prun T c ms) := by
  induction ms generalizing c with
  | nil => exact h
  | cons m ms ih =>
    rw [prun_cons]
    cases m with
    | recv e =>
      simp only [pinputs, WFHist] at hw
      refine ih (PInv_step h _ (fun e' he' => by cases he'; exact hw.1)) ?_
      simp only [pstep, fold_snoc]
      exact hw.2
    | take =>
      refine ih (PInv_step h _ (fun e' he' => by cases he')) ?_
      rw [pstep_received]; simpa [pinputs] using hw
    | deliver =>
      refine ih (PInv_step h _ (fun e' he' => by cases he')) ?_
      rw [pstep_received]; simpa [pinputs] using hw

/-! ### Value: DropExcess ▸ forwarder with the `last`-value equivalence -/

/-- Configuration of a lossy `Value.Pull`: the DropExcess slot, the forwarder's `last` (the value it
last sent, initially the seed / `nil`), the event in hand, what the consumer received. -/
structure VCfg (α : Type) where
  slot : Option α
  last : Option α
  inHand : Option α
  delivered : List α
  received : List α

/-- `E last v`: `r.equivalence != nil && r.equivalence.Compare(last, change.Value)` (`last` may be nil). -/
def vstep {α : Type} (E : Option α → α → Bool) (c : VCfg α) : PMove α → VCfg α
  | .recv e => { c with slot := some e, received := c.received ++ [e] }
  | .take =>
    match c.inHand, c.slot with
    | none, some v =>
      if E c.last v then { c with slot := none }                       -- continue
      else { c with slot := none, last := some v, inHand := some v }   -- last = change.Value; send
    | _, _ => c
  | .deliver =>
    match c.inHand with
    | some d => { c with inHand := none, delivered := c.delivered ++ [d] }
    | none => c

def vrun {α : Type} (E : Option α → α → Bool) (c : VCfg α) (ms : List (PMove α)) : VCfg α :=
  ms.foldl (vstep E) c

/-- Invariant of the Value pipeline started with seed `seed` (already sent; `none` for updates-only
or an unset value). `sent` = delivered followed by the event in hand. -/
structure VInv {α : Type} (E : Option α → α → Bool) (seed : Option α) (c : VCfg α) : Prop where
  sub : (c.delivered ++ c.inHand.toList ++ c.slot.toList).Sublist c.received
  lastSent : c.last = (c.delivered ++ c.inHand.toList).getLast?.or seed
  fresh : ∀ r, c.received.getLast? = some r →
    c.slot = some r ∨ (c.slot = none ∧ (c.last = some r ∨ E c.last r = true))
  noDup : ∀ pre a b post, seed.toList ++ c.delivered ++ c.inHand.toList = pre ++ a :: b :: post →
    E (some a) b = false

theorem VInv_step {α : Type} {E : Option α → α → Bool} {seed : Option α} {c : VCfg α}
    (h : VInv E seed c) (m : PMove α) : VInv E seed (vstep E c m) := by
  obtain ⟨hsub, hlast, hfresh, hnd⟩ := h
  rcases c with ⟨slot, last, inHand, delivered, received⟩
  simp only at hsub hlast hfresh hnd
  cases m with
  | recv e =>
    simp only [vstep]
    refine ⟨?_, hlast, ?_, hnd⟩
    · simp only [Option.toList_some]
      have : (delivered ++ inHand.toList).Sublist received :=
        (List.sublist_append_left _ slot.toList).trans hsub
      exact List.Sublist.append this (List.Sublist.refl [e])
    · intro r hr
      simp only [List.getLast?_append, List.getLast?_singleton, Option.some_or] at hr
      cases hr
      exact Or.inl rfl
  | take =>
    simp only [vstep]
    cases inHand with
    | some d => exact ⟨hsub, hlast, hfresh, hnd⟩
    | none =>
      cases slot with
      | none => exact ⟨hsub, hlast, hfresh, hnd⟩
      | some v =>
        simp only
        by_cases hE : E last v
        · simp only [hE, if_true]
          refine ⟨?_, hlast, ?_, hnd⟩
          · simp only [Option.toList_none, List.append_nil] at hsub ⊢
            exact (List.sublist_append_left _ [v]).trans (by simpa using hsub)
          · intro r hr
            rcases hfresh r hr with h1 | h1
            · cases h1
              exact Or.inr ⟨rfl, Or.inr hE⟩
            · exact absurd h1.1 (by simp)
        · simp only [hE, Bool.false_eq_true, if_false]
          refine ⟨?_, ?_, ?_, ?_⟩
          · simpa using hsub
          · simp
          · intro r hr
            rcases hfresh r hr with h1 | h1
            · cases h1
              exact Or.inr ⟨rfl, Or.inl rfl⟩
            · exact absurd h1.1 (by simp)
          · intro pre a b post heq
            simp only [Option.toList_none, List.append_nil, Option.toList_some] at hlast heq hnd
            -- either the new pair lies inside the old sent list, or it is (last sent, v)
            rcases List.eq_nil_or_concat (a :: b :: post) with hnil | ⟨init, x, hx⟩
            · cases hnil
            · have hx' : a :: b :: post = init ++ [x] := by simpa using hx
              rw [hx', ← List.append_assoc] at heq
              have h1 := List.append_inj' heq (by simp)
              obtain ⟨hl, hr⟩ := h1
              have hxv : x = v := by simpa using hr.symm
              subst hxv
              cases post with
              | nil =>
                -- init = [a], b = x: a is the last previously sent value (or the seed)
                have hinit : init = [a] ∧ b = x := by
                  cases init with
                  | nil => simp at hx'
                  | cons i0 init' =>
                    cases init' with
                    | nil => simp at hx'; exact ⟨by rw [hx'.1], hx'.2⟩
                    | cons i1 init'' =>
                      simp at hx'
                obtain ⟨hi, hb⟩ := hinit
                subst hi hb
                have hla : last = some a := by
                  rw [hlast]
                  have : (seed.toList ++ delivered).getLast? = some a := by
                    rw [hl]; simp
                  rw [List.getLast?_append] at this
                  cases hd : delivered.getLast? with
                  | some z => simp [hd] at this ⊢; exact this
                  | none =>
                    simp [hd] at this ⊢
                    cases seed with
                    | none => simp at this
                    | some s0 => simpa using this
                rw [← hla]
                simpa using hE
              | cons p post' =>
                -- the pair lies inside the old sent list
                have : ∃ post2, init = a :: b :: post2 := by
                  cases init with
                  | nil => simp at hx'
                  | cons i0 init' =>
                    cases init' with
                    | nil => simp at hx'
                    | cons i1 init'' =>
                      simp at hx'
                      exact ⟨init'', by rw [hx'.1, hx'.2.1]⟩
                obtain ⟨post2, hp2⟩ := this
                exact hnd pre a b post2 (by rw [hl, hp2])
  | deliver =>
    simp only [vstep]
    cases inHand with
    | none => exact ⟨hsub, hlast, hfresh, hnd⟩
    | some d =>
      simp only
      refine ⟨by simpa using hsub, by simpa using hlast, hfresh, ?_⟩
      intro pre a b post heq
      exact hnd pre a b post (by simpa using heq)

theorem VInv_run {α : Type} {E : Option α → α → Bool} {seed : Option α} {c : VCfg α}
    (h : VInv E seed c) (ms : List (PMove α)) : VInv E seed (vrun E c ms) := by
  induction ms generalizing c with
  | nil => exact h
  | cons m ms ih => exact ih (VInv_step h m)

def VCfg.init {α : Type} (seed : Option α) : VCfg α := ⟨none, seed, none, [], []⟩

theorem VInv_init {α : Type} (E : Option α → α → Bool) (seed : Option α) : VInv E seed (VCfg.init seed) := by
  refine ⟨by simp [VCfg.init], by simp [VCfg.init], by simp [VCfg.init], ?_⟩
  intro pre a b post heq
  simp only [VCfg.init, Option.toList_none, List.append_nil] at heq
  cases seed with
  | none => simp at heq
  | some s0 =>
    have := congrArg List.length heq
    simp at this
    omega

end ScVerif.C09
