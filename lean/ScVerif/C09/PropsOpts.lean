import ScVerif.C09.ReadOpts
/-!
# C09 — property theorems, part 5: the choice of the lossy or the blocking path from the read-option LIST

Model: `ScVerif/C09/ReadOpts.lean` — `ComputeReadConfig` as coded (a zero request, every option applied in the
order given), the branch `if !readConfig.Backpressure` of `Value.onUpdate` / `Collection.onUpdate`, and the
listener the subscription becomes on the bus of `Mixed.lean`.  The driver executes these definitions (op
`ropts`); the harness ties them to the real `resource.ComputeReadConfig` (all lists up to length 4) and to the
path the real `Value.Pull` / `Collection.Pull` take (all lists up to length 3: does a write return while the
subscriber is idle?).

Quantifiers: every option list (any length, any options before and after), any subscriber state, any event.

Only property theorems and their non-vacuity examples live in this file.
-/
namespace ScVerif.C09

/-- The LAST backpressure option of the list decides, whatever stands before it and whatever options that are
not about backpressure stand after it; with no backpressure option at all the subscription is lossy.  (The
code folds from the left over a zero request; the spec `lastBP` / `lastUO` reads the list from the right.) -/
theorem C09_backpressure_option_last_wins :
    (∀ opts : List ROpt,
        (computeReadConfig opts).backpressure = (lastBP opts).getD false ∧
        (computeReadConfig opts).updatesOnly = (lastUO opts).getD false) ∧
    (∀ (pre post : List ROpt) (b : Bool), (∀ o ∈ post, ∀ b', o ≠ .backpressure b') →
        pathOf (computeReadConfig (pre ++ .backpressure b :: post)) = (if b then .blocking else .lossy)) ∧
    (∀ opts : List ROpt, (∀ o ∈ opts, ∀ b', o ≠ .backpressure b') →
        pathOf (computeReadConfig opts) = .lossy) := by
  refine ⟨fun opts => ⟨applyOpts_backpressure opts _, applyOpts_updatesOnly opts _⟩, ?_, ?_⟩
  · intro pre post b hpost
    have h : (computeReadConfig (pre ++ .backpressure b :: post)).backpressure = b := by
      rw [computeReadConfig, applyOpts_backpressure, lastBP_append_cons pre post b hpost]; rfl
    simp only [pathOf, h]
  · intro opts hno
    have h : (computeReadConfig opts).backpressure = false := by
      rw [computeReadConfig, applyOpts_backpressure, lastBP_none_of_no_bp opts hno]; rfl
    simp only [pathOf, h]
    rfl

/-- "Without backpressure … writes complete without waiting", from the option list on: a subscription whose last
backpressure option says `false` (or that has none) takes ANY event at once in ANY state of its pipeline — the
writer's `listener.send` never waits for it; one whose last backpressure option says `true` takes the event iff
its forwarder holds nothing (the writer waits exactly while an event is undelivered). -/
theorem C09_option_list_decides_who_waits {α : Type} (E : Option α → α → Bool) (F : α → α)
    (opts : List ROpt) (l : VCfg α) (b : BCfg α) (e : α) :
    (lastBP opts ≠ some true → (handTo E F (installed (computeReadConfig opts) l b) e).isSome = true) ∧
    (lastBP opts = some true →
        ((handTo E F (installed (computeReadConfig opts) l b) e).isSome = true ↔ b.inHand = none)) := by
  have hb := applyOpts_backpressure opts ReadReq.zero
  constructor
  · intro h
    have h0 : (computeReadConfig opts).backpressure = false := by
      rw [computeReadConfig, hb]
      cases hl : lastBP opts with
      | none => rfl
      | some x => cases x with
        | false => rfl
        | true => exact absurd hl h
    simp only [installed, pathOf, h0]
    rfl
  · intro h
    have h1 : (computeReadConfig opts).backpressure = true := by
      rw [computeReadConfig, hb, h]; rfl
    simp only [installed, pathOf, h1]
    show (handTo E F (.bp b) e).isSome = true ↔ _
    simp only [handTo]
    cases hh : b.inHand with
    | none => simp
    | some x => simp

/-- non-vacuity: an adapter's default `true` overridden by the caller's `false` is a lossy subscription; the
other way round it is a blocking one; an option list without any backpressure option is lossy -/
example : pathOf (computeReadConfig [.backpressure true, .other, .backpressure false, .updatesOnly true]) = .lossy := by decide
example : pathOf (computeReadConfig [.backpressure false, .backpressure true, .other]) = .blocking := by decide
example : pathOf (computeReadConfig [.updatesOnly true, .other]) = .lossy := by decide
example : lastBP [.backpressure true, .other, .backpressure false, .updatesOnly true] = some false := by decide

end ScVerif.C09
