import ScVerif.C09.Include
/-
C09 — the seed list of `Collection.Pull` (collection.go: `itemSlice(readConfig)` keeps the stored items the
include filter admits, the seed loop sends one ADD per item in id order, all flagged SeedValue, the last one
LastSeedValue) and its specification: a well-formed history from nothing that folds to the filtered view of
the stored items (`seedChanges_spec`) — the two seed hypotheses of the subscriber theorems.
-/
namespace ScVerif.C09
variable {ι μ : Type}

/-- The seed changes `Collection.Pull` sends (collection.go, the loop over `currentValues`): one ADD per
stored item in the order given (the code sorts by id), flagged SeedValue, the last one also LastSeedValue. -/
def seedChangesOf : List (ι × μ × Nat) → List (Change ι μ)
  | [] => []
  | [x] => [⟨x.1, .add, x.2.2, none, some x.2.1, true, true⟩]
  | x :: y :: rest => ⟨x.1, .add, x.2.2, none, some x.2.1, true, false⟩ :: seedChangesOf (y :: rest)

/-- `itemSlice(readConfig)`: the stored items the include filter admits (`f = fun _ _ => true` without one),
then the seed loop. -/
def seedChanges (f : ι → μ → Bool) (items : List (ι × μ × Nat)) : List (Change ι μ) :=
  seedChangesOf (items.filter (fun x => f x.1 x.2.1))

theorem seedChangesOf_mem (items : List (ι × μ × Nat)) :
    ∀ c ∈ seedChangesOf items, c.kind = .add ∧ c.seed = true ∧ ∃ x ∈ items, c.id = x.1 ∧ c.new = some x.2.1 := by
  induction items with
  | nil => intro c hc; cases hc
  | cons x rest ih =>
    intro c hc
    cases rest with
    | nil =>
      simp only [seedChangesOf, List.mem_singleton] at hc
      subst hc
      exact ⟨rfl, rfl, x, by simp, rfl, rfl⟩
    | cons y r =>
      simp only [seedChangesOf, List.mem_cons] at hc
      rcases hc with hc | hc
      · subst hc
        exact ⟨rfl, rfl, x, by simp, rfl, rfl⟩
      · obtain ⟨h1, h2, z, hz, h3⟩ := ih c (by simpa [seedChangesOf] using hc)
        exact ⟨h1, h2, z, List.mem_cons_of_mem _ hz, h3⟩

/-- every seed of a filtered Pull is an ADD flagged SeedValue of a value the filter admits -/
theorem seedChanges_mem (f : ι → μ → Bool) (items : List (ι × μ × Nat)) :
    ∀ c ∈ seedChanges f items, c.kind = .add ∧ c.seed = true ∧ incl f c.id c.new = true := by
  intro c hc
  obtain ⟨h1, h2, x, hx, h3, h4⟩ := seedChangesOf_mem _ c hc
  refine ⟨h1, h2, ?_⟩
  rw [h3, h4]
  exact (List.mem_filter.mp hx).2

variable [DecidableEq ι]

/-- the view holding exactly the listed items (first entry of an id wins; ids are distinct in a map) -/
def viewOf (items : List (ι × μ × Nat)) : View ι μ :=
  fun i => (items.find? (fun x => x.1 = i)).map (fun x => x.2.1)

theorem viewOf_cons_same (x : ι × μ × Nat) (rest : List (ι × μ × Nat)) :
    viewOf (x :: rest) x.1 = some x.2.1 := by
  simp [viewOf]

theorem viewOf_cons_other (x : ι × μ × Nat) (rest : List (ι × μ × Nat)) {i : ι} (h : x.1 ≠ i) :
    viewOf (x :: rest) i = viewOf rest i := by
  simp [viewOf, h]

theorem viewOf_absent (rest : List (ι × μ × Nat)) (i : ι) (h : ¬ i ∈ rest.map (·.1)) : viewOf rest i = none := by
  simp only [viewOf, Option.map_eq_none_iff, List.find?_eq_none]
  intro y hy
  have : y.1 ≠ i := fun e => h (by rw [← e]; exact List.mem_map_of_mem hy)
  simpa using this

omit [DecidableEq ι] in
theorem seedChangesOf_cons (x : ι × μ × Nat) (rest : List (ι × μ × Nat)) :
    ∃ l, seedChangesOf (x :: rest) = ⟨x.1, .add, x.2.2, none, some x.2.1, true, l⟩ :: seedChangesOf rest := by
  cases rest with
  | nil => exact ⟨true, rfl⟩
  | cons y r => exact ⟨false, rfl⟩

theorem seedChangesOf_wf (items : List (ι × μ × Nat)) (s : View ι μ)
    (hnd : (items.map (·.1)).Nodup) (hs : ∀ x ∈ items, s x.1 = none) :
    WFHist s (seedChangesOf items) ∧
    ∀ i, fold (seedChangesOf items) s i = ((viewOf items) i).or (s i) := by
  induction items generalizing s with
  | nil => exact ⟨trivial, fun i => by simp [seedChangesOf, viewOf]⟩
  | cons x rest ih =>
    obtain ⟨l, hl⟩ := seedChangesOf_cons x rest
    rw [hl]
    simp only [List.map_cons, List.nodup_cons] at hnd
    have hx : s x.1 = none := hs x (by simp)
    have hrest : ∀ y ∈ rest, (apply (⟨x.1, .add, x.2.2, none, some x.2.1, true, l⟩ : Change ι μ) s) y.1 = none := by
      intro y hy
      have hne : y.1 ≠ x.1 := fun h => hnd.1 (by rw [← h]; exact List.mem_map_of_mem hy)
      rw [apply_other _ _ hne]
      exact hs y (by simp [hy])
    obtain ⟨h1, h2⟩ := ih _ hnd.2 hrest
    refine ⟨⟨by simp [WFChange, hx], h1⟩, ?_⟩
    intro i
    rw [fold_cons, h2 i]
    by_cases hi : x.1 = i
    · subst hi
      rw [viewOf_absent rest x.1 hnd.1, viewOf_cons_same]
      simp [apply, View.set]
    · have hi' : i ≠ x.1 := fun h => hi h.symm
      rw [apply_other _ _ hi', viewOf_cons_other x rest hi]

theorem viewOf_filter (f : ι → μ → Bool) (items : List (ι × μ × Nat)) (hnd : (items.map (·.1)).Nodup) :
    viewOf (items.filter (fun x => f x.1 x.2.1)) = restrict f (viewOf items) := by
  funext i
  induction items with
  | nil => simp [viewOf, restrict]
  | cons x rest ih =>
    simp only [List.map_cons, List.nodup_cons] at hnd
    have ih' := ih hnd.2
    by_cases hi : x.1 = i
    · subst hi
      have hnone : viewOf rest x.1 = none := viewOf_absent rest x.1 hnd.1
      by_cases hf : f x.1 x.2.1
      · simp only [List.filter_cons, hf, if_true]
        rw [viewOf_cons_same]
        simp [restrict, viewOf_cons_same, hf]
      · simp only [List.filter_cons, hf]
        simp only [Bool.false_eq_true, if_false]
        rw [ih']
        simp [restrict, hnone, viewOf_cons_same, hf]
    · by_cases hf : f x.1 x.2.1
      · simp only [List.filter_cons, hf, if_true]
        rw [viewOf_cons_other _ _ hi, ih']
        simp [restrict, viewOf_cons_other x rest hi]
      · simp only [List.filter_cons, hf]
        simp only [Bool.false_eq_true, if_false]
        rw [ih']
        simp [restrict, viewOf_cons_other x rest hi]

/-- The seed list of a (filtered) Pull is a well-formed history from nothing that folds to the filtered
view of the stored items: the two seed hypotheses of the subscriber theorems hold for the code's seeds. -/
theorem seedChanges_spec (f : ι → μ → Bool) (items : List (ι × μ × Nat)) (hnd : (items.map (·.1)).Nodup) :
    WFHist (View.empty : View ι μ) (seedChanges f items) ∧
    fold (seedChanges f items) View.empty = restrict f (viewOf items) := by
  have hnd' : ((items.filter (fun x => f x.1 x.2.1)).map (·.1)).Nodup :=
    (List.Sublist.map _ List.filter_sublist).nodup hnd
  obtain ⟨h1, h2⟩ := seedChangesOf_wf (items.filter (fun x => f x.1 x.2.1)) View.empty hnd'
    (fun _ _ => rfl)
  refine ⟨h1, ?_⟩
  funext i
  rw [seedChanges, h2 i, viewOf_filter f items hnd]
  simp [View.empty]

end ScVerif.C09
