import ScVerif.C09.Pipeline
/-
C09 — subscribers on top of the lossy pipeline (model; lemmas in `SubsLemmas.lean`):

* `SCfg / sstep`      `Collection.Pull`'s goroutine as coded: first its seed loop (one seed change offered at a
                      time; nothing is taken from the merge machine meanwhile, which keeps receiving and
                      merging), then the pipeline of `Pipeline.lean`.
* `QCfg / qstep`      `Collection.PullID`: a FOURTH stage after `Collection.Pull`.  PullID's goroutine ranges over Pull's channel; for one change it
                      (`pullIdAccept`): skips other ids, ends the stream on a REMOVE of the watched id (and on
                      a nil NewValue), otherwise holds the new value *in hand* (`hand2`) until its consumer
                      receives.  Moves: `recv e` (bus → merge machine), `take` (machine → Pull's forwarder),
                      `hand` (Pull's forwarder → PullID's goroutine: the rendezvous on Pull's unbuffered
                      channel, enabled iff Pull's forwarder holds an event and PullID's goroutine is free and
                      has not ended), `deliver` (consumer receives).
* `Sub / sysStep`     several subscribers on ONE bus: `send e` hands `e` to every subscriber's machine
                      (`Bus.Send` visits every listener; with lossy listeners every hand-over is accepted at
                      once — `C09_nonblocking`), `loc k m` is a local move of subscriber `k`.
* `vstepF`            `Value.Pull`'s forwarder exactly as coded: take from the DropExcess slot, apply the
                      response filter `F` (read mask), compare with `last` (the FILTERED value last sent),
                      then `last = change.Value` and block on the send.  `VCfg.subscribed` is the state right
                      after `Pull` returned: the filtered current value in hand as the seed.
-/
namespace ScVerif.C09

variable {ι μ : Type}

/-! ### Pull with its seed phase -/

/-- `Collection.Pull`'s goroutine with its seed loop in front of the pipeline: `seeds` are the seed
changes not yet handed on (the head is the one being offered on the channel), `seeded` those already
handed on; while seeds remain the forwarder takes nothing from the merge machine (which keeps
receiving and merging). -/
structure SCfg (ι μ : Type) where
  seeds : List (Change ι μ)
  seeded : List (Change ι μ)
  p : PCfg ι μ

def SCfg.init (sd : List (Change ι μ)) : SCfg ι μ := ⟨sd, [], PCfg.init⟩

/-- what Pull's goroutine is offering on its channel -/
def SCfg.offer (c : SCfg ι μ) : Option (Change ι μ) :=
  match c.seeds with
  | s :: _ => some s
  | [] => c.p.inHand

/-- everything Pull's goroutine has handed on (to the consumer / to PullID's goroutine), in order -/
def SCfg.out (c : SCfg ι μ) : List (Change ι μ) := c.seeded ++ c.p.delivered

/-! ### PullID -/

structure QCfg (ι μ : Type) where
  s : SCfg ι μ
  hand2 : Option μ
  ended : Bool
  out : List μ

def QCfg.init (sd : List (Change ι μ)) : QCfg ι μ := ⟨SCfg.init sd, none, false, []⟩

inductive QMove (α : Type) where
  | recv (e : α)
  | take
  | hand
  | deliver

def qinputs {α : Type} : List (QMove α) → List α
  | [] => []
  | .recv e :: ms => e :: qinputs ms
  | _ :: ms => qinputs ms

variable [DecidableEq ι]

/-- `T` is the transform of Pull's forwarder (`include`, then the read mask and the collection's
equivalence: the identity here): `some` for a Pull without `WithInclude`, `includeChange f` (Include.lean)
with it.  Seeds are not transformed (the seed list was built from the admitted items). -/
def sstep (T : Change ι μ → Option (Change ι μ)) (c : SCfg ι μ) : PMove (Change ι μ) → SCfg ι μ
  | .recv e => { c with p := pstep T c.p (.recv e) }
  | .take =>
    match c.seeds with
    | [] => { c with p := pstep T c.p .take }
    | _ :: _ => c                                   -- still in the seed loop
  | .deliver =>
    match c.seeds with
    | s :: rest => { c with seeds := rest, seeded := c.seeded ++ [s] }
    | [] => { c with p := pstep T c.p .deliver }

/-- One iteration of PullID's `for change := range changes`: what it then holds in hand, and whether
it returned (`defer close(send); defer cancel()`). -/
def pullIdAccept (i : ι) (d : Change ι μ) : Option μ × Bool :=
  if d.id ≠ i then (none, false)                 -- `continue`
  else if d.kind = .remove then (none, true)     -- `return`
  else match d.new with
    | none => (none, true)                       -- "NewValue is nil, but not a REMOVE change": `return`
    | some v => (some v, false)                  -- `send <- &ValueChange{Value: change.NewValue …}`

def qstep (T : Change ι μ → Option (Change ι μ)) (i : ι) (c : QCfg ι μ) : QMove (Change ι μ) → QCfg ι μ
  | .recv e => { c with s := sstep T c.s (.recv e) }
  | .take => if c.ended then c else { c with s := sstep T c.s .take }
  | .hand =>
    match c.hand2, c.ended, c.s.offer with
    | none, false, some d =>
      { c with s := sstep T c.s .deliver, hand2 := (pullIdAccept i d).1, ended := (pullIdAccept i d).2 }
    | _, _, _ => c
  | .deliver =>
    match c.hand2 with
    | some v => { c with hand2 := none, out := c.out ++ [v] }
    | none => c

def qrun (T : Change ι μ → Option (Change ι μ)) (i : ι) (c : QCfg ι μ) (ms : List (QMove (Change ι μ))) : QCfg ι μ :=
  ms.foldl (qstep T i) c

/-- Spec of PullID over the stream Pull delivers: the new values of the watched id's changes, in
order, up to the first REMOVE (or nil value) of that id; and whether such a change was met. -/
def pullIdScan (i : ι) : List (Change ι μ) → List μ × Bool
  | [] => ([], false)
  | d :: ds =>
    if d.id ≠ i then pullIdScan i ds
    else if d.kind = .remove then ([], true)
    else match d.new with
      | none => ([], true)
      | some v => (v :: (pullIdScan i ds).1, (pullIdScan i ds).2)

/-! ### several subscribers on one bus -/

/-- A subscriber: `watch = none` is `Collection.Pull` (its consumer receives Pull's events), `some i` is
`Collection.PullID i`; `tr` is the transform of its Pull forwarder (its own read options: `some`, or
`includeChange f` for `WithInclude f`). -/
structure Sub (ι μ : Type) where
  watch : Option ι
  tr : Change ι μ → Option (Change ι μ)
  q : QCfg ι μ

def Sub.init (w : Option ι) (T : Change ι μ → Option (Change ι μ)) (sd : List (Change ι μ)) : Sub ι μ :=
  ⟨w, T, QCfg.init sd⟩

def subStep (s : Sub ι μ) (m : QMove (Change ι μ)) : Sub ι μ :=
  match s.watch with
  | some i => { s with q := qstep s.tr i s.q m }
  | none =>
    match m with
    | .recv e => { s with q := { s.q with s := sstep s.tr s.q.s (.recv e) } }
    | .take => { s with q := { s.q with s := sstep s.tr s.q.s .take } }
    | .hand => s
    | .deliver => { s with q := { s.q with s := sstep s.tr s.q.s .deliver } }

def subRun (s : Sub ι μ) (ms : List (QMove (Change ι μ))) : Sub ι μ := ms.foldl subStep s

inductive LMove where
  | take | hand | deliver

def LMove.toQ {α : Type} : LMove → QMove α
  | .take => .take | .hand => .hand | .deliver => .deliver

inductive SMove (α : Type) where
  | send (e : α)
  | loc (k : Nat) (m : LMove)

def modAt {α : Type} (f : α → α) : Nat → List α → List α
  | _, [] => []
  | 0, x :: xs => f x :: xs
  | k + 1, x :: xs => x :: modAt f k xs

def sysStep (subs : List (Sub ι μ)) : SMove (Change ι μ) → List (Sub ι μ)
  | .send e => subs.map (fun s => subStep s (.recv e))
  | .loc k m => modAt (fun s => subStep s m.toQ) k subs

def sysRun (subs : List (Sub ι μ)) (ms : List (SMove (Change ι μ))) : List (Sub ι μ) := ms.foldl sysStep subs

/-- What subscriber `k` sees of a system run: every `send`, and its own local moves. -/
def proj {α : Type} (k : Nat) : List (SMove α) → List (QMove α)
  | [] => []
  | .send e :: ms => .recv e :: proj k ms
  | .loc j m :: ms => if j = k then m.toQ :: proj k ms else proj k ms

/-! ### Value.Pull with a response filter, from the state right after subscribing -/

omit [DecidableEq ι] in
def vstepF {α : Type} (E : Option α → α → Bool) (F : α → α) (c : VCfg α) : PMove α → VCfg α
  | .recv e => { c with slot := some e, received := c.received ++ [e] }
  | .take =>
    match c.inHand, c.slot with
    | none, some v =>
      if E c.last (F v) then { c with slot := none }                             -- continue
      else { c with slot := none, last := some (F v), inHand := some (F v) }     -- last = change.Value; send
    | _, _ => c
  | .deliver =>
    match c.inHand with
    | some d => { c with inHand := none, delivered := c.delivered ++ [d] }
    | none => c

def vrunF {α : Type} (E : Option α → α → Bool) (F : α → α) (c : VCfg α) (ms : List (PMove α)) : VCfg α :=
  ms.foldl (vstepF E F) c

/-- Right after `Value.Pull` returned with current value `cur` (`none`: unset value or updates-only):
`last` is the filtered seed and the seed change is in the forwarder's hand; `cur` counts as the first
value "received" (it is the most recent value at that moment). -/
def VCfg.subscribed {α : Type} (F : α → α) (cur : Option α) : VCfg α :=
  ⟨none, cur.map F, cur.map F, [], cur.toList⟩

/-- `c` seen through the filter: slot and write history filtered. -/
def VCfg.mapF {α : Type} (F : α → α) (c : VCfg α) : VCfg α :=
  { c with slot := c.slot.map F, received := c.received.map F }

def PMove.mapF {α : Type} (F : α → α) : PMove α → PMove α
  | .recv e => .recv (F e) | .take => .take | .deliver => .deliver

/-! ### a backpressured subscriber (no lossy stage) -/

/-- `Pull(WithBackpressure(true))`: the forwarder ranges over the bus listener's unbuffered channel
itself, so `Bus.Send` can hand an event over only while the forwarder is back at its receive, i.e. holds
nothing; `offer e` is the writer's attempt (`accepted` records the ones that went through — an attempt
while the forwarder holds an event leaves everything as it is: the writer keeps waiting). -/
structure BCfg (α : Type) where
  inHand : Option α
  delivered : List α
  accepted : List α

def BCfg.init {α : Type} : BCfg α := ⟨none, [], []⟩

inductive BMove (α : Type) where
  | offer (e : α)
  | deliver

def bstep {α : Type} (c : BCfg α) : BMove α → BCfg α
  | .offer e =>
    match c.inHand with
    | none => { c with inHand := some e, accepted := c.accepted ++ [e] }
    | some _ => c
  | .deliver =>
    match c.inHand with
    | some d => { c with inHand := none, delivered := c.delivered ++ [d] }
    | none => c

def brun {α : Type} (c : BCfg α) (ms : List (BMove α)) : BCfg α := ms.foldl bstep c

end ScVerif.C09
