import ScVerif.C09.Change
/-! Lemmas about views, `apply`, `fold` and well-formed histories (helpers; no property theorems). -/
namespace ScVerif.C09

variable {ι μ : Type} [DecidableEq ι]

@[simp] theorem View.set_same (s : View ι μ) (i : ι) (v : Option μ) : s.set i v i = v := by
  simp [View.set]

theorem View.set_other (s : View ι μ) {i j : ι} (v : Option μ) (h : j ≠ i) : s.set i v j = s j := by
  simp [View.set, h]

theorem apply_same (c : Change ι μ) (s : View ι μ) :
    apply c s c.id = if c.kind = .remove then none else c.new := by
  simp [apply]

theorem apply_other (c : Change ι μ) (s : View ι μ) {j : ι} (h : j ≠ c.id) : apply c s j = s j := by
  simp [apply, View.set, h]

@[simp] theorem fold_nil (s : View ι μ) : fold ([] : List (Change ι μ)) s = s := rfl

@[simp] theorem fold_cons (c : Change ι μ) (cs : List (Change ι μ)) (s : View ι μ) :
    fold (c :: cs) s = fold cs (apply c s) := rfl

theorem fold_append (xs ys : List (Change ι μ)) (s : View ι μ) :
    fold (xs ++ ys) s = fold ys (fold xs s) := by
  simp [fold, List.foldl_append]

theorem fold_snoc (xs : List (Change ι μ)) (c : Change ι μ) (s : View ι μ) :
    fold (xs ++ [c]) s = apply c (fold xs s) := by
  simp [fold_append]

/-- Changes of different ids commute. -/
theorem apply_comm (a b : Change ι μ) (s : View ι μ) (h : a.id ≠ b.id) :
    apply a (apply b s) = apply b (apply a s) := by
  funext j
  simp only [apply, View.set]
  by_cases h1 : j = a.id <;> by_cases h2 : j = b.id <;> simp_all

/-- Folding changes none of which touches `i` leaves `i` alone. -/
theorem fold_other (cs : List (Change ι μ)) (s : View ι μ) (i : ι) (h : ∀ c ∈ cs, c.id ≠ i) :
    fold cs s i = s i := by
  induction cs generalizing s with
  | nil => rfl
  | cons c cs ih =>
    have hc : c.id ≠ i := h c (by simp)
    rw [fold_cons, ih _ (fun d hd => h d (by simp [hd])), apply_other _ _ (Ne.symm hc)]

omit [DecidableEq ι] in
/-- Well-formedness of a change only looks at its own id. -/
theorem WFChange_congr {s s' : View ι μ} {c : Change ι μ} (h : s c.id = s' c.id) :
    WFChange s c ↔ WFChange s' c := by
  unfold WFChange
  rw [h]

theorem WFHist_nil (s : View ι μ) : WFHist s ([] : List (Change ι μ)) := trivial

theorem WFHist_cons {s : View ι μ} {c : Change ι μ} {cs : List (Change ι μ)} :
    WFHist s (c :: cs) ↔ WFChange s c ∧ WFHist (apply c s) cs := Iff.rfl

theorem WFHist_append {s : View ι μ} {xs ys : List (Change ι μ)} :
    WFHist s (xs ++ ys) ↔ WFHist s xs ∧ WFHist (fold xs s) ys := by
  induction xs generalizing s with
  | nil => simp [WFHist]
  | cons c cs ih => simp [WFHist, ih, and_assoc]

theorem WFHist_snoc {s : View ι μ} {xs : List (Change ι μ)} {c : Change ι μ} :
    WFHist s (xs ++ [c]) ↔ WFHist s xs ∧ WFChange (fold xs s) c := by
  rw [WFHist_append]; simp [WFHist]

/-- Swapping two adjacent changes of different ids keeps well-formedness. -/
theorem WFHist_swap {s : View ι μ} {a b : Change ι μ} {cs : List (Change ι μ)} (h : a.id ≠ b.id)
    (hw : WFHist s (a :: b :: cs)) : WFHist s (b :: a :: cs) := by
  simp only [WFHist] at hw ⊢
  obtain ⟨ha, hb, hcs⟩ := hw
  refine ⟨?_, ?_, ?_⟩
  · exact (WFChange_congr (apply_other a s (Ne.symm h))).mp hb
  · exact (WFChange_congr (apply_other b s h)).mpr ha
  · rw [apply_comm a b s h]; exact hcs

/-- Moving a change to the end past changes of other ids keeps well-formedness and the fold. -/
theorem WFHist_move_end {s : View ι μ} {a : Change ι μ} {post : List (Change ι μ)}
    (hne : ∀ c ∈ post, c.id ≠ a.id) (hw : WFHist s (a :: post)) :
    WFHist s (post ++ [a]) := by
  induction post generalizing s with
  | nil => simpa using hw
  | cons b post ih =>
    have hb : a.id ≠ b.id := fun e => hne b (by simp) e.symm
    have hw' := WFHist_swap hb hw
    rw [WFHist_cons] at hw'
    simp only [List.cons_append, WFHist]
    exact ⟨hw'.1, ih (fun c hc => hne c (by simp [hc])) hw'.2⟩

theorem fold_move_end (s : View ι μ) (a : Change ι μ) (post : List (Change ι μ))
    (hne : ∀ c ∈ post, c.id ≠ a.id) : fold (post ++ [a]) s = fold (a :: post) s := by
  induction post generalizing s with
  | nil => rfl
  | cons b post ih =>
    have hb : a.id ≠ b.id := fun e => hne b (by simp) e.symm
    simp only [List.cons_append, fold_cons]
    rw [ih _ (fun c hc => hne c (by simp [hc])), fold_cons, apply_comm a b s hb]

end ScVerif.C09
