import ScVerif.C09.ChangeLemmas
import ScVerif.C09.Merge
/-! Lemmas about `mergeChanges`, `extract` and the two machines (helpers; no property theorems). -/
namespace ScVerif.C09

variable {ι μ : Type} [DecidableEq ι]

/-- The value a change leaves at its id. -/
def Change.val (c : Change ι μ) : Option μ := if c.kind = .remove then none else c.new

theorem apply_eq_set (c : Change ι μ) (s : View ι μ) : apply c s = s.set c.id c.val := rfl

theorem set_set (s : View ι μ) (i : ι) (v w : Option μ) : (s.set i v).set i w = s.set i w := by
  funext j; by_cases h : j = i <;> simp [View.set, h]

theorem set_self (s : View ι μ) (i : ι) : s.set i (s i) = s := by
  funext j; by_cases h : j = i <;> simp [View.set, h]

theorem apply_apply_same (a b : Change ι μ) (s : View ι μ) (h : a.id = b.id) :
    apply b (apply a s) = s.set b.id b.val := by
  rw [apply_eq_set, apply_eq_set, h, set_set]

omit [DecidableEq ι] in
/-- `mergeChanges` keeps b's id and value; it only drops the pair ADD;REMOVE. -/
theorem merge_cases (a b : Change ι μ) :
    (∃ m, mergeChanges a b = some m ∧ m.id = b.id ∧ m.val = b.val ∧ m.new = b.new ∧ m.time = b.time
        ∧ (m.kind = .remove ↔ b.kind = .remove)) ∨
    (mergeChanges a b = none ∧ a.kind = .add ∧ b.kind = .remove) := by
  rcases a with ⟨ai, ak, at_, ao, an, as_, al⟩
  rcases b with ⟨bi, bk, bt, bo, bn, bs, bl⟩
  cases ak <;> cases bk <;> simp [mergeChanges, Change.val]

/-- Merging two consecutive well-formed changes of one id gives one well-formed change with the same
effect, or nothing when an ADD meets its REMOVE (and then the two cancel). -/
theorem merge_wf {s : View ι μ} {a b : Change ι μ} (hid : a.id = b.id)
    (ha : WFChange s a) (hb : WFChange (apply a s) b) :
    match mergeChanges a b with
    | some m => m.id = b.id ∧ WFChange s m ∧ apply m s = apply b (apply a s)
    | none => apply b (apply a s) = s := by
  rcases a with ⟨ai, ak, at_, ao, an, as_, al⟩
  rcases b with ⟨bi, bk, bt, bo, bn, bs, bl⟩
  simp only at hid
  subst hid
  have hself := set_self s ai
  cases ak <;> cases bk <;>
    simp [mergeChanges, WFChange, apply, set_set] at ha hb ⊢ <;>
    simp_all

/-! ### `extract` -/

theorem extract_some {i : ι} {l : List (Change ι μ)} {a : Change ι μ} {rest : List (Change ι μ)}
    (h : extract i l = some (a, rest)) :
    ∃ pre post, l = pre ++ a :: post ∧ rest = pre ++ post ∧ a.id = i ∧ ∀ c ∈ pre, c.id ≠ i := by
  induction l generalizing a rest with
  | nil => simp [extract] at h
  | cons c cs ih =>
    unfold extract at h
    by_cases hc : c.id = i
    · simp [hc] at h
      obtain ⟨rfl, rfl⟩ := h
      exact ⟨[], cs, by simp, by simp, hc, by simp⟩
    · simp only [hc, if_false] at h
      cases hx : extract i cs with
      | none => simp [hx] at h
      | some p =>
        obtain ⟨a', rest'⟩ := p
        simp [hx] at h
        obtain ⟨rfl, rfl⟩ := h
        obtain ⟨pre, post, h1, h2, h3, h4⟩ := ih hx
        refine ⟨c :: pre, post, by simp [h1], by simp [h2], h3, ?_⟩
        intro d hd
        rcases List.mem_cons.mp hd with rfl | hd
        · exact hc
        · exact h4 d hd

theorem extract_none {i : ι} {l : List (Change ι μ)} (h : extract i l = none) : ∀ c ∈ l, c.id ≠ i := by
  induction l with
  | nil => simp
  | cons c cs ih =>
    unfold extract at h
    by_cases hc : c.id = i
    · simp [hc] at h
    · simp only [hc, if_false] at h
      cases hx : extract i cs with
      | none =>
        intro d hd
        rcases List.mem_cons.mp hd with rfl | hd
        · exact hc
        · exact ih hx d hd
      | some p => simp [hx] at h

/-- ids of a list of changes -/
def ids (l : List (Change ι μ)) : List ι := l.map (·.id)

omit [DecidableEq ι] in
theorem ids_append (xs ys : List (Change ι μ)) : ids (xs ++ ys) = ids xs ++ ids ys := by
  simp [ids]

/-! ### the window lemma: merging the pending change of an id with a new one -/

theorem merge_window {s1 : View ι μ} {a e : Change ι μ} {post : List (Change ι μ)}
    (hid : a.id = e.id) (hne : ∀ c ∈ post, c.id ≠ a.id)
    (hw : WFHist s1 (a :: post)) (he : WFChange (fold (a :: post) s1) e) :
    match mergeChanges a e with
    | some m => m.id = e.id ∧ WFHist s1 (post ++ [m]) ∧ fold (post ++ [m]) s1 = apply e (fold (a :: post) s1)
    | none => WFHist s1 post ∧ fold post s1 = apply e (fold (a :: post) s1) := by
  have hmove := WFHist_move_end hne hw
  have hfold := fold_move_end s1 a post hne
  rw [WFHist_snoc] at hmove
  obtain ⟨hpost, ha⟩ := hmove
  have he' : WFChange (apply a (fold post s1)) e := by
    rw [← fold_snoc, hfold]; exact he
  have hm := merge_wf hid ha he'
  cases hmc : mergeChanges a e with
  | some m =>
    rw [hmc] at hm
    obtain ⟨h1, h2, h3⟩ := hm
    refine ⟨h1, WFHist_snoc.mpr ⟨hpost, h2⟩, ?_⟩
    rw [fold_snoc, h3, ← hfold, fold_snoc]
  | none =>
    rw [hmc] at hm
    refine ⟨hpost, ?_⟩
    rw [← hfold, fold_snoc, hm]

end ScVerif.C09
