import ScVerif.C09.ChangeLemmas
import ScVerif.C09.Merge
/-! Lemmas about `mergeChanges`, `extract` and the two machines (helpers; no property theorems). -/
namespace ScVerif.C09

variable {ι μ : Type} [DecidableEq ι]

/-- The value a change leaves at its id. -/
def Change.val (c : Change ι μ) : Option μ := if c.kind = .remove then none else c.new

theorem apply_eq_set (c : Change ι μ) (s : View ι μ) : apply c s = s.set c.id c.val := rfl

theorem set_set (s : View ι μ) (i : ι) (v w : Option μ) : (s.set i v).set i w = s.set i w := by
  funext j; by_cases h : j = i <;> simp [View.set, h]

theorem set_self (s : View ι μ) (i : ι) : s.set i (s i) = s := by
  funext j; by_cases h : j = i <;> simp [View.set, h]

theorem apply_apply_same (a b : Change ι μ) (s : View ι μ) (h : a.id = b.id) :
    apply b (apply a s) = s.set b.id b.val := by
  rw [apply_eq_set, apply_eq_set, h, set_set]

omit [DecidableEq ι] in
/-- `mergeChanges` keeps b's id and value; it only drops the pair ADD;REMOVE. -/
theorem merge_cases (a b : Change ι μ) :
    (∃ m, mergeChanges a b = some m ∧ m.id = b.id ∧ m.val = b.val ∧ m.new = b.new ∧ m.time = b.time
        ∧ (m.kind = .remove ↔ b.kind = .remove)) ∨
    (mergeChanges a b = none ∧ a.kind = .add ∧ b.kind = .remove) := by
  rcases a with ⟨ai, ak, at_, ao, an, as_, al⟩
  rcases b with ⟨bi, bk, bt, bo, bn, bs, bl⟩
  cases ak <;> cases bk <;> simp [mergeChanges, Change.val]

/-- Merging two consecutive well-formed changes of one id gives one well-formed change with the same
effect, or nothing when an ADD meets its REMOVE (and then the two cancel). -/
theorem merge_wf {s : View ι μ} {a b : Change ι μ} (hid : a.id = b.id)
    (ha : WFChange s a) (hb : WFChange (apply a s) b) :
    match mergeChanges a b with
    | some m => m.id = b.id ∧ WFChange s m ∧ apply m s = apply b (apply a s)
    | none => apply b (apply a s) = s := by
  rcases a with ⟨ai, ak, at_, ao, an, as_, al⟩
  rcases b with ⟨bi, bk, bt, bo, bn, bs, bl⟩
  simp only at hid
  subst hid
  have hself := set_self s ai
  cases ak <;> cases bk <;>
    simp [mergeChanges, WFChange, apply, set_set] at ha hb ⊢ <;>
    simp_all

end ScVerif.C09
