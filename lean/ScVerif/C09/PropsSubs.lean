import ScVerif.C09.SubsLemmas
import ScVerif.C09.Seed
/-!
# C09 — property theorems, part 2: subscribers on top of the lossy pipeline

Model: `ScVerif/C09/Subs.lean` — `Collection.Pull`'s goroutine with its seed loop (`sstep`),
`Collection.PullID` as a fourth stage (`qstep`), several subscribers on
one bus (`sysStep`), and `Value.Pull`'s forwarder exactly as coded with its response filter from the
state right after subscribing (`vstepF`, `VCfg.subscribed`).  The driver executes these definitions
(ops `vrun`, `crun`); the harness ties them to the real `Value` / `Collection` end to end.

Every Collection subscriber carries the transform of its Pull forwarder (`Sub.tr`): the identity, or
`includeChange f` for `WithInclude f` (Include.lean) — the theorems are stated for any transform `T` and view
map `R` with `Sim T R`, and `C09_include_sim` proves it for both; `C09_seed_list` (Seed.lean) discharges the
seed hypotheses for the seed list the code builds.

Quantifiers: all well-formed sent streams (any stream where stated), all interleavings of the moves
(`send`/`recv`, `take`, `hand`, `deliver` of every subscriber), any number and mix of subscribers, any
equivalence `E` and filter `F` (arbitrary functions), any id and message types.

Only property theorems and their non-vacuity examples live in this file.
-/
namespace ScVerif.C09

variable {ι μ : Type} [DecidableEq ι]

/-- Subscribers are independent: in a system of any number of lossy subscribers (`Collection.Pull` and
`Collection.PullID` mixed) on one bus, after EVERY interleaving of sends and local moves, subscriber
`k`'s state is what it would be alone, given only the sent stream and its own local moves — no move
of another subscriber (stalling, receiving, merging in its own buffer) can change what `k` holds or
will be handed.  (The code shares the bus's `*CollectionChange` among listeners; the model's machines
copy, as `mergeCollectionExcess` does on the way in and out — the tie checks event objects are not
rewritten after delivery.) -/
theorem C09_subscribers_independent (subs : List (Sub ι μ)) (ms : List (SMove (Change ι μ)))
    (k : Nat) (s : Sub ι μ) (hk : subs[k]? = some s) :
    (sysRun subs ms)[k]? = some (subRun s (proj k ms)) ∧
    qinputs (proj k ms) = sent ms := by
  refine ⟨?_, qinputs_proj k ms⟩
  rw [sysRun_proj, hk]
  rfl

/-- The forwarder transforms of the code simulate the subscriber's view (`Sim`, Include.lean): without
`WithInclude` the transform is the identity on the whole view; with `WithInclude f` — ANY filter function
`f` — `(*CollectionChange).include` as coded (`includeChange f`: kind-agnostic, so also on the REPLACE only
merging makes) turns every change that is well formed at a view `s` into a change that is well formed at
the filtered view `restrict f s` (= what `List(WithInclude f)` shows) with exactly the filtered effect — a
change moving an item out of the admitted set becomes a REMOVE of its old value, into it an ADD — or
drops it, and then the filtered view does not change. -/
theorem C09_include_sim (f : ι → μ → Bool) :
    Sim (some : Change ι μ → Option (Change ι μ)) id ∧ Sim (includeChange f) (restrict f) :=
  ⟨Sim_some, Sim_include f⟩

/-- Every subscriber of a multi-subscriber system, whatever the others are and do, WITH the transform
of its forwarder: `T`/`R` are any transform and view map with `Sim T R` — by `C09_include_sim` the identity
(no filter) and `includeChange f` / `restrict f` for `WithInclude f`, the merge output piped through
`include`.  Subscriber `k` subscribed at view `s0` with seed list `sd` (any list that is a well-formed
history from a base view `b` and folds to the mapped view `R s0`: `b` = nothing and one ADD per ADMITTED
stored item, sorted by id, for a seeded `Collection.Pull`; `b = R s0` and no seeds for `WithUpdatesOnly`);
the other subscribers are in ARBITRARY states (and have their own transforms).  For every well-formed sent
stream and every interleaving (writes arriving while seeds are still being handed on included): `k` has
accepted every sent event (the bus never waits for it); what its Pull goroutine handed on, then the seeds
still to come, the event in hand and its pending changes as the transform will show them fold from the
base view to the mapped view of everything sent; the stream handed on is a well-formed history (old values
chain per id, seeds first); and once nothing is left to come it folds to the current mapped view. -/
theorem C09_every_subscriber_view (T : Change ι μ → Option (Change ι μ)) (R : View ι μ → View ι μ)
    (hsim : Sim T R) (b s0 : View ι μ) (sd : List (Change ι μ))
    (hsd : WFHist b sd) (hs0 : fold sd b = R s0)
    (subs : List (Sub ι μ)) (w : Option ι) (k : Nat) (hk : subs[k]? = some (Sub.init w T sd))
    (ms : List (SMove (Change ι μ))) (hw : WFHist s0 (sent ms))
    (s : Sub ι μ) (hs : (sysRun subs ms)[k]? = some s) :
    s.q.s.p.received = sent ms ∧
    fold (s.q.s.out ++ s.q.s.seeds ++ s.q.s.p.inHand.toList ++ s.q.s.p.st.pending.filterMap T) b
        = R (fold (sent ms) s0) ∧
    WFHist b s.q.s.out ∧
    (s.q.s.seeds = [] → s.q.s.p.inHand = none → s.q.s.p.st.pending = [] →
        fold s.q.s.out b = R (fold (sent ms) s0)) := by
  rw [sysRun_proj, hk] at hs
  simp only [Option.map_some, Option.some.injEq] at hs
  subst hs
  have hrec : (subRun (Sub.init w T sd : Sub ι μ) (proj k ms)).q.s.p.received = sent ms := by
    rw [subRun_received, qinputs_proj]; rfl
  have hinv : SInv T s0 sd (subRun (Sub.init w T sd : Sub ι μ) (proj k ms)).q.s := by
    apply subRun_SInv (s := Sub.init w T sd)
    · exact SInv_init T s0 sd
    · rw [qinputs_proj]; simpa [Sub.init, QCfg.init, SCfg.init, PCfg.init] using hw
  have hf := hinv.facts hsim hsd hs0
  rw [hrec] at hf
  exact ⟨hrec, hf⟩

/-- `Collection.PullID` on a lossy Pull (four stages: merge machine ▸ Pull's goroutine with its seed
loop ▸ PullID's goroutine ▸ consumer), subscribed at view `s0` with seed list `sd`, for every
well-formed sent stream and EVERY interleaving of recv / take / hand / deliver: (1) every sent event is
accepted; (2) what the consumer received followed by the value in PullID's hand is exactly the new
values of the watched id's changes in the stream Pull handed on (seeds included), in order, up to the
first REMOVE — and the stream has ended iff such a REMOVE was handed on; (3) if it ended the subscriber
was shown a REMOVE of the item; (4) if it is live and nothing is in flight anywhere, the item's current
value is exactly the last value the consumer received (or, if it received nothing, what the base view
`b` holds: absent for a seeded subscription). -/
theorem C09_pullid_stage (T : Change ι μ → Option (Change ι μ)) (R : View ι μ → View ι μ)
    (hsim : Sim T R) (i : ι) (b s0 : View ι μ) (sd : List (Change ι μ))
    (hsd : WFHist b sd) (hs0 : fold sd b = R s0)
    (ms : List (QMove (Change ι μ))) (hw : WFHist s0 (qinputs ms)) :
    let c := (subRun (Sub.init (some i) T sd) ms).q
    c.s.p.received = qinputs ms ∧
    pullIdScan i c.s.out = (c.out ++ c.hand2.toList, c.ended) ∧
    (c.ended = true → ∃ d ∈ c.s.out, d.id = i ∧ d.kind = .remove) ∧
    (c.ended = false → c.hand2 = none → c.s.seeds = [] → c.s.p.inHand = none → c.s.p.st.pending = [] →
        R (fold (qinputs ms) s0) i = (c.out.getLast?).or (b i)) := by
  have hrec : (subRun (Sub.init (some i) T sd : Sub ι μ) ms).q.s.p.received = qinputs ms := by
    rw [subRun_received]; rfl
  have hq : QInv i (subRun (Sub.init (some i) T sd : Sub ι μ) ms).q :=
    subRun_QInv (s := Sub.init (some i) T sd) rfl (QInv_init i sd) ms
  have hinv : SInv T s0 sd (subRun (Sub.init (some i) T sd : Sub ι μ) ms).q.s := by
    apply subRun_SInv (s := Sub.init (some i) T sd)
    · exact SInv_init T s0 sd
    · simpa [Sub.init, QCfg.init, SCfg.init, PCfg.init] using hw
  obtain ⟨_, hwfo, hquiet⟩ := hinv.facts hsim hsd hs0
  rw [hrec] at hquiet
  refine ⟨hrec, hq.scan, ?_, ?_⟩
  · intro he
    have h2 : (pullIdScan i (subRun (Sub.init (some i) T sd : Sub ι μ) ms).q.s.out).2 = true := by
      rw [hq.scan]; exact he
    obtain ⟨d, hd, hid, hk | hn⟩ := ended_scan_witness i _ h2
    · exact ⟨d, hd, hid, hk⟩
    · exact ⟨d, hd, hid, WFHist_mem_new hwfo d hd hn⟩
  · intro he h2 hsd0 hh hp
    rw [← hquiet hsd0 hh hp]
    have hlive : (pullIdScan i (subRun (Sub.init (some i) T sd : Sub ι μ) ms).q.s.out).2 = false := by
      rw [hq.scan]; exact he
    rw [fold_of_live_scan i _ _ hlive, hq.scan, h2]
    simp

/-- `Value.Pull` without backpressure exactly as coded — DropExcess slot ▸ forwarder (response filter
`F`, then the equivalence `E` against the FILTERED value last sent, then `last = change.Value`) ▸
consumer — from the state right after subscribing (current value `cur` in hand as the seed; `none` =
updates only), for ANY `E`, ANY `F`, any message type and EVERY interleaving of writes / take /
deliver: every write is accepted (writers never wait); what the consumer received, then the value in
hand, then the filtered slot is a subsequence, in order, of the filtered current value and writes; no
value is sent that `E` equates with the one sent just before it; and the subscriber eventually receives
the most recent value modulo `E`: once the slot and the hand are empty, the last value received IS the
filtered most recent value, or `E` equates it with that. -/
theorem C09_value_pull_eventually_latest {α : Type} (E : Option α → α → Bool) (F : α → α)
    (cur : Option α) (ms : List (PMove α)) :
    let c := vrunF E F (VCfg.subscribed F cur) ms
    c.received = cur.toList ++ pinputs ms ∧
    (c.delivered ++ c.inHand.toList ++ (c.slot.map F).toList).Sublist (c.received.map F) ∧
    (∀ pre a b post, c.delivered ++ c.inHand.toList = pre ++ a :: b :: post → E (some a) b = false) ∧
    (c.slot = none → c.inHand = none → ∀ r, c.received.getLast? = some r →
        c.delivered.getLast? = some (F r) ∨ E c.delivered.getLast? (F r) = true) := by
  have h := VInv_run (VInv_subscribed E F cur) (ms.map (PMove.mapF F))
  rw [← vrunF_mapF] at h
  obtain ⟨hsub, hlast, hfresh, hnd⟩ := h
  simp only [VCfg.mapF] at hsub hlast hfresh hnd
  refine ⟨by rw [vrunF_received]; rfl, hsub, ?_, ?_⟩
  · intro pre a b post heq
    exact hnd pre a b post (by simpa using heq)
  · intro hs hh r hr
    have hr' : ((vrunF E F (VCfg.subscribed F cur) ms).received.map F).getLast? = some (F r) := by
      rw [List.getLast?_map, hr]; rfl
    rcases hfresh (F r) hr' with h1 | ⟨_, h1⟩
    · rw [hs] at h1; cases h1
    · rw [hlast, hh] at h1
      simpa using h1

/-- With backpressure (no lossy stage; `BCfg`): for any message type and EVERY interleaving of write
attempts and receives, nothing is dropped or reordered — what the consumer received followed by the
event in the forwarder's hand is exactly the sequence of writes that went through; a write goes through
iff the forwarder holds nothing (writers wait for delivery, and only then); and while the subscriber
keeps receiving (a receive after every write) every write goes through and is delivered. -/
theorem C09_backpressure_lossless {α : Type} (ms : List (BMove α)) (es : List α) :
    (let c := brun BCfg.init ms
     c.delivered ++ c.inHand.toList = c.accepted ∧
     ∀ e, (bstep c (.offer e)).accepted = (if c.inHand.isNone then c.accepted ++ [e] else c.accepted)) ∧
    (brun BCfg.init (es.flatMap (fun e => [BMove.offer e, BMove.deliver]))).delivered = es := by
  have inv : ∀ (ms : List (BMove α)) (c : BCfg α), c.delivered ++ c.inHand.toList = c.accepted →
      (brun c ms).delivered ++ (brun c ms).inHand.toList = (brun c ms).accepted := by
    intro ms
    induction ms with
    | nil => intro c h; exact h
    | cons m ms ih =>
      intro c h
      apply ih
      rcases c with ⟨hand, del, acc⟩
      cases m with
      | offer e => cases hand <;> simp_all [bstep]
      | deliver => cases hand <;> simp_all [bstep]
  refine ⟨⟨inv ms BCfg.init (by simp [BCfg.init]), ?_⟩, ?_⟩
  · intro e
    cases h : (brun BCfg.init ms).inHand <;> simp [bstep, h]
  · have keep : ∀ (es : List α) (c : BCfg α), c.inHand = none →
        (brun c (es.flatMap (fun e => [BMove.offer e, BMove.deliver]))).delivered = c.delivered ++ es := by
      intro es
      induction es with
      | nil => intro c _; simp [brun]
      | cons e es ih =>
        intro c hc
        simp only [List.flatMap_cons, List.cons_append, List.nil_append]
        show (brun (bstep (bstep c (.offer e)) .deliver) _).delivered = _
        rw [ih _ (by simp [bstep, hc])]
        simp [bstep, hc]
    simpa [BCfg.init] using keep es BCfg.init rfl

/-- Eventually the most recent change: from ANY state a `Collection.Pull` subscriber of a
multi-subscriber system has reached (any well-formed sent stream, any interleaving, the other
subscribers arbitrary), a consumer that now receives `backlog` more times — the number of seeds,
pending changes and the event in hand still on their way; no further write — has nothing left to come,
and what it received in total is a well-formed history that folds from the base view to the current view:
it holds the most recent value of every id. -/
theorem C09_eventually_current_view (T : Change ι μ → Option (Change ι μ)) (R : View ι μ → View ι μ)
    (hsim : Sim T R) (b s0 : View ι μ) (sd : List (Change ι μ))
    (hsd : WFHist b sd) (hs0 : fold sd b = R s0)
    (subs : List (Sub ι μ)) (k : Nat) (hk : subs[k]? = some (Sub.init none T sd))
    (ms : List (SMove (Change ι μ))) (hw : WFHist s0 (sent ms))
    (s : Sub ι μ) (hs : (sysRun subs ms)[k]? = some s) :
    let s' := subRun s (drainMoves s.q.s.backlog)
    s'.q.s.p.received = sent ms ∧
    s'.q.s.seeds = [] ∧ s'.q.s.p.inHand = none ∧ s'.q.s.p.st.pending = [] ∧
    WFHist b s'.q.s.out ∧
    fold s'.q.s.out b = R (fold (sent ms) s0) := by
  rw [sysRun_proj, hk] at hs
  simp only [Option.map_some, Option.some.injEq] at hs
  subst hs
  intro s'
  have hs' : s' = subRun (Sub.init none T sd : Sub ι μ)
      (proj k ms ++ drainMoves (subRun (Sub.init none T sd : Sub ι μ) (proj k ms)).q.s.backlog) := by
    rw [subRun_append]
  have hin : qinputs (proj k ms ++ drainMoves (α := Change ι μ)
      (subRun (Sub.init none T sd : Sub ι μ) (proj k ms)).q.s.backlog) = sent ms := by
    rw [qinputs_append, qinputs_drainMoves, qinputs_proj, List.append_nil]
  have hrec : s'.q.s.p.received = sent ms := by
    rw [hs', subRun_received, hin]; rfl
  have hinv : SInv T s0 sd s'.q.s := by
    rw [hs']
    apply subRun_SInv (s := Sub.init none T sd)
    · exact SInv_init T s0 sd
    · rw [hin]; simpa [Sub.init, QCfg.init, SCfg.init, PCfg.init] using hw
  have hb : s'.q.s.backlog = 0 := by
    show (subRun _ (drainMoves _)).q.s.backlog = 0
    rw [subRun_drain_backlog _ (by rw [subRun_watch]; rfl)]
    omega
  obtain ⟨h1, h2, h3⟩ := backlog_zero hb
  obtain ⟨_, hwfo, hquiet⟩ := hinv.facts hsim hsd hs0
  rw [hrec] at hquiet
  exact ⟨hrec, h1, h2, h3, hwfo, hquiet h1 h2 h3⟩

/-- Eventually the most recent value: from ANY state a lossy `Value.Pull` subscriber has reached (any
equivalence, any filter, any interleaving of writes / take / deliver), a consumer that now receives
twice more (no further write) leaves nothing in the slot or in hand, and the last value it received is
the filtered most recent value, or the equivalence equates the two. -/
theorem C09_value_pull_drains {α : Type} (E : Option α → α → Bool) (F : α → α)
    (cur : Option α) (ms : List (PMove α)) :
    let c := vrunF E F (VCfg.subscribed F cur) (ms ++ [.take, .deliver, .take, .deliver])
    c.slot = none ∧ c.inHand = none ∧ c.received = cur.toList ++ pinputs ms ∧
    ∀ r, c.received.getLast? = some r →
        c.delivered.getLast? = some (F r) ∨ E c.delivered.getLast? (F r) = true := by
  intro c
  have hq : c.slot = none ∧ c.inHand = none := by
    show (vrunF E F _ (ms ++ _)).slot = none ∧ (vrunF E F _ (ms ++ _)).inHand = none
    rw [vrunF_append]
    exact vdrain_quiet E F _
  obtain ⟨hr, _, _, hl⟩ := C09_value_pull_eventually_latest E F cur (ms ++ [.take, .deliver, .take, .deliver])
  refine ⟨hq.1, hq.2, ?_, hl hq.1 hq.2⟩
  rw [pinputs_append_drain] at hr
  exact hr

/-- Eventually, for `Collection.PullID`: from ANY state a PullID subscriber has reached (any well-formed
sent stream, any interleaving), a consumer that now receives `backlog` more times (rounds of take /
hand / deliver; no further write) either sees the stream end — and then it was shown a REMOVE of the
item — or has nothing left to come and the last value it received is the item's current value. -/
theorem C09_pullid_eventually (T : Change ι μ → Option (Change ι μ)) (R : View ι μ → View ι μ)
    (hsim : Sim T R) (i : ι) (b s0 : View ι μ) (sd : List (Change ι μ))
    (hsd : WFHist b sd) (hs0 : fold sd b = R s0)
    (ms : List (QMove (Change ι μ))) (hw : WFHist s0 (qinputs ms)) :
    let n := (subRun (Sub.init (some i) T sd) ms).q.backlog
    let c := (subRun (Sub.init (some i) T sd) (ms ++ qdrainMoves n)).q
    c.s.p.received = qinputs ms ∧
    ((c.ended = true ∧ ∃ d ∈ c.s.out, d.id = i ∧ d.kind = .remove) ∨
     (c.ended = false ∧ c.hand2 = none ∧ c.s.seeds = [] ∧ c.s.p.inHand = none ∧ c.s.p.st.pending = [] ∧
        R (fold (qinputs ms) s0) i = (c.out.getLast?).or (b i))) := by
  intro n c
  have hin : qinputs (ms ++ qdrainMoves (α := Change ι μ) n) = qinputs ms := by
    rw [qinputs_append, qinputs_qdrainMoves, List.append_nil]
  obtain ⟨h1, _, h3, h4⟩ := C09_pullid_stage T R hsim i b s0 sd hsd hs0 (ms ++ qdrainMoves n) (by rw [hin]; exact hw)
  rw [hin] at h1 h4
  refine ⟨h1, ?_⟩
  have hc : c = qrounds T i n (subRun (Sub.init (some i) T sd : Sub ι μ) ms).q := by
    show (subRun _ (ms ++ _)).q = _
    rw [subRun_append, subRun_qdrain _ (by rw [subRun_watch]; rfl), subRun_tr]
    rfl
  rcases qrounds_drain T i n (subRun (Sub.init (some i) T sd : Sub ι μ) ms).q (Nat.le_refl _) with he | hb
  · rw [← hc] at he
    exact Or.inl ⟨he, h3 he⟩
  · rw [← hc] at hb
    obtain ⟨q1, q2, q3, q4⟩ := qbacklog_zero hb
    cases he : c.ended with
    | true => exact Or.inl ⟨rfl, h3 he⟩
    | false => exact Or.inr ⟨rfl, q1, q2, q3, q4, h4 he q1 q2 q3 q4⟩

/-- The seed list of `Collection.Pull` as coded (`seedChanges`, Seed.lean: `itemSlice` keeps the stored items
the include filter admits, one ADD per item in id order flagged SeedValue, the last ADMITTED one flagged
LastSeedValue), for ANY filter and any stored items with distinct ids: it is a well-formed history from
nothing, it folds to the filtered view of the stored items, and every seed is an ADD of an admitted value —
so the two seed hypotheses of the subscriber theorems hold for the seeds the code sends. -/
theorem C09_seed_list (f : ι → μ → Bool) (items : List (ι × μ × Nat)) (hnd : (items.map (·.1)).Nodup) :
    WFHist (View.empty : View ι μ) (seedChanges f items) ∧
    fold (seedChanges f items) View.empty = restrict f (viewOf items) ∧
    (∀ c ∈ seedChanges f items, c.kind = .add ∧ c.seed = true ∧ incl f c.id c.new = true) :=
  ⟨(seedChanges_spec f items hnd).1, (seedChanges_spec f items hnd).2, seedChanges_mem f items⟩

/-- A lossy `Collection.Pull(WithInclude f)` end to end as coded, with no hypothesis left about seeds or
transform: ANY filter function `f`, any stored items (distinct ids), the seeds the code sends, the merge
machine, `include` applied to what comes out of the merge, any number of other subscribers in arbitrary
states, every well-formed sent stream and every interleaving.  The subscriber accepts every sent event;
what it is handed is a well-formed history from nothing (a REPLACE the merge made out of a delete and a
re-create reaches it as a REMOVE when the new value is excluded, as an ADD when only the new one is
admitted, not at all when neither is); and a consumer that receives `backlog` more times with no further
write has nothing left to come and holds exactly the filtered current view — every admitted item with its
most recent value and no item the filter excludes. -/
theorem C09_include_subscriber_view (f : ι → μ → Bool) (items : List (ι × μ × Nat))
    (hnd : (items.map (·.1)).Nodup)
    (subs : List (Sub ι μ)) (k : Nat)
    (hk : subs[k]? = some (Sub.init none (includeChange f) (seedChanges f items)))
    (ms : List (SMove (Change ι μ))) (hw : WFHist (viewOf items) (sent ms))
    (s : Sub ι μ) (hs : (sysRun subs ms)[k]? = some s) :
    s.q.s.p.received = sent ms ∧
    WFHist View.empty s.q.s.out ∧
    (let s' := subRun s (drainMoves s.q.s.backlog)
     s'.q.s.seeds = [] ∧ s'.q.s.p.inHand = none ∧ s'.q.s.p.st.pending = [] ∧
     WFHist View.empty s'.q.s.out ∧
     fold s'.q.s.out View.empty = restrict f (fold (sent ms) (viewOf items))) := by
  obtain ⟨hsd, hs0⟩ := seedChanges_spec f items hnd
  obtain ⟨h1, _, h3, _⟩ := C09_every_subscriber_view (includeChange f) (restrict f) (Sim_include f)
    View.empty (viewOf items) (seedChanges f items) hsd hs0 subs none k hk ms hw s hs
  obtain ⟨_, e1, e2, e3, e4, e5⟩ := C09_eventually_current_view (includeChange f) (restrict f) (Sim_include f)
    View.empty (viewOf items) (seedChanges f items) hsd hs0 subs k hk ms hw s hs
  exact ⟨h1, h3, e1, e2, e3, e4, e5⟩

/-! ### non-vacuity -/

section examples

private def eAdd (i t : Nat) (v : Nat) : Change Nat Nat := ⟨i, .add, t, none, some v, false, false⟩
private def eUpd (i t : Nat) (o v : Nat) : Change Nat Nat := ⟨i, .update, t, some o, some v, false, false⟩
private def eRem (i t : Nat) (o : Nat) : Change Nat Nat := ⟨i, .remove, t, some o, none, false, false⟩

/-- two subscribers, the first stalls after its forwarder took one event and merges the next two in its
buffer; the second keeps receiving and gets all three unmerged -/
example :
    ((sysRun [Sub.init none some [], Sub.init none some []]
        [.send (eAdd 1 1 10), .loc 0 .take, .loc 1 .take, .loc 1 .deliver,
         .send (eUpd 1 2 10 20), .loc 1 .take, .send (eUpd 1 3 20 30), .loc 1 .deliver,
         .loc 1 .take, .loc 1 .deliver]).map
      (fun s : Sub Nat Nat => (s.q.s.p.delivered.map (·.time), s.q.s.p.inHand.map (·.time), s.q.s.p.st.pending.map (·.old))))
      = [([], some 1, [some 10]), ([1, 2, 3], none, [])] := by decide

/-- a PullID subscriber of id 1: other ids are skipped, values are forwarded, the REMOVE ends it -/
example :
    (fun c : QCfg Nat Nat => (c.out, c.hand2, c.ended))
      (subRun (Sub.init (some 1) some [])
        [.recv (eAdd 1 1 10), .take, .hand, .recv (eAdd 2 2 7), .take, .deliver, .hand,
         .recv (eUpd 1 3 10 20), .take, .hand, .recv (eRem 1 4 20), .deliver, .take, .hand]).q
      = ([10, 20], none, true) := by decide

/-- the hypotheses of the quiescent clause of `C09_pullid_stage` are reachable (live, nothing in flight) -/
example :
    (fun c : QCfg Nat Nat => (c.ended, c.hand2, c.s.seeds, c.s.p.inHand.isNone, c.s.p.st.pending.isEmpty, c.out))
      (subRun (Sub.init (some 1) some [])
        [.recv (eAdd 1 1 10), .recv (eUpd 1 2 10 20), .take, .hand, .deliver]).q
      = (false, none, [], true, true, [20]) := by decide

/-- a seed list that is a well-formed history from nothing (ids 1 and 2 stored), and a Pull subscriber
whose consumer is still on the first seed while an update of id 2 and its removal merge behind the
seeds: it is handed seed 1, seed 2, then the merged REMOVE -/
example : WFHist (View.empty : View Nat Nat) [eAdd 1 0 10, eAdd 2 0 7] := by
  simp [WFHist, WFChange, apply, View.set, View.empty, eAdd]

example :
    (fun c : SCfg Nat Nat => (c.out.map (fun d => (d.id, d.kind)), c.seeds, c.p.st.pending))
      (subRun (Sub.init none some [eAdd 1 0 10, eAdd 2 0 7])
        [.take, .recv (eUpd 2 1 7 8), .take, .deliver, .recv (eRem 2 2 8), .deliver, .take, .deliver]).q.s
      = ([(1, .add), (2, .add), (2, .remove)], [], []) := by decide

/-- Value.Pull with "same parity" as the equivalence and no filter: seed 1 delivered, 2 in hand, 3
written meanwhile: the consumer gets 2 and then 3 — never ends on the stale 2 -/
example :
    (fun c : VCfg Nat => (c.delivered, c.inHand, c.slot))
      (vrunF (fun l v => match l with | some a => a % 2 == v % 2 | none => false) id (VCfg.subscribed id (some 1))
        [.deliver, .recv 2, .take, .recv 3, .deliver, .take, .deliver])
      = ([1, 2, 3], none, none) := by decide

/-- backpressure: the second write is attempted while the first is still in hand and has to wait; it goes
through after the receive -/
example :
    (fun c : BCfg Nat => (c.delivered, c.inHand, c.accepted))
      (brun BCfg.init [.offer 1, .offer 2, .deliver, .offer 2, .deliver]) = ([1, 2], none, [1, 2]) := by decide

private def evenOnly : Nat → Nat → Bool := fun _ v => v % 2 == 0

/-- the merge output piped through `include`: item 1 holds 10 (admitted by "even values only"); the
subscriber's forwarder is parked on item 2's ADD while item 1 is deleted and re-created holding 11
(excluded), stamped with DEcreasing change times: the merged REPLACE(10 → 11) reaches the subscriber as a
REMOVE of 10 carrying the time of the last write, so its view {2 ↦ 20} is the filtered collection -/
example :
    (fun c : SCfg Nat Nat => (c.out.map (fun d => (d.id, d.kind, d.old, d.new, d.time)), c.p.st.pending.map (·.kind)))
      (subRun (Sub.init none (includeChange evenOnly) (seedChanges evenOnly [(1, 10, 5)]))
        [.deliver, .recv (eAdd 2 9 20), .take, .recv (eRem 1 8 10), .recv (eAdd 1 7 11),
         .deliver, .take, .deliver]).q.s
      = ([(1, .add, none, some 10, 5), (2, .add, none, some 20, 9), (1, .remove, some 10, none, 7)], []) := by
  decide

/-- a REPLACE between two excluded values is dropped, one between two admitted values goes through as it is,
one from an excluded to an admitted value becomes an ADD -/
example : includeChange evenOnly (⟨1, .replace, 3, some 11, some 13, false, false⟩ : Change Nat Nat) = none := by decide
example : (includeChange evenOnly (⟨1, .replace, 3, some 10, some 12, false, false⟩ : Change Nat Nat)).map (·.kind)
    = some .replace := by decide
example : (includeChange evenOnly (⟨1, .replace, 3, some 11, some 12, false, false⟩ : Change Nat Nat)).map
    (fun c => (c.kind, c.old)) = some (.add, none) := by decide

/-- the seed list of a filtered Pull over four stored items: the excluded ones are left out and the last
ADMITTED one carries the LastSeedValue flag; the hypothesis of `C09_seed_list` holds for it -/
example : (seedChanges evenOnly [(1, 10, 5), (2, 21, 5), (3, 30, 5), (4, 41, 5)]).map
    (fun c => (c.id, c.lastSeed)) = [(1, false), (3, true)] := by decide
example : (([(1, 10, 5), (2, 21, 5), (3, 30, 5), (4, 41, 5)] : List (Nat × Nat × Nat)).map (·.1)).Nodup := by decide

end examples

end ScVerif.C09
