import ScVerif.C09.MachineLemmas
/-
C09 — the `mergeCollectionExcess` goroutine exactly as coded: `messages` is a Go map id ↦ change
(here a function `ι → Option (Change ι μ)` with get / set / delete) and `queue` a `container/list` of
ids (here a `List ι`: `PushBack`, `Front`, `Remove(front)`, and the loop that removes the first node
holding an id).  `crecv`/`cemit` follow the two `select` cases and the empty-queue branch statement by
statement, including `event()` reading `messages[id]` with Go's zero value for a missing key
(`zero`, never used in reachable states).

`C09_map_queue_refines` (Props) proves that this machine emits, for every recv/emit pattern, exactly
what the single-list machine of `Merge.lean` emits — so every theorem about `run` holds for the
machine as coded, and the driver executes THIS machine.
-/
namespace ScVerif.C09

variable {ι μ : Type} [DecidableEq ι]

structure CState (ι μ : Type) where
  messages : ι → Option (Change ι μ)
  queue : List ι

def CState.init : CState ι μ := ⟨fun _ => none, []⟩

def mapSet (m : ι → Option (Change ι μ)) (i : ι) (c : Change ι μ) : ι → Option (Change ι μ) :=
  fun j => if j = i then some c else m j

def mapDel (m : ι → Option (Change ι μ)) (i : ι) : ι → Option (Change ι μ) :=
  fun j => if j = i then none else m j

/-- `for n := queue.Front(); n != nil; n = n.Next() { if n.Value == id { queue.Remove(n); break } }` -/
def removeFirst (i : ι) : List ι → List ι
  | [] => []
  | j :: q => if j = i then q else j :: removeFirst i q

/-- The `<-in` case. -/
def crecv (st : CState ι μ) (e : Change ι μ) : CState ι μ :=
  match st.queue with
  | [] =>
    -- else branch: messages[newMessage.Id] = newMessage; queue.PushBack(newMessage.Id)
    ⟨mapSet st.messages e.id e, st.queue ++ [e.id]⟩
  | _ =>
    match st.messages e.id with
    | some oldMessage =>
      -- hasOld: merge, unlink the id from the queue
      let queue' := removeFirst e.id st.queue
      match mergeChanges oldMessage e with
      | none => ⟨mapDel st.messages e.id, queue'⟩                      -- !send: delete(messages, id); continue
      | some m => ⟨mapSet st.messages e.id m, queue' ++ [e.id]⟩       -- messages[id] = newMessage; queue.PushBack(id)
    | none => ⟨mapSet st.messages e.id e, st.queue ++ [e.id]⟩

/-- The `out <- event()` case: `event()` is `messages[queue.Front()]` (zero value if missing); after
the send the front is removed from the queue and from the map. -/
def cemit (zero : Change ι μ) (st : CState ι μ) : Option (Change ι μ × CState ι μ) :=
  match st.queue with
  | [] => none
  | i :: q => some ((st.messages i).getD zero, ⟨mapDel st.messages i, q⟩)

def crunOut (zero : Change ι μ) (st : CState ι μ) :
    List (Move (Change ι μ)) → List (Option (Change ι μ)) × CState ι μ
  | [] => ([], st)
  | .recv e :: ms => crunOut zero (crecv st e) ms
  | .emit :: ms =>
    match cemit zero st with
    | some (o, st') => let r := crunOut zero st' ms; (some o :: r.1, r.2)
    | none => let r := crunOut zero st ms; (none :: r.1, r.2)

/-- Abstraction: the pending changes in queue order. -/
def CState.abs (st : CState ι μ) : List (Change ι μ) := st.queue.filterMap st.messages

/-- Representation invariant: the queue holds each id once, exactly the keys of the map, and the change
stored under a key is a change of that id. -/
structure CInv (st : CState ι μ) : Prop where
  nodup : st.queue.Nodup
  keyed : ∀ i ∈ st.queue, ∃ c, st.messages i = some c ∧ c.id = i
  only : ∀ i, i ∉ st.queue → st.messages i = none

omit [DecidableEq ι] in
theorem CInv_init : CInv (CState.init : CState ι μ) :=
  ⟨by simp [CState.init], by simp [CState.init], by simp [CState.init]⟩

theorem filterMap_mapSet_of_not_mem (m : ι → Option (Change ι μ)) (i : ι) (c : Change ι μ) (q : List ι)
    (h : i ∉ q) : q.filterMap (mapSet m i c) = q.filterMap m := by
  induction q with
  | nil => rfl
  | cons j q ih =>
    have hj : j ≠ i := fun e => h (by simp [e])
    have hq : i ∉ q := fun e => h (by simp [e])
    simp [List.filterMap_cons, mapSet, hj, ih hq]

theorem filterMap_mapDel_of_not_mem (m : ι → Option (Change ι μ)) (i : ι) (q : List ι)
    (h : i ∉ q) : q.filterMap (mapDel m i) = q.filterMap m := by
  induction q with
  | nil => rfl
  | cons j q ih =>
    have hj : j ≠ i := fun e => h (by simp [e])
    have hq : i ∉ q := fun e => h (by simp [e])
    simp [List.filterMap_cons, mapDel, hj, ih hq]

theorem removeFirst_of_not_mem (i : ι) (q : List ι) (h : i ∉ q) : removeFirst i q = q := by
  induction q with
  | nil => rfl
  | cons j q ih =>
    have hj : j ≠ i := fun e => h (by simp [e])
    have hq : i ∉ q := fun e => h (by simp [e])
    simp [removeFirst, hj, ih hq]

theorem mem_removeFirst {i j : ι} {q : List ι} (h : j ∈ removeFirst i q) : j ∈ q := by
  induction q with
  | nil => simp [removeFirst] at h
  | cons k q ih =>
    unfold removeFirst at h
    by_cases hk : k = i
    · simp [hk] at h; exact List.mem_cons_of_mem _ h
    · simp only [hk, if_false, List.mem_cons] at h
      rcases h with rfl | h
      · simp
      · exact List.mem_cons_of_mem _ (ih h)

theorem removeFirst_nodup {i : ι} {q : List ι} (h : q.Nodup) :
    (removeFirst i q).Nodup ∧ i ∉ removeFirst i q ∧ ∀ j, j ≠ i → (j ∈ removeFirst i q ↔ j ∈ q) := by
  induction q with
  | nil => simp [removeFirst]
  | cons k q ih =>
    rw [List.nodup_cons] at h
    obtain ⟨hk, hq⟩ := h
    unfold removeFirst
    by_cases hki : k = i
    · subst hki
      simp only [if_true]
      refine ⟨hq, hk, ?_⟩
      intro j hj
      simp [hj]
    · simp only [hki, if_false]
      obtain ⟨h1, h2, h3⟩ := ih hq
      refine ⟨?_, ?_, ?_⟩
      · rw [List.nodup_cons]
        exact ⟨fun hm => hk (mem_removeFirst hm), h1⟩
      · simp only [List.mem_cons, not_or]
        exact ⟨fun e => hki e.symm, h2⟩
      · intro j hj
        simp only [List.mem_cons]
        rw [h3 j hj]

/-- Under the invariant, `extract` on the abstraction is a map lookup plus `removeFirst`. -/
theorem extract_abs (m : ι → Option (Change ι μ)) (q : List ι) (i : ι)
    (hkey : ∀ j ∈ q, ∃ c, m j = some c ∧ c.id = j) :
    extract i (q.filterMap m) =
      if i ∈ q then (m i).map (fun a => (a, (removeFirst i q).filterMap m)) else none := by
  induction q with
  | nil => simp [extract]
  | cons j q ih =>
    obtain ⟨c, hc, hcid⟩ := hkey j (by simp)
    have ih' := ih (fun k hk => hkey k (by simp [hk]))
    simp only [List.filterMap_cons, hc]
    unfold extract
    by_cases hji : j = i
    · subst hji
      simp [hcid, hc, removeFirst]
    · have hci : c.id ≠ i := by rw [hcid]; exact hji
      simp only [hci, if_false, ih']
      by_cases hiq : i ∈ q
      · have : i ∈ j :: q := List.mem_cons_of_mem _ hiq
        simp only [hiq, this, if_true, removeFirst, hji, if_false, List.filterMap_cons, hc]
        cases m i <;> simp
      · have : i ∉ j :: q := by simp [hiq, Ne.symm hji]
        simp [hiq, this]

omit [DecidableEq ι] in
theorem CInv_abs_ids {st : CState ι μ} (h : CInv st) : ids st.abs = st.queue := by
  rcases st with ⟨m, q⟩
  simp only [CState.abs, ids]
  have hk := h.keyed
  simp only at hk
  clear h
  induction q with
  | nil => rfl
  | cons j q ih =>
    obtain ⟨c, hc, hcid⟩ := hk j (by simp)
    simp [List.filterMap_cons, hc, hcid, ih (fun k hkq => hk k (by simp [hkq]))]

/-- One `recv`: the as-coded machine and the list machine stay in step. -/
theorem crecv_refines {st : CState ι μ} (h : CInv st) (e : Change ι μ) :
    CInv (crecv st e) ∧ (crecv st e).abs = (recv ⟨st.abs⟩ e).pending := by
  rcases st with ⟨m, q⟩
  obtain ⟨hnd, hkey, honly⟩ := h
  simp only at hnd hkey honly
  rw [recv_pending]
  simp only [CState.abs]
  rw [extract_abs m q e.id hkey]
  -- the empty-queue branch coincides with the general rule
  have hgen : crecv ⟨m, q⟩ e =
      (match m e.id with
       | some oldMessage =>
         (match mergeChanges oldMessage e with
          | none => ⟨mapDel m e.id, removeFirst e.id q⟩
          | some mm => ⟨mapSet m e.id mm, removeFirst e.id q ++ [e.id]⟩)
       | none => ⟨mapSet m e.id e, q ++ [e.id]⟩ : CState ι μ) := by
    cases q with
    | nil =>
      have : m e.id = none := honly e.id (by simp)
      simp [crecv, this]
    | cons j q' => simp only [crecv]
  rw [hgen]
  by_cases hiq : e.id ∈ q
  · obtain ⟨a, ha, haid⟩ := hkey e.id hiq
    obtain ⟨h1, h2, h3⟩ := removeFirst_nodup (i := e.id) hnd
    simp only [ha, hiq, if_true, Option.map_some]
    cases hm : mergeChanges a e with
    | none =>
      simp only
      refine ⟨⟨h1, ?_, ?_⟩, ?_⟩
      · intro j hj
        have hji : j ≠ e.id := fun e' => h2 (e' ▸ hj)
        obtain ⟨c, hc, hcid⟩ := hkey j ((h3 j hji).mp hj)
        exact ⟨c, by simp [mapDel, hji, hc], hcid⟩
      · intro j hj
        by_cases hji : j = e.id
        · simp [mapDel, hji]
        · simp only [mapDel, hji, if_false]
          exact honly j (fun hq => hj ((h3 j hji).mpr hq))
      · exact filterMap_mapDel_of_not_mem m e.id _ h2
    | some mm =>
      have hmid : mm.id = e.id := by
        rcases merge_cases a e with ⟨m', hm', hid', _⟩ | ⟨hn, _⟩
        · rw [hm] at hm'; cases hm'; exact hid'
        · rw [hm] at hn; cases hn
      simp only
      refine ⟨⟨?_, ?_, ?_⟩, ?_⟩
      · rw [List.nodup_append]
        refine ⟨h1, by simp, ?_⟩
        intro x hx y hy
        simp only [List.mem_singleton] at hy
        subst hy
        exact fun e' => h2 (e' ▸ hx)
      · intro j hj
        rcases List.mem_append.mp hj with hj | hj
        · have hji : j ≠ e.id := fun e' => h2 (e' ▸ hj)
          obtain ⟨c, hc, hcid⟩ := hkey j ((h3 j hji).mp hj)
          exact ⟨c, by simp [mapSet, hji, hc], hcid⟩
        · simp only [List.mem_singleton] at hj
          subst hj
          exact ⟨mm, by simp [mapSet], hmid⟩
      · intro j hj
        have hji : j ≠ e.id := fun e' => hj (by simp [e'])
        simp only [mapSet, hji, if_false]
        exact honly j (fun hq => hj (List.mem_append_left _ ((h3 j hji).mpr hq)))
      · rw [List.filterMap_append, filterMap_mapSet_of_not_mem m e.id mm _ h2]
        simp [mapSet]
  · have hnone : m e.id = none := honly e.id hiq
    simp only [hnone, hiq, if_false]
    refine ⟨⟨?_, ?_, ?_⟩, ?_⟩
    · rw [List.nodup_append]
      refine ⟨hnd, by simp, ?_⟩
      intro x hx y hy
      simp only [List.mem_singleton] at hy
      subst hy
      exact fun e' => hiq (e' ▸ hx)
    · intro j hj
      rcases List.mem_append.mp hj with hj | hj
      · have hji : j ≠ e.id := fun e' => hiq (e' ▸ hj)
        obtain ⟨c, hc, hcid⟩ := hkey j hj
        exact ⟨c, by simp [mapSet, hji, hc], hcid⟩
      · simp only [List.mem_singleton] at hj
        subst hj
        exact ⟨e, by simp [mapSet], rfl⟩
    · intro j hj
      have hji : j ≠ e.id := fun e' => hj (by simp [e'])
      simp only [mapSet, hji, if_false]
      exact honly j (fun hq => hj (List.mem_append_left _ hq))
    · rw [List.filterMap_append, filterMap_mapSet_of_not_mem m e.id e _ hiq]
      simp [mapSet]

/-- One `emit`. -/
theorem cemit_refines (zero : Change ι μ) {st : CState ι μ} (h : CInv st) :
    match cemit zero st with
    | none => emit ⟨st.abs⟩ = none
    | some (o, st') => emit ⟨st.abs⟩ = some (o, ⟨st'.abs⟩) ∧ CInv st' := by
  rcases st with ⟨m, q⟩
  obtain ⟨hnd, hkey, honly⟩ := h
  simp only at hnd hkey honly
  cases q with
  | nil => simp [cemit, emit, CState.abs]
  | cons i q =>
    obtain ⟨c, hc, hcid⟩ := hkey i (by simp)
    rw [List.nodup_cons] at hnd
    simp only [cemit, CState.abs, List.filterMap_cons, hc, emit, Option.getD_some]
    refine ⟨by rw [filterMap_mapDel_of_not_mem m i q hnd.1], hnd.2, ?_, ?_⟩
    · intro j hj
      have hji : j ≠ i := fun e' => hnd.1 (e' ▸ hj)
      obtain ⟨c', hc', hcid'⟩ := hkey j (List.mem_cons_of_mem _ hj)
      exact ⟨c', by simp [mapDel, hji, hc'], hcid'⟩
    · intro j hj
      by_cases hji : j = i
      · simp [mapDel, hji]
      · simp only [mapDel, hji, if_false]
        exact honly j (by simp [hji, hj])

/-- Every pattern: same answers, states stay related. -/
theorem crunOut_refines (zero : Change ι μ) (st : CState ι μ) (h : CInv st)
    (ms : List (Move (Change ι μ))) :
    (crunOut zero st ms).1 = (runOut ⟨st.abs⟩ ms).1 ∧
    (crunOut zero st ms).2.abs = (runOut ⟨st.abs⟩ ms).2.pending ∧ CInv (crunOut zero st ms).2 := by
  induction ms generalizing st with
  | nil => exact ⟨rfl, rfl, h⟩
  | cons mv ms ih =>
    cases mv with
    | recv e =>
      obtain ⟨hinv, habs⟩ := crecv_refines h e
      have := ih (crecv st e) hinv
      simp only [crunOut, runOut]
      have hst : recv ⟨st.abs⟩ e = ⟨(crecv st e).abs⟩ := by
        rw [habs]
      rw [hst]
      exact this
    | emit =>
      have he := cemit_refines zero h
      simp only [crunOut, runOut]
      cases hc : cemit zero st with
      | none =>
        rw [hc] at he
        simp only [he]
        exact ⟨by rw [(ih st h).1], (ih st h).2⟩
      | some p =>
        obtain ⟨o, st'⟩ := p
        rw [hc] at he
        simp only [he.1]
        have := ih st' he.2
        exact ⟨by rw [this.1], this.2⟩

end ScVerif.C09
