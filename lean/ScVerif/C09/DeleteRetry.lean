import ScVerif.C09.Writers
/-
C09 — `Collection.Delete`'s optimistic read, its precondition checks and its retry loop
(pkg/resource/collection.go, `(*Collection).Delete`).

`Delete(id, opts…)` reads the item under the READ lock, releases it and then, at most five times: answers
NotFound (or nil with `WithAllowMissing`) when the item it holds is absent; runs the caller's
`WithExpectedCheck` callback and the `WithExpectedValue` comparison on the body it HOLDS (no lock held: arbitrary
code runs here, in particular other writers); takes the WRITE lock and reads again; when what is stored is no
longer the very item it holds (pointer comparison of `*item`: every Update stores a fresh item, also one that
writes an equal body) it unlocks and goes round again holding what it has just read; otherwise it removes the
item, sends the REMOVE (old value = the body it holds) while still holding the lock, unlocks and returns that
body.  After five overtaken attempts: Unavailable.

* `Slot`        a stored item: its identity (`ptr`, the `*item`) and its body
* `world a`     what is stored for the id when attempt `a` takes the write lock — ANY function: whatever the
                callbacks and other writers did up to then
* `check`       both preconditions as one arbitrary predicate on the body held (`true` = they pass)
* `deleteLoop`  the loop as coded, `fuel` attempts left
-/
namespace ScVerif.C09

structure Slot (μ : Type) where
  ptr : Nat
  body : μ
deriving DecidableEq, Repr

structure DReq (ι μ : Type) where
  id : ι
  allowMissing : Bool
  check : μ → Bool

inductive DResult (ι μ : Type) where
  | notFound
  | missingOk                                  -- (nil, nil)
  | failed (body : μ)                          -- a precondition failed: the body held is returned with the error
  | removed (attempt : Nat) (ret : μ) (ev : Change ι μ)
  | unavailable
deriving DecidableEq, Repr

variable {ι μ : Type}

/-- the REMOVE built under the write lock from the item the call holds -/
def delEvent (i : ι) (o : Slot μ) : Change ι μ := ⟨i, .remove, 0, some o.body, none, false, false⟩

def deleteLoop [DecidableEq μ] (r : DReq ι μ) (world : Nat → Option (Slot μ)) :
    Nat → Nat → Option (Slot μ) → DResult ι μ
  | 0, _, _ => .unavailable
  | _ + 1, _, none => if r.allowMissing then .missingOk else .notFound
  | fuel + 1, a, some o =>
    if r.check o.body then
      if world a = some o then .removed a o.body (delEvent r.id o)
      else deleteLoop r world fuel (a + 1) (world a)
    else .failed o.body

/-- `Delete`: the optimistic read found `first` -/
def deleteCall [DecidableEq μ] (r : DReq ι μ) (first : Option (Slot μ)) (world : Nat → Option (Slot μ)) :
    DResult ι μ :=
  deleteLoop r world 5 0 first

/-- what the call holds when attempt `a` starts (ghost: the loop variable `oldVal, exists`) -/
def heldAt (first : Option (Slot μ)) (world : Nat → Option (Slot μ)) : Nat → Option (Slot μ)
  | 0 => first
  | a + 1 => world a

theorem deleteLoop_removed [DecidableEq μ] (r : DReq ι μ) (world : Nat → Option (Slot μ)) :
    ∀ (fuel a : Nat) (cur : Option (Slot μ)) (k : Nat) (ret : μ) (ev : Change ι μ),
      deleteLoop r world fuel a cur = .removed k ret ev →
      ∃ o, world k = some o ∧ a ≤ k ∧ k < a + fuel ∧ ret = o.body ∧ ev = delEvent r.id o ∧ r.check o.body = true ∧
        (k = a → cur = some o) ∧ (a < k → world (k - 1) = some o) := by
  intro fuel
  induction fuel with
  | zero => intro a cur k ret ev h; simp [deleteLoop] at h
  | succ fuel ih =>
    intro a cur k ret ev h
    cases cur with
    | none =>
      cases ham : r.allowMissing <;> simp [deleteLoop, ham] at h
    | some o =>
      cases hck : r.check o.body with
      | false => simp [deleteLoop, hck] at h
      | true =>
        by_cases hw : world a = some o
        · simp only [deleteLoop, hck, hw, if_true] at h
          cases h
          exact ⟨o, hw, Nat.le_refl _, by omega, rfl, rfl, hck, fun _ => rfl, fun hlt => absurd hlt (Nat.lt_irrefl _)⟩
        · simp only [deleteLoop, hck, hw, if_true, if_false] at h
          obtain ⟨o', h1, h2, h3, h4, h5, h6, h7, h8⟩ := ih (a + 1) (world a) k ret ev h
          refine ⟨o', h1, by omega, by omega, h4, h5, h6, fun hk => by omega, fun _ => ?_⟩
          by_cases hk : k = a + 1
          · have := h7 hk
            rw [hk]
            simpa using this
          · exact h8 (by omega)

theorem deleteLoop_unavailable [DecidableEq μ] (r : DReq ι μ) (first : Option (Slot μ))
    (world : Nat → Option (Slot μ)) :
    ∀ (fuel a : Nat), deleteLoop r world fuel a (heldAt first world a) = .unavailable →
      ∀ k, a ≤ k → k < a + fuel → world k ≠ heldAt first world k := by
  intro fuel
  induction fuel with
  | zero => intro a _ k h1 h2; omega
  | succ fuel ih =>
    intro a h k h1 h2
    cases hc : heldAt first world a with
    | none =>
      rw [hc] at h
      cases ham : r.allowMissing <;> simp [deleteLoop, ham] at h
    | some o =>
      rw [hc] at h
      cases hck : r.check o.body with
      | false => simp [deleteLoop, hck] at h
      | true =>
        by_cases hw : world a = some o
        · simp [deleteLoop, hck, hw] at h
        · simp only [deleteLoop, hck, hw, if_true, if_false] at h
          by_cases hk : k = a
          · subst hk; rw [hc]; exact hw
          · exact ih (a + 1) (by simpa [heldAt] using h) k (by omega) (by omega)

/-- SPEC: what a Delete nobody interferes with answers, from its optimistic read alone -/
def undisturbed (r : DReq ι μ) : Option (Slot μ) → DResult ι μ
  | none => if r.allowMissing then .missingOk else .notFound
  | some o => if r.check o.body then .removed 0 o.body (delEvent r.id o) else .failed o.body

/-- nobody interfered with the first attempt: the call is decided by what the optimistic read found -/
theorem deleteCall_undisturbed [DecidableEq μ] (r : DReq ι μ) (first : Option (Slot μ))
    (world : Nat → Option (Slot μ)) (h : world 0 = first) :
    deleteCall r first world = undisturbed r first := by
  cases first with
  | none => simp [deleteCall, deleteLoop, undisturbed]
  | some o => simp [deleteCall, deleteLoop, undisturbed, h]

end ScVerif.C09
