import ScVerif.Base.Line
import ScVerif.C09.Merge
/-!
Text codec for change events, shared by the C08 and C09 drivers (ids and messages are opaque string
tokens).  A change is `id,KIND,time,old,new,seed,last` with `-` for an absent value and `0|1` flags,
e.g. `a,UPDATE,3,x,y,0,0`.  Not proved about: I/O glue.
-/
namespace ScVerif.C09
open ScVerif.Line

abbrev SChange := Change String String

def showKind : Kind → String
  | .unspecified => "UNSPEC" | .add => "ADD" | .update => "UPDATE" | .remove => "REMOVE" | .replace => "REPLACE"

def parseKind? : String → Option Kind
  | "UNSPEC" => some .unspecified | "ADD" => some .add | "UPDATE" => some .update
  | "REMOVE" => some .remove | "REPLACE" => some .replace | _ => none

def showVal : Option String → String
  | none => "-" | some v => v

def parseVal? (s : String) : Option (Option String) :=
  if s = "-" then some none else if s = "" then none else some (some s)

def showFlag (b : Bool) : String := if b then "1" else "0"

def parseFlag? : String → Option Bool
  | "0" => some false | "1" => some true | _ => none

def showChange (c : SChange) : String :=
  ",".intercalate [c.id, showKind c.kind, toString c.time, showVal c.old, showVal c.new, showFlag c.seed, showFlag c.lastSeed]

def parseChange? (s : String) : Option SChange :=
  match s.splitOn "," with
  | [i, k, t, o, n, sd, ls] => do
    if i = "" then none
    let k ← parseKind? k
    let t ← parseNat? t
    let o ← parseVal? o
    let n ← parseVal? n
    let sd ← parseFlag? sd
    let ls ← parseFlag? ls
    pure { id := i, kind := k, time := t, old := o, new := n, seed := sd, lastSeed := ls }
  | _ => none

def showChanges (cs : List SChange) : String :=
  if cs.isEmpty then "-" else ";".intercalate (cs.map showChange)

def showOptChange : Option SChange → String
  | none => "drop" | some c => showChange c

end ScVerif.C09
