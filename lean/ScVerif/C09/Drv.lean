import ScVerif.C09.Codec
import ScVerif.C09.SendTimeout
import ScVerif.C09.MapQueue
import ScVerif.C09.Subs
/-! Driver handler for C09.

* `merge <a> <b>`                 → `mergeChanges a b` (`drop` when `send == false`)
* `mrun <move>*`                  moves `r:<change>` (offer one input) / `e` (take one output) on the
                                  `mergeCollectionExcess` machine AS CODED (messages map + queue of ids, `MapQueue.lean`) from its initial state →
                                  `<out>;…|<pending>` with one `<out>` per `e` move (`none` = not enabled)
* `drun <move>*`                  the same for `DropExcess` over opaque tokens: `r:<tok>` / `e`
* `send <deadline> <listener>*`   `Bus.Send` with a deadline over listeners `<readyAt>/<cancelledAt>` (`-` = never)
                                  → `ok@<t>` or `deadline@<t>`
* `vrun <equiv> <mask> <seed> <move>*`  the lossy `Value.Pull` pipeline (`vstepF`, Subs.lean) from the state right after
                                  subscribing (seed in hand; `-` = no seed), forwarder scheduled greedily (one `take`
                                  attempt after every move): moves `w:<tok>` (a write reaches the DropExcess slot) /
                                  `d` (the consumer receives); equivalences `never|eq|class|near`, mask `0|1`
                                  (`1`: tokens `sn` are filtered to `s0`) → per move `<takes>` / `<value|none>,<takes>`
                                  (cumulative number of takes = calls of the equivalence), then `|` and the values
                                  a consumer draining to quiescence receives
* `crun <kind,…> <seeds> <move>*` several subscribers on one bus (`sysStep`), each subscribed with the seed changes
                                  `<seeds>` (`;`-separated, `-` = none) and scheduled greedily: kinds `pull` / `pull!` (updates only: no seeds) /
                                  `id:<i>` (PullID); moves `s:<change>` (Bus.Send) / `d<k>` (consumer k receives)
                                  → per move `[<out>@]<seen0>/<seen1>/…`, then per subscriber `|` and its drain
* `brun <seed> <move>*`           one backpressured subscriber (`bstep`) and ONE writer: moves `w` (the writer starts its
                                  next write `t<n>` unless one is still waiting) / `d` (the consumer receives; a waiting
                                  write then goes through) → per move `ok:t` | `wait:t` | `still:t` / `<value|none>[+t]`,
                                  then `|` and what a consumer draining to quiescence receives
* `set <deadline> <listener>*`    `Value.set` after its commit: `Bus.Send` as above, then the error mapping
                                  (`setReturnsError`) → `error@<t>` or `ok@<t>`
-/
namespace ScVerif.C09
open ScVerif.Line

def parseMove? (s : String) : Option (Move SChange) :=
  if s = "e" then some .emit
  else match s.splitOn ":" with
    | ["r", c] => (parseChange? c).map .recv
    | _ => none

def parseDMove? (s : String) : Option (Move String) :=
  if s = "e" then some .emit
  else match s.splitOn ":" with
    | ["r", c] => if c = "" then none else some (.recv c)
    | _ => none

def showOut (f : α → String) : Option α → String
  | none => "none" | some o => f o

def showOuts (xs : List String) : String := if xs.isEmpty then "-" else ";".intercalate xs

def parseOptNat? (s : String) : Option (Option Nat) :=
  if s = "-" then some none else (parseNat? s).map some

def parseListener? (s : String) : Option Listener :=
  match s.splitOn "/" with
  | [r, c] => do
    let r ← parseOptNat? r
    let c ← parseOptNat? c
    pure ⟨r, c⟩
  | _ => none

def showSendResult : SendResult → String
  | .ok t => "ok@" ++ toString t
  | .deadlineExceeded t => "deadline@" ++ toString t

/-! #### Value pipeline (tokens are two-character strings `sn`) -/

def tokHead (s : String) : Nat := (s.toList.headD '0').toNat

def namedEquiv? : String → Option (Option String → String → Bool)
  | "never" => some (fun _ _ => false)
  | "eq" => some (fun l v => l == some v)
  | "class" => some (fun l v => match l with | some a => tokHead a == tokHead v | none => false)
  | "near" => some (fun l v => match l with
      | some a => (tokHead a ≤ tokHead v + 1) && (tokHead v ≤ tokHead a + 1) | none => false)
  | _ => none

def namedFilter? : String → Option (String → String)
  | "0" => some id
  | "1" => some (fun s => String.ofList [s.toList.headD '0', '0'])
  | _ => none

inductive VM where | w (t : String) | d

def parseVM? (s : String) : Option VM :=
  if s = "d" then some .d
  else match s.splitOn ":" with
    | ["w", t] => if t.length = 2 then some (.w t) else none
    | _ => none

/-- one `take` attempt; the counter counts the takes that happened -/
def vtake (E : Option String → String → Bool) (F : String → String) (c : VCfg String × Nat) : VCfg String × Nat :=
  let took := c.1.inHand.isNone && c.1.slot.isSome
  (vstepF E F c.1 .take, if took then c.2 + 1 else c.2)

def vrunDrv (E : Option String → String → Bool) (F : String → String) :
    VCfg String × Nat → List VM → List String → List String × (VCfg String × Nat)
  | c, [], acc => (acc.reverse, c)
  | c, .w t :: ms, acc =>
    let c' := vtake E F (vstepF E F c.1 (.recv t), c.2)
    vrunDrv E F c' ms (toString c'.2 :: acc)
  | c, .d :: ms, acc =>
    let o := match c.1.inHand with | some v => v | none => "none"
    let c' := vtake E F (vstepF E F c.1 .deliver, c.2)
    vrunDrv E F c' ms ((o ++ "," ++ toString c'.2) :: acc)

def vdrain (E : Option String → String → Bool) (F : String → String) : Nat → VCfg String → List String
  | 0, _ => []
  | n + 1, c =>
    match c.inHand with
    | some v => v :: vdrain E F n (vstepF E F (vstepF E F c .deliver) .take)
    | none => if c.slot.isSome then vdrain E F n (vstepF E F c .take) else []

/-! #### several subscribers on one bus -/

abbrev SSub := Sub String String

def parseKindSub? (sd : List SChange) (s : String) : Option SSub :=
  if s = "pull" then some (Sub.init none sd)
  else if s = "pull!" then some (Sub.init none [])          -- WithUpdatesOnly: no seeds
  else match s.splitOn ":" with
    | ["id", i] => if i = "" then none else some (Sub.init (some i) sd)
    | ["id!", i] => if i = "" then none else some (Sub.init (some i) [])
    | _ => none

inductive CM where | s (e : SChange) | d (k : Nat)

def parseCM? (s : String) : Option CM :=
  match s.splitOn ":" with
  | ["s", c] => (parseChange? c).map .s
  | [t] => match t.toList with
    | 'd' :: ds => (parseNat? (String.ofList ds)).map .d
    | _ => none
  | _ => none

/-- greedy local schedule of one subscriber: take / hand until nothing moves (enough fuel for every
pending change to be skipped) -/
def greedy (s : SSub) : SSub :=
  let n := s.q.s.seeds.length + s.q.s.p.st.pending.length + 2
  (List.range n).foldl (fun s _ => subStep (subStep (subStep s .take) .hand) .take) s

/-- per subscriber: how many values its forwarder has looked at so far (one per present old/new value of
every change it took) — the number of calls an accept-all `WithInclude` function has seen; used by the
harness only to wait until the real forwarder has caught up with the greedy schedule -/
def takesOf (subs : List SSub) : String :=
  "/".intercalate (subs.map (fun s => toString
    (s.q.s.p.taken.foldl (fun n e => n + (if e.old.isSome then 1 else 0) + (if e.new.isSome then 1 else 0)) 0)))

/-- what consumer `k` receives now (`none`: nothing offered; `closed`: PullID ended) -/
def offerOf (s : SSub) : String :=
  match s.watch with
  | none => match s.q.s.offer with | some d => showChange d | none => "none"
  | some _ => match s.q.hand2 with
    | some v => v
    | none => if s.q.ended then "closed" else "none"

def crunDrv : List SSub → List CM → List String → List String × List SSub
  | subs, [], acc => (acc.reverse, subs)
  | subs, .s e :: ms, acc =>
    let subs' := (sysStep subs (.send e)).map greedy
    crunDrv subs' ms (takesOf subs' :: acc)
  | subs, .d k :: ms, acc =>
    let o := match subs[k]? with | some s => offerOf s | none => "none"
    let subs' := (sysStep subs (.loc k .deliver)).map greedy
    crunDrv subs' ms ((o ++ "@" ++ takesOf subs') :: acc)

def cdrain : Nat → SSub → List String
  | 0, _ => []
  | n + 1, s =>
    match offerOf s with
    | "none" => []
    | "closed" => ["closed"]
    | o => o :: cdrain n (greedy (subStep s .deliver))

/-! #### one backpressured subscriber, one writer -/

structure BDrv where
  c : BCfg String
  pending : Option String
  next : Nat

def boffer (c : BCfg String) (t : String) : BCfg String × Bool :=
  let c' := bstep c (.offer t)
  (c', c.inHand.isNone)

def brunDrv : BDrv → List String → List String → Option (List String × BDrv)
  | st, [], acc => some (acc.reverse, st)
  | st, "w" :: ms, acc =>
    match st.pending with
    | some t => brunDrv st ms (("still:" ++ t) :: acc)
    | none =>
      let t := "t" ++ toString st.next
      let r := boffer st.c t
      if r.2 then brunDrv { st with c := r.1, next := st.next + 1 } ms (("ok:" ++ t) :: acc)
      else brunDrv { st with pending := some t, next := st.next + 1 } ms (("wait:" ++ t) :: acc)
  | st, "d" :: ms, acc =>
    let o := match st.c.inHand with | some v => v | none => "none"
    let c' := bstep st.c .deliver
    match st.pending with
    | some t => brunDrv { st with c := (boffer c' t).1, pending := none } ms ((o ++ "+" ++ t) :: acc)
    | none => brunDrv { st with c := c' } ms (o :: acc)
  | _, _ :: _, _ => none

def bdrain : Nat → BDrv → List String
  | 0, _ => []
  | n + 1, st =>
    match st.c.inHand with
    | some v =>
      let c' := bstep st.c .deliver
      match st.pending with
      | some t => v :: bdrain n { st with c := (boffer c' t).1, pending := none }
      | none => v :: bdrain n { st with c := c' }
    | none => []

def handle? (toks : List String) : Option String :=
  match toks with
  | "brun" :: seed :: ms => do
    let c0 : BCfg String := if seed = "-" then BCfg.init else ⟨some seed, [], [seed]⟩
    let r ← brunDrv ⟨c0, none, 1⟩ ms []
    pure (showOuts r.1 ++ "|" ++ showOuts (bdrain 4 r.2))
  | "vrun" :: eq :: mask :: seed :: ms => do
    let E ← namedEquiv? eq
    let F ← namedFilter? mask
    let cur ← (if seed = "-" then some none else if seed.length = 2 then some (some seed) else none)
    let ms ← ms.mapM parseVM?
    let r := vrunDrv E F (VCfg.subscribed F cur, 0) ms []
    pure (showOuts r.1 ++ "|" ++ showOuts (vdrain E F 8 r.2.1))
  | "crun" :: kinds :: seeds :: ms => do
    let sd ← (if seeds = "-" then some [] else (seeds.splitOn ";").mapM parseChange?)
    let subs ← (kinds.splitOn ",").mapM (parseKindSub? sd)
    let ms ← ms.mapM parseCM?
    let r := crunDrv subs ms []
    pure (" ".intercalate r.1 ++ "|" ++
      "|".intercalate (r.2.map (fun s => showOuts (cdrain (s.q.s.seeds.length + s.q.s.p.st.pending.length + 4) s))))
  | "send" :: dl :: ls => do
    let dl ← parseNat? dl
    let ls ← ls.mapM parseListener?
    pure (showSendResult (busSend dl 0 ls))
  | "set" :: dl :: ls => do
    let dl ← parseNat? dl
    let ls ← ls.mapM parseListener?
    pure ((if setReturnsError dl ls then "error@" else "ok@") ++ toString (busSend dl 0 ls).time)
  | ["merge", a, b] => do
    let a ← parseChange? a
    let b ← parseChange? b
    pure (showOptChange (mergeChanges a b))
  | "mrun" :: ms => do
    let ms ← ms.mapM parseMove?
    -- the machine exactly as coded (map + queue); `C09_map_queue_refines` relates it to `run`
    let zero : SChange := ⟨"", .unspecified, 0, none, none, false, false⟩
    let r := crunOut zero CState.init ms
    pure (showOuts (r.1.map (showOut showChange)) ++ "|" ++ showChanges r.2.abs)
  | "drun" :: ms => do
    let ms ← ms.mapM parseDMove?
    let r := drunOut (none : DState String) ms
    pure (showOuts (r.1.map (showOut id)) ++ "|" ++ (match r.2 with | none => "-" | some m => m))
  | _ => none

def handle (toks : List String) : String :=
  match handle? toks with
  | some r => r
  | none => "!bad-op"

end ScVerif.C09
