import ScVerif.Base.Line
/-! Driver handler for C09 (stub: replaced by the property's owner). -/
namespace ScVerif.C09

def handle (_toks : List String) : String := "!bad-op"

end ScVerif.C09
