import ScVerif.C09.Codec
import ScVerif.C09.SendTimeout
import ScVerif.C09.MapQueue
/-! Driver handler for C09.

* `merge <a> <b>`                 → `mergeChanges a b` (`drop` when `send == false`)
* `mrun <move>*`                  moves `r:<change>` (offer one input) / `e` (take one output) on the
                                  `mergeCollectionExcess` machine AS CODED (messages map + queue of ids, `MapQueue.lean`) from its initial state →
                                  `<out>;…|<pending>` with one `<out>` per `e` move (`none` = not enabled)
* `drun <move>*`                  the same for `DropExcess` over opaque tokens: `r:<tok>` / `e`
* `send <deadline> <listener>*`   `Bus.Send` with a deadline over listeners `<readyAt>/<cancelledAt>` (`-` = never)
                                  → `ok@<t>` or `deadline@<t>`
* `set <deadline> <listener>*`    `Value.set` after its commit: `Bus.Send` as above, then the error mapping
                                  (`setReturnsError`) → `error@<t>` or `ok@<t>`
-/
namespace ScVerif.C09
open ScVerif.Line

def parseMove? (s : String) : Option (Move SChange) :=
  if s = "e" then some .emit
  else match s.splitOn ":" with
    | ["r", c] => (parseChange? c).map .recv
    | _ => none

def parseDMove? (s : String) : Option (Move String) :=
  if s = "e" then some .emit
  else match s.splitOn ":" with
    | ["r", c] => if c = "" then none else some (.recv c)
    | _ => none

def showOut (f : α → String) : Option α → String
  | none => "none" | some o => f o

def showOuts (xs : List String) : String := if xs.isEmpty then "-" else ";".intercalate xs

def parseOptNat? (s : String) : Option (Option Nat) :=
  if s = "-" then some none else (parseNat? s).map some

def parseListener? (s : String) : Option Listener :=
  match s.splitOn "/" with
  | [r, c] => do
    let r ← parseOptNat? r
    let c ← parseOptNat? c
    pure ⟨r, c⟩
  | _ => none

def showSendResult : SendResult → String
  | .ok t => "ok@" ++ toString t
  | .deadlineExceeded t => "deadline@" ++ toString t

def handle? (toks : List String) : Option String :=
  match toks with
  | "send" :: dl :: ls => do
    let dl ← parseNat? dl
    let ls ← ls.mapM parseListener?
    pure (showSendResult (busSend dl 0 ls))
  | "set" :: dl :: ls => do
    let dl ← parseNat? dl
    let ls ← ls.mapM parseListener?
    pure ((if setReturnsError dl ls then "error@" else "ok@") ++ toString (busSend dl 0 ls).time)
  | ["merge", a, b] => do
    let a ← parseChange? a
    let b ← parseChange? b
    pure (showOptChange (mergeChanges a b))
  | "mrun" :: ms => do
    let ms ← ms.mapM parseMove?
    -- the machine exactly as coded (map + queue); `C09_map_queue_refines` relates it to `run`
    let zero : SChange := ⟨"", .unspecified, 0, none, none, false, false⟩
    let r := crunOut zero CState.init ms
    pure (showOuts (r.1.map (showOut showChange)) ++ "|" ++ showChanges r.2.abs)
  | "drun" :: ms => do
    let ms ← ms.mapM parseDMove?
    let r := drunOut (none : DState String) ms
    pure (showOuts (r.1.map (showOut id)) ++ "|" ++ (match r.2 with | none => "-" | some m => m))
  | _ => none

def handle (toks : List String) : String :=
  match handle? toks with
  | some r => r
  | none => "!bad-op"

end ScVerif.C09
