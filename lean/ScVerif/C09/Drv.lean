import ScVerif.C09.Codec
import ScVerif.C09.SendTimeout
import ScVerif.C09.MapQueue
import ScVerif.C09.Subs
import ScVerif.C09.Include
import ScVerif.C09.Seed
import ScVerif.C09.Mixed
import ScVerif.C09.Bus
import ScVerif.C09.Writers
import ScVerif.C09.ReadOpts
import ScVerif.C09.UpdateKind
import ScVerif.C09.DeleteRetry
import ScVerif.C09.TraitAdapter
/-! Driver handler for C09.

* `merge <a> <b>`                 → `mergeChanges a b` (`drop` when `send == false`)
* `mrun <move>*`                  moves `r:<change>` (offer one input) / `e` (take one output) on the
                                  `mergeCollectionExcess` machine AS CODED (messages map + queue of ids, `MapQueue.lean`) from its initial state →
                                  `<out>;…|<pending>` with one `<out>` per `e` move (`none` = not enabled)
* `tstream <move>*`               `mrun`, and what the machine emits piped through a trait package's conversion stage
                                  (`arun (castChange f)`, TraitAdapter.lean; `f` prefixes the message with `t`; take / deliver
                                  alternating) → the changes the trait's subscriber receives, `;`-separated
* `drun <move>*`                  the same for `DropExcess` over opaque tokens: `r:<tok>` / `e`
* `send <deadline> <listener>*`   `Bus.Send` with a deadline over listeners `<readyAt>/<cancelledAt>` (`-` = never)
                                  → `ok@<t>` or `deadline@<t>`
* `vrun <equiv> <mask> <seed> <move>*`  the lossy `Value.Pull` pipeline (`vstepF`, Subs.lean) from the state right after
                                  subscribing (seed in hand; `-` = no seed), forwarder scheduled greedily (one `take`
                                  attempt after every move): moves `w:<tok>` (a write reaches the DropExcess slot) /
                                  `d` (the consumer receives); equivalences `never|eq|class|near`, mask `0|1`
                                  (`1`: tokens `sn[@t]` are filtered to `s0[@t]`) → per move `<takes>` / `<value|none>,<takes>`
                                  (cumulative number of takes = calls of the equivalence), then `|` and the values
                                  a consumer draining to quiescence receives
* `crun <kind,…> <seeds> <move>*` several subscribers on one bus (`sysStep`), each subscribed with the seed changes
                                  `<seeds>` (`;`-separated, `-` = none: one ADD per stored item; each subscriber keeps the ones its
                                  filter admits) and scheduled greedily: kinds `pull` / `pull!` (updates only: no seeds) /
                                  `id:<i>` (PullID), each optionally `~<include>` (`WithInclude`: `all|odd|even|ida`; the forwarder
                                  transform is `includeChange f`, Include.lean); moves `s:<change>` (Bus.Send) / `d<k>` (consumer k receives)
                                  → per move `[<out>@]<seen0>/<seen1>/…`, then per subscriber `|` and its drain
* `brun <seed> <move>*`           one backpressured subscriber (`bstep`) and ONE writer: moves `w` (the writer starts its
                                  next write `t<n>` unless one is still waiting) / `d` (the consumer receives; a waiting
                                  write then goes through) → per move `ok:t` | `wait:t` | `still:t` / `<value|none>[+t]`,
                                  then `|` and what a consumer draining to quiescence receives
* `xrun <L|B,…> <seed> <move>*`   lossy (`L`) and backpressured (`B`) subscribers MIXED on one bus in registration order
                                  (`xstep`, Mixed.lean) and ONE writer; `Bus.Send` advances greedily listener by listener, lossy
                                  forwarders take greedily: moves `w` (the writer starts its next write `t<n>` unless one is still
                                  waiting) / `d<k>` (consumer k receives once) → per move `ok:t` | `wait:t` | `still:t` /
                                  `<value|none>[+t]` (`+t`: the waiting write completed as a result), each followed by
                                  `@<looks0>/<looks1>/…#<p>` (how many events each forwarder has taken so far, and the listener the
                                  waiting send is at, `-` = none: used for waiting only)
* `busrun <move>*`                `minibus.Bus` with several `Send`s in progress (`busStep`, Bus.lean), senders scheduled greedily
                                  (a sender skips cancelled listeners at once, parks at the first live one behind the senders
                                  already parked there, returns past its last listener): moves `l` (Listen) / `c<k>` (cancel
                                  listener k; `!race` if a sender is parked at it) / `s` (a new sender starts) / `r<k>` (listener
                                  k's channel is received from once) → per move `ok` / `e<n>:<pos>` / `<n>:<pos>` | `none` with
                                  `<pos>` = `ret` | `p<k>#<visited+1>`, then `|` and per listener the events it was handed
* `wrun <id=val,…|-> <move>*`     several writers on one collection (`wstep`, Writers.lean): moves `u:<id>:<val>` (an Update / Add
                                  commits; its event is pending) / `p<n>` (the n-th pending event is published) / `x:<id>` (Delete:
                                  commit and publication together) → the events in the order the bus gets them
* `ropts <opt>*`                  `ComputeReadConfig` over the read options in the order given (`bp1|bp0` = WithBackpressure,
                                  `uo1|uo0` = WithUpdatesOnly, `e` = an option that touches neither) and the branch in `onUpdate`
                                  (ReadOpts.lean) → `bp=<0|1> uo=<0|1> path=<lossy|blocking>`
* `ucommit <cia> <atRead> <atCommit> <msg>`  `Collection.Update` of one item (UpdateKind.lean): `firstRead` at a store holding
                                  `<atRead>` for it, `commit` at a store holding `<atCommit>` (`-` = absent, `_` = the empty message, which
                                  is also the provisional message; `<cia>` = `1|0`: WithCreateIfAbsent) → `NotFound` | `Aborted` |
                                  `<KIND>,<old>,<new>`
* `dcommit <am> <expect> <atRead> <w>*`  `Collection.Delete` of one item (DeleteRetry.lean): the optimistic read finds `<atRead>`,
                                  attempt k finds `<w_k>` stored under the write lock (after the last one given the store stays as
                                  it is); an item is `<body>#<ptr>` (`_` = the empty message) or `-`; `<am>` = WithAllowMissing,
                                  `<expect>` = `n` | the WithExpectedValue body → `NotFound` | `nil` | `FailedPrecondition,<body>` |
                                  `Unavailable` | `REMOVE,<old>,ret=<body>,attempt=<k>`
* `set <deadline> <listener>*`    `Value.set` after its commit: `Bus.Send` as above, then the error mapping
                                  (`setReturnsError`) → `error@<t>` or `ok@<t>`
-/
namespace ScVerif.C09
open ScVerif.Line

def parseMove? (s : String) : Option (Move SChange) :=
  if s = "e" then some .emit
  else match s.splitOn ":" with
    | ["r", c] => (parseChange? c).map .recv
    | _ => none

def parseDMove? (s : String) : Option (Move String) :=
  if s = "e" then some .emit
  else match s.splitOn ":" with
    | ["r", c] => if c = "" then none else some (.recv c)
    | _ => none

def showOut (f : α → String) : Option α → String
  | none => "none" | some o => f o

def showOuts (xs : List String) : String := if xs.isEmpty then "-" else ";".intercalate xs

def parseOptNat? (s : String) : Option (Option Nat) :=
  if s = "-" then some none else (parseNat? s).map some

def parseListener? (s : String) : Option Listener :=
  match s.splitOn "/" with
  | [r, c] => do
    let r ← parseOptNat? r
    let c ← parseOptNat? c
    pure ⟨r, c⟩
  | _ => none

def showSendResult : SendResult → String
  | .ok t => "ok@" ++ toString t
  | .deadlineExceeded t => "deadline@" ++ toString t

/-! #### Value pipeline (tokens are two-character values `sn`, optionally followed by `@<t>`: the change
time the write was stamped with — not monotonic in write order: `WithWriteTime`, a clock stepped back; nothing in
the modelled code looks at it, it travels with the value) -/

def tokHead (s : String) : Nat := (s.toList.headD '0').toNat

/-- the value part of a token -/
def tokVal (s : String) : List Char := s.toList.take 2

def validTok (t : String) : Bool :=
  t.length == 2 || (t.length > 3 && (t.toList.drop 2).head? == some '@')

def namedEquiv? : String → Option (Option String → String → Bool)
  | "never" => some (fun _ _ => false)
  | "eq" => some (fun l v => match l with | some a => tokVal a == tokVal v | none => false)
  | "class" => some (fun l v => match l with | some a => tokHead a == tokHead v | none => false)
  | "near" => some (fun l v => match l with
      | some a => (tokHead a ≤ tokHead v + 1) && (tokHead v ≤ tokHead a + 1) | none => false)
  | _ => none

def namedFilter? : String → Option (String → String)
  | "0" => some id
  | "1" => some (fun s => match s.toList with | a :: _ :: rest => String.ofList (a :: '0' :: rest) | _ => s)
  | _ => none

inductive VM where | w (t : String) | d

def parseVM? (s : String) : Option VM :=
  if s = "d" then some .d
  else match s.splitOn ":" with
    | ["w", t] => if validTok t then some (.w t) else none
    | _ => none

/-- one `take` attempt; the counter counts the takes that happened -/
def vtake (E : Option String → String → Bool) (F : String → String) (c : VCfg String × Nat) : VCfg String × Nat :=
  let took := c.1.inHand.isNone && c.1.slot.isSome
  (vstepF E F c.1 .take, if took then c.2 + 1 else c.2)

def vrunDrv (E : Option String → String → Bool) (F : String → String) :
    VCfg String × Nat → List VM → List String → List String × (VCfg String × Nat)
  | c, [], acc => (acc.reverse, c)
  | c, .w t :: ms, acc =>
    let c' := vtake E F (vstepF E F c.1 (.recv t), c.2)
    vrunDrv E F c' ms (toString c'.2 :: acc)
  | c, .d :: ms, acc =>
    let o := match c.1.inHand with | some v => v | none => "none"
    let c' := vtake E F (vstepF E F c.1 .deliver, c.2)
    vrunDrv E F c' ms ((o ++ "," ++ toString c'.2) :: acc)

def vdrain (E : Option String → String → Bool) (F : String → String) : Nat → VCfg String → List String
  | 0, _ => []
  | n + 1, c =>
    match c.inHand with
    | some v => v :: vdrain E F n (vstepF E F (vstepF E F c .deliver) .take)
    | none => if c.slot.isSome then vdrain E F n (vstepF E F c .take) else []

/-! #### several subscribers on one bus -/

abbrev SSub := Sub String String

/-- the closed family of `WithInclude` functions shared with the harness (values are tokens ending in a digit) -/
def tokLastDigit (s : String) : Nat := (s.toList.getLast?.getD '0').toNat - '0'.toNat

def namedInclude? : String → Option (String → String → Bool)
  | "all" => some (fun _ _ => true)
  | "odd" => some (fun _ v => tokLastDigit v % 2 == 1)
  | "even" => some (fun _ v => tokLastDigit v % 2 == 0)
  | "ida" => some (fun i _ => i == "a")
  | _ => none

/-- the seed changes of a subscription: `sd` lists one ADD per stored item, sorted by id; the model's
`seedChanges` (Seed.lean; `C09_seed_list`) keeps the admitted ones and flags the last of THOSE -/
def seedsFor (f : String → String → Bool) (sd : List SChange) : List SChange :=
  seedChanges f (sd.filterMap (fun c => c.new.map (fun v => (c.id, v, c.time))))

def parseKindSub? (sd : List SChange) (s : String) : Option SSub := do
  let (k, f) ← ((match s.splitOn "~" with
    | [k] => some (k, fun _ _ => true)
    | [k, n] => (namedInclude? n).map (fun f => (k, f))
    | _ => none) : Option (String × (String → String → Bool)))
  let T := includeChange f
  if k = "pull" then some (Sub.init none T (seedsFor f sd))
  else if k = "pull!" then some (Sub.init none T [])          -- WithUpdatesOnly: no seeds
  else match k.splitOn ":" with
    | ["id", i] => if i = "" then none else some (Sub.init (some i) T (seedsFor f sd))
    | ["id!", i] => if i = "" then none else some (Sub.init (some i) T [])
    | _ => none

inductive CM where | s (e : SChange) | d (k : Nat)

def parseCM? (s : String) : Option CM :=
  match s.splitOn ":" with
  | ["s", c] => (parseChange? c).map .s
  | [t] => match t.toList with
    | 'd' :: ds => (parseNat? (String.ofList ds)).map .d
    | _ => none
  | _ => none

/-- greedy local schedule of one subscriber: take / hand until nothing moves (enough fuel for every
pending change to be skipped) -/
def greedy (s : SSub) : SSub :=
  let n := s.q.s.seeds.length + s.q.s.p.st.pending.length + 2
  (List.range n).foldl (fun s _ => subStep (subStep (subStep s .take) .hand) .take) s

/-- per subscriber: how many values its forwarder has looked at so far (one per present old/new value of
every change it took) — the number of calls an accept-all `WithInclude` function has seen; used by the
harness only to wait until the real forwarder has caught up with the greedy schedule -/
def takesOf (subs : List SSub) : String :=
  "/".intercalate (subs.map (fun s => toString
    (s.q.s.p.taken.foldl (fun n e => n + (if e.old.isSome then 1 else 0) + (if e.new.isSome then 1 else 0)) 0)))

/-- what consumer `k` receives now (`none`: nothing offered; `closed`: PullID ended) -/
def offerOf (s : SSub) : String :=
  match s.watch with
  | none => match s.q.s.offer with | some d => showChange d | none => "none"
  | some _ => match s.q.hand2 with
    | some v => v
    | none => if s.q.ended then "closed" else "none"

def crunDrv : List SSub → List CM → List String → List String × List SSub
  | subs, [], acc => (acc.reverse, subs)
  | subs, .s e :: ms, acc =>
    let subs' := (sysStep subs (.send e)).map greedy
    crunDrv subs' ms (takesOf subs' :: acc)
  | subs, .d k :: ms, acc =>
    let o := match subs[k]? with | some s => offerOf s | none => "none"
    let subs' := (sysStep subs (.loc k .deliver)).map greedy
    crunDrv subs' ms ((o ++ "@" ++ takesOf subs') :: acc)

def cdrain : Nat → SSub → List String
  | 0, _ => []
  | n + 1, s =>
    match offerOf s with
    | "none" => []
    | "closed" => ["closed"]
    | o => o :: cdrain n (greedy (subStep s .deliver))

/-! #### one backpressured subscriber, one writer -/

structure BDrv where
  c : BCfg String
  pending : Option String
  next : Nat

def boffer (c : BCfg String) (t : String) : BCfg String × Bool :=
  let c' := bstep c (.offer t)
  (c', c.inHand.isNone)

def brunDrv : BDrv → List String → List String → Option (List String × BDrv)
  | st, [], acc => some (acc.reverse, st)
  | st, "w" :: ms, acc =>
    match st.pending with
    | some t => brunDrv st ms (("still:" ++ t) :: acc)
    | none =>
      let t := "t" ++ toString st.next
      let r := boffer st.c t
      if r.2 then brunDrv { st with c := r.1, next := st.next + 1 } ms (("ok:" ++ t) :: acc)
      else brunDrv { st with pending := some t, next := st.next + 1 } ms (("wait:" ++ t) :: acc)
  | st, "d" :: ms, acc =>
    let o := match st.c.inHand with | some v => v | none => "none"
    let c' := bstep st.c .deliver
    match st.pending with
    | some t => brunDrv { st with c := (boffer c' t).1, pending := none } ms ((o ++ "+" ++ t) :: acc)
    | none => brunDrv { st with c := c' } ms (o :: acc)
  | _, _ :: _, _ => none

def bdrain : Nat → BDrv → List String
  | 0, _ => []
  | n + 1, st =>
    match st.c.inHand with
    | some v =>
      let c' := bstep st.c .deliver
      match st.pending with
      | some t => v :: bdrain n { st with c := (boffer c' t).1, pending := none }
      | none => v :: bdrain n { st with c := c' }
    | none => []

/-! #### lossy and backpressured subscribers mixed on one bus, one writer -/

def xNever : Option String → String → Bool := fun _ _ => false

structure XDrv where
  c : MixCfg String
  next : Nat

/-- `Bus.Send` goes on as far as it can, then every lossy forwarder takes what it can -/
def xsettle (c : MixCfg String) : MixCfg String :=
  let c := (List.range (c.subs.length + 1)).foldl (fun c _ => xstep xNever id c .advance) c
  (List.range c.subs.length).foldl (fun c k => xstep xNever id c (.loc k .take)) c

def xlooks (seedN : Nat) (c : MixCfg String) : String :=
  "/".intercalate (c.subs.map (fun s => toString (match s with
    | .lossy v => v.delivered.length + v.inHand.toList.length - seedN
    | .bp b => b.accepted.length - seedN)))
  ++ "#" ++ (match c.sending with | some (_, p) => toString p | none => "-")

def xoffer (c : MixCfg String) (k : Nat) : String :=
  match c.subs[k]? with
  | some (.lossy v) => v.inHand.getD "none"
  | some (.bp b) => b.inHand.getD "none"
  | none => "none"

def xpending (c : MixCfg String) : Option String := c.sending.map (·.1)

def xrunDrv (seedN : Nat) : XDrv → List String → List String → Option (List String)
  | _, [], acc => some acc.reverse
  | st, "w" :: ms, acc =>
    match xpending st.c with
    | some t => xrunDrv seedN st ms (("still:" ++ t ++ "@" ++ xlooks seedN st.c) :: acc)
    | none =>
      let t := "t" ++ toString st.next
      let c' := xsettle (xstep xNever id st.c (.write t))
      let o := (if (xpending c').isNone then "ok:" else "wait:") ++ t
      xrunDrv seedN ⟨c', st.next + 1⟩ ms ((o ++ "@" ++ xlooks seedN c') :: acc)
  | st, m :: ms, acc =>
    match m.toList with
    | 'd' :: ds => do
      let k ← parseNat? (String.ofList ds)
      let o := xoffer st.c k
      let c' := xsettle (xstep xNever id st.c (.loc k .deliver))
      let o := match xpending st.c, xpending c' with
        | some t, none => o ++ "+" ++ t
        | _, _ => o
      xrunDrv seedN ⟨c', st.next⟩ ms ((o ++ "@" ++ xlooks seedN c') :: acc)
    | _ => none


/-! #### the bus with several senders (Bus.lean), senders scheduled greedily -/

structure BusDrv where
  c : BusCfg
  stamps : List (Nat × Nat)   -- event ↦ when its sender parked where it stands (FIFO of a channel's senders)
  vis : List (Nat × Nat)      -- event ↦ listeners its sender has dealt with
  clock : Nat

def lookupD (l : List (Nat × Nat)) (e : Nat) : Nat := ((l.find? (fun p => p.1 == e)).map (·.2)).getD 0

def setKV (l : List (Nat × Nat)) (e v : Nat) : List (Nat × Nat) := (e, v) :: l.filter (fun p => !(p.1 == e))

def busSendOf (c : BusCfg) (e : Nat) : Option BSend := c.sends.find? (fun s => s.ev == e)

/-- the sender of `e` goes on while nothing holds it: skips cancelled listeners, returns past the last one -/
def busGreedy : Nat → BusDrv → Nat → BusDrv
  | 0, st, _ => st
  | fuel + 1, st, e =>
    match busSendOf st.c e with
    | none => st
    | some s =>
      match s.rest with
      | [] => { st with c := busStep st.c (.finish e) }
      | k :: _ =>
        if st.c.cancelled.contains k then
          busGreedy fuel { st with c := busStep st.c (.visit e), vis := setKV st.vis e (lookupD st.vis e + 1) } e
        else st

def busPos (st : BusDrv) (e : Nat) : String :=
  match busSendOf st.c e with
  | none => "ret"
  | some s =>
    match s.rest with
    | [] => "ret"
    | k :: _ => "p" ++ toString k ++ "#" ++ toString (lookupD st.vis e + 1)

def busPark (st : BusDrv) (e : Nat) : BusDrv :=
  { st with stamps := setKV st.stamps e st.clock, clock := st.clock + 1 }

/-- the senders parked at listener `k`, the one that arrived first in front -/
def busParkedAt (st : BusDrv) (k : Nat) : Option Nat :=
  let ps := st.c.sends.filter (fun s => s.rest.head? == some k)
  ps.foldl (fun best s =>
    match best with
    | none => some s.ev
    | some b => if lookupD st.stamps s.ev < lookupD st.stamps b then some s.ev else some b) none

def busrunDrv : BusDrv → List String → List String → Option (List String × BusDrv)
  | st, [], acc => some (acc.reverse, st)
  | st, m :: ms, acc =>
    match m.toList with
    | ['l'] => busrunDrv { st with c := busStep st.c .listen } ms ("ok" :: acc)
    | ['s'] =>
      let e := st.c.nextE
      let st := busGreedy (st.c.reg.length + 2) { st with c := busStep st.c .send } e
      let st := busPark st e
      busrunDrv st ms (("e" ++ toString e ++ ":" ++ busPos st e) :: acc)
    | 'c' :: ds => do
      let k ← parseNat? (String.ofList ds)
      if (busParkedAt st k).isSome then none
      else busrunDrv { st with c := busStep st.c (.cancel k) } ms ("ok" :: acc)
    | 'r' :: ds => do
      let k ← parseNat? (String.ofList ds)
      match busParkedAt st k with
      | none => busrunDrv st ms ("none" :: acc)
      | some e =>
        let st := { st with c := busStep st.c (.visit e), vis := setKV st.vis e (lookupD st.vis e + 1) }
        let st := busGreedy (st.c.nextL + 2) st e
        let st := busPark st e
        busrunDrv st ms ((toString e ++ ":" ++ busPos st e) :: acc)
    | _ => none

def showHanded (c : BusCfg) : String :=
  ";".intercalate ((List.range c.nextL).map (fun k =>
    let h := c.handedTo k
    if h.isEmpty then "-" else ",".intercalate (h.map toString)))


/-! #### several writers on one collection (Writers.lean) -/

def parseWStart? (s : String) : Option (View String String) :=
  if s = "-" then some View.empty
  else (s.splitOn ",").foldlM (fun (v : View String String) kv =>
    match kv.splitOn "=" with
    | [k, x] => if k = "" || x = "" then none else some (v.set k (some x))
    | _ => none) View.empty

def parseWMove? (s : String) : Option (WMove String String) :=
  match s.splitOn ":" with
  | ["u", i, v] => if i = "" || v = "" then none else some (.update i v)
  | ["x", i] => if i = "" then none else some (.delete i)
  | [p] => match p.toList with
    | 'p' :: ds => (parseNat? (String.ofList ds)).map .publish
    | _ => none
  | _ => none

def parseXSub? (seed : Option String) : String → Option (MSub String)
  | "L" => some (.lossy (VCfg.subscribed id seed))
  | "B" => some (.bp (match seed with | some s => ⟨some s, [], [s]⟩ | none => BCfg.init))
  | _ => none

def parseStored? (s : String) : Option (Option String) :=
  if s = "" then none else if s = "-" then some none else if s = "_" then some (some "") else some (some s)

def showStored : Option String → String
  | none => "-"
  | some v => if v = "" then "_" else v

def parseSlot? (s : String) : Option (Option (Slot String)) :=
  if s = "-" then some none
  else match s.splitOn "#" with
    | [b, p] => do
      let b ← parseStored? b
      let b ← b
      let p ← parseNat? p
      pure (some ⟨p, b⟩)
    | _ => none

def handle? (toks : List String) : Option String :=
  match toks with
  | "dcommit" :: am :: expect :: atRead :: ws => do
    let am ← parseFlag? am
    let first ← parseSlot? atRead
    let ws ← ws.mapM parseSlot?
    let chk : String → Bool ← (if expect = "n" then some (fun _ => true) else do
      let e ← parseStored? expect
      let e ← e
      pure (fun b => b == e))
    let world : Nat → Option (Slot String) := fun a =>
      match ws[a]? with
      | some w => w
      | none => match ws.getLast? with
        | some w => w
        | none => first
    match deleteCall (ι := String) ⟨"a", am, chk⟩ first world with
    | .notFound => pure "NotFound"
    | .missingOk => pure "nil"
    | .failed b => pure ("FailedPrecondition," ++ showStored (some b))
    | .unavailable => pure "Unavailable"
    | .removed k ret ev =>
      pure (showKind ev.kind ++ "," ++ showStored ev.old ++ ",ret=" ++ showStored (some ret) ++ ",attempt=" ++ toString k)
  | ["ucommit", cia, atRead, atCommit, msg] => do
    let cia ← parseFlag? cia
    let r0 ← parseStored? atRead
    let r1 ← parseStored? atCommit
    if msg = "" || msg = "-" || msg = "_" then none
    let s0 : View String String := View.empty.set "a" r0
    let s1 : View String String := View.empty.set "a" r1
    match firstRead "" s0 ⟨"a", msg, cia⟩ with
    | none => pure "NotFound"
    | some u =>
      match commit "" s1 u with
      | .aborted => pure "Aborted"
      | .ok _ ev => pure (showKind ev.kind ++ "," ++ showStored ev.old ++ "," ++ showStored ev.new)
  | "xrun" :: kinds :: seed :: ms => do
    let sd : Option String := if seed = "-" then none else some seed
    let subs ← (kinds.splitOn ",").mapM (parseXSub? sd)
    let r ← xrunDrv (if sd.isSome then 1 else 0) ⟨⟨subs, none, []⟩, 1⟩ ms []
    pure (" ".intercalate r)
  | "wrun" :: start :: ms => do
    let v ← parseWStart? start
    let ms ← ms.mapM parseWMove?
    pure (showChanges ((wrun (WCfg.init v) ms).published.map (·.2)))
  | "busrun" :: ms =>
    match busrunDrv ⟨BusCfg.init, [], [], 0⟩ ms [] with
    | some r => some (" ".intercalate r.1 ++ "|" ++ showHanded r.2.c)
    | none => some "!race"
  | "brun" :: seed :: ms => do
    let c0 : BCfg String := if seed = "-" then BCfg.init else ⟨some seed, [], [seed]⟩
    let r ← brunDrv ⟨c0, none, 1⟩ ms []
    pure (showOuts r.1 ++ "|" ++ showOuts (bdrain 4 r.2))
  | "vrun" :: eq :: mask :: seed :: ms => do
    let E ← namedEquiv? eq
    let F ← namedFilter? mask
    let cur ← (if seed = "-" then some none else if validTok seed then some (some seed) else none)
    let ms ← ms.mapM parseVM?
    let r := vrunDrv E F (VCfg.subscribed F cur, 0) ms []
    pure (showOuts r.1 ++ "|" ++ showOuts (vdrain E F 8 r.2.1))
  | "crun" :: kinds :: seeds :: ms => do
    let sd ← (if seeds = "-" then some [] else (seeds.splitOn ";").mapM parseChange?)
    let subs ← (kinds.splitOn ",").mapM (parseKindSub? sd)
    let ms ← ms.mapM parseCM?
    let r := crunDrv subs ms []
    pure (" ".intercalate r.1 ++ "|" ++
      "|".intercalate (r.2.map (fun s => showOuts (cdrain (s.q.s.seeds.length + s.q.s.p.st.pending.length + 4) s))))
  | "send" :: dl :: ls => do
    let dl ← parseNat? dl
    let ls ← ls.mapM parseListener?
    pure (showSendResult (busSend dl 0 ls))
  | "set" :: dl :: ls => do
    let dl ← parseNat? dl
    let ls ← ls.mapM parseListener?
    pure ((if setReturnsError dl ls then "error@" else "ok@") ++ toString (busSend dl 0 ls).time)
  | "ropts" :: os => do
    let os ← os.mapM parseROpt?
    let rr := computeReadConfig os
    pure ("bp=" ++ showBool rr.backpressure ++ " uo=" ++ showBool rr.updatesOnly ++ " path=" ++ showPath (pathOf rr))
  | ["merge", a, b] => do
    let a ← parseChange? a
    let b ← parseChange? b
    pure (showOptChange (mergeChanges a b))
  | "mrun" :: ms => do
    let ms ← ms.mapM parseMove?
    -- the machine exactly as coded (map + queue); `C09_map_queue_refines` relates it to `run`
    let zero : SChange := ⟨"", .unspecified, 0, none, none, false, false⟩
    let r := crunOut zero CState.init ms
    pure (showOuts (r.1.map (showOut showChange)) ++ "|" ++ showChanges r.2.abs)
  | "tstream" :: ms => do
    let ms ← ms.mapM parseMove?
    let zero : SChange := ⟨"", .unspecified, 0, none, none, false, false⟩
    let r := crunOut zero CState.init ms
    let up : List SChange := r.1.filterMap id
    let a := arun (castChange (fun v => "t" ++ v)) up (ACfg.init : ACfg String String)
      ((List.range up.length).flatMap (fun _ => [AMove.take, AMove.deliver]))
    pure (showOuts (a.out.map showChange))
  | "drun" :: ms => do
    let ms ← ms.mapM parseDMove?
    let r := drunOut (none : DState String) ms
    pure (showOuts (r.1.map (showOut id)) ++ "|" ++ (match r.2 with | none => "-" | some m => m))
  | _ => none

def handle (toks : List String) : String :=
  match handle? toks with
  | some r => r
  | none => "!bad-op"

end ScVerif.C09
