import ScVerif.C09.Mixed
/-
C09 — which path a subscription takes: the read options as a LIST (pkg/resource/opt.go) and the choice of the
lossy or the blocking path by `ReadRequest.Backpressure` (pkg/resource/value.go `onUpdate`,
pkg/resource/collection.go `onUpdate`: `if !readConfig.Backpressure { ch = DropExcess(ch) /
mergeCollectionExcess(ch) }`).

`ComputeReadConfig(opts...)` starts from a zero `ReadRequest` and applies the options in the order given; every
option is a function on the request.  An adapter that passes its own default first and the caller's options
after it relies on "the last one decides".

* `ReadReq`            the two boolean fields of `ReadRequest` (the read mask and the include function are
                       modelled where they act: `Subs.lean`, `Include.lean`)
* `ROpt`               `WithBackpressure(b)`, `WithUpdatesOnly(b)`, and `other` — any option that touches neither
                       (`EmptyReadOption`, `WithReadMask`, `WithInclude`, …)
* `computeReadConfig`  the fold as coded
* `pathOf`             the branch in `onUpdate`
* `installed`          the listener a subscription becomes on the bus of `Mixed.lean`: the lossy pipeline or the
                       backpressured one
* `lastBP`             SPEC: the last backpressure option of a list, `none` if there is none (recursion from the
                       right; the code folds from the left)
-/
namespace ScVerif.C09

structure ReadReq where
  updatesOnly : Bool
  backpressure : Bool
deriving DecidableEq, Repr

/-- `&ReadRequest{}` -/
def ReadReq.zero : ReadReq := ⟨false, false⟩

inductive ROpt where
  | backpressure (b : Bool)
  | updatesOnly (b : Bool)
  | other
deriving DecidableEq, Repr

/-- `opt.apply(rr)` -/
def ROpt.apply : ROpt → ReadReq → ReadReq
  | .backpressure b, rr => { rr with backpressure := b }
  | .updatesOnly b, rr => { rr with updatesOnly := b }
  | .other, rr => rr

/-- `for _, opt := range opts { opt.apply(rr) }` from a given request -/
def applyOpts (opts : List ROpt) (rr : ReadReq) : ReadReq := opts.foldl (fun r o => o.apply r) rr

/-- `ComputeReadConfig(opts...)` -/
def computeReadConfig (opts : List ROpt) : ReadReq := applyOpts opts ReadReq.zero

inductive Path where
  | lossy      -- DropExcess / mergeCollectionExcess is put between the listener and the forwarder
  | blocking   -- the forwarder ranges over the listener's own unbuffered channel
deriving DecidableEq, Repr

/-- `if !readConfig.Backpressure { … }` in `onUpdate` -/
def pathOf (rr : ReadReq) : Path := if rr.backpressure then .blocking else .lossy

/-- SPEC: the last backpressure option, if any -/
def lastBP : List ROpt → Option Bool
  | [] => none
  | o :: os =>
    match lastBP os with
    | some b => some b
    | none => match o with
      | .backpressure b => some b
      | _ => none

/-- SPEC: the last updates-only option, if any -/
def lastUO : List ROpt → Option Bool
  | [] => none
  | o :: os =>
    match lastUO os with
    | some b => some b
    | none => match o with
      | .updatesOnly b => some b
      | _ => none

theorem applyOpts_backpressure (opts : List ROpt) (rr : ReadReq) :
    (applyOpts opts rr).backpressure = (lastBP opts).getD rr.backpressure := by
  induction opts generalizing rr with
  | nil => rfl
  | cons o os ih =>
    show (applyOpts os (o.apply rr)).backpressure = _
    rw [ih]
    simp only [lastBP]
    cases h : lastBP os with
    | some b => rfl
    | none => cases o <;> rfl

theorem applyOpts_updatesOnly (opts : List ROpt) (rr : ReadReq) :
    (applyOpts opts rr).updatesOnly = (lastUO opts).getD rr.updatesOnly := by
  induction opts generalizing rr with
  | nil => rfl
  | cons o os ih =>
    show (applyOpts os (o.apply rr)).updatesOnly = _
    rw [ih]
    simp only [lastUO]
    cases h : lastUO os with
    | some b => rfl
    | none => cases o <;> rfl

theorem lastBP_append_cons (pre post : List ROpt) (b : Bool)
    (hpost : ∀ o ∈ post, ∀ b', o ≠ .backpressure b') :
    lastBP (pre ++ .backpressure b :: post) = some b := by
  have hp : lastBP post = none := by
    induction post with
    | nil => rfl
    | cons o os ih =>
      have h1 : lastBP os = none := ih (fun o' ho' => hpost o' (List.mem_cons_of_mem _ ho'))
      simp only [lastBP, h1]
      cases o with
      | backpressure b' => exact absurd rfl (hpost _ List.mem_cons_self b')
      | updatesOnly _ => rfl
      | other => rfl
  induction pre with
  | nil => simp only [List.nil_append, lastBP, hp]
  | cons o os ih => simp only [List.cons_append, lastBP, ih]

theorem lastBP_none_of_no_bp (opts : List ROpt) (h : ∀ o ∈ opts, ∀ b', o ≠ .backpressure b') :
    lastBP opts = none := by
  induction opts with
  | nil => rfl
  | cons o os ih =>
    have h1 : lastBP os = none := ih (fun o' ho' => h o' (List.mem_cons_of_mem _ ho'))
    simp only [lastBP, h1]
    cases o with
    | backpressure b' => exact absurd rfl (h _ List.mem_cons_self b')
    | updatesOnly _ => rfl
    | other => rfl

/-- the listener a subscription with these options becomes: the lossy pipeline `l` or the backpressured `b` -/
def installed {α : Type} (rr : ReadReq) (l : VCfg α) (b : BCfg α) : MSub α :=
  match pathOf rr with
  | .lossy => .lossy l
  | .blocking => .bp b

def showBool (b : Bool) : String := if b then "1" else "0"

def showPath : Path → String
  | .lossy => "lossy"
  | .blocking => "blocking"

def parseROpt? : String → Option ROpt
  | "bp1" => some (.backpressure true)
  | "bp0" => some (.backpressure false)
  | "uo1" => some (.updatesOnly true)
  | "uo0" => some (.updatesOnly false)
  | "e" => some .other
  | _ => none

end ScVerif.C09
