/-
C09 — model of the send deadline of `Value.set` (pkg/resource/value.go) through `Bus.Send` /
`listener.send` (internal/minibus/bus.go), at the level of *when each select case becomes ready*.

`Value.set` commits, then calls `bus.Send(ctx, event)` with `ctx` carrying a deadline (5 s).  `Send`
visits the listeners in order; for each, `listener.send` blocks in a `select` on
  `<-ctx.Done()`   (ready from the deadline on)   → returns ok=false, Send returns false at once
  `<-l.ctx.Done()` (ready from the listener's cancellation on) → skip this listener
  `l.ch <- event`  (ready from the moment the listener's receiver is ready) → delivered
A lossy listener's receiver (DropExcess / mergeCollectionExcess) is ready at once (C09_nonblocking);
a backpressured one is ready when the subscriber takes the previous event — possibly never.
Time is a natural number; a case that never becomes ready is `none`.  A `select` whose cases become
ready at different times takes the earliest; a tie with the deadline is resolved for the deadline here
(Go would pick either; the statement below only needs "not after the deadline").
-/
namespace ScVerif.C09

structure Listener where
  readyAt : Option Nat       -- when the receiver is ready to take the event
  cancelledAt : Option Nat   -- when the listen context is cancelled
deriving Repr

inductive SendResult where
  | ok (finishedAt : Nat)               -- every live listener got the event
  | deadlineExceeded (at_ : Nat)        -- ctx.Done() fired in some listener.send
deriving Repr, DecidableEq

/-- earliest of two optional instants -/
def earliest (a b : Option Nat) : Option Nat :=
  match a, b with
  | none, b => b
  | a, none => a
  | some x, some y => some (min x y)

/-- `Bus.Send` from time `now` with deadline `dl`, listeners in order. -/
def busSend (dl : Nat) : (now : Nat) → List Listener → SendResult
  | now, [] => .ok now
  | now, l :: ls =>
    if dl ≤ now then .deadlineExceeded now      -- ctx already done when the select is reached
    else
      match earliest l.readyAt l.cancelledAt with
      | none => .deadlineExceeded dl              -- only ctx.Done() ever becomes ready
      | some t =>
        let t := max now t                        -- the case was possibly ready before we got here
        if dl ≤ t then .deadlineExceeded dl else busSend dl t ls

/-- `Value.set` after the commit: error iff the send context's deadline was exceeded. -/
def setReturnsError (dl : Nat) (ls : List Listener) : Bool :=
  match busSend dl 0 ls with
  | .ok _ => false
  | .deadlineExceeded _ => true

def SendResult.time : SendResult → Nat
  | .ok t => t
  | .deadlineExceeded t => t

theorem busSend_time_le (dl now : Nat) (ls : List Listener) (h : now ≤ dl) :
    (busSend dl now ls).time ≤ dl ∧ now ≤ (busSend dl now ls).time := by
  induction ls generalizing now with
  | nil => simp [busSend, SendResult.time, h]
  | cons l ls ih =>
    unfold busSend
    by_cases h1 : dl ≤ now
    · simp [h1, SendResult.time, h]
    · simp only [h1, if_false]
      cases earliest l.readyAt l.cancelledAt with
      | none => simp [SendResult.time, h]
      | some t =>
        simp only
        by_cases h2 : dl ≤ max now t
        · simp [h2, SendResult.time, h]
        · simp only [h2, if_false]
          have := ih (max now t) (by omega)
          exact ⟨this.1, by omega⟩

theorem busSend_never_ready (dl now : Nat) (ls : List Listener) (h : now ≤ dl)
    (hn : ∃ l ∈ ls, l.readyAt = none ∧ l.cancelledAt = none) :
    busSend dl now ls = .deadlineExceeded dl := by
  induction ls generalizing now with
  | nil => obtain ⟨l, hl, _⟩ := hn; simp at hl
  | cons l ls ih =>
    unfold busSend
    by_cases h1 : dl ≤ now
    · have : now = dl := by omega
      simp [this]
    · simp only [h1, if_false]
      cases he : earliest l.readyAt l.cancelledAt with
      | none => rfl
      | some t =>
        simp only
        by_cases h2 : dl ≤ max now t
        · simp [h2]
        · simp only [h2, if_false]
          apply ih (max now t) (by omega)
          obtain ⟨l', hl', h3, h4⟩ := hn
          rcases List.mem_cons.mp hl' with rfl | hl'
          · simp [earliest, h3, h4] at he
          · exact ⟨l', hl', h3, h4⟩

theorem busSend_all_ready (dl now : Nat) (ls : List Listener) (h : now < dl)
    (hr : ∀ l ∈ ls, ∃ t, l.readyAt = some t ∧ t ≤ now) :
    busSend dl now ls = .ok now := by
  induction ls with
  | nil => rfl
  | cons l ls ih =>
    unfold busSend
    obtain ⟨t, ht, hle⟩ := hr l (by simp)
    have h1 : ¬ dl ≤ now := by omega
    simp only [h1, if_false]
    cases hc : l.cancelledAt with
    | none =>
      simp only [earliest, ht]
      have : max now t = now := by omega
      simp only [this, h1, if_false]
      exact ih (fun l' hl' => hr l' (by simp [hl']))
    | some c =>
      simp only [earliest, ht]
      have : max now (min t c) = now := by omega
      simp only [this, h1, if_false]
      exact ih (fun l' hl' => hr l' (by simp [hl']))

end ScVerif.C09
