import ScVerif.C09.Change
/-
C09 — model of the lossy-delivery code:

* `mergeChanges`            pkg/resource/backpressure.go (the 5×5 kind table, as coded, including the
                            cells commented "not sure how this happens")
* `MState/recv/emit`        the goroutine of `mergeCollectionExcess`: `messages` (map id → change) and
                            `queue` (list of ids) are kept as ONE list of pending changes in queue order;
                            the map holds exactly the queued ids, one change each
* `DState/drecv/demit`      the goroutine of `minibus.DropExcess` (single slot)

Each goroutine is a state machine with two moves mirroring its `select`: `recv e` (the `<-in` case,
offered in every state) and `emit` (the `out <- …` case, offered iff something is pending).
-/
namespace ScVerif.C09

variable {ι μ : Type}

/-- `mergeChanges(a, b)`; `none` stands for `send == false` (the Go code then returns the zero change,
which the caller ignores). -/
def mergeChanges (a b : Change ι μ) : Option (Change ι μ) :=
  let b := { b with lastSeed := a.lastSeed || b.lastSeed }
  match a.kind with
  | .add =>
    match b.kind with
    | .add => some b                                   -- "not sure how this happens, but sure"
    | .update => some { b with kind := .add, old := none }
    | .replace => some { b with kind := .add, old := none }
    | .remove => none
    | .unspecified => some b
  | .update =>
    let b := { b with old := a.old }
    if b.kind = .add then some { b with kind := .replace }   -- "not sure how this happens, but sure"
    else some b
  | .replace =>
    let b := { b with old := a.old }
    if b.kind = .add ∨ b.kind = .update then some { b with kind := .replace } else some b
  | .remove =>
    let b := { b with old := a.old }
    if b.kind ≠ .remove then some { b with kind := .replace } else some b
  | .unspecified => some b

variable [DecidableEq ι]

/-- Split the first pending change for id `i` out of the queue: `messages[i]` together with the queue
after `queue.Remove(n)` of the first node holding `i`. -/
def extract (i : ι) : List (Change ι μ) → Option (Change ι μ × List (Change ι μ))
  | [] => none
  | c :: cs =>
    if c.id = i then some (c, cs)
    else match extract i cs with
      | some (a, rest) => some (a, c :: rest)
      | none => none

/-- State of the `mergeCollectionExcess` goroutine: the pending changes in queue (FIFO) order. -/
structure MState (ι μ : Type) where
  pending : List (Change ι μ)

def MState.init : MState ι μ := ⟨[]⟩

/-- The `<-in` case (both the blocking receive of the empty-queue branch and the select case). -/
def recv (st : MState ι μ) (e : Change ι μ) : MState ι μ :=
  match st.pending with
  | [] => ⟨[e]⟩                                         -- `else` branch: queue empty, store and enqueue
  | _ =>
    match extract e.id st.pending with
    | some (a, rest) =>                                  -- hasOld: merge, unlink the id from the queue
      match mergeChanges a e with
      | some m => ⟨rest ++ [m]⟩                          -- messages[id] = merged; queue.PushBack(id)
      | none => ⟨rest⟩                                   -- !send: delete(messages, id); continue
    | none => ⟨st.pending ++ [e]⟩

/-- The `out <- event()` case: enabled iff the queue is non-empty; emits the front. -/
def emit (st : MState ι μ) : Option (Change ι μ × MState ι μ) :=
  match st.pending with
  | [] => none
  | c :: cs => some (c, ⟨cs⟩)

/-- A move of the environment: offer one input, or take one output. -/
inductive Move (α : Type) where
  | recv (e : α)
  | emit

/-- A run configuration: machine state plus the two histories the theorems talk about. -/
structure Cfg (ι μ : Type) where
  st : MState ι μ
  emitted : List (Change ι μ)
  received : List (Change ι μ)

def Cfg.init : Cfg ι μ := ⟨MState.init, [], []⟩

/-- One move. An `emit` offered while nothing is pending is not enabled: the configuration stays. -/
def step (c : Cfg ι μ) : Move (Change ι μ) → Cfg ι μ
  | .recv e => { c with st := recv c.st e, received := c.received ++ [e] }
  | .emit =>
    match emit c.st with
    | some (o, st') => { c with st := st', emitted := c.emitted ++ [o] }
    | none => c

def run (c : Cfg ι μ) (ms : List (Move (Change ι μ))) : Cfg ι μ := ms.foldl step c

/-- What the driver prints: the answer of every `emit` move (`none` = not enabled) and the final state.
`runOut_spec` (MachineLemmas) ties it to `run`. -/
def runOut (st : MState ι μ) : List (Move (Change ι μ)) → List (Option (Change ι μ)) × MState ι μ
  | [] => ([], st)
  | .recv e :: ms => runOut (recv st e) ms
  | .emit :: ms =>
    match emit st with
    | some (o, st') => let r := runOut st' ms; (some o :: r.1, r.2)
    | none => let r := runOut st ms; (none :: r.1, r.2)

/-! ### DropExcess -/

/-- State of the `DropExcess` goroutine: `hasMessage`/`message`. -/
abbrev DState (α : Type) := Option α

def drecv {α : Type} (_ : DState α) (e : α) : DState α := some e

def demit {α : Type} (st : DState α) : Option (α × DState α) :=
  match st with
  | none => none
  | some m => some (m, none)

structure DCfg (α : Type) where
  st : DState α
  emitted : List α
  received : List α

def DCfg.init {α : Type} : DCfg α := ⟨none, [], []⟩

def dstep {α : Type} (c : DCfg α) : Move α → DCfg α
  | .recv e => { c with st := drecv c.st e, received := c.received ++ [e] }
  | .emit =>
    match demit c.st with
    | some (o, st') => { c with st := st', emitted := c.emitted ++ [o] }
    | none => c

def drun {α : Type} (c : DCfg α) (ms : List (Move α)) : DCfg α := ms.foldl dstep c

def drunOut {α : Type} (st : DState α) : List (Move α) → List (Option α) × DState α
  | [] => ([], st)
  | .recv e :: ms => drunOut (drecv st e) ms
  | .emit :: ms =>
    match demit st with
    | some (o, st') => let r := drunOut st' ms; (some o :: r.1, r.2)
    | none => let r := drunOut st ms; (none :: r.1, r.2)

end ScVerif.C09
