import ScVerif.C09.Subs
import ScVerif.C09.Include
/-! Lemmas about the PullID stage, several subscribers on one bus and the filtered Value pipeline
(helpers; the property theorems are in `PropsSubs.lean`). -/
namespace ScVerif.C09

variable {ι μ : Type} [DecidableEq ι]

/-! ### PullID -/

theorem pullIdScan_snoc (i : ι) (ds : List (Change ι μ)) (d : Change ι μ)
    (h : (pullIdScan i ds).2 = false) :
    pullIdScan i (ds ++ [d]) = ((pullIdScan i ds).1 ++ (pullIdAccept i d).1.toList, (pullIdAccept i d).2) := by
  induction ds with
  | nil =>
    simp only [List.nil_append, pullIdScan, pullIdAccept]
    by_cases h1 : d.id ≠ i
    · simp [h1]
    · by_cases h2 : d.kind = .remove
      · simp [h1, h2]
      · cases hn : d.new <;> simp [h1, h2]
  | cons d0 ds ih =>
    simp only [List.cons_append, pullIdScan] at h ⊢
    by_cases h1 : d0.id ≠ i
    · simp only [if_pos h1] at h ⊢
      exact ih h
    · by_cases h2 : d0.kind = .remove
      · simp [h1, h2] at h
      · cases hn : d0.new with
        | none => simp [h1, h2, hn] at h
        | some v =>
          simp only [if_neg h1, if_neg h2, hn] at h ⊢
          rw [ih h]
          simp

/-- A live scan (no REMOVE / nil value of the watched id met): the view at that id is the last
forwarded value, or what it was at the start if nothing was forwarded. -/
theorem fold_of_live_scan (i : ι) (ds : List (Change ι μ)) (s : View ι μ)
    (h : (pullIdScan i ds).2 = false) :
    fold ds s i = ((pullIdScan i ds).1.getLast?).or (s i) := by
  induction ds generalizing s with
  | nil => simp [pullIdScan]
  | cons d ds ih =>
    simp only [fold_cons, pullIdScan] at h ⊢
    by_cases h1 : d.id ≠ i
    · simp only [if_pos h1] at h ⊢
      rw [ih _ h, apply_other d s (fun hh => h1 hh.symm)]
    · by_cases h2 : d.kind = .remove
      · simp [h1, h2] at h
      · cases hn : d.new with
        | none => simp [h1, h2, hn] at h
        | some v =>
          simp only [if_neg h1, if_neg h2, hn] at h ⊢
          rw [ih _ h]
          have hid : d.id = i := by simpa using h1
          have hap : apply d s i = some v := by
            rw [← hid, apply_same, if_neg h2, hn]
          rw [hap]
          cases hr : (pullIdScan i ds).1 with
          | nil => simp
          | cons x xs =>
            rw [List.getLast?_cons_cons]
            cases hl : (x :: xs).getLast? with
            | none => simp at hl
            | some y => simp

/-- An ended scan met a REMOVE or a nil new value of the watched id. -/
theorem ended_scan_witness (i : ι) (ds : List (Change ι μ)) (h : (pullIdScan i ds).2 = true) :
    ∃ d ∈ ds, d.id = i ∧ (d.kind = .remove ∨ d.new = none) := by
  induction ds with
  | nil => simp [pullIdScan] at h
  | cons d ds ih =>
    simp only [pullIdScan] at h
    by_cases h1 : d.id ≠ i
    · simp only [if_pos h1] at h
      obtain ⟨x, hx, hh⟩ := ih h
      exact ⟨x, List.mem_cons_of_mem _ hx, hh⟩
    · have hid : d.id = i := by simpa using h1
      by_cases h2 : d.kind = .remove
      · exact ⟨d, List.mem_cons_self, hid, Or.inl h2⟩
      · cases hn : d.new with
        | none => exact ⟨d, List.mem_cons_self, hid, Or.inr hn⟩
        | some v =>
          simp only [if_neg h1, if_neg h2, hn] at h
          obtain ⟨x, hx, hh⟩ := ih h
          exact ⟨x, List.mem_cons_of_mem _ hx, hh⟩

/-- In a well-formed history only a REMOVE carries no new value. -/
theorem WFHist_mem_new {s : View ι μ} {ds : List (Change ι μ)} (hw : WFHist s ds) :
    ∀ d ∈ ds, d.new = none → d.kind = .remove := by
  induction ds generalizing s with
  | nil => intro d hd; cases hd
  | cons c cs ih =>
    intro d hd hn
    rcases List.mem_cons.mp hd with rfl | hmem
    · have hc := hw.1
      rcases d with ⟨di, dk, dt, dol, dn, dsd, dl⟩
      simp only at hn
      subst hn
      cases dk <;> simp [WFChange] at hc ⊢
    · exact ih hw.2 d hmem hn

/-! ### the seed phase -/

/-- While seeds remain, Pull's goroutine has taken nothing from the merge machine. -/
def Phase (c : SCfg ι μ) : Prop := c.seeds ≠ [] → c.p.delivered = [] ∧ c.p.inHand = none

theorem pstep_recv_delivered (T : Change ι μ → Option (Change ι μ)) (c : PCfg ι μ) (e : Change ι μ) :
    (pstep T c (.recv e)).delivered = c.delivered := rfl

theorem pstep_take_delivered (T : Change ι μ → Option (Change ι μ)) (c : PCfg ι μ) : (pstep T c .take).delivered = c.delivered := by
  simp only [pstep]
  cases c.inHand <;> cases emit c.st <;> rfl

theorem Phase_sstep (T : Change ι μ → Option (Change ι μ)) {c : SCfg ι μ} (h : Phase c) (m : PMove (Change ι μ)) : Phase (sstep T c m) := by
  rcases c with ⟨seeds, seeded, p⟩
  cases m with
  | recv e => exact h
  | take =>
    cases seeds with
    | nil => intro hne; exact absurd rfl hne
    | cons s rest => exact h
  | deliver =>
    cases seeds with
    | nil => intro hne; exact absurd rfl hne
    | cons s rest =>
      intro _
      exact h (by simp)

theorem sstep_received (T : Change ι μ → Option (Change ι μ)) (c : SCfg ι μ) (m : PMove (Change ι μ)) :
    (sstep T c m).p.received = c.p.received ++ pinputs [m] := by
  rcases c with ⟨seeds, seeded, p⟩
  cases m with
  | recv e => simp [sstep, pstep, pinputs]
  | take =>
    cases seeds with
    | nil => simpa [sstep] using pstep_received T p .take
    | cons s rest => simp [sstep, pinputs]
  | deliver =>
    cases seeds with
    | nil => simpa [sstep] using pstep_received T p .deliver
    | cons s rest => simp [sstep, pinputs]

/-- `recv` and `take` hand nothing on. -/
theorem sstep_out_recv (T : Change ι μ → Option (Change ι μ)) (c : SCfg ι μ) (e : Change ι μ) : (sstep T c (.recv e)).out = c.out := rfl

theorem sstep_out_take (T : Change ι μ → Option (Change ι μ)) (c : SCfg ι μ) : (sstep T c .take).out = c.out := by
  rcases c with ⟨seeds, seeded, p⟩
  cases seeds with
  | nil => simp [sstep, SCfg.out, pstep_take_delivered]
  | cons s rest => rfl

/-- Handing on the offered change appends exactly it to what was handed on. -/
theorem sstep_out_deliver (T : Change ι μ → Option (Change ι μ)) {c : SCfg ι μ} (hph : Phase c) {d : Change ι μ} (ho : c.offer = some d) :
    (sstep T c .deliver).out = c.out ++ [d] := by
  rcases c with ⟨seeds, seeded, p⟩
  cases seeds with
  | nil =>
    simp only [SCfg.offer] at ho
    simp [sstep, SCfg.out, pstep, ho]
  | cons s rest =>
    simp only [SCfg.offer, Option.some.injEq] at ho
    subst ho
    have := (hph (by simp)).1
    simp only at this
    simp [sstep, SCfg.out, this]

theorem sstep_out_deliver_none (T : Change ι μ → Option (Change ι μ)) {c : SCfg ι μ} (ho : c.offer = none) : sstep T c .deliver = c := by
  rcases c with ⟨seeds, seeded, p⟩
  cases seeds with
  | nil =>
    simp only [SCfg.offer] at ho
    simp [sstep, pstep, ho]
  | cons s rest => simp [SCfg.offer] at ho

/-- Invariant of Pull's goroutine subscribed at view `s0` with seed list `sd`. -/
structure SInv (T : Change ι μ → Option (Change ι μ)) (s0 : View ι μ) (sd : List (Change ι μ)) (c : SCfg ι μ) : Prop where
  split : c.seeded ++ c.seeds = sd
  phase : Phase c
  pinv : PInv T s0 c.p

theorem SInv_init (T : Change ι μ → Option (Change ι μ)) (s0 : View ι μ) (sd : List (Change ι μ)) : SInv T s0 sd (SCfg.init sd) :=
  ⟨by simp [SCfg.init], fun _ => ⟨rfl, rfl⟩, PInv_init T s0⟩

theorem SInv_step {T : Change ι μ → Option (Change ι μ)} {s0 : View ι μ} {sd : List (Change ι μ)} {c : SCfg ι μ} (h : SInv T s0 sd c)
    (m : PMove (Change ι μ)) (hw : ∀ e, m = .recv e → WFChange (fold c.p.received s0) e) :
    SInv T s0 sd (sstep T c m) := by
  refine ⟨?_, Phase_sstep T h.phase m, ?_⟩
  · have hs := h.split
    rcases c with ⟨seeds, seeded, p⟩
    cases m with
    | recv e => exact hs
    | take => cases seeds <;> exact hs
    | deliver =>
      cases seeds with
      | nil => exact hs
      | cons s rest => simpa [sstep] using hs
  · have hp := h.pinv
    rcases c with ⟨seeds, seeded, p⟩
    cases m with
    | recv e => exact PInv_step hp (.recv e) hw
    | take =>
      cases seeds with
      | nil => exact PInv_step hp .take (fun e' he' => by cases he')
      | cons s rest => exact hp
    | deliver =>
      cases seeds with
      | nil => exact PInv_step hp .deliver (fun e' he' => by cases he')
      | cons s rest => exact hp

/-- What was handed on, the seeds still to come, the event in hand and the pending changes are the seed
list followed by the pipeline's own (delivered, in hand, pending). -/
theorem SInv.total {T : Change ι μ → Option (Change ι μ)} {s0 : View ι μ} {sd : List (Change ι μ)} {c : SCfg ι μ} (h : SInv T s0 sd c)
    (X : List (Change ι μ)) :
    c.out ++ c.seeds ++ c.p.inHand.toList ++ X
      = sd ++ (c.p.delivered ++ c.p.inHand.toList ++ X) := by
  have hs := h.split
  have hph := h.phase
  rcases c with ⟨seeds, seeded, p⟩
  simp only [SCfg.out] at hs ⊢
  cases seeds with
  | nil =>
    simp only [List.append_nil] at hs ⊢
    subst hs
    simp [List.append_assoc]
  | cons s rest =>
    obtain ⟨h1, h2⟩ := hph (by simp)
    simp only at h1 h2
    rw [h1, h2, ← hs]
    simp [List.append_assoc]

/-! ### PullID's invariant -/

structure QInv (i : ι) (c : QCfg ι μ) : Prop where
  scan : pullIdScan i c.s.out = (c.out ++ c.hand2.toList, c.ended)
  phase : Phase c.s

theorem QInv_init (i : ι) (sd : List (Change ι μ)) : QInv i (QCfg.init sd : QCfg ι μ) :=
  ⟨by simp [QCfg.init, SCfg.init, SCfg.out, PCfg.init, pullIdScan], fun _ => ⟨rfl, rfl⟩⟩

theorem QInv_step (T : Change ι μ → Option (Change ι μ)) {i : ι} {c : QCfg ι μ} (h : QInv i c) (m : QMove (Change ι μ)) : QInv i (qstep T i c m) := by
  obtain ⟨hs, hph⟩ := h
  cases m with
  | recv e => exact ⟨by simpa [qstep, sstep_out_recv] using hs, Phase_sstep T hph _⟩
  | take =>
    simp only [qstep]
    cases he : c.ended with
    | true => simp only [if_true]; exact ⟨by rw [he] at hs; simpa [he] using hs, hph⟩
    | false =>
      simp only [Bool.false_eq_true, if_false]
      exact ⟨by rw [he] at hs; simpa [sstep_out_take, he] using hs, Phase_sstep T hph _⟩
  | hand =>
    simp only [qstep]
    cases h2 : c.hand2 with
    | some v => exact ⟨hs, hph⟩
    | none =>
      cases he : c.ended with
      | true => exact ⟨hs, hph⟩
      | false =>
        cases hh : c.s.offer with
        | none => exact ⟨hs, hph⟩
        | some d =>
          simp only
          refine ⟨?_, Phase_sstep T hph _⟩
          simp only [sstep_out_deliver T hph hh]
          rw [h2, he] at hs
          simp only [Option.toList_none, List.append_nil] at hs
          rw [pullIdScan_snoc i _ d (by rw [hs]), hs]
  | deliver =>
    simp only [qstep]
    cases h2 : c.hand2 with
    | none => exact ⟨hs, hph⟩
    | some v =>
      refine ⟨?_, hph⟩
      rw [h2] at hs
      simpa using hs

/-! ### a subscriber's Pull goroutine keeps its invariant under every subscriber move -/

/-- Every subscriber move is a move of its Pull goroutine carrying the same input, or leaves it alone. -/
theorem subStep_s (s : Sub ι μ) (m : QMove (Change ι μ)) :
    (∃ pm, (subStep s m).q.s = sstep s.tr s.q.s pm ∧ pinputs [pm] = qinputs [m]) ∨
    ((subStep s m).q.s = s.q.s ∧ qinputs [m] = []) := by
  rcases s with ⟨w, T, q⟩
  cases w with
  | none =>
    cases m with
    | recv e => exact Or.inl ⟨.recv e, rfl, rfl⟩
    | take => exact Or.inl ⟨.take, rfl, rfl⟩
    | hand => exact Or.inr ⟨rfl, rfl⟩
    | deliver => exact Or.inl ⟨.deliver, rfl, rfl⟩
  | some i =>
    cases m with
    | recv e => exact Or.inl ⟨.recv e, rfl, rfl⟩
    | take =>
      simp only [subStep, qstep]
      cases q.ended with
      | true => exact Or.inr ⟨rfl, rfl⟩
      | false => exact Or.inl ⟨.take, rfl, rfl⟩
    | hand =>
      simp only [subStep, qstep]
      cases q.hand2 with
      | some v => exact Or.inr ⟨rfl, rfl⟩
      | none =>
        cases q.ended with
        | true => exact Or.inr ⟨rfl, rfl⟩
        | false =>
          cases q.s.offer with
          | none => exact Or.inr ⟨rfl, rfl⟩
          | some d => exact Or.inl ⟨.deliver, rfl, rfl⟩
    | deliver =>
      simp only [subStep, qstep]
      cases q.hand2 <;> exact Or.inr ⟨rfl, rfl⟩

theorem subStep_received (s : Sub ι μ) (m : QMove (Change ι μ)) :
    (subStep s m).q.s.p.received = s.q.s.p.received ++ qinputs [m] := by
  rcases subStep_s s m with ⟨pm, h1, h2⟩ | ⟨h1, h2⟩
  · rw [h1, sstep_received, h2]
  · rw [h1, h2, List.append_nil]

theorem subStep_tr (s : Sub ι μ) (m : QMove (Change ι μ)) : (subStep s m).tr = s.tr := by
  rcases s with ⟨w, T, q⟩
  cases w <;> cases m <;> rfl

theorem subStep_SInv {s0 : View ι μ} {sd : List (Change ι μ)} {s : Sub ι μ} (h : SInv s.tr s0 sd s.q.s)
    (m : QMove (Change ι μ)) (hw : ∀ e, m = .recv e → WFChange (fold s.q.s.p.received s0) e) :
    SInv s.tr s0 sd (subStep s m).q.s := by
  rcases subStep_s s m with ⟨pm, h1, h2⟩ | ⟨h1, _⟩
  · rw [h1]
    refine SInv_step h pm ?_
    intro e he
    subst he
    apply hw e
    cases m with
    | recv e' => simp [pinputs, qinputs] at h2; rw [h2]
    | take => simp [pinputs, qinputs] at h2
    | hand => simp [pinputs, qinputs] at h2
    | deliver => simp [pinputs, qinputs] at h2
  · rw [h1]; exact h

theorem subRun_nil (s : Sub ι μ) : subRun s [] = s := rfl
theorem subRun_cons (s : Sub ι μ) (m : QMove (Change ι μ)) (ms : List (QMove (Change ι μ))) :
    subRun s (m :: ms) = subRun (subStep s m) ms := rfl

theorem subRun_received (s : Sub ι μ) (ms : List (QMove (Change ι μ))) :
    (subRun s ms).q.s.p.received = s.q.s.p.received ++ qinputs ms := by
  induction ms generalizing s with
  | nil => simp [subRun_nil, qinputs]
  | cons m ms ih =>
    rw [subRun_cons, ih, subStep_received]
    cases m <;> simp [qinputs]

theorem subRun_SInv {s0 : View ι μ} {sd : List (Change ι μ)} {s : Sub ι μ} (ms : List (QMove (Change ι μ)))
    (h : SInv s.tr s0 sd s.q.s) (hw : WFHist (fold s.q.s.p.received s0) (qinputs ms)) :
    SInv s.tr s0 sd (subRun s ms).q.s := by
  induction ms generalizing s with
  | nil => exact h
  | cons m ms ih =>
    rw [subRun_cons, ← subStep_tr s m]
    cases m with
    | recv e =>
      simp only [qinputs, WFHist] at hw
      refine ih (by rw [subStep_tr]; exact subStep_SInv h _ (fun e' he' => by cases he'; exact hw.1)) ?_
      rw [subStep_received]
      simp only [qinputs, fold_snoc]
      exact hw.2
    | take =>
      refine ih (by rw [subStep_tr]; exact subStep_SInv h _ (fun e' he' => by cases he')) ?_
      rw [subStep_received]; simpa [qinputs] using hw
    | hand =>
      refine ih (by rw [subStep_tr]; exact subStep_SInv h _ (fun e' he' => by cases he')) ?_
      rw [subStep_received]; simpa [qinputs] using hw
    | deliver =>
      refine ih (by rw [subStep_tr]; exact subStep_SInv h _ (fun e' he' => by cases he')) ?_
      rw [subStep_received]; simpa [qinputs] using hw

theorem subStep_watch (s : Sub ι μ) (m : QMove (Change ι μ)) : (subStep s m).watch = s.watch := by
  rcases s with ⟨w, T, q⟩
  cases w <;> cases m <;> rfl

theorem subRun_watch (s : Sub ι μ) (ms : List (QMove (Change ι μ))) : (subRun s ms).watch = s.watch := by
  induction ms generalizing s with
  | nil => rfl
  | cons m ms ih => rw [subRun_cons, ih, subStep_watch]

theorem subRun_tr (s : Sub ι μ) (ms : List (QMove (Change ι μ))) : (subRun s ms).tr = s.tr := by
  induction ms generalizing s with
  | nil => rfl
  | cons m ms ih => rw [subRun_cons, ih, subStep_tr]

theorem subRun_QInv {i : ι} {s : Sub ι μ} (hwatch : s.watch = some i) (h : QInv i s.q)
    (ms : List (QMove (Change ι μ))) : QInv i (subRun s ms).q := by
  induction ms generalizing s with
  | nil => exact h
  | cons m ms ih =>
    rw [subRun_cons]
    have hq : (subStep s m).q = qstep s.tr i s.q m := by
      rcases s with ⟨w, T, q⟩
      simp only at hwatch
      subst hwatch
      rfl
    exact ih (by rw [subStep_watch]; exact hwatch) (by rw [hq]; exact QInv_step _ h m)

/-- The consequences of the invariant the property theorems state, for a forwarder transform `T` that
simulates the view map `R` (`Sim`, Include.lean): the view, well-formedness of what was handed on, and the
view at quiescence.  The seed list `sd` is a well-formed history from the base view `b` folding to the
mapped view at subscription `R s0`. -/
theorem SInv.facts {T : Change ι μ → Option (Change ι μ)} {R : View ι μ → View ι μ} (hsim : Sim T R)
    {b s0 : View ι μ} {sd : List (Change ι μ)} {c : SCfg ι μ} (h : SInv T s0 sd c)
    (hsd : WFHist b sd) (hs0 : fold sd b = R s0) :
    fold (c.out ++ c.seeds ++ c.p.inHand.toList ++ c.p.st.pending.filterMap T) b
        = R (fold c.p.received s0) ∧
    WFHist b c.out ∧
    (c.seeds = [] → c.p.inHand = none → c.p.st.pending = [] →
        fold c.out b = R (fold c.p.received s0)) := by
  have hout := h.pinv.out
  have hview := h.pinv.inv.view
  have hwf := h.pinv.inv.wf
  simp only at hview hwf
  obtain ⟨hwf', hview'⟩ := filterMap_sim hsim hwf
  rw [hview, List.filterMap_append, ← hout] at hview'
  rw [List.filterMap_append, ← hout] at hwf'
  have htot : fold (c.out ++ c.seeds ++ c.p.inHand.toList ++ c.p.st.pending.filterMap T) b
      = R (fold c.p.received s0) := by
    rw [h.total, fold_append, hs0, hview']
  refine ⟨htot, ?_, ?_⟩
  · have hd : WFHist (R s0) c.p.delivered := (WFHist_append.mp (WFHist_append.mp hwf').1).1
    have hs := h.split
    have hph := h.phase
    rcases c with ⟨seeds, seeded, p⟩
    simp only [SCfg.out] at hs hd ⊢
    cases seeds with
    | nil =>
      simp only [List.append_nil] at hs
      subst hs
      exact WFHist_append.mpr ⟨hsd, by rw [hs0]; exact hd⟩
    | cons s rest =>
      have h1 := (hph (by simp)).1
      simp only at h1
      rw [h1, List.append_nil]
      rw [← hs] at hsd
      exact (WFHist_append.mp hsd).1
  · intro h1 h2 h3
    rw [h1, h2, h3] at htot
    simpa using htot

/-! ### several subscribers -/

theorem modAt_getElem? {α : Type} (f : α → α) (j k : Nat) (xs : List α) :
    (modAt f j xs)[k]? = if j = k then xs[k]?.map f else xs[k]? := by
  induction xs generalizing j k with
  | nil => cases j <;> simp [modAt]
  | cons x xs ih =>
    cases j with
    | zero =>
      cases k with
      | zero => simp [modAt]
      | succ k => simp [modAt]
    | succ j =>
      cases k with
      | zero => simp [modAt]
      | succ k => simp [modAt, ih]

theorem sysRun_nil (subs : List (Sub ι μ)) : sysRun subs [] = subs := rfl
theorem sysRun_cons (subs : List (Sub ι μ)) (m : SMove (Change ι μ)) (ms : List (SMove (Change ι μ))) :
    sysRun subs (m :: ms) = sysRun (sysStep subs m) ms := rfl

theorem sysRun_proj (subs : List (Sub ι μ)) (ms : List (SMove (Change ι μ))) (k : Nat) :
    (sysRun subs ms)[k]? = (subs[k]?).map (fun s => subRun s (proj k ms)) := by
  induction ms generalizing subs with
  | nil => simp [sysRun_nil, proj, subRun_nil]
  | cons m ms ih =>
    rw [sysRun_cons, ih]
    cases m with
    | send e =>
      simp only [sysStep, proj, List.getElem?_map, Option.map_map]
      rfl
    | loc j lm =>
      simp only [sysStep, proj, modAt_getElem?]
      by_cases hjk : j = k
      · simp only [hjk, if_true, Option.map_map]
        rfl
      · simp [hjk]

/-- The events sent on the bus by a system run. -/
def sent {α : Type} : List (SMove α) → List α
  | [] => []
  | .send e :: ms => e :: sent ms
  | .loc _ _ :: ms => sent ms

theorem qinputs_proj {α : Type} (k : Nat) (ms : List (SMove α)) : qinputs (proj k ms) = sent ms := by
  induction ms with
  | nil => rfl
  | cons m ms ih =>
    cases m with
    | send e => simp [proj, qinputs, sent, ih]
    | loc j lm =>
      simp only [proj, sent]
      by_cases hjk : j = k
      · simp only [hjk, if_true]
        cases lm <;> simpa [LMove.toQ, qinputs] using ih
      · simpa [hjk] using ih

/-! ### Value.Pull with a filter -/

theorem vstepF_mapF {α : Type} (E : Option α → α → Bool) (F : α → α) (c : VCfg α) (m : PMove α) :
    (vstepF E F c m).mapF F = vstep E (c.mapF F) (m.mapF F) := by
  rcases c with ⟨slot, last, inHand, delivered, received⟩
  cases m with
  | recv e => simp [vstepF, vstep, VCfg.mapF, PMove.mapF]
  | take =>
    simp only [vstepF, vstep, VCfg.mapF, PMove.mapF]
    cases inHand with
    | some d => rfl
    | none =>
      cases slot with
      | none => rfl
      | some v =>
        simp only [Option.map_some]
        by_cases hE : E last (F v) <;> simp [hE]
  | deliver =>
    simp only [vstepF, vstep, VCfg.mapF, PMove.mapF]
    cases inHand <;> rfl

theorem vrunF_mapF {α : Type} (E : Option α → α → Bool) (F : α → α) (c : VCfg α) (ms : List (PMove α)) :
    (vrunF E F c ms).mapF F = vrun E (c.mapF F) (ms.map (PMove.mapF F)) := by
  induction ms generalizing c with
  | nil => rfl
  | cons m ms ih =>
    show (vrunF E F (vstepF E F c m) ms).mapF F = vrun E (vstep E (c.mapF F) (m.mapF F)) (ms.map (PMove.mapF F))
    rw [ih, vstepF_mapF]

theorem vrunF_received {α : Type} (E : Option α → α → Bool) (F : α → α) (c : VCfg α) (ms : List (PMove α)) :
    (vrunF E F c ms).received = c.received ++ pinputs ms := by
  induction ms generalizing c with
  | nil => simp [vrunF, pinputs]
  | cons m ms ih =>
    show (vrunF E F (vstepF E F c m) ms).received = _
    rw [ih]
    cases m with
    | recv e => simp [vstepF, pinputs]
    | take =>
      simp only [vstepF, pinputs]
      cases c.inHand <;> cases c.slot <;> simp
      split <;> rfl
    | deliver =>
      simp only [vstepF, pinputs]
      cases c.inHand <;> simp

/-- The state right after subscribing satisfies the Value invariant with no earlier seed: the current
value is the first (and so far most recent) write, already in the forwarder's hand. -/
theorem VInv_subscribed {α : Type} (E : Option α → α → Bool) (F : α → α) (cur : Option α) :
    VInv E none ((VCfg.subscribed F cur).mapF F) := by
  cases cur with
  | none =>
    refine ⟨by simp [VCfg.subscribed, VCfg.mapF], by simp [VCfg.subscribed, VCfg.mapF],
      by simp [VCfg.subscribed, VCfg.mapF], ?_⟩
    intro pre a b post heq
    simp [VCfg.subscribed, VCfg.mapF] at heq
  | some v =>
    refine ⟨by simp [VCfg.subscribed, VCfg.mapF], by simp [VCfg.subscribed, VCfg.mapF],
      by simp [VCfg.subscribed, VCfg.mapF], ?_⟩
    intro pre a b post heq
    simp only [VCfg.subscribed, VCfg.mapF, Option.map_some, Option.toList_some, Option.toList_none,
      List.nil_append, List.append_nil] at heq
    have := congrArg List.length heq
    simp at this
    omega

/-! ### draining: a consumer that keeps receiving reaches quiescence -/

/-- one round of a receiving consumer of a `Collection.Pull` subscriber: the forwarder takes what it
can, the consumer receives what is offered -/
def drainMoves {α : Type} : Nat → List (QMove α)
  | 0 => []
  | n + 1 => .take :: .deliver :: drainMoves n

theorem qinputs_drainMoves {α : Type} (n : Nat) : qinputs (drainMoves n : List (QMove α)) = [] := by
  induction n with
  | zero => rfl
  | succ n ih => simpa [drainMoves, qinputs] using ih

theorem qinputs_append {α : Type} (xs ys : List (QMove α)) : qinputs (xs ++ ys) = qinputs xs ++ qinputs ys := by
  induction xs with
  | nil => rfl
  | cons m xs ih => cases m <;> simp [qinputs, ih]

theorem subRun_append (s : Sub ι μ) (xs ys : List (QMove (Change ι μ))) :
    subRun s (xs ++ ys) = subRun (subRun s xs) ys := by
  simp [subRun, List.foldl_append]

/-- what is still on its way to the consumer -/
def SCfg.backlog (c : SCfg ι μ) : Nat :=
  c.seeds.length + c.p.st.pending.length + (if c.p.inHand.isSome then 1 else 0)

theorem backlog_round (T : Change ι μ → Option (Change ι μ)) (c : SCfg ι μ) :
    (sstep T (sstep T c .take) .deliver).backlog = c.backlog - 1 := by
  rcases c with ⟨seeds, seeded, ⟨⟨pending⟩, taken, inHand, delivered, received⟩⟩
  cases seeds with
  | cons s rest => cases inHand <;> simp [sstep, SCfg.backlog] <;> omega
  | nil =>
    cases inHand with
    | some d => simp [sstep, pstep, SCfg.backlog]
    | none =>
      cases pending with
      | nil => simp [sstep, pstep, emit, SCfg.backlog]
      | cons p ps => cases hT : T p <;> simp [sstep, pstep, emit, SCfg.backlog, hT]

omit [DecidableEq ι] in
theorem backlog_zero {c : SCfg ι μ} (h : c.backlog = 0) :
    c.seeds = [] ∧ c.p.inHand = none ∧ c.p.st.pending = [] := by
  rcases c with ⟨seeds, seeded, ⟨⟨pending⟩, taken, inHand, delivered, received⟩⟩
  cases seeds <;> cases pending <;> cases inHand <;> simp_all [SCfg.backlog]

theorem subRun_drain_backlog (s : Sub ι μ) (hw : s.watch = none) (n : Nat) :
    (subRun s (drainMoves n)).q.s.backlog = s.q.s.backlog - n := by
  induction n generalizing s with
  | zero => simp [drainMoves, subRun_nil]
  | succ n ih =>
    rcases s with ⟨w, T, q⟩
    simp only at hw
    subst hw
    simp only [drainMoves, subRun_cons]
    rw [ih _ (by rfl)]
    have : (subStep (subStep (⟨none, T, q⟩ : Sub ι μ) .take) .deliver).q.s = sstep T (sstep T q.s .take) .deliver := rfl
    rw [this, backlog_round]
    omega

/-! Value -/
theorem vdrain_quiet {α : Type} (E : Option α → α → Bool) (F : α → α) (c : VCfg α) :
    let c' := vrunF E F c [.take, .deliver, .take, .deliver]
    c'.slot = none ∧ c'.inHand = none := by
  rcases c with ⟨slot, last, inHand, delivered, received⟩
  cases inHand with
  | some d =>
    cases slot with
    | none => simp [vrunF, vstepF]
    | some v =>
      by_cases hE : E last (F v) <;> simp [vrunF, vstepF, hE]
  | none =>
    cases slot with
    | none => simp [vrunF, vstepF]
    | some v =>
      by_cases hE : E last (F v) <;> simp [vrunF, vstepF, hE]

theorem vrunF_append {α : Type} (E : Option α → α → Bool) (F : α → α) (c : VCfg α) (xs ys : List (PMove α)) :
    vrunF E F c (xs ++ ys) = vrunF E F (vrunF E F c xs) ys := by
  simp [vrunF, List.foldl_append]

theorem pinputs_append_drain {α : Type} (ms : List (PMove α)) :
    pinputs (ms ++ [.take, .deliver, .take, .deliver]) = pinputs ms := by
  induction ms with
  | nil => rfl
  | cons m ms ih => cases m <;> simp [pinputs, ih]

/-! ### draining a PullID subscriber -/

def qdrainMoves {α : Type} : Nat → List (QMove α)
  | 0 => []
  | n + 1 => .take :: .hand :: .deliver :: qdrainMoves n

theorem qinputs_qdrainMoves {α : Type} (n : Nat) : qinputs (qdrainMoves n : List (QMove α)) = [] := by
  induction n with
  | zero => rfl
  | succ n ih => simpa [qdrainMoves, qinputs] using ih

def QCfg.backlog (c : QCfg ι μ) : Nat := c.s.backlog + (if c.hand2.isSome then 1 else 0)

def qround (T : Change ι μ → Option (Change ι μ)) (i : ι) (c : QCfg ι μ) : QCfg ι μ := qstep T i (qstep T i (qstep T i c .take) .hand) .deliver

theorem qstep_ended_mono (T : Change ι μ → Option (Change ι μ)) (i : ι) (c : QCfg ι μ) (m : QMove (Change ι μ)) (h : c.ended = true) :
    (qstep T i c m).ended = true := by
  cases m with
  | recv e => exact h
  | take => simp [qstep, h]
  | hand =>
    simp only [qstep]
    cases c.hand2 <;> simp [h]
  | deliver =>
    simp only [qstep]
    cases c.hand2 <;> simp [h]

theorem qround_progress (T : Change ι μ → Option (Change ι μ)) (i : ι) (c : QCfg ι μ) (h : c.ended = false) :
    (qround T i c).ended = true ∨ (qround T i c).backlog ≤ c.backlog - 1 := by
  rcases c with ⟨⟨seeds, seeded, ⟨⟨pending⟩, taken, inHand, delivered, received⟩⟩, hand2, ended, out⟩
  simp only at h
  subst h
  cases hand2 with
  | some v =>
    right
    cases seeds with
    | cons s rest =>
      cases inHand <;> cases pending <;>
        simp [qround, qstep, sstep, pstep, emit, SCfg.offer, QCfg.backlog, SCfg.backlog] <;> omega
    | nil =>
      cases inHand with
      | some d =>
        cases pending <;>
          simp [qround, qstep, sstep, pstep, emit, SCfg.offer, QCfg.backlog, SCfg.backlog] <;> omega
      | none =>
        cases pending with
        | nil => simp [qround, qstep, sstep, pstep, emit, SCfg.offer, QCfg.backlog, SCfg.backlog]
        | cons p ps =>
          cases hT : T p <;>
            simp [qround, qstep, sstep, pstep, emit, SCfg.offer, QCfg.backlog, SCfg.backlog, hT] <;> omega
  | none =>
    cases seeds with
    | cons s rest =>
      simp only [qround, qstep, sstep, SCfg.offer, Bool.false_eq_true, if_false]
      rcases hacc : pullIdAccept i s with ⟨x, e⟩
      cases x <;> cases e <;> cases inHand <;>
        simp [QCfg.backlog, SCfg.backlog] <;> omega
    | nil =>
      cases inHand with
      | some d =>
        simp only [qround, qstep, sstep, pstep, SCfg.offer, Bool.false_eq_true, if_false]
        rcases hacc : pullIdAccept i d with ⟨x, e⟩
        cases x <;> cases e <;> simp [QCfg.backlog, SCfg.backlog] <;> omega
      | none =>
        cases pending with
        | nil => simp [qround, qstep, sstep, pstep, emit, SCfg.offer, QCfg.backlog, SCfg.backlog]
        | cons p ps =>
          cases hT : T p with
          | none =>
            right
            simp [qround, qstep, sstep, pstep, emit, SCfg.offer, QCfg.backlog, SCfg.backlog, hT]
          | some d =>
            simp only [qround, qstep, sstep, pstep, emit, SCfg.offer, Bool.false_eq_true, if_false, hT]
            rcases hacc : pullIdAccept i d with ⟨x, e⟩
            cases x <;> cases e <;> simp [QCfg.backlog, SCfg.backlog] <;> omega

def qrounds (T : Change ι μ → Option (Change ι μ)) (i : ι) : Nat → QCfg ι μ → QCfg ι μ
  | 0, c => c
  | n + 1, c => qrounds T i n (qround T i c)

theorem subRun_qdrain {i : ι} (s : Sub ι μ) (hw : s.watch = some i) (n : Nat) :
    (subRun s (qdrainMoves n)).q = qrounds s.tr i n s.q := by
  induction n generalizing s with
  | zero => rfl
  | succ n ih =>
    rcases s with ⟨w, T, q⟩
    simp only at hw
    subst hw
    simp only [qdrainMoves, subRun_cons]
    rw [ih _ (by rfl)]
    rfl

theorem qround_ended (T : Change ι μ → Option (Change ι μ)) (i : ι) (c : QCfg ι μ) (h : c.ended = true) : (qround T i c).ended = true :=
  qstep_ended_mono T i _ _ (qstep_ended_mono T i _ _ (qstep_ended_mono T i _ _ h))

theorem qrounds_ended (T : Change ι μ → Option (Change ι μ)) (i : ι) (n : Nat) (c : QCfg ι μ) (h : c.ended = true) : (qrounds T i n c).ended = true := by
  induction n generalizing c with
  | zero => exact h
  | succ n ih => exact ih _ (qround_ended T i c h)

theorem qrounds_drain (T : Change ι μ → Option (Change ι μ)) (i : ι) (n : Nat) (c : QCfg ι μ) (h : c.backlog ≤ n) :
    (qrounds T i n c).ended = true ∨ (qrounds T i n c).backlog = 0 := by
  induction n generalizing c with
  | zero => exact Or.inr (by simp only [qrounds]; omega)
  | succ n ih =>
    simp only [qrounds]
    cases he : c.ended with
    | true => exact Or.inl (qrounds_ended T i n _ (qround_ended T i c he))
    | false =>
      rcases qround_progress T i c he with h1 | h1
      · exact Or.inl (qrounds_ended T i n _ h1)
      · exact ih _ (by omega)

omit [DecidableEq ι] in
theorem qbacklog_zero {c : QCfg ι μ} (h : c.backlog = 0) :
    c.hand2 = none ∧ c.s.seeds = [] ∧ c.s.p.inHand = none ∧ c.s.p.st.pending = [] := by
  have h1 : c.s.backlog = 0 := by simp only [QCfg.backlog] at h; omega
  refine ⟨?_, backlog_zero h1⟩
  cases hh : c.hand2 with
  | none => rfl
  | some v => simp [QCfg.backlog, hh] at h

end ScVerif.C09
