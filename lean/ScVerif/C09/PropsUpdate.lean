import ScVerif.C09.UpdateKind
/-!
# C09 — property theorems, part 6: the event an overtaken `Collection.Update` announces

Model: `ScVerif/C09/UpdateKind.lean` — `Update`'s first read, its re-validation read under the write lock (all
branches as coded, with the provisional message and the `createdMeanwhile` flag), the comparison, `save` and the
kind decision.  The driver executes these definitions (op `ucommit`); the harness ties them to the real
`resource.Collection` with the rival writer placed in the call's own `InterceptBefore` callback (every pair of
"what the first read saw" / "what is stored at commit time" over absent, the empty message and two values, with
and without `WithCreateIfAbsent`).

Quantifiers: any id and message types, any provisional message, ANY store at the first read and ANY store at
commit time (whatever callbacks and other writers did in between).

Only property theorems and their non-vacuity examples live in this file.
-/
namespace ScVerif.C09

variable {ι μ : Type} [DecidableEq ι] [DecidableEq μ]

/-- Whatever happened between the two reads: an `Update` that goes through announces exactly the event of a
commit at the store AS IT IS AT COMMIT TIME — ADD without old value iff the item is absent then, otherwise UPDATE
from the value stored then — which is well formed at that store, applies to it as the save does, and is the event
the writers' model (`wstep`, whose publication-order theorems are C09_delete_published_in_commit_order) queues.
In particular an item a rival created meanwhile is never announced as a second ADD (which, merged with a
following REMOVE on the lossy path, would cancel and leave the subscriber with an item that is gone). -/
theorem C09_update_event_matches_commit_state (zero : μ) (s0 s : View ι μ) (r : UReq ι μ) (u : UCall ι μ)
    (hu : firstRead zero s0 r = some u) (s' : View ι μ) (ev : Change ι μ)
    (hc : commit zero s u = .ok s' ev) :
    ev = commitEvent s r.id r.msg ∧
    (ev.kind = .add ↔ s r.id = none) ∧ ev.old = s r.id ∧
    WFChange s ev ∧ apply ev s = s' ∧
    ∀ (pend pub : List (Nat × Change ι μ)) (n : Nat),
      wstep ⟨s, pend, pub, n⟩ (.update r.id r.msg) = ⟨s', pend ++ [(n, ev)], pub, n + 1⟩ := by
  obtain ⟨hev, hs'⟩ := commit_ok_event zero s0 s r u hu s' ev hc
  subst hev hs'
  refine ⟨rfl, ?_, rfl, commitEvent_wf s r.id r.msg, commitEvent_apply s r.id r.msg, ?_⟩
  · unfold commitEvent
    cases hs : s r.id <;> simp
  · intro pend pub n
    exact wstep_update_event ⟨s, pend, pub, n⟩ r.id r.msg

/-- No spurious failure: if the item is, at commit time, what the first read saw (nobody interfered, or
whoever did put it back), the call goes through; so Aborted means the item really changed in between. -/
theorem C09_update_aborts_only_when_overtaken (zero : μ) (s0 s : View ι μ) (r : UReq ι μ) (u : UCall ι μ)
    (hu : firstRead zero s0 r = some u) :
    (s r.id = s0 r.id → ∃ s' ev, commit zero s u = .ok s' ev) ∧
    (commit zero s u = .aborted → s r.id ≠ s0 r.id) := by
  refine ⟨commit_ok_of_unchanged zero s0 s r u hu, ?_⟩
  intro hab hsame
  obtain ⟨s', ev, hok⟩ := commit_ok_of_unchanged zero s0 s r u hu hsame
  rw [hok] at hab
  cases hab

/-- non-vacuity: the overtaken create that goes through (first read: absent; a rival stores the empty message;
the write commits) is an UPDATE from the empty message, not an ADD; the undisturbed create is an ADD; a rival that
stores something else makes the call abort -/
example :
    (firstRead "" (View.empty : View String String) ⟨"a", "v", true⟩).map
      (fun u => match commit "" ((View.empty : View String String).set "a" (some "")) u with
        | .ok _ ev => (ev.kind, ev.old) | .aborted => (.unspecified, none)) = some (.update, some "") := by
  decide
example :
    (firstRead "" (View.empty : View String String) ⟨"a", "v", true⟩).map
      (fun u => match commit "" (View.empty : View String String) u with
        | .ok _ ev => (ev.kind, ev.old) | .aborted => (.unspecified, none)) = some (.add, none) := by
  decide
example :
    (firstRead "" (View.empty : View String String) ⟨"a", "v", true⟩).map
      (fun u => match commit "" ((View.empty : View String String).set "a" (some "w")) u with
        | .ok _ _ => true | .aborted => false) = some false := by
  decide

end ScVerif.C09
