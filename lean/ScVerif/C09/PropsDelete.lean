import ScVerif.C09.DeleteRetry
import ScVerif.C09.Include
/-!
# C09 — property theorems, part 7: the REMOVE an overtaken `Collection.Delete` announces

Model: `ScVerif/C09/DeleteRetry.lean` — `Delete`'s optimistic read, its precondition checks on the body it holds,
the re-read under the write lock with the pointer comparison, the retry with what was just read (at most five
attempts), and the REMOVE built from the item held.  The driver executes these definitions (op `dcommit`); the
harness ties them to the real `resource.Collection` with the rival writers placed in the call's own
`WithExpectedCheck` callback (the code runs it in exactly that window, once per attempt).

Quantifiers: any id and message types, any precondition predicate, ANY item found by the optimistic read and ANY
`world` (what is stored when attempt 0, 1, 2, … takes the write lock: whatever callbacks and other writers did).

Only property theorems and their non-vacuity examples live in this file.
-/
namespace ScVerif.C09

variable {ι μ : Type} [DecidableEq ι] [DecidableEq μ]

/-- However often the call was overtaken: a `Delete` that goes through (at attempt `k`) removes, announces and
returns the body that is STORED WHEN IT COMMITS (`world k`) — not the one its optimistic read, or an earlier
attempt, saw; the preconditions were evaluated on that very body; it is the item the call held during that
attempt.  The REMOVE is well formed at any store holding that body for the id, applies to it as the removal does,
and is the event the writers' model (`wstep … (.delete i)`, C09_delete_published_in_commit_order) publishes — so
old values chain per id for every subscriber, and `CollectionChange.include` (C09_include_sim) decides "did the
subscriber have the item" from the value the subscriber was last told about. -/
theorem C09_delete_event_matches_commit_state (r : DReq ι μ) (first : Option (Slot μ))
    (world : Nat → Option (Slot μ)) (k : Nat) (ret : μ) (ev : Change ι μ)
    (h : deleteCall r first world = .removed k ret ev) :
    ∃ o, world k = some o ∧ heldAt first world k = some o ∧ k < 5 ∧
      ret = o.body ∧ ev.kind = .remove ∧ ev.old = some o.body ∧ ev.new = none ∧ ev.id = r.id ∧
      r.check o.body = true ∧
      ∀ (s : View ι μ), s r.id = some o.body →
        WFChange s ev ∧ apply ev s = s.set r.id none ∧
        ∀ (pend pub : List (Nat × Change ι μ)) (n : Nat),
          wstep ⟨s, pend, pub, n⟩ (.delete r.id) = ⟨s.set r.id none, pend, pub ++ [(n, ev)], n + 1⟩ := by
  obtain ⟨o, h1, h2, h3, h4, h5, h6, h7, h8⟩ := deleteLoop_removed r world 5 0 first k ret ev h
  subst h4 h5
  refine ⟨o, h1, ?_, by omega, rfl, rfl, rfl, rfl, rfl, h6, ?_⟩
  · cases k with
    | zero => exact h7 rfl
    | succ k => simpa [heldAt] using h8 (by omega)
  · intro s hs
    refine ⟨?_, ?_, ?_⟩
    · simp [WFChange, delEvent, hs]
    · simp [apply, delEvent]
    · intro pend pub n
      simp [wstep, hs, delEvent]

omit [DecidableEq ι] in
/-- No spurious failure: Unavailable means that at EVERY one of the five attempts the stored item was no longer
the one the call held (it was overtaken five times); and when nobody interferes with the first attempt the call
is decided by its optimistic read alone: NotFound / nil for an absent item, the precondition's verdict, or the
removal of that item. -/
theorem C09_delete_fails_only_when_overtaken (r : DReq ι μ) (first : Option (Slot μ))
    (world : Nat → Option (Slot μ)) :
    (deleteCall r first world = .unavailable → ∀ k, k < 5 → world k ≠ heldAt first world k) ∧
    (world 0 = first → deleteCall r first world = undisturbed r first) ∧
    (undisturbed r none = if r.allowMissing then .missingOk else .notFound) ∧
    (∀ o, undisturbed r (some o) =
      if r.check o.body then .removed 0 o.body (delEvent r.id o) else .failed o.body) := by
  refine ⟨fun h k hk => ?_, deleteCall_undisturbed r first world, rfl, fun _ => rfl⟩
  exact deleteLoop_unavailable r first world 5 0 (by simpa [heldAt, deleteCall] using h) k (Nat.zero_le _) (by omega)

/-- The same REMOVE as a subscriber with `WithInclude f` (any filter) gets it: `include` as coded, applied to the
event of a Delete that went through at a store holding the removed body, either forwards a change that is well
formed at the subscriber's FILTERED view and takes the item out of it, or drops the event — and then the item was
not in the filtered view to begin with.  (With a stale old value this fails: the filter would be asked about a
body the subscriber was never shown.) -/
theorem C09_delete_event_through_include (f : ι → μ → Bool) (r : DReq ι μ) (first : Option (Slot μ))
    (world : Nat → Option (Slot μ)) (k : Nat) (ret : μ) (ev : Change ι μ)
    (h : deleteCall r first world = .removed k ret ev)
    (s : View ι μ) (hs : ∀ o, world k = some o → s r.id = some o.body) :
    match includeChange f ev with
    | some c' => WFChange (restrict f s) c' ∧ apply c' (restrict f s) = restrict f (s.set r.id none) ∧
        restrict f s r.id = some ret
    | none => restrict f (s.set r.id none) = restrict f s ∧ restrict f s r.id = none := by
  obtain ⟨o, h1, _, _, h4, h5, _, _, _⟩ := deleteLoop_removed r world 5 0 first k ret ev h
  subst h4 h5
  have hso := hs o h1
  have hwf : WFChange s (delEvent r.id o) := by simp [WFChange, delEvent, hso]
  have happ : apply (delEvent r.id o) s = s.set r.id none := by simp [apply, delEvent]
  have hsim := Sim_include f s (delEvent r.id o) hwf
  rw [happ] at hsim
  by_cases hf : f r.id o.body
  · have hinc : includeChange f (delEvent r.id o) = some (delEvent r.id o) := by
      simp [includeChange, delEvent, incl, hf]
    rw [hinc] at hsim ⊢
    exact ⟨hsim.1, hsim.2, by simp [restrict, hso, hf]⟩
  · have hinc : includeChange f (delEvent r.id o) = none := by
      simp [includeChange, delEvent, incl, hf]
    rw [hinc] at hsim ⊢
    exact ⟨hsim, by simp [restrict, hso, hf]⟩
/-- non-vacuity for the filtered subscriber: the item moved INTO the filter while the Delete was overtaken (first
read "2", stored at commit "1", filter = odd): the REMOVE carries "1", is forwarded, and the subscriber's view
loses the item -/
example :
    (match deleteCall (ι := String) ⟨"a", false, fun _ => true⟩ (some ⟨0, "2"⟩) (fun _ => some ⟨1, "1"⟩) with
      | .removed _ _ ev => (includeChange (fun _ v => v = "1") ev).map (fun c => (c.kind, c.old))
      | _ => none) = some (.remove, some "1") := by decide

/-- non-vacuity: a Delete whose item is rewritten once between its read and its lock removes and announces the
NEW body at its second attempt; with an expected value equal to the OLD body the second attempt's check fails on
the new body; five rewrites in a row exhaust it -/
example :
    deleteCall (ι := String) ⟨"a", false, fun _ => true⟩ (some ⟨0, "x"⟩)
      (fun a => if a = 0 then some ⟨1, "y"⟩ else some ⟨1, "y"⟩) =
      .removed 1 "y" ⟨"a", .remove, 0, some "y", none, false, false⟩ := by decide
example :
    deleteCall (ι := String) ⟨"a", false, fun b => b = "x"⟩ (some ⟨0, "x"⟩)
      (fun _ => some ⟨1, "y"⟩) = .failed "y" := by decide
example :
    deleteCall (ι := String) ⟨"a", false, fun _ => true⟩ (some ⟨0, "x"⟩)
      (fun a => some ⟨a + 1, "x"⟩) = .unavailable := by decide

end ScVerif.C09
