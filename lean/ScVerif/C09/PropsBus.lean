import ScVerif.C09.BusLemmas
import ScVerif.C09.Writers
import ScVerif.C09.MixBus
/-!
# C09 — property theorems, part 4: several writers' `Bus.Send`s overlapping, cancelled listeners, `collect`

Model: `ScVerif/C09/Bus.lean` — `minibus.Bus` as coded: `Send` walks a PRIVATE copy of the listener list taken
when it started, skips listeners whose context is cancelled and collects them afterwards by building a fresh
list; any number of `Send`s are in progress at once (`Value.set` / `Collection.Update` send after releasing the
resource's lock), listeners are registered and cancelled at any moment.  The driver executes these
definitions (op `busrun`); the harness ties them to the real `minibus.Bus` with two and three overlapping
senders and cancelled-but-uncollected listeners.

Quantifier: EVERY interleaving of `listen`, `cancel k`, `send`, `visit e`, `finish e` (a sender blocked at a
listener with backpressure is a `visit` that has not been scheduled yet).

Only property theorems and their non-vacuity examples live in this file.
-/
namespace ScVerif.C09

/-- "With backpressure nothing is dropped" (and nothing is delivered twice) with any number of overlapping
senders: after EVERY schedule, (1) no listener has been handed the same event twice; (2) for every `Send`
that has returned, every listener that was registered when it started and whose subscription has not been
cancelled HAS been handed its event — whatever other sends were in progress, whatever was cancelled and
collected meanwhile; (3) for every `Send` still in progress, each such listener has either been handed the
event or is still ahead in the sender's snapshot, never both. -/
theorem C09_bus_exactly_once (ms : List BusMove) :
    let c := busRun BusCfg.init ms
    c.handed.Nodup ∧
    (∀ e L, (e, L) ∈ c.done → ∀ k, k < L → k ∉ c.cancelled → (k, e) ∈ c.handed) ∧
    (∀ s ∈ c.sends, ∀ k, k < s.startL → k ∉ c.cancelled →
        (k ∈ s.rest ∧ (k, s.ev) ∉ c.handed) ∨ (k ∉ s.rest ∧ (k, s.ev) ∈ c.handed)) := by
  intro c
  have h : BusInv c := BusInv_run BusInv_init ms
  refine ⟨h.handed_nodup, fun e L hd k hk hc => h.done (e, L) hd k hk hc, ?_⟩
  intro s hs k hk hc
  have hok := h.sends s hs
  rcases hok.cover k hk hc with h1 | h1
  · exact Or.inl ⟨h1, hok.fresh k h1⟩
  · exact Or.inr ⟨fun hin => hok.fresh k hin h1, h1⟩

/-- `collect` never loses a live subscription and `Listen` never registers one twice: after EVERY schedule
the bus's listener list has no duplicates and contains every listener ever registered whose context is not
cancelled — so the snapshot of the next `Send` contains it, exactly once. -/
theorem C09_bus_collect_keeps_live (ms : List BusMove) :
    let c := busRun BusCfg.init ms
    c.reg.Nodup ∧ (∀ k ∈ c.reg, k < c.nextL) ∧ (∀ k, k < c.nextL → k ∉ c.cancelled → k ∈ c.reg) := by
  intro c
  have h : BusInv c := BusInv_run BusInv_init ms
  exact ⟨h.reg_nodup, h.reg_lt, h.reg_live⟩

/-- Progress of one sender, in ANY state: a listener whose context is not cancelled is handed the event and
the sender moves on; a cancelled one is skipped (nothing is handed, `needGc`); a sender past its last
listener returns, and `collect` (if needed) drops cancelled listeners only. -/
theorem C09_bus_send_progress (c : BusCfg) (s : BSend)
    (hs : c.sends.find? (fun t => t.ev == s.ev) = some s) :
    (∀ k r, s.rest = k :: r → k ∉ c.cancelled →
        (busStep c (.visit s.ev)).handed = c.handed ++ [(k, s.ev)] ∧
        (busStep c (.visit s.ev)).sends.find? (fun t => t.ev == s.ev) = some { s with rest := r }) ∧
    (∀ k r, s.rest = k :: r → k ∈ c.cancelled →
        (busStep c (.visit s.ev)).handed = c.handed ∧
        (busStep c (.visit s.ev)).sends.find? (fun t => t.ev == s.ev) = some { s with rest := r, gc := true }) ∧
    (s.rest = [] →
        (busStep c (.finish s.ev)).done = c.done ++ [(s.ev, s.startL)] ∧
        (busStep c (.finish s.ev)).sends.find? (fun t => t.ev == s.ev) = none ∧
        (∀ k, k ∈ c.reg → k ∉ c.cancelled → k ∈ (busStep c (.finish s.ev)).reg)) := by
  have hfind : ∀ s' : BSend, s'.ev = s.ev →
      (c.sends.map (fun t => if t.ev == s.ev then s' else t)).find? (fun t => t.ev == s.ev) = some s' := by
    intro s' hs'
    generalize c.sends = l at hs
    induction l with
    | nil => simp at hs
    | cons a l ih =>
      by_cases ha : (a.ev == s.ev) = true
      · have hs2 : (s'.ev == s.ev) = true := by simp [hs']
        simp only [List.map_cons, ha, if_true, List.find?_cons, hs2]
      · have ha' : (a.ev == s.ev) = false := by simpa using ha
        rw [List.find?_cons, ha'] at hs
        simp only [List.map_cons, ha', Bool.false_eq_true, if_false, List.find?_cons]
        exact ih hs
  refine ⟨?_, ?_, ?_⟩
  · intro k r hr hk
    have hk' : c.cancelled.contains k = false := by simpa using hk
    have hstep : busStep c (.visit s.ev) = { c with
        sends := c.sends.map (fun t => if t.ev == s.ev then s.visit c.cancelled else t)
        handed := if c.cancelled.contains k then c.handed else c.handed ++ [(k, s.ev)] } := by
      simp only [busStep, hs, hr]
    have hv : s.visit c.cancelled = { s with rest := r } := by
      simp only [BSend.visit, hr, hk', Bool.or_false]
    rw [hstep]
    refine ⟨by simp only [hk', Bool.false_eq_true, if_false], ?_⟩
    show (c.sends.map _).find? _ = _
    rw [hv]
    exact hfind _ rfl
  · intro k r hr hk
    have hk' : c.cancelled.contains k = true := by simpa using hk
    have hstep : busStep c (.visit s.ev) = { c with
        sends := c.sends.map (fun t => if t.ev == s.ev then s.visit c.cancelled else t)
        handed := if c.cancelled.contains k then c.handed else c.handed ++ [(k, s.ev)] } := by
      simp only [busStep, hs, hr]
    have hv : s.visit c.cancelled = { s with rest := r, gc := true } := by
      simp only [BSend.visit, hr, hk', Bool.or_true]
    rw [hstep]
    refine ⟨by simp only [hk', if_true], ?_⟩
    show (c.sends.map _).find? _ = _
    rw [hv]
    exact hfind _ rfl
  · intro hr
    have hstep : busStep c (.finish s.ev) = { c with
        sends := c.sends.filter (fun t => !(t.ev == s.ev))
        done := c.done ++ [(s.ev, s.startL)]
        reg := if s.gc then c.reg.filter (fun k => !c.cancelled.contains k) else c.reg } := by
      simp only [busStep, hs, hr]
    rw [hstep]
    refine ⟨rfl, ?_, ?_⟩
    · show (c.sends.filter _).find? _ = none
      rw [List.find?_eq_none]
      intro t ht
      have := (List.mem_filter.mp ht).2
      simpa using this
    · intro k hk hc
      show k ∈ (if s.gc then c.reg.filter (fun k => !c.cancelled.contains k) else c.reg)
      by_cases hg : s.gc = true
      · simp only [hg, if_true]
        exact List.mem_filter.mpr ⟨hk, by simpa using hc⟩
      · simp only [hg]
        exact hk


/-- `Collection.Delete` publishes its REMOVE while it still holds the collection's lock, so — with any number
of writers, every schedule of commits and of the (unordered) publications of `Update`/`Add` events — whatever
is COMMITTED after a delete is PUBLISHED after the delete's REMOVE: a re-add reaches every listener as
REMOVE then ADD (which the lossy merge turns into the REPLACE a reader that is behind needs:
`C09_merge_algebra`), never as ADD then REMOVE (which would cancel out and leave it with the old item). -/
theorem C09_delete_published_in_commit_order {ι μ : Type} [DecidableEq ι] (s0 : View ι μ)
    (ms : List (WMove ι μ)) :
    let c := wrun (WCfg.init s0) ms
    ∀ (i j : Nat) (x r : Nat × Change ι μ), c.published[i]? = some x → c.published[j]? = some r →
      r.2.kind = .remove → r.1 < x.1 → j < i := by
  intro c i j x r hi hj hr hlt
  have h : WInv c := WInv_run (WInv_init s0) ms
  apply Nat.lt_of_not_le
  intro hle
  rcases Nat.lt_or_eq_of_le hle with h1 | h1
  · have := h.ord i j x r hi hj hr h1
    omega
  · subst h1
    rw [hi] at hj
    cases hj
    omega


/-- Lossy and backpressured subscribers mixed on one bus with ANY NUMBER OF WRITERS whose sends overlap
(`MixBus.lean`: the bus of `C09_bus_exactly_once` composed with the subscriber pipelines of
`C09_mixed_subscribers`; a writer blocked at a backpressured subscriber whose forwarder still holds an event is a
`visit` that changes nothing).  After EVERY schedule, for any equivalence and response filter:
(1) the bus part of the state is a state of the bus model, so `C09_bus_exactly_once`,
`C09_bus_collect_keeps_live` hold of it; (2) every subscriber has been handed exactly what the bus's log says
it was handed, and keeps its own guarantee (`MSub.Ok`: a backpressured one has lost and reordered nothing, a
lossy one satisfies the Value-pipeline invariant on what it was handed); (3) "with backpressure nothing is
dropped": what a backpressured subscriber's consumer has received, followed by the event in its forwarder's
hand, is duplicate-free and contains the event of EVERY `Send` that has returned and had started after the
subscriber was registered, unless its subscription was cancelled — whatever the other writers, the lossy
subscribers and the cancelled ones did meanwhile. -/
theorem C09_mixed_several_writers (E : Option Nat → Nat → Bool) (F : Nat → Nat) (ms : List MBMove) :
    let c := mbRun E F MBCfg.init ms
    (∃ bms, c.bus = busRun BusCfg.init bms) ∧
    (∀ k s, c.subs[k]? = some s → s.handed = c.bus.handedTo k ∧ s.Ok E F) ∧
    (∀ k b, c.subs[k]? = some (.bp b) →
      b.delivered ++ b.inHand.toList = c.bus.handedTo k ∧
      (b.delivered ++ b.inHand.toList).Nodup ∧
      ∀ e L, (e, L) ∈ c.bus.done → k < L → k ∉ c.bus.cancelled → e ∈ b.delivered ++ b.inHand.toList) := by
  intro c
  have h : MBInv E F c := MBInv_run (MBInv_init E F) ms
  obtain ⟨bms, hb⟩ := h.sim
  have hbus : BusInv c.bus := hb ▸ BusInv_run BusInv_init bms
  refine ⟨⟨bms, hb⟩, ?_, ?_⟩
  · intro k s hk
    exact ⟨h.handed k s hk, h.ok s (List.mem_of_getElem? hk)⟩
  · intro k b hk
    have hh : b.accepted = c.bus.handedTo k := h.handed k _ hk
    have hok : b.delivered ++ b.inHand.toList = b.accepted := h.ok _ (List.mem_of_getElem? hk)
    refine ⟨hok.trans hh, ?_, ?_⟩
    · rw [hok, hh]
      exact nodup_handedTo c.bus k hbus.handed_nodup
    · intro e L hd hkL hc
      rw [hok, hh, mem_handedTo]
      exact hbus.done (e, L) hd k hkL hc

/-! ### non-vacuity -/

section examples

/-- four subscribers, the first one cancelled but not collected yet; two senders overlap (both wait at
listener 1); the first completes and collects while the second still stands at listener 1; the second then
goes on over ITS OWN snapshot: listeners 1, 2 and 3 each get event 0 and then event 1, once -/
example :
    (fun c : BusCfg => (c.handedTo 1, c.handedTo 2, c.handedTo 3, c.handedTo 0, c.reg, c.done.map (·.1)))
      (busRun BusCfg.init
        [.listen, .listen, .listen, .listen, .cancel 0, .send, .send,
         .visit 0, .visit 1,                         -- both skip the dead listener
         .visit 0, .visit 0, .visit 0, .finish 0,    -- sender 0: listeners 1, 2, 3, collect
         .visit 1, .visit 1, .visit 1, .finish 1])
      = ([0, 1], [0, 1], [0, 1], [], [1, 2, 3], [0, 1]) := by decide

/-- a listener registered while a send is in progress is not in that send's snapshot and is in the next -/
example :
    (fun c : BusCfg => (c.handedTo 0, c.handedTo 1))
      (busRun BusCfg.init
        [.listen, .send, .listen, .visit 0, .finish 0, .send, .visit 1, .visit 1, .finish 1])
      = ([0, 1], [1]) := by decide


private def st0 : View Nat Nat := fun i => if i = 0 then some 10 else none

/-- delete, then re-add: the bus gets REMOVE (commit 0) and then ADD (commit 1) -/
example :
    ((wrun (WCfg.init st0) [.delete 0, .update 0 11, .publish 0]).published.map (fun p => (p.1, p.2.kind)))
      = [(0, Kind.remove), (1, Kind.add)] := by decide

/-- the other direction is NOT ordered by the code (`Update` publishes after unlocking; C03's recorded
finding): an update committed BEFORE a delete can be published after the delete's REMOVE -/
example :
    ((wrun (WCfg.init st0) [.update 0 11, .delete 0, .publish 0]).published.map (fun p => (p.1, p.2.kind)))
      = [(1, Kind.remove), (0, Kind.update)] := by decide


private def never2 : Option Nat → Nat → Bool := fun _ _ => false

/-- a backpressured, a lossy and a backpressured subscriber; the first write (0) is held by every forwarder;
two more writers start: both wait at subscriber 0 (a `visit` there changes nothing); as the consumers receive,
the sends go on one listener at a time: both backpressured consumers end up with 0, 1, 2 -/
example :
    (fun c : MBCfg => (c.subs.map MSub.delivered, c.bus.done.map (·.1)))
      (mbRun never2 id MBCfg.init
        [.listenB, .listenL, .listenB, .send, .visit 0, .visit 0, .visit 0, .finish 0,
         .send, .send, .visit 1, .visit 2,                       -- blocked: nothing changes
         .loc 0 .deliver, .visit 1, .visit 1, .loc 2 .deliver, .visit 1, .finish 1,
         .loc 0 .deliver, .visit 2, .visit 2, .loc 2 .deliver, .visit 2, .finish 2,
         .loc 0 .deliver, .loc 2 .deliver, .loc 1 .take, .loc 1 .deliver])
      = ([[0, 1, 2], [2], [0, 1, 2]], [0, 1, 2]) := by decide

end examples

end ScVerif.C09
