import ScVerif.C09.MachineLemmas
import ScVerif.C09.SendTimeout
import ScVerif.C09.MapQueue
import ScVerif.C09.Pipeline
import ScVerif.C09.Include
/-!
# C09 — property theorems: lossy delivery preserves the folded view; slow readers never block writers

Property (fixed text): "Without backpressure, however slowly a subscriber receives, writes complete
without waiting for it, the subscriber eventually receives the most recent value or change, and the
events it does receive, folded in order, give the same view as the full sequence would (an add
followed by a remove cancels out, a remove followed by an add becomes a replace, old values chain per
id). With backpressure nothing is dropped while the subscriber keeps receiving and writers wait for
delivery; a Value write whose event cannot be delivered within its five-second send timeout returns
an error instead of hanging."

Model: `ScVerif/C09/Merge.lean` (`mergeChanges`, the `mergeCollectionExcess` machine `recv`/`emit`/`run`,
the `DropExcess` machine `drecv`/`demit`/`drun`), over arbitrary id and message types.
Spec: `View = ι → Option μ`, `apply`, `fold`, `WFHist` (`ScVerif/C09/Change.lean`).
Quantifiers: every theorem holds for all input streams (well-formed where stated) and all patterns
`ms : List Move` of "offer one input" / "take one output" — i.e. every producer/consumer interleaving.

The forwarder's transform (`Include.lean`): `(*CollectionChange).include` as coded (`includeChange f`) and the
filtered view it simulates (`restrict f`, `Sim`); `C09_pipeline_view` is stated for any transform with `Sim`.

Part 2 (`PropsSubs.lean`): subscribers on top of the pipeline — Collection.Pull's seed loop, PullID as a
fourth stage, several subscribers on one bus, Value.Pull's forwarder as coded with its response filter,
a backpressured subscriber, the seed list as coded, the "eventually" theorems.  Part 3 (`PropsMixed.lean`):
lossy and backpressured subscribers mixed on one bus, `Bus.Send` listener by listener.

Only property theorems and their non-vacuity examples live in this file.
-/
namespace ScVerif.C09

variable {ι μ : Type} [DecidableEq ι]

/-- Merge algebra, for ALL pairs of changes of one id and all views (no well-formedness needed):
a merged change has exactly the effect of the two in sequence; the only pair that yields nothing is
ADD;REMOVE, which cancels out when the ADD was from absent; REMOVE;ADD becomes a REPLACE carrying the
removed value as old and the added value as new. -/
theorem C09_merge_algebra (a b : Change ι μ) (s : View ι μ) (hid : a.id = b.id) :
    (∀ m, mergeChanges a b = some m → m.id = b.id ∧ apply m s = apply b (apply a s)) ∧
    (mergeChanges a b = none → a.kind = .add ∧ b.kind = .remove ∧
        (s a.id = none → apply b (apply a s) = s)) ∧
    (a.kind = .add → b.kind = .remove → mergeChanges a b = none) ∧
    (a.kind = .remove → b.kind = .add →
        ∃ m, mergeChanges a b = some m ∧ m.kind = .replace ∧ m.old = a.old ∧ m.new = b.new) := by
  refine ⟨?_, ?_, ?_, ?_⟩
  · intro m hm
    rcases merge_cases a b with ⟨m', hm', h1, h2, _⟩ | ⟨hn, _⟩
    · rw [hm] at hm'
      cases hm'
      refine ⟨h1, ?_⟩
      rw [apply_apply_same a b s hid, apply_eq_set, h1, h2]
    · rw [hm] at hn; cases hn
  · intro hn
    rcases merge_cases a b with ⟨m', hm', _⟩ | ⟨_, h1, h2⟩
    · rw [hn] at hm'; cases hm'
    · refine ⟨h1, h2, ?_⟩
      intro hs
      rw [apply_apply_same a b s hid, Change.val, if_pos h2, ← hid, ← hs]
      exact set_self s a.id
  · intro ha hb
    rcases a with ⟨ai, ak, at_, ao, an, as_, al⟩
    rcases b with ⟨bi, bk, bt, bo, bn, bs, bl⟩
    simp only at ha hb
    subst ha hb
    simp [mergeChanges]
  · intro ha hb
    rcases a with ⟨ai, ak, at_, ao, an, as_, al⟩
    rcases b with ⟨bi, bk, bt, bo, bn, bs, bl⟩
    simp only at ha hb
    subst ha hb
    simp [mergeChanges]

/-- Old values chain: merging two consecutive well-formed changes of one id gives a change that is
well formed where the first one was (its old value is the value before the first), with the effect of
both; when nothing is produced the two cancel exactly. -/
theorem C09_merge_wf (s : View ι μ) (a b : Change ι μ) (hid : a.id = b.id)
    (ha : WFChange s a) (hb : WFChange (apply a s) b) :
    match mergeChanges a b with
    | some m => m.id = b.id ∧ WFChange s m ∧ apply m s = apply b (apply a s)
    | none => apply b (apply a s) = s :=
  merge_wf hid ha hb

/-- The cells of the kind table commented "not sure how this happens" (ADD;ADD, UPDATE;ADD, and
likewise REPLACE;ADD, x;UNSPECIFIED …) never arise from consecutive well-formed changes of one id:
only these eight kind pairs do. -/
theorem C09_reachable_cells (s : View ι μ) (a b : Change ι μ) (hid : a.id = b.id)
    (ha : WFChange s a) (hb : WFChange (apply a s) b) :
    (a.kind = .add ∨ a.kind = .update ∨ a.kind = .replace) ∧
        (b.kind = .update ∨ b.kind = .replace ∨ b.kind = .remove) ∨
    a.kind = .remove ∧ b.kind = .add := by
  rcases a with ⟨ai, ak, at_, ao, an, as_, al⟩
  rcases b with ⟨bi, bk, bt, bo, bn, bs, bl⟩
  simp only at hid
  subst hid
  cases ak <;> cases bk <;> simp [WFChange, apply] at ha hb ⊢ <;> simp_all

/-- View invariant: for every well-formed input stream and every recv/emit pattern, the events
emitted so far followed by the pending ones (FIFO order) fold to the same view as everything
received so far — and everything offered has been received. -/
theorem C09_view_invariant (s0 : View ι μ) (ms : List (Move (Change ι μ)))
    (hw : WFHist s0 (inputs ms)) :
    let c := run Cfg.init ms
    c.received = inputs ms ∧
    fold (c.emitted ++ c.st.pending) s0 = fold c.received s0 := by
  have h := Inv_run (s0 := s0) ms (Inv_init s0) (by simpa [Cfg.init] using hw)
  exact ⟨by simp [run_received, Cfg.init], h.view⟩

/-- Output well-formedness: the emitted stream (even continued by the pending changes) is itself a
well-formed history from the same view — old values chain per id, ADD only from absent. -/
theorem C09_out_wf (s0 : View ι μ) (ms : List (Move (Change ι μ))) (hw : WFHist s0 (inputs ms)) :
    let c := run Cfg.init ms
    WFHist s0 c.emitted ∧ WFHist s0 (c.emitted ++ c.st.pending) := by
  have h := Inv_run (s0 := s0) ms (Inv_init s0) (by simpa [Cfg.init] using hw)
  exact ⟨(WFHist_append.mp h.wf).1, h.wf⟩

/-- Eventually the most recent state: once the consumer has taken everything pending, the events it
received fold to the view of the full sequence. -/
theorem C09_drained_view (s0 : View ι μ) (ms : List (Move (Change ι μ))) (hw : WFHist s0 (inputs ms))
    (hd : (run Cfg.init ms).st.pending = []) :
    fold (run Cfg.init ms).emitted s0 = fold (inputs ms) s0 := by
  have h := C09_view_invariant s0 ms hw
  simp only [hd, List.append_nil] at h
  rw [h.2, h.1]

/-- Latest change per id (any input stream, any pattern): right after `e` is received, the newest
pending change is for `e`'s id and carries `e`'s new value, time and remove-ness, no other pending
change is for that id; or nothing is pending for that id and `e` was a REMOVE (an ADD met its REMOVE). -/
theorem C09_latest (ms : List (Move (Change ι μ))) (e : Change ι μ) :
    let P := (run Cfg.init (ms ++ [.recv e])).st.pending
    (∃ rest m, P = rest ++ [m] ∧ (∀ c ∈ rest, c.id ≠ e.id) ∧ m.id = e.id ∧ m.new = e.new ∧
        m.time = e.time ∧ (m.kind = .remove ↔ e.kind = .remove)) ∨
    ((∀ c ∈ P, c.id ≠ e.id) ∧ e.kind = .remove) := by
  have hb := run_bounded (Cfg.init : Cfg ι μ) ms (by simp [Cfg.init, MState.init, ids])
    (by simp [Cfg.init, MState.init, ids])
  rw [run_append, run_cons, run_nil]
  generalize run Cfg.init ms = c at hb
  rcases c with ⟨⟨P⟩, E, R⟩
  obtain ⟨rest, hne, _, _, h | h⟩ := recv_latest P e hb.1
  · obtain ⟨m, hp, h1, h2, h3, h4⟩ := h
    exact Or.inl ⟨rest, m, hp, hne, h1, h2, h3, h4⟩
  · refine Or.inr ⟨?_, h.2⟩
    simp only [step]
    rw [h.1]; exact hne

/-- Never blocking, bounded memory (ANY input stream, any pattern — in particular no emit at all):
every offered input is accepted in the state the machine is in (`recv` is offered in every state;
the run has received all of them), at most one change per id is pending, and only for received ids. -/
theorem C09_nonblocking (ms : List (Move (Change ι μ))) :
    let c := run Cfg.init ms
    c.received = inputs ms ∧ (ids c.st.pending).Nodup ∧ ∀ i ∈ ids c.st.pending, i ∈ ids (inputs ms) := by
  have hb := run_bounded (Cfg.init : Cfg ι μ) ms (by simp [Cfg.init, MState.init, ids])
    (by simp [Cfg.init, MState.init, ids])
  have hr : (run (Cfg.init : Cfg ι μ) ms).received = inputs ms := by simp [run_received, Cfg.init]
  exact ⟨hr, hb.1, by rw [← hr]; exact hb.2⟩

omit [DecidableEq ι] in
/-- `emit` is enabled exactly when something is pending. -/
theorem C09_emit_enabled (st : MState ι μ) : (emit st).isSome = !st.pending.isEmpty := by
  rcases st with ⟨P⟩
  cases P <;> simp [emit]

/-- DropExcess (any message type, any pattern): what the consumer has received followed by the slot
is a subsequence of what was sent, in order, and ends with the most recently sent message — so the
next receive yields the latest value; right after a send the slot holds exactly that message. -/
theorem C09_drop_latest {α : Type} (ms : List (Move α)) :
    let c := drun DCfg.init ms
    c.received = inputs ms ∧
    (c.emitted ++ c.st.toList).Sublist c.received ∧
    (c.emitted ++ c.st.toList).getLast? = c.received.getLast? ∧
    ∀ e, (drun DCfg.init (ms ++ [.recv e])).st = some e := by
  have h := DInv_run (DInv_init (α := α)) ms
  refine ⟨?_, h.sub, h.last, ?_⟩
  · simp [drun_received, DCfg.init]
  · intro e
    rw [drun_append, drun_cons, drun_nil]
    simp [dstep, drecv]

/-- Map + queue fidelity: the goroutine exactly as coded (`MapQueue.lean`: `messages` a map with
get/set/delete, `queue` a list of ids with PushBack / Front / Remove / remove-first-match, `event()`
reading `messages[front]` with a zero value for a missing key) gives, for EVERY recv/emit pattern, the
same answer to every emit as the single-list machine, and its pending changes in queue order are the
list machine's.  So every theorem about `run` is a theorem about the code's data structure; `zero` is
arbitrary because it is never read. -/
theorem C09_map_queue_refines (zero : Change ι μ) (ms : List (Move (Change ι μ))) :
    (crunOut zero CState.init ms).1 = (runOut MState.init ms).1 ∧
    (crunOut zero CState.init ms).2.abs = (runOut MState.init ms).2.pending ∧
    (run Cfg.init ms).emitted = (crunOut zero CState.init ms).1.filterMap id ∧
    (run Cfg.init ms).st.pending = (crunOut zero CState.init ms).2.abs := by
  have h := crunOut_refines zero (CState.init : CState ι μ) CInv_init ms
  have habs : (CState.init : CState ι μ).abs = [] := rfl
  rw [habs] at h
  have hs := runOut_spec (MState.init : MState ι μ) [] [] ms
  refine ⟨h.1, h.2.1, ?_, ?_⟩
  · rw [h.1]; simpa [Cfg.init, MState.init] using hs.2
  · rw [h.2.1]
    have := hs.1
    simp only [Cfg.init] at this ⊢
    rw [this]
    rfl

/-- The three-stage pipeline of a lossy `Collection.Pull` (machine ▸ forwarder holding at most one
event in hand ▸ consumer; `Pipeline.lean`) WITH the forwarder's transform: `T`/`R` are any transform and
view map with `Sim T R` (Include.lean) — the identity for a Pull without filter, and
`includeChange f` / `restrict f` for `WithInclude f`, i.e. the merge output piped through
`(*CollectionChange).include` as coded (both proved in `C09_include_sim`, PropsSubs.lean).  For every
well-formed input stream and EVERY interleaving of recv / take / deliver: everything offered was accepted;
what the consumer received, then the event in hand, then the pending changes as the transform will show
them fold to the mapped view of everything received; the DELIVERED stream is a well-formed history of the
mapped view (old values chain per id; an item moving out of the admitted set is a REMOVE, into it an ADD);
and once nothing is in hand or pending the delivered stream folds to the mapped view of everything
received — for every id the consumer holds its latest admitted value, and nothing the filter excludes. -/
theorem C09_pipeline_view (T : Change ι μ → Option (Change ι μ)) (R : View ι μ → View ι μ)
    (hsim : Sim T R) (s0 : View ι μ) (ms : List (PMove (Change ι μ)))
    (hw : WFHist s0 (pinputs ms)) :
    let c := prun T PCfg.init ms
    c.received = pinputs ms ∧
    fold (c.delivered ++ c.inHand.toList ++ c.st.pending.filterMap T) (R s0) = R (fold c.received s0) ∧
    WFHist (R s0) c.delivered ∧
    WFHist (R s0) (c.delivered ++ c.inHand.toList ++ c.st.pending.filterMap T) ∧
    (c.inHand = none → c.st.pending = [] →
        ∀ i, fold c.delivered (R s0) i = R (fold (pinputs ms) s0) i) := by
  have h := PInv_run (T := T) (s0 := s0) ms (PInv_init T s0) (by simpa [PCfg.init] using hw)
  have hrec : (prun T (PCfg.init : PCfg ι μ) ms).received = pinputs ms := by
    simp [prun_received, PCfg.init]
  have hout := h.out
  have hview := h.inv.view
  have hwf := h.inv.wf
  simp only at hview hwf
  obtain ⟨hwf', hview'⟩ := filterMap_sim hsim hwf
  rw [hview, List.filterMap_append, ← hout] at hview'
  rw [List.filterMap_append, ← hout] at hwf'
  refine ⟨hrec, hview', ?_, hwf', ?_⟩
  · exact (WFHist_append.mp (WFHist_append.mp hwf').1).1
  · intro hh hp i
    rw [hh, hp] at hview'
    simp only [Option.toList_none, List.append_nil, List.filterMap_nil] at hview'
    rw [hview', hrec]

/-- The lossy `Value.Pull` pipeline (DropExcess slot ▸ forwarder with the `last`-value equivalence
▸ consumer), for ANY equivalence `E` (any function; `E last v` = "suppress v"), any seed, any message
type and EVERY interleaving of recv / take / deliver: what the consumer received (then the value in
hand, then the slot) is a subsequence of what was written, in order; no value is sent that `E` equates
with the one sent just before it (the seed included); and the most recent write is never lost: it is
in the slot, or it is the last value sent, or `E` equates the last value sent with it. -/
theorem C09_value_pipeline {α : Type} (E : Option α → α → Bool) (seed : Option α) (ms : List (PMove α)) :
    let c := vrun E (VCfg.init seed) ms
    (c.delivered ++ c.inHand.toList ++ c.slot.toList).Sublist c.received ∧
    (∀ pre a b post, seed.toList ++ c.delivered ++ c.inHand.toList = pre ++ a :: b :: post →
        E (some a) b = false) ∧
    (∀ r, c.received.getLast? = some r →
        c.slot = some r ∨ (c.slot = none ∧
          ((c.delivered ++ c.inHand.toList).getLast?.or seed = some r ∨
           E ((c.delivered ++ c.inHand.toList).getLast?.or seed) r = true))) := by
  have h := VInv_run (VInv_init E seed) ms
  refine ⟨h.sub, h.noDup, ?_⟩
  intro r hr
  have := h.fresh r hr
  rw [h.lastSent] at this
  exact this

/-- Send deadline of `Value.set` (model `ScVerif/C09/SendTimeout.lean`: `Bus.Send` over any list of
listeners, each `select` taking the earliest ready case): the send never hangs — it is over by the
deadline; if some listener's receiver never takes the event (backpressure, subscriber not receiving)
and is never cancelled, `Send` gives up exactly at the deadline and `set` returns an error; if every
receiver is ready at once (lossy listeners — `C09_nonblocking` — or subscribers that keep receiving)
the write completes at once without error. -/
theorem C09_send_timeout (dl : Nat) (ls : List Listener) (hdl : 0 < dl) :
    (busSend dl 0 ls).time ≤ dl ∧
    ((∃ l ∈ ls, l.readyAt = none ∧ l.cancelledAt = none) →
        busSend dl 0 ls = .deadlineExceeded dl ∧ setReturnsError dl ls = true) ∧
    ((∀ l ∈ ls, ∃ t, l.readyAt = some t ∧ t ≤ 0) →
        busSend dl 0 ls = .ok 0 ∧ setReturnsError dl ls = false) := by
  refine ⟨(busSend_time_le dl 0 ls (Nat.zero_le _)).1, ?_, ?_⟩
  · intro h
    have := busSend_never_ready dl 0 ls (Nat.zero_le _) h
    exact ⟨this, by simp [setReturnsError, this]⟩
  · intro h
    have := busSend_all_ready dl 0 ls hdl h
    exact ⟨this, by simp [setReturnsError, this]⟩

/-! ### non-vacuity -/

section examples
open Kind

private def cAdd : Change Nat Nat := ⟨1, .add, 1, none, some 10, false, false⟩
private def cUpd : Change Nat Nat := ⟨1, .update, 2, some 10, some 20, false, false⟩
private def cRem : Change Nat Nat := ⟨1, .remove, 3, some 20, none, false, false⟩
private def cAdd2 : Change Nat Nat := ⟨2, .add, 4, none, some 30, false, false⟩

/-- Well-formed histories exist (add, update, remove of one id interleaved with another id). -/
example : WFHist (View.empty : View Nat Nat) [cAdd, cAdd2, cUpd, cRem] := by
  simp [WFHist, WFChange, apply, View.set, View.empty, cAdd, cAdd2, cUpd, cRem]

/-- A run that merges: three inputs for id 1 arrive before the consumer takes anything; the ADD, the
UPDATE and the REMOVE cancel to nothing and only id 2's ADD is emitted. -/
example : (run (Cfg.init : Cfg Nat Nat) [.recv cAdd, .recv cAdd2, .recv cUpd, .recv cRem, .emit, .emit]).emitted
    = [cAdd2] := by decide

/-- The cells "not sure how this happens": what the code does there (outside well-formed streams). -/
example : mergeChanges cAdd cAdd = some cAdd := by decide
example : (mergeChanges cUpd cAdd).map (·.kind) = some Kind.replace := by decide

/-- a pipeline run in which the forwarder holds an event in hand while two more merge behind it -/
example :
    (fun c : PCfg Nat Nat => (c.delivered.map (·.time), c.inHand.map (·.time), c.st.pending.map (·.time)))
      (prun some PCfg.init
        [.recv cAdd, .take, .recv cUpd, .recv cRem, .recv cAdd2, .deliver, .take, .deliver, .take])
      = ([1, 3], some 4, []) := by
  decide

/-- the as-coded map+queue machine on a merging run -/
example : (crunOut cAdd (CState.init : CState Nat Nat)
      [.recv cAdd, .recv cAdd2, .recv cUpd, .recv cRem, .emit, .emit]).1 = [some cAdd2, none] := by decide

/-- the two hypotheses of `C09_send_timeout` are satisfiable: a never-receiving backpressured listener
after a lossy one times out at 5000; two ready listeners complete at once -/
example : busSend 5000 0 [⟨some 0, none⟩, ⟨none, none⟩] = .deadlineExceeded 5000 := by decide
example : busSend 5000 0 [⟨some 0, none⟩, ⟨some 0, some 7⟩] = .ok 0 := by decide

end examples

end ScVerif.C09
