import ScVerif.C09.Pipeline
import ScVerif.C09.Include
/-
C09 — the conversions the trait packages put between `Collection.Pull` and their subscriber
(pkg/trait/parentpb/model.go `PullChildren` + `childrenChangeToProto`, hailpb `PullHails` + `castChange`,
publicationpb `PullPublications`, vendingpb `PullConsumables` / `PullInventory`, electricpb `PullModes`,
metadatapb `PullAllMetadata` + `collectionChangeFromResource`, and the `ModelServer.PullXs` loops on top).

Each of them is a goroutine (or the handler's own loop) of the shape

    for change := range upstream { select { case <-ctx.Done(): return; case out <- conv(change): } }

i.e. a hand-over stage that holds at most one converted event, with a conversion that copies the change type and
attaches `OldValue` / `NewValue` whenever they are non-nil — WHATEVER the change type: the upstream is the merge
buffer's output, where a REMOVE followed by an ADD has become a REPLACE no writer ever announced.

* `castChange f`   the conversion as coded (`f` = the type assertion / re-wrapping of the message; any function)
* `mapView f`      the subscriber's view in the converted message type
* `astep`/`arun`   the hand-over stage over an upstream stream `up` (a list that only grows: a `take` beyond what
                   has been produced so far is a no-op, so every interleaving with the upstream's own moves is a
                   run of `arun` over the final `up`)
* `castByKind`     the by-kind variant ("ADD carries the new value, REMOVE the old one, UPDATE both") as a
                   counter-model: it is not faithful on REPLACE
-/
namespace ScVerif.C09

variable {ι μ ν : Type}

def castChange (f : μ → ν) (c : Change ι μ) : Change ι ν :=
  ⟨c.id, c.kind, c.time, c.old.map f, c.new.map f, c.seed, c.lastSeed⟩

def mapView (f : μ → ν) (s : View ι μ) : View ι ν := fun i => (s i).map f

/-- counter-model: values attached by kind of change, with no arm for REPLACE -/
def castByKind (f : μ → ν) (c : Change ι μ) : Change ι ν :=
  match c.kind with
  | .add => ⟨c.id, c.kind, c.time, none, c.new.map f, c.seed, c.lastSeed⟩
  | .remove => ⟨c.id, c.kind, c.time, c.old.map f, none, c.seed, c.lastSeed⟩
  | .update => ⟨c.id, c.kind, c.time, c.old.map f, c.new.map f, c.seed, c.lastSeed⟩
  | _ => ⟨c.id, c.kind, c.time, none, none, c.seed, c.lastSeed⟩

structure ACfg (ι ν : Type) where
  taken : Nat                       -- how many upstream events the stage has taken (ghost)
  inHand : Option (Change ι ν)      -- the converted event it is blocked handing over
  out : List (Change ι ν)           -- what its subscriber has received

inductive AMove where
  | take
  | deliver
deriving DecidableEq, Repr

def ACfg.init : ACfg ι ν := ⟨0, none, []⟩

def astep (conv : Change ι μ → Change ι ν) (up : List (Change ι μ)) (c : ACfg ι ν) : AMove → ACfg ι ν
  | .take =>
    match c.inHand, up[c.taken]? with
    | none, some e => ⟨c.taken + 1, some (conv e), c.out⟩
    | _, _ => c
  | .deliver =>
    match c.inHand with
    | some e => ⟨c.taken, none, c.out ++ [e]⟩
    | none => c

def arun (conv : Change ι μ → Change ι ν) (up : List (Change ι μ)) (c : ACfg ι ν) (ms : List AMove) : ACfg ι ν :=
  ms.foldl (astep conv up) c

/-- the stage neither loses, duplicates nor reorders: received ++ in hand = the converted prefix taken -/
def AInv (conv : Change ι μ → Change ι ν) (up : List (Change ι μ)) (c : ACfg ι ν) : Prop :=
  c.out ++ c.inHand.toList = (up.take c.taken).map conv ∧ c.taken ≤ up.length

theorem AInv_step (conv : Change ι μ → Change ι ν) (up : List (Change ι μ)) (c : ACfg ι ν)
    (h : AInv conv up c) (m : AMove) : AInv conv up (astep conv up c m) := by
  obtain ⟨h1, h2⟩ := h
  cases m with
  | take =>
    cases hh : c.inHand with
    | some e => simpa [astep, hh, AInv] using (⟨by simpa [hh] using h1, h2⟩ : _ ∧ _)
    | none =>
      cases hu : up[c.taken]? with
      | none => simpa [astep, hh, hu, AInv] using (⟨by simpa [hh] using h1, h2⟩ : _ ∧ _)
      | some e =>
        have hlt : c.taken < up.length := by
          rcases List.getElem?_eq_some_iff.mp hu with ⟨hlt, _⟩
          exact hlt
        have hget : up[c.taken] = e := by
          rcases List.getElem?_eq_some_iff.mp hu with ⟨_, hg⟩
          exact hg
        simp only [astep, hh, hu, AInv]
        refine ⟨?_, hlt⟩
        rw [hh] at h1
        simp only [Option.toList, List.append_nil] at h1
        rw [List.take_succ_eq_append_getElem hlt, List.map_append, ← h1, hget]
        simp
  | deliver =>
    cases hh : c.inHand with
    | none => simpa [astep, hh, AInv] using (⟨by simpa [hh] using h1, h2⟩ : _ ∧ _)
    | some e =>
      simp only [astep, hh, AInv]
      rw [hh] at h1
      exact ⟨by simpa using h1, h2⟩

theorem AInv_run (conv : Change ι μ → Change ι ν) (up : List (Change ι μ)) (ms : List AMove) :
    ∀ (c : ACfg ι ν), AInv conv up c → AInv conv up (arun conv up c ms) := by
  induction ms with
  | nil => intro c h; exact h
  | cons m ms ih => intro c h; exact ih _ (AInv_step conv up c h m)

theorem AInv_init (conv : Change ι μ → Change ι ν) (up : List (Change ι μ)) :
    AInv conv up (ACfg.init : ACfg ι ν) := by
  simp [AInv, ACfg.init]

variable [DecidableEq ι]

omit [DecidableEq ι] in
theorem castChange_wf (f : μ → ν) (s : View ι μ) (c : Change ι μ) (h : WFChange s c) :
    WFChange (mapView f s) (castChange f c) := by
  unfold WFChange at h ⊢
  cases hk : c.kind <;> simp only [castChange, hk, mapView] at h ⊢ <;>
    (obtain ⟨h1, h2, h3⟩ := h; simp [h1, h2, h3, Option.isSome_map])

theorem castChange_apply (f : μ → ν) (s : View ι μ) (c : Change ι μ) :
    apply (castChange f c) (mapView f s) = mapView f (apply c s) := by
  funext j
  by_cases hj : j = c.id
  · subst hj
    by_cases hk : c.kind = .remove <;> simp [apply, castChange, mapView, View.set, hk]
  · simp [apply, castChange, mapView, View.set, hj]

/-- a well-formed history converted event by event is a well-formed history of the converted view with the
converted effect -/
theorem map_cast (f : μ → ν) {s : View ι μ} {xs : List (Change ι μ)} (hw : WFHist s xs) :
    WFHist (mapView f s) (xs.map (castChange f)) ∧
    fold (xs.map (castChange f)) (mapView f s) = mapView f (fold xs s) := by
  induction xs generalizing s with
  | nil => exact ⟨trivial, rfl⟩
  | cons c cs ih =>
    obtain ⟨hc, hcs⟩ := hw
    have h2 := ih hcs
    simp only [List.map_cons, WFHist, fold_cons]
    rw [castChange_apply]
    exact ⟨⟨castChange_wf f s c hc, h2.1⟩, h2.2⟩

theorem WFHist_take {s : View ι μ} {xs : List (Change ι μ)} (hw : WFHist s xs) (k : Nat) :
    WFHist s (xs.take k) := by
  have : WFHist s (xs.take k ++ xs.drop k) := by rw [List.take_append_drop]; exact hw
  exact (WFHist_append.mp this).1

end ScVerif.C09
