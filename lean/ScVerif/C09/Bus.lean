/-
C09 — `minibus.Bus` with SEVERAL `Send`s in progress, cancelled listeners and `collect`
(internal/minibus/bus.go; `Value.set` and `Collection.Update` call `Bus.Send` after they have released the
resource's lock, so two writers' sends overlap as soon as the first has to wait for a subscriber with
backpressure).

As coded:

* `Send`    copies `b.listeners` under the read lock (a PRIVATE snapshot: `BSend.rest` is a value), then visits
            the snapshot in order: `listener.send` either hands the event to the listener's receiver, or — the
            listen context is cancelled — skips it and remembers `needGc`; after the last listener, `collect`
            if `needGc`, then `Send` returns.
* `collect` builds a FRESH slice of the listeners that are still alive and swaps it in: snapshots taken
            earlier are not touched.
* `Listen`  appends a new listener.

State: listeners are numbered in registration order, events by the order in which their `Send` started; the
log `handed` records every hand-over (listener, event) in the order they happen.  `startL` is a ghost field:
the number of listeners registered when the `Send` started.

Moves (any interleaving = any schedule of the writers' goroutines, the subscribers and cancellations; a
writer blocked in `listener.send` is a `visit` that is not scheduled yet):
`listen`, `cancel k`, `send`, `visit e` (the send of event `e` deals with the next listener of its snapshot),
`finish e` (it is past the last listener: `collect` if needed, return).
-/
namespace ScVerif.C09

structure BSend where
  ev : Nat
  rest : List Nat
  gc : Bool
  startL : Nat
deriving Repr, DecidableEq

structure BusCfg where
  reg : List Nat
  nextL : Nat
  cancelled : List Nat
  handed : List (Nat × Nat)
  sends : List BSend
  nextE : Nat
  done : List (Nat × Nat)
deriving Repr, DecidableEq

def BusCfg.init : BusCfg := ⟨[], 0, [], [], [], 0, []⟩

inductive BusMove where
  | listen
  | cancel (k : Nat)
  | send
  | visit (e : Nat)
  | finish (e : Nat)
deriving Repr, DecidableEq

/-- `listener.send` for the next listener of the snapshot -/
def BSend.visit (cancelled : List Nat) (s : BSend) : BSend :=
  match s.rest with
  | [] => s
  | k :: r => { s with rest := r, gc := s.gc || cancelled.contains k }

def busStep (c : BusCfg) : BusMove → BusCfg
  | .listen => { c with reg := c.reg ++ [c.nextL], nextL := c.nextL + 1 }
  | .cancel k => { c with cancelled := k :: c.cancelled }
  | .send =>
    { c with sends := c.sends ++ [⟨c.nextE, c.reg, false, c.nextL⟩], nextE := c.nextE + 1 }
  | .visit e =>
    match c.sends.find? (fun s => s.ev == e) with
    | none => c
    | some s =>
      match s.rest with
      | [] => c
      | k :: _ =>
        { c with
          sends := c.sends.map (fun t => if t.ev == e then s.visit c.cancelled else t)
          handed := if c.cancelled.contains k then c.handed else c.handed ++ [(k, e)] }
  | .finish e =>
    match c.sends.find? (fun s => s.ev == e) with
    | none => c
    | some s =>
      match s.rest with
      | _ :: _ => c
      | [] =>
        { c with
          sends := c.sends.filter (fun t => !(t.ev == e))
          done := c.done ++ [(e, s.startL)]
          reg := if s.gc then c.reg.filter (fun k => !c.cancelled.contains k) else c.reg }

def busRun (c : BusCfg) (ms : List BusMove) : BusCfg := ms.foldl busStep c

/-- the events listener `k` has been handed, in order -/
def BusCfg.handedTo (c : BusCfg) (k : Nat) : List Nat :=
  (c.handed.filter (fun p => p.1 == k)).map (·.2)

end ScVerif.C09
