import ScVerif.C09.MixedLemmas
/-!
# C09 — property theorems, part 3: lossy and backpressured subscribers mixed on one bus

Model: `ScVerif/C09/Mixed.lean` — `Bus.Send` visiting the listeners one by one in registration order
(`xstep … .advance`), lossy listeners (DropExcess slot ▸ forwarder ▸ consumer) and backpressured ones
(forwarder ranging over the listener's unbuffered channel) in any number and order, one writer at a time.
The driver executes these definitions (op `xrun`); the harness ties them to the real `Value` / `Collection`.

Quantifiers: any equivalence `E`, any response filter `F`, any message type, any list of subscribers in any
states, every interleaving of writes, `advance` and the subscribers' local moves.

Only property theorems and their non-vacuity examples live in this file.
-/
namespace ScVerif.C09

variable {α : Type}

/-- `Bus.Send`'s listener-by-listener progress: from ANY initial list of subscribers (lossy and
backpressured mixed, in any states), after EVERY interleaving of writes, `advance` and local moves, every
listener has been handed exactly what it had at the start, then every event whose `Send` has returned, then
— iff the send in progress has already passed it — the event being sent; listeners the send has not reached
yet have not been handed it (so a backpressured subscriber that stalls holds back the listeners registered
after it, and only those), and the send position never runs past the listeners. -/
theorem C09_mixed_listener_progress (E : Option α → α → Bool) (F : α → α) (subs0 : List (MSub α))
    (ms : List (XMove α)) :
    let c := xrun E F ⟨subs0, none, []⟩ ms
    c.subs.length = subs0.length ∧
    (∀ k s0, subs0[k]? = some s0 →
        ∃ s, c.subs[k]? = some s ∧ s.handed = s0.handed ++ c.done ++ c.partSent k) ∧
    (∀ e p, c.sending = some (e, p) → p ≤ c.subs.length) := by
  intro c
  have h : XInv (subs0.map MSub.handed) c := XInv_run E F (XInv_init subs0) ms
  have hk : ∀ k s0, subs0[k]? = some s0 →
      ∃ s, c.subs[k]? = some s ∧ s.handed = s0.handed ++ c.done ++ c.partSent k := by
    intro k s0 hk
    have := h.handed k
    rw [List.getElem?_map, hk] at this
    cases hs : c.subs[k]? with
    | none => rw [hs] at this; simp at this
    | some s =>
      rw [hs] at this
      exact ⟨s, rfl, by simpa using this⟩
  refine ⟨?_, hk, h.pos⟩
  -- same length: index k is present on one side iff on the other
  apply Nat.le_antisymm
  · apply Nat.le_of_not_lt
    intro hlt
    have := h.handed subs0.length
    rw [List.getElem?_map, List.getElem?_eq_none_iff.mpr (Nat.le_refl _),
      List.getElem?_eq_getElem hlt] at this
    simp at this
  · apply Nat.le_of_not_lt
    intro hlt
    obtain ⟨s, hs, _⟩ := hk c.subs.length subs0[c.subs.length] (List.getElem?_eq_getElem hlt)
    rw [List.getElem?_eq_none_iff.mpr (Nat.le_refl _)] at hs
    cases hs

/-- Writers wait for delivery to backpressured subscribers and for nothing else.  In ANY state with a send
in progress at listener `p`: (1) a lossy listener takes the event at once, whatever state its slot, its
forwarder and its consumer are in; (2) a backpressured listener takes it iff its forwarder holds nothing —
otherwise `advance` changes nothing (the writer keeps waiting), and once that subscriber's consumer has
received (`loc p deliver`) the send goes on; (3) past the last listener `Send` returns and the write is
complete; (4) if no backpressured listener from `p` on holds an undelivered event — in particular if all of
them are lossy, however stalled — the remaining `advance`s complete the send. -/
theorem C09_mixed_writers_wait_only_for_backpressure (E : Option α → α → Bool) (F : α → α)
    (c : MixCfg α) (e : α) (p : Nat) (hs : c.sending = some (e, p)) :
    (∀ v, c.subs[p]? = some (.lossy v) → (xstep E F c .advance).sending = some (e, p + 1)) ∧
    (∀ b, c.subs[p]? = some (.bp b) →
        (b.inHand = none → (xstep E F c .advance).sending = some (e, p + 1)) ∧
        (b.inHand ≠ none → xstep E F c .advance = c ∧
            (xstep E F (xstep E F c (.loc p .deliver)) .advance).sending = some (e, p + 1))) ∧
    (c.subs[p]? = none →
        (xstep E F c .advance).sending = none ∧ (xstep E F c .advance).done = c.done ++ [e]) ∧
    (p ≤ c.subs.length → (∀ k b, p ≤ k → c.subs[k]? = some (.bp b) → b.inHand = none) →
        (xrun E F c (advances (c.subs.length - p + 1))).sending = none ∧
        (xrun E F c (advances (c.subs.length - p + 1))).done = c.done ++ [e]) := by
  refine ⟨?_, ?_, ?_, ?_⟩
  · intro v hv
    simp [xstep, hs, hv, handTo]
  · intro b hb
    refine ⟨?_, ?_⟩
    · intro hh
      simp [xstep, hs, hb, handTo, hh]
    · intro hh
      cases hd : b.inHand with
      | none => exact absurd hd hh
      | some d =>
        refine ⟨by simp [xstep, hs, hb, handTo, hd], ?_⟩
        have h1 : (xstep E F c (.loc p .deliver)).subs[p]? = some (.bp (bstep b .deliver)) := by
          simp [xstep, modAt_getElem?, hb, locStep]
        have h2 : (xstep E F c (.loc p .deliver)).sending = some (e, p) := by simp [xstep, hs]
        have h3 : (bstep b .deliver).inHand = none := by simp [bstep, hd]
        generalize xstep E F c (.loc p .deliver) = c1 at h1 h2
        simp [xstep, h2, h1, handTo, h3]
  · intro hn
    simp [xstep, hs, hn]
  · intro hp hfree
    exact xrun_advances_done E F c e (c.subs.length - p) p hs (by omega) hfree

/-- Every subscriber of a mixed system keeps its own guarantee, whatever the others do (stall, receive,
make the writer wait): after every interleaving, a backpressured subscriber has lost and reordered nothing
— what its consumer received followed by the event in its forwarder's hand is exactly what the bus handed
it — and a lossy subscriber satisfies the Value-pipeline guarantees on what the bus handed it: received ▸ in
hand ▸ slot is a subsequence of it (as the filter shows it), no value `E` equates with the one sent before
it is sent, and once slot and hand are empty the last value its consumer received is the filtered most
recent value handed to it, or `E` equates the two. -/
theorem C09_mixed_subscribers (E : Option α → α → Bool) (F : α → α) (subs0 : List (MSub α))
    (h0 : ∀ s ∈ subs0, s.Ok E F) (ms : List (XMove α)) :
    let c := xrun E F ⟨subs0, none, []⟩ ms
    (∀ b, MSub.bp b ∈ c.subs → b.delivered ++ b.inHand.toList = b.accepted) ∧
    (∀ v, MSub.lossy v ∈ c.subs →
        (v.delivered ++ v.inHand.toList ++ (v.slot.map F).toList).Sublist (v.received.map F) ∧
        (v.slot = none → v.inHand = none → ∀ r, v.received.getLast? = some r →
            v.last = some (F r) ∨ E v.last (F r) = true)) := by
  intro c
  have h := xrun_Ok E F (c := ⟨subs0, none, []⟩) h0 ms
  refine ⟨fun b hb => h _ hb, ?_⟩
  intro v hv
  have hv' : VInv E none (v.mapF F) := h _ hv
  refine ⟨by simpa [VCfg.mapF] using hv'.sub, ?_⟩
  intro hs hh r hr
  have hr' : ((v.mapF F).received).getLast? = some (F r) := by
    simp only [VCfg.mapF, List.getLast?_map, hr]; rfl
  rcases hv'.fresh (F r) hr' with h1 | ⟨_, h1⟩
  · simp [VCfg.mapF, hs] at h1
  · simpa [VCfg.mapF] using h1

/-! ### non-vacuity -/

section examples

private def never : Option Nat → Nat → Bool := fun _ _ => false
private def fresh : List (MSub Nat) := [.lossy (VCfg.subscribed id none), .bp BCfg.init, .lossy (VCfg.subscribed id none)]

/-- lossy, backpressured, lossy: the first write goes through; the second is handed to the first lossy
listener and then waits at the backpressured one (its forwarder still holds 1), the lossy listener behind it
has not been handed 2; once the backpressured consumer receives, the send completes -/
example :
    (fun c : MixCfg Nat => (c.subs.map MSub.handed, c.sending, c.done))
      (xrun never id ⟨fresh, none, []⟩
        [.write 1, .advance, .advance, .advance, .advance, .write 2, .advance, .advance, .advance])
      = ([[1, 2], [1], [1]], some (2, 1), [1]) := by decide

example :
    (fun c : MixCfg Nat => (c.subs.map MSub.handed, c.sending, c.done))
      (xrun never id ⟨fresh, none, []⟩
        [.write 1, .advance, .advance, .advance, .advance, .write 2, .advance, .advance,
         .loc 1 .deliver, .advance, .advance, .advance])
      = ([[1, 2], [1, 2], [1, 2]], none, [1, 2]) := by decide

/-- the initial states of the examples satisfy the hypothesis of `C09_mixed_subscribers` -/
example : ∀ s ∈ fresh, s.Ok never id := by
  intro s hs
  simp only [fresh, List.mem_cons, List.mem_nil_iff, or_false] at hs
  rcases hs with rfl | rfl | rfl
  · exact VInv_subscribed never id none
  · rfl
  · exact VInv_subscribed never id none

end examples

end ScVerif.C09
