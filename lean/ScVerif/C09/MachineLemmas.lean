import ScVerif.C09.MergeLemmas
/-! The invariant of the `mergeCollectionExcess` machine and of `DropExcess` (helpers). -/
namespace ScVerif.C09

variable {ι μ : Type} [DecidableEq ι]

/-- `recv` without the (redundant) empty-queue special case. -/
theorem recv_pending (P : List (Change ι μ)) (e : Change ι μ) :
    (recv ⟨P⟩ e).pending =
      match extract e.id P with
      | some (a, rest) => (match mergeChanges a e with | some m => rest ++ [m] | none => rest)
      | none => P ++ [e] := by
  cases P with
  | nil => simp [recv, extract]
  | cons c cs =>
    simp only [recv]
    cases extract e.id (c :: cs) with
    | none => rfl
    | some p =>
      obtain ⟨a, rest⟩ := p
      simp only
      cases mergeChanges a e <;> rfl

/-- The inputs offered by a list of moves. -/
def inputs {α : Type} : List (Move α) → List α
  | [] => []
  | .recv e :: ms => e :: inputs ms
  | .emit :: ms => inputs ms

/-- Invariant of a run from view `s0`: what was emitted followed by what is pending is a well-formed
history with the same fold as everything received, and at most one change per id is pending. -/
structure Inv (s0 : View ι μ) (c : Cfg ι μ) : Prop where
  wf : WFHist s0 (c.emitted ++ c.st.pending)
  view : fold (c.emitted ++ c.st.pending) s0 = fold c.received s0
  nodup : (ids c.st.pending).Nodup

theorem Inv_init (s0 : View ι μ) : Inv s0 (Cfg.init : Cfg ι μ) :=
  ⟨by simp [Cfg.init, MState.init, WFHist], by simp [Cfg.init, MState.init], by simp [Cfg.init, MState.init, ids]⟩

theorem Inv_emit {s0 : View ι μ} {c : Cfg ι μ} (h : Inv s0 c) : Inv s0 (step c .emit) := by
  obtain ⟨hwf, hview, hnd⟩ := h
  rcases c with ⟨⟨P⟩, E, R⟩
  cases P with
  | nil => exact ⟨hwf, hview, hnd⟩
  | cons p ps =>
    simp only [step, emit]
    refine ⟨?_, ?_, ?_⟩
    · simpa using hwf
    · simpa using hview
    · simp only [ids, List.map_cons, List.nodup_cons] at hnd
      exact hnd.2

theorem Inv_recv {s0 : View ι μ} {c : Cfg ι μ} {e : Change ι μ} (h : Inv s0 c)
    (he : WFChange (fold c.received s0) e) : Inv s0 (step c (.recv e)) := by
  obtain ⟨hwf, hview, hnd⟩ := h
  rcases c with ⟨⟨P⟩, E, R⟩
  simp only at hwf hview hnd he
  have heP : WFChange (fold (E ++ P) s0) e := by rw [hview]; exact he
  have hR : fold (R ++ [e]) s0 = apply e (fold (E ++ P) s0) := by rw [fold_snoc, hview]
  simp only [step]
  have hp := recv_pending P e
  cases hx : extract e.id P with
  | none =>
    rw [hx] at hp
    have hne := extract_none hx
    refine ⟨?_, ?_, ?_⟩
    · simp only [hp, ← List.append_assoc]
      exact WFHist_snoc.mpr ⟨hwf, heP⟩
    · simp only [hp, ← List.append_assoc]
      rw [fold_snoc, hR]
    · simp only [hp, ids_append, List.nodup_append]
      refine ⟨hnd, by simp [ids], ?_⟩
      intro a ha b hb
      simp only [ids, List.map_cons, List.map_nil, List.mem_singleton] at hb
      subst hb
      simp only [ids, List.mem_map] at ha
      obtain ⟨c, hc, rfl⟩ := ha
      exact hne c hc
  | some p =>
    obtain ⟨a, rest⟩ := p
    rw [hx] at hp
    obtain ⟨pre, post, hP, hrest, haid, hpre⟩ := extract_some hx
    subst hP
    -- consequences of "one change per id"
    have hnd' : (ids pre ++ a.id :: ids post).Nodup := by simpa [ids] using hnd
    rw [List.nodup_append] at hnd'
    obtain ⟨hndpre, hndapost, hcross⟩ := hnd'
    rw [List.nodup_cons] at hndapost
    obtain ⟨hapost, hndpost⟩ := hndapost
    have hpost : ∀ c ∈ post, c.id ≠ a.id := by
      intro c hc hca
      exact hapost (by rw [← hca]; exact List.mem_map_of_mem hc)
    have hprepost : (ids (pre ++ post)).Nodup := by
      rw [ids_append, List.nodup_append]
      refine ⟨hndpre, hndpost, ?_⟩
      intro x hx y hy
      exact hcross x hx y (List.mem_cons_of_mem _ hy)
    have hnotin : ∀ c ∈ pre ++ post, c.id ≠ e.id := by
      intro c hc
      rcases List.mem_append.mp hc with hc | hc
      · exact hpre c hc
      · rw [← haid]; exact hpost c hc
    -- split the histories at the window
    have hsplit : E ++ (pre ++ a :: post) = (E ++ pre) ++ (a :: post) := by simp
    rw [hsplit, WFHist_append] at hwf
    obtain ⟨hEpre, hw1⟩ := hwf
    rw [hsplit, fold_append] at heP
    have hwin := merge_window haid hpost hw1 heP
    have hfoldP : fold (E ++ (pre ++ a :: post)) s0 = fold (a :: post) (fold (E ++ pre) s0) := by
      rw [hsplit, fold_append]
    cases hm : mergeChanges a e with
    | some m =>
      rw [hm] at hwin
      simp only [hm] at hwin hp
      obtain ⟨hmid, hwm, hfm⟩ := hwin
      have hre : E ++ (rest ++ [m]) = (E ++ pre) ++ (post ++ [m]) := by simp [hrest]
      refine ⟨?_, ?_, ?_⟩
      · simp only [hp]; rw [hre]; exact WFHist_append.mpr ⟨hEpre, hwm⟩
      · simp only [hp]; rw [hre, fold_append, hfm, hR, hfoldP]
      · simp only [hp, hrest]
        rw [ids_append, List.nodup_append]
        refine ⟨hprepost, by simp [ids], ?_⟩
        intro x hx y hy
        simp only [ids, List.map_cons, List.map_nil, List.mem_singleton] at hy
        subst hy
        simp only [ids, List.mem_map] at hx
        obtain ⟨c, hc, rfl⟩ := hx
        rw [hmid]; exact hnotin c hc
    | none =>
      rw [hm] at hwin
      simp only [hm] at hwin hp
      obtain ⟨hwpost, hfpost⟩ := hwin
      have hre : E ++ rest = (E ++ pre) ++ post := by simp [hrest]
      refine ⟨?_, ?_, ?_⟩
      · simp only [hp]; rw [hre]; exact WFHist_append.mpr ⟨hEpre, hwpost⟩
      · simp only [hp]; rw [hre, fold_append, hfpost, hR, hfoldP]
      · simp only [hp, hrest]; exact hprepost

theorem run_nil (c : Cfg ι μ) : run c [] = c := rfl
theorem run_cons (c : Cfg ι μ) (m : Move (Change ι μ)) (ms : List (Move (Change ι μ))) :
    run c (m :: ms) = run (step c m) ms := rfl

theorem run_append (c : Cfg ι μ) (xs ys : List (Move (Change ι μ))) :
    run c (xs ++ ys) = run (run c xs) ys := by
  simp [run, List.foldl_append]

theorem step_received (c : Cfg ι μ) (m : Move (Change ι μ)) :
    (step c m).received = c.received ++ inputs [m] := by
  cases m with
  | recv e => simp [step, inputs]
  | emit =>
    simp only [step, inputs]
    cases emit c.st with
    | none => simp
    | some p => simp

theorem run_received (c : Cfg ι μ) (ms : List (Move (Change ι μ))) :
    (run c ms).received = c.received ++ inputs ms := by
  induction ms generalizing c with
  | nil => simp [run_nil, inputs]
  | cons m ms ih =>
    rw [run_cons, ih, step_received]
    cases m <;> simp [inputs]

theorem Inv_run {s0 : View ι μ} {c : Cfg ι μ} (ms : List (Move (Change ι μ))) (h : Inv s0 c)
    (hw : WFHist (fold c.received s0) (inputs ms)) : Inv s0 (run c ms) := by
  induction ms generalizing c with
  | nil => exact h
  | cons m ms ih =>
    rw [run_cons]
    cases m with
    | recv e =>
      simp only [inputs, WFHist] at hw
      refine ih (Inv_recv h hw.1) ?_
      simp only [step, fold_snoc]
      exact hw.2
    | emit =>
      refine ih (Inv_emit h) ?_
      rw [step_received]
      simpa [inputs] using hw

/-! ### what `recv` leaves pending for the received id (no well-formedness needed) -/

theorem recv_latest (P : List (Change ι μ)) (e : Change ι μ) (hnd : (ids P).Nodup) :
    ∃ rest, (∀ c ∈ rest, c.id ≠ e.id) ∧ (ids rest).Nodup ∧ (∀ c ∈ rest, c ∈ P) ∧
      ((∃ m, (recv ⟨P⟩ e).pending = rest ++ [m] ∧ m.id = e.id ∧ m.new = e.new ∧ m.time = e.time ∧
            (m.kind = .remove ↔ e.kind = .remove)) ∨
       ((recv ⟨P⟩ e).pending = rest ∧ e.kind = .remove)) := by
  have hp := recv_pending P e
  cases hx : extract e.id P with
  | none =>
    rw [hx] at hp
    exact ⟨P, extract_none hx, hnd, fun c hc => hc, Or.inl ⟨e, hp, rfl, rfl, rfl, Iff.rfl⟩⟩
  | some p =>
    obtain ⟨a, rest⟩ := p
    rw [hx] at hp
    obtain ⟨pre, post, hP, hrest, haid, hpre⟩ := extract_some hx
    subst hP
    have hnd' : (ids pre ++ a.id :: ids post).Nodup := by simpa [ids] using hnd
    rw [List.nodup_append] at hnd'
    obtain ⟨hndpre, hndapost, hcross⟩ := hnd'
    rw [List.nodup_cons] at hndapost
    obtain ⟨hapost, hndpost⟩ := hndapost
    have hpost : ∀ c ∈ post, c.id ≠ e.id := by
      intro c hc hca
      exact hapost (by rw [haid, ← hca]; exact List.mem_map_of_mem hc)
    refine ⟨rest, ?_, ?_, ?_, ?_⟩
    · intro c hc
      rw [hrest] at hc
      rcases List.mem_append.mp hc with hc | hc
      · exact hpre c hc
      · exact hpost c hc
    · rw [hrest, ids_append, List.nodup_append]
      exact ⟨hndpre, hndpost, fun x hx y hy => hcross x hx y (List.mem_cons_of_mem _ hy)⟩
    · intro c hc
      rw [hrest] at hc
      rcases List.mem_append.mp hc with hc | hc
      · exact List.mem_append_left _ hc
      · exact List.mem_append_right _ (List.mem_cons_of_mem _ hc)
    · rcases merge_cases a e with ⟨m, hm, h1, _, h3, h4, h5⟩ | ⟨hm, _, h2⟩
      · simp only [hm] at hp
        exact Or.inl ⟨m, hp, h1, h3, h4, h5⟩
      · simp only [hm] at hp
        exact Or.inr ⟨hp, h2⟩

theorem recv_nodup (P : List (Change ι μ)) (e : Change ι μ) (hnd : (ids P).Nodup) :
    (ids (recv ⟨P⟩ e).pending).Nodup := by
  obtain ⟨rest, hne, hnd', _, h | h⟩ := recv_latest P e hnd
  · obtain ⟨m, hp, hid, _⟩ := h
    rw [hp, ids_append, List.nodup_append]
    refine ⟨hnd', by simp [ids], ?_⟩
    intro x hx y hy
    simp only [ids, List.map_cons, List.map_nil, List.mem_singleton] at hy
    subst hy
    simp only [ids, List.mem_map] at hx
    obtain ⟨c, hc, rfl⟩ := hx
    rw [hid]; exact hne c hc
  · rw [h.1]; exact hnd'

theorem recv_ids_subset (P : List (Change ι μ)) (e : Change ι μ) (hnd : (ids P).Nodup) :
    ∀ i ∈ ids (recv ⟨P⟩ e).pending, i ∈ ids P ∨ i = e.id := by
  obtain ⟨rest, _, _, hsub, h | h⟩ := recv_latest P e hnd
  · obtain ⟨m, hp, hid, _⟩ := h
    intro i hi
    rw [hp, ids_append] at hi
    rcases List.mem_append.mp hi with hi | hi
    · simp only [ids, List.mem_map] at hi ⊢
      obtain ⟨c, hc, rfl⟩ := hi
      exact Or.inl ⟨c, hsub c hc, rfl⟩
    · simp only [ids, List.map_cons, List.map_nil, List.mem_singleton] at hi
      exact Or.inr (hi.trans hid)
  · intro i hi
    rw [h.1] at hi
    simp only [ids, List.mem_map] at hi ⊢
    obtain ⟨c, hc, rfl⟩ := hi
    exact Or.inl ⟨c, hsub c hc, rfl⟩

/-- One change per id is pending, and only for ids that were received — for ANY input stream. -/
theorem run_bounded (c : Cfg ι μ) (ms : List (Move (Change ι μ))) (hnd : (ids c.st.pending).Nodup)
    (hsub : ∀ i ∈ ids c.st.pending, i ∈ ids c.received) :
    (ids (run c ms).st.pending).Nodup ∧ ∀ i ∈ ids (run c ms).st.pending, i ∈ ids (run c ms).received := by
  induction ms generalizing c with
  | nil => exact ⟨hnd, hsub⟩
  | cons m ms ih =>
    rw [run_cons]
    rcases c with ⟨⟨P⟩, E, R⟩
    cases m with
    | recv e =>
      apply ih
      · exact recv_nodup P e hnd
      · intro i hi
        simp only [step, ids_append]
        rcases recv_ids_subset P e hnd i hi with h | h
        · exact List.mem_append_left _ (hsub i h)
        · exact List.mem_append_right _ (by simp [ids, h])
    | emit =>
      cases P with
      | nil => exact ih _ hnd hsub
      | cons p ps =>
        apply ih
        · simp only [step, emit]
          simp only [ids, List.map_cons, List.nodup_cons] at hnd
          exact hnd.2
        · intro i hi
          simp only [step, emit] at hi ⊢
          exact hsub i (by simp only [ids, List.map_cons]; exact List.mem_cons_of_mem _ hi)

/-! ### the driver's `runOut` is `run` -/

theorem runOut_spec (st : MState ι μ) (E R : List (Change ι μ)) (ms : List (Move (Change ι μ))) :
    (run ⟨st, E, R⟩ ms).st = (runOut st ms).2 ∧
    (run ⟨st, E, R⟩ ms).emitted = E ++ (runOut st ms).1.filterMap id := by
  induction ms generalizing st E R with
  | nil => simp [run_nil, runOut]
  | cons m ms ih =>
    rw [run_cons]
    cases m with
    | recv e => simpa [step, runOut] using ih (recv st e) E (R ++ [e])
    | emit =>
      simp only [step, runOut]
      cases hem : emit st with
      | none => simpa using ih st E R
      | some p =>
        obtain ⟨o, st'⟩ := p
        have := ih st' (E ++ [o]) R
        simpa using this

/-! ### DropExcess -/

theorem drun_nil {α : Type} (c : DCfg α) : drun c [] = c := rfl
theorem drun_cons {α : Type} (c : DCfg α) (m : Move α) (ms : List (Move α)) :
    drun c (m :: ms) = drun (dstep c m) ms := rfl
theorem drun_append {α : Type} (c : DCfg α) (xs ys : List (Move α)) :
    drun c (xs ++ ys) = drun (drun c xs) ys := by
  simp [drun, List.foldl_append]

/-- Invariant of DropExcess: what was emitted followed by the slot is a subsequence of what was
received, ending in the most recently received message. -/
structure DInv {α : Type} (c : DCfg α) : Prop where
  sub : (c.emitted ++ c.st.toList).Sublist c.received
  last : (c.emitted ++ c.st.toList).getLast? = c.received.getLast?

theorem DInv_init {α : Type} : DInv (DCfg.init : DCfg α) := ⟨by simp [DCfg.init], by simp [DCfg.init]⟩

theorem DInv_step {α : Type} {c : DCfg α} (h : DInv c) (m : Move α) : DInv (dstep c m) := by
  obtain ⟨hsub, hlast⟩ := h
  rcases c with ⟨st, E, R⟩
  cases m with
  | recv e =>
    simp only [dstep, drecv]
    refine ⟨?_, by simp⟩
    have hE : E.Sublist R := (List.sublist_append_left E st.toList).trans hsub
    exact List.Sublist.append hE (List.Sublist.refl [e])
  | emit =>
    cases st with
    | none => exact ⟨hsub, hlast⟩
    | some x =>
      simp only [dstep, demit]
      exact ⟨by simpa using hsub, by simpa using hlast⟩

theorem DInv_run {α : Type} {c : DCfg α} (h : DInv c) (ms : List (Move α)) : DInv (drun c ms) := by
  induction ms generalizing c with
  | nil => exact h
  | cons m ms ih => rw [drun_cons]; exact ih (DInv_step h m)

theorem drun_received {α : Type} (c : DCfg α) (ms : List (Move α)) :
    (drun c ms).received = c.received ++ inputs ms := by
  induction ms generalizing c with
  | nil => simp [drun_nil, inputs]
  | cons m ms ih =>
    rw [drun_cons, ih]
    cases m with
    | recv e => simp [dstep, inputs]
    | emit =>
      simp only [dstep, inputs]
      cases demit c.st <;> simp

end ScVerif.C09
