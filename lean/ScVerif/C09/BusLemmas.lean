import ScVerif.C09.Bus
/-! Invariant of the bus with several sends in progress (`Bus.lean`) and its preservation by every move. -/
namespace ScVerif.C09

/-- what holds of one `Send` in progress -/
structure SendOk (c : BusCfg) (s : BSend) : Prop where
  ev_lt : s.ev < c.nextE
  nodup : s.rest.Nodup
  fresh : ∀ k ∈ s.rest, (k, s.ev) ∉ c.handed
  cover : ∀ k, k < s.startL → k ∉ c.cancelled → k ∈ s.rest ∨ (k, s.ev) ∈ c.handed

structure BusInv (c : BusCfg) : Prop where
  reg_nodup : c.reg.Nodup
  reg_lt : ∀ k ∈ c.reg, k < c.nextL
  reg_live : ∀ k, k < c.nextL → k ∉ c.cancelled → k ∈ c.reg
  handed_nodup : c.handed.Nodup
  handed_lt : ∀ p ∈ c.handed, p.2 < c.nextE
  sends : ∀ s ∈ c.sends, SendOk c s
  done : ∀ p ∈ c.done, ∀ k, k < p.2 → k ∉ c.cancelled → (k, p.1) ∈ c.handed

theorem SendOk_mono {c c' : BusCfg} {s : BSend} (hE : c.nextE ≤ c'.nextE)
    (hH : ∀ k, (k, s.ev) ∈ c'.handed ↔ (k, s.ev) ∈ c.handed)
    (hC : ∀ k, k ∈ c.cancelled → k ∈ c'.cancelled) (h : SendOk c s) : SendOk c' s where
  ev_lt := Nat.lt_of_lt_of_le h.ev_lt hE
  nodup := h.nodup
  fresh := fun k hk hin => h.fresh k hk ((hH k).mp hin)
  cover := fun k hk hc => by
    rcases h.cover k hk (fun hx => hc (hC k hx)) with h1 | h1
    · exact Or.inl h1
    · exact Or.inr ((hH k).mpr h1)

theorem BusInv_init : BusInv BusCfg.init where
  reg_nodup := List.nodup_nil
  reg_lt := by intro k hk; cases hk
  reg_live := by intro k hk; cases hk
  handed_nodup := List.nodup_nil
  handed_lt := by intro p hp; cases hp
  sends := by intro s hs; cases hs
  done := by intro p hp; cases hp

theorem find_ev {l : List BSend} {e : Nat} {s : BSend}
    (h : l.find? (fun s => s.ev == e) = some s) : s ∈ l ∧ s.ev = e := by
  refine ⟨List.mem_of_find?_eq_some h, ?_⟩
  have := List.find?_some h
  simpa using this

theorem BusInv_listen {c : BusCfg} (h : BusInv c) : BusInv (busStep c .listen) where
  reg_nodup := by
    show (c.reg ++ [c.nextL]).Nodup
    rw [List.nodup_append]
    refine ⟨h.reg_nodup, (by simp), ?_⟩
    intro a ha b hb
    simp only [List.mem_singleton] at hb
    have := h.reg_lt a ha
    omega
  reg_lt := by
    intro k hk
    show k < c.nextL + 1
    have hk' : k ∈ c.reg ++ [c.nextL] := hk
    simp only [List.mem_append, List.mem_singleton] at hk'
    rcases hk' with h1 | h1
    · have := h.reg_lt k h1; omega
    · omega
  reg_live := by
    intro k hk hc
    show k ∈ c.reg ++ [c.nextL]
    have hk' : k < c.nextL + 1 := hk
    simp only [List.mem_append, List.mem_singleton]
    by_cases he : k = c.nextL
    · exact Or.inr he
    · exact Or.inl (h.reg_live k (by omega) hc)
  handed_nodup := h.handed_nodup
  handed_lt := h.handed_lt
  sends := fun s hs => SendOk_mono (c := c) (Nat.le_refl _) (fun _ => Iff.rfl) (fun _ hx => hx) (h.sends s hs)
  done := h.done

theorem BusInv_cancel {c : BusCfg} (h : BusInv c) (k0 : Nat) : BusInv (busStep c (.cancel k0)) where
  reg_nodup := h.reg_nodup
  reg_lt := h.reg_lt
  reg_live := by
    intro k hk hc
    exact h.reg_live k hk (fun hx => hc (List.mem_cons_of_mem _ hx))
  handed_nodup := h.handed_nodup
  handed_lt := h.handed_lt
  sends := fun s hs =>
    SendOk_mono (c := c) (Nat.le_refl _) (fun _ => Iff.rfl) (fun _ hx => List.mem_cons_of_mem _ hx) (h.sends s hs)
  done := by
    intro p hp k hk hc
    exact h.done p hp k hk (fun hx => hc (List.mem_cons_of_mem _ hx))

theorem BusInv_send {c : BusCfg} (h : BusInv c) : BusInv (busStep c .send) where
  reg_nodup := h.reg_nodup
  reg_lt := h.reg_lt
  reg_live := h.reg_live
  handed_nodup := h.handed_nodup
  handed_lt := by
    intro p hp
    show p.2 < c.nextE + 1
    have := h.handed_lt p hp
    omega
  sends := by
    intro s hs
    have hs' : s ∈ c.sends ++ [⟨c.nextE, c.reg, false, c.nextL⟩] := hs
    simp only [List.mem_append, List.mem_singleton] at hs'
    rcases hs' with h1 | h1
    · exact SendOk_mono (c := c) (c' := busStep c .send) (Nat.le_succ _) (fun _ => Iff.rfl) (fun _ hx => hx)
        (h.sends s h1)
    · subst h1
      refine ⟨Nat.lt_succ_self _, h.reg_nodup, ?_, ?_⟩
      · intro k _ hin
        have := h.handed_lt _ hin
        simp at this
      · intro k hk hc
        exact Or.inl (h.reg_live k hk hc)
  done := h.done

theorem BusInv_visit {c : BusCfg} (h : BusInv c) (e : Nat) : BusInv (busStep c (.visit e)) := by
  cases hf : c.sends.find? (fun s => s.ev == e) with
  | none =>
    have : busStep c (.visit e) = c := by simp only [busStep, hf]
    rw [this]; exact h
  | some s =>
    obtain ⟨hs, hev⟩ := find_ev hf
    have hok := h.sends s hs
    cases hr : s.rest with
    | nil =>
      have : busStep c (.visit e) = c := by simp only [busStep, hf, hr]
      rw [this]; exact h
    | cons k r =>
      have hstep : busStep c (.visit e) = { c with
          sends := c.sends.map (fun t => if t.ev == e then s.visit c.cancelled else t)
          handed := if c.cancelled.contains k then c.handed else c.handed ++ [(k, e)] } := by
        simp only [busStep, hf, hr]
      rw [hstep]
      have hnd : (k :: r).Nodup := hr ▸ hok.nodup
      have hkr : k ∉ r := (List.nodup_cons.mp hnd).1
      have hrn : r.Nodup := (List.nodup_cons.mp hnd).2
      have hvis : s.visit c.cancelled = { s with rest := r, gc := s.gc || c.cancelled.contains k } := by
        simp [BSend.visit, hr]
      by_cases hc : c.cancelled.contains k = true
      · -- the listener's context is cancelled: skipped, nothing handed
        have hcm : k ∈ c.cancelled := by simpa using hc
        simp only [hc, if_true]
        refine ⟨h.reg_nodup, h.reg_lt, h.reg_live, h.handed_nodup, h.handed_lt, ?_, h.done⟩
        intro t ht
        obtain ⟨t0, ht0, rfl⟩ := List.mem_map.mp ht
        by_cases hte : (t0.ev == e) = true
        · simp only [hte, if_true]
          rw [hvis]
          refine ⟨hok.ev_lt, hrn, ?_, ?_⟩
          · intro k' hk'
            exact hok.fresh k' (hr ▸ List.mem_cons_of_mem _ hk')
          · intro k' hk' hc'
            rcases hok.cover k' hk' hc' with h1 | h1
            · rw [hr] at h1
              rcases List.mem_cons.mp h1 with h2 | h2
              · exact absurd (h2 ▸ hcm) hc'
              · exact Or.inl h2
            · exact Or.inr h1
        · simp only [hte]
          exact SendOk_mono (c := c) (Nat.le_refl _) (fun _ => Iff.rfl) (fun _ hx => hx) (h.sends t0 ht0)
      · -- handed over
        have hc' : c.cancelled.contains k = false := by simpa using hc
        simp only [hc']
        have hfresh : (k, e) ∉ c.handed := hev ▸ hok.fresh k (hr ▸ List.mem_cons_self)
        refine ⟨h.reg_nodup, h.reg_lt, h.reg_live, ?_, ?_, ?_, ?_⟩
        · show (c.handed ++ [(k, e)]).Nodup
          rw [List.nodup_append]
          refine ⟨h.handed_nodup, (by simp), ?_⟩
          intro a ha b hb
          simp only [List.mem_singleton] at hb
          subst hb
          intro hab
          exact hfresh (hab ▸ ha)
        · intro p hp
          have hp' : p ∈ c.handed ++ [(k, e)] := hp
          simp only [List.mem_append, List.mem_singleton] at hp'
          rcases hp' with h1 | h1
          · exact h.handed_lt p h1
          · subst h1
            exact hev ▸ hok.ev_lt
        · intro t ht
          obtain ⟨t0, ht0, rfl⟩ := List.mem_map.mp ht
          by_cases hte : (t0.ev == e) = true
          · simp only [hte, if_true]
            rw [hvis]
            refine ⟨hok.ev_lt, hrn, ?_, ?_⟩
            · intro k' hk' hin
              have hin' : (k', s.ev) ∈ c.handed ++ [(k, e)] := hin
              simp only [List.mem_append, List.mem_singleton, Prod.mk.injEq] at hin'
              rcases hin' with h1 | ⟨h1, _⟩
              · exact hok.fresh k' (hr ▸ List.mem_cons_of_mem _ hk') h1
              · exact hkr (h1 ▸ hk')
            · intro k' hk' hcc
              show k' ∈ r ∨ (k', s.ev) ∈ c.handed ++ [(k, e)]
              rcases hok.cover k' hk' hcc with h1 | h1
              · rw [hr] at h1
                rcases List.mem_cons.mp h1 with h2 | h2
                · refine Or.inr ?_
                  simp [h2, hev]
                · exact Or.inl h2
              · exact Or.inr (List.mem_append_left _ h1)
          · simp only [hte]
            have hne : t0.ev ≠ e := by simpa using hte
            refine SendOk_mono (c := c) (Nat.le_refl _) ?_ (fun _ hx => hx) (h.sends t0 ht0)
            intro k'
            show (k', t0.ev) ∈ c.handed ++ [(k, e)] ↔ _
            simp only [List.mem_append, List.mem_singleton, Prod.mk.injEq]
            constructor
            · rintro (h1 | ⟨_, h1⟩)
              · exact h1
              · exact absurd h1 hne
            · exact Or.inl
        · intro p hp k' hk' hcc
          exact List.mem_append_left _ (h.done p hp k' hk' hcc)

theorem BusInv_finish {c : BusCfg} (h : BusInv c) (e : Nat) : BusInv (busStep c (.finish e)) := by
  cases hf : c.sends.find? (fun s => s.ev == e) with
  | none =>
    have : busStep c (.finish e) = c := by simp only [busStep, hf]
    rw [this]; exact h
  | some s =>
    obtain ⟨hs, hev⟩ := find_ev hf
    have hok := h.sends s hs
    cases hr : s.rest with
    | cons k r =>
      have : busStep c (.finish e) = c := by simp only [busStep, hf, hr]
      rw [this]; exact h
    | nil =>
      have hstep : busStep c (.finish e) = { c with
          sends := c.sends.filter (fun t => !(t.ev == e))
          done := c.done ++ [(e, s.startL)]
          reg := if s.gc then c.reg.filter (fun k => !c.cancelled.contains k) else c.reg } := by
        simp only [busStep, hf, hr]
      rw [hstep]
      refine ⟨?_, ?_, ?_, h.handed_nodup, h.handed_lt, ?_, ?_⟩
      · by_cases hg : s.gc = true
        · simp only [hg, if_true]
          exact h.reg_nodup.sublist List.filter_sublist
        · simp only [hg]
          exact h.reg_nodup
      · intro k hk
        by_cases hg : s.gc = true
        · simp only [hg, if_true] at hk
          exact h.reg_lt k (List.mem_filter.mp hk).1
        · simp only [hg] at hk
          exact h.reg_lt k hk
      · intro k hk hc
        have hin := h.reg_live k hk hc
        by_cases hg : s.gc = true
        · simp only [hg, if_true]
          refine List.mem_filter.mpr ⟨hin, ?_⟩
          simpa using hc
        · simp only [hg]
          exact hin
      · intro t ht
        have ht0 : t ∈ c.sends := (List.mem_filter.mp ht).1
        exact SendOk_mono (c := c) (Nat.le_refl _) (fun _ => Iff.rfl) (fun _ hx => hx) (h.sends t ht0)
      · intro p hp k hk hc
        have hp' : p ∈ c.done ++ [(e, s.startL)] := hp
        simp only [List.mem_append, List.mem_singleton] at hp'
        rcases hp' with h1 | h1
        · exact h.done p h1 k hk hc
        · subst h1
          rcases hok.cover k hk hc with h2 | h2
          · rw [hr] at h2; cases h2
          · exact hev ▸ h2

theorem BusInv_step {c : BusCfg} (h : BusInv c) (m : BusMove) : BusInv (busStep c m) := by
  cases m with
  | listen => exact BusInv_listen h
  | cancel k => exact BusInv_cancel h k
  | send => exact BusInv_send h
  | visit e => exact BusInv_visit h e
  | finish e => exact BusInv_finish h e

theorem BusInv_run {c : BusCfg} (h : BusInv c) (ms : List BusMove) : BusInv (busRun c ms) := by
  induction ms generalizing c with
  | nil => exact h
  | cons m ms ih => exact ih (BusInv_step h m)

end ScVerif.C09
