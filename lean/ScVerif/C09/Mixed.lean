import ScVerif.C09.Subs
/-
C09 — lossy and backpressured subscribers MIXED on one bus, and `Bus.Send`'s listener-by-listener progress
(internal/minibus/bus.go: `Send` visits the listeners in registration order and blocks in `listener.send`
until that listener's receiver takes the event).

* `MSub`      a listener: `lossy` — DropExcess slot ▸ `Value.Pull`'s forwarder ▸ consumer (`VCfg`, moves of
              `vstepF`; for a collection whose writes are updates of one item the merge machine holds exactly
              the latest new value, which is what the tie observes) — or `bp` — the forwarder ranges over the
              listener's unbuffered channel itself (`BCfg`, `bstep`).
* `MixCfg`    the listeners in registration order, the `Send` in progress (its event and the index of the
              listener it is at) and the events whose `Send` has returned.  ONE writer at a time (a second
              `write` while a send is in progress is not enabled: `Collection` holds its lock across `Send`,
              and the ties drive one writer).
* moves       `write e` (the commit is done, `Bus.Send` starts at listener 0), `advance` (`listener.send` of
              the listener the send is at: a lossy one takes the event at once, a backpressured one only while
              its forwarder holds nothing — otherwise the move changes nothing: the writer keeps waiting; past
              the last listener `Send` returns), `loc k m` (a local move of subscriber `k`: `take` / `deliver`).
-/
namespace ScVerif.C09

inductive MSub (α : Type) where
  | lossy (c : VCfg α)
  | bp (c : BCfg α)

/-- the events the bus has handed to this listener, in order -/
def MSub.handed {α : Type} : MSub α → List α
  | .lossy c => c.received
  | .bp c => c.accepted

/-- what the subscriber's consumer has received, in order -/
def MSub.delivered {α : Type} : MSub α → List α
  | .lossy c => c.delivered
  | .bp c => c.delivered

structure MixCfg (α : Type) where
  subs : List (MSub α)
  sending : Option (α × Nat)
  done : List α

inductive XMove (α : Type) where
  | write (e : α)
  | advance
  | loc (k : Nat) (m : LMove)

section
variable {α : Type} (E : Option α → α → Bool) (F : α → α)

/-- `listener.send`: `some` = the listener's receiver took the event, `none` = it is not ready (the select
stays blocked). -/
def handTo (s : MSub α) (e : α) : Option (MSub α) :=
  match s with
  | .lossy c => some (.lossy (vstepF E F c (.recv e)))      -- DropExcess is always at its receive
  | .bp c =>
    match c.inHand with
    | none => some (.bp (bstep c (.offer e)))                -- the forwarder is back at its receive
    | some _ => none                                         -- it still holds the previous event

def locStep (s : MSub α) : LMove → MSub α
  | .take => match s with | .lossy c => .lossy (vstepF E F c .take) | .bp c => .bp c
  | .hand => s
  | .deliver => match s with | .lossy c => .lossy (vstepF E F c .deliver) | .bp c => .bp (bstep c .deliver)

def xstep (c : MixCfg α) : XMove α → MixCfg α
  | .write e =>
    match c.sending with
    | none => { c with sending := some (e, 0) }
    | some _ => c
  | .advance =>
    match c.sending with
    | none => c
    | some (e, p) =>
      match c.subs[p]? with
      | none => { c with sending := none, done := c.done ++ [e] }      -- past the last listener: Send returns
      | some s =>
        match handTo E F s e with
        | some s' => { c with subs := modAt (fun _ => s') p c.subs, sending := some (e, p + 1) }
        | none => c
  | .loc k m => { c with subs := modAt (fun s => locStep E F s m) k c.subs }

def xrun (c : MixCfg α) (ms : List (XMove α)) : MixCfg α := ms.foldl (xstep E F) c

/-- what listener `k` has been handed of the send in progress -/
def MixCfg.partSent (c : MixCfg α) (k : Nat) : List α :=
  match c.sending with
  | some (e, p) => if k < p then [e] else []
  | none => []

/-- `n` consecutive `advance` moves -/
def advances (n : Nat) : List (XMove α) := List.replicate n .advance

end

end ScVerif.C09
