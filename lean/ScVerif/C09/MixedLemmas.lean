import ScVerif.C09.SubsLemmas
import ScVerif.C09.Mixed
/-! Lemmas about the mixed bus (helpers; the property theorems are in `PropsMixed.lean`). -/
namespace ScVerif.C09

variable {α : Type} (E : Option α → α → Bool) (F : α → α)

theorem xrun_nil (c : MixCfg α) : xrun E F c [] = c := rfl
theorem xrun_cons (c : MixCfg α) (m : XMove α) (ms : List (XMove α)) :
    xrun E F c (m :: ms) = xrun E F (xstep E F c m) ms := rfl

/-! ### what a listener has been handed -/

theorem locStep_handed (s : MSub α) (m : LMove) : (locStep E F s m).handed = s.handed := by
  cases s with
  | lossy c =>
    cases m with
    | take =>
      simp only [locStep, MSub.handed, vstepF]
      cases c.inHand <;> cases c.slot <;> simp
      split <;> rfl
    | hand => rfl
    | deliver =>
      simp only [locStep, MSub.handed, vstepF]
      cases c.inHand <;> rfl
  | bp c =>
    cases m with
    | take => rfl
    | hand => rfl
    | deliver =>
      simp only [locStep, MSub.handed, bstep]
      cases c.inHand <;> rfl

theorem handTo_handed {s s' : MSub α} {e : α} (h : handTo E F s e = some s') : s'.handed = s.handed ++ [e] := by
  cases s with
  | lossy c =>
    simp only [handTo, Option.some.injEq] at h
    subst h
    simp [MSub.handed, vstepF]
  | bp c =>
    simp only [handTo] at h
    cases hh : c.inHand with
    | some d => simp [hh] at h
    | none =>
      simp only [hh, Option.some.injEq] at h
      subst h
      simp [MSub.handed, bstep, hh]

/-- The invariant of listener-by-listener progress relative to the initial handed lists `H`. -/
structure XInv (H : List (List α)) (c : MixCfg α) : Prop where
  handed : ∀ k, (c.subs[k]?).map MSub.handed = (H[k]?).map (fun h => h ++ c.done ++ c.partSent k)
  pos : ∀ e p, c.sending = some (e, p) → p ≤ c.subs.length

theorem XInv_init (subs0 : List (MSub α)) : XInv (subs0.map MSub.handed) ⟨subs0, none, []⟩ := by
  refine ⟨?_, by intro e p h; cases h⟩
  intro k
  simp only [MixCfg.partSent, List.getElem?_map, List.append_nil, Option.map_map]
  cases subs0[k]? <;> rfl

theorem modAt_length {β : Type} (f : β → β) (k : Nat) (xs : List β) : (modAt f k xs).length = xs.length := by
  induction xs generalizing k with
  | nil => cases k <;> rfl
  | cons x xs ih => cases k <;> simp [modAt, ih]

theorem XInv_step {H : List (List α)} {c : MixCfg α} (h : XInv H c) (m : XMove α) : XInv H (xstep E F c m) := by
  obtain ⟨hh, hp⟩ := h
  cases m with
  | write e =>
    simp only [xstep]
    cases hs : c.sending with
    | some x => simp only; exact ⟨hh, hp⟩
    | none =>
      simp only
      refine ⟨?_, by intro e' p' h'; cases h'; exact Nat.zero_le _⟩
      intro k
      have := hh k
      simp only [MixCfg.partSent, hs] at this ⊢
      simpa using this
  | advance =>
    simp only [xstep]
    cases hs : c.sending with
    | none => simp only; exact ⟨hh, hp⟩
    | some x =>
      obtain ⟨e, p⟩ := x
      simp only
      cases hsub : c.subs[p]? with
      | none =>
        simp only
        refine ⟨?_, by intro e' p' h'; cases h'⟩
        intro k
        have hk := hh k
        simp only [MixCfg.partSent, hs] at hk ⊢
        have hple : c.subs.length ≤ p := by
          rcases List.getElem?_eq_none_iff.mp hsub with h1
          exact h1
        by_cases hkp : k < p
        · simpa [hkp, List.append_assoc] using hk
        · have hkn : c.subs[k]? = none := List.getElem?_eq_none_iff.mpr (by omega)
          rw [hkn] at hk ⊢
          simp only [Option.map_none] at hk ⊢
          cases hH : H[k]? with
          | none => rfl
          | some x => rw [hH] at hk; simp at hk
      | some s =>
        simp only
        cases hto : handTo E F s e with
        | none => simp only; rw [← hs] at *; exact ⟨hh, hp⟩
        | some s' =>
          simp only
          have hlt : p < c.subs.length := (List.getElem?_eq_some_iff.mp hsub).1
          refine ⟨?_, ?_⟩
          · intro k
            have hk := hh k
            simp only [MixCfg.partSent, hs] at hk ⊢
            rw [modAt_getElem?]
            by_cases hpk : p = k
            · subst hpk
              simp only [if_true, hsub, Option.map_some] at hk ⊢
              rw [handTo_handed E F hto]
              cases hH : H[p]? with
              | none => rw [hH] at hk; simp at hk
              | some x =>
                rw [hH] at hk
                simp only [Option.map_some, Option.some.injEq, Nat.lt_irrefl, if_false, List.append_nil] at hk
                simp [hk]
            · simp only [hpk, if_false]
              rw [hk]
              by_cases h1 : k < p
              · have : k < p + 1 := by omega
                simp [h1, this]
              · have : ¬ k < p + 1 := by omega
                simp [h1, this]
          · intro e' p' h'
            cases h'
            rw [modAt_length]
            omega
  | loc k m =>
    simp only [xstep]
    refine ⟨?_, by intro e p h'; rw [modAt_length]; exact hp e p h'⟩
    intro j
    have hj := hh j
    rw [modAt_getElem?]
    simp only [MixCfg.partSent] at hj ⊢
    by_cases hkj : k = j
    · subst hkj
      simp only [if_true, Option.map_map]
      rw [← hj]
      cases c.subs[k]? with
      | none => rfl
      | some s => simp [locStep_handed]
    · simp only [hkj, if_false]
      exact hj

theorem XInv_run {H : List (List α)} {c : MixCfg α} (h : XInv H c) (ms : List (XMove α)) :
    XInv H (xrun E F c ms) := by
  induction ms generalizing c with
  | nil => exact h
  | cons m ms ih => exact ih (XInv_step E F h m)

/-! ### every subscriber keeps its own invariant -/

/-- a lossy subscriber satisfies the Value-pipeline invariant on what it was handed; a backpressured one
has lost and reordered nothing -/
def MSub.Ok : MSub α → Prop
  | .lossy c => VInv E none (c.mapF F)
  | .bp c => c.delivered ++ c.inHand.toList = c.accepted

theorem locStep_Ok {s : MSub α} (h : s.Ok E F) (m : LMove) : (locStep E F s m).Ok E F := by
  cases s with
  | lossy c =>
    cases m with
    | take =>
      show VInv E none ((vstepF E F c .take).mapF F)
      rw [vstepF_mapF]; exact VInv_step h _
    | hand => exact h
    | deliver =>
      show VInv E none ((vstepF E F c .deliver).mapF F)
      rw [vstepF_mapF]; exact VInv_step h _
  | bp c =>
    cases m with
    | take => exact h
    | hand => exact h
    | deliver =>
      rcases c with ⟨hand, del, acc⟩
      cases hand <;> simp_all [MSub.Ok, locStep, bstep]

theorem handTo_Ok {s s' : MSub α} {e : α} (h : s.Ok E F) (hto : handTo E F s e = some s') : s'.Ok E F := by
  cases s with
  | lossy c =>
    simp only [handTo, Option.some.injEq] at hto
    subst hto
    show VInv E none ((vstepF E F c (.recv e)).mapF F)
    rw [vstepF_mapF]; exact VInv_step h _
  | bp c =>
    simp only [handTo] at hto
    rcases c with ⟨hand, del, acc⟩
    cases hand with
    | some d => simp at hto
    | none =>
      simp only [Option.some.injEq] at hto
      subst hto
      simp_all [MSub.Ok, bstep]

theorem modAt_all {β : Type} {P : β → Prop} (f : β → β) (k : Nat) (xs : List β)
    (h : ∀ x ∈ xs, P x) (hf : ∀ x ∈ xs, P (f x)) : ∀ x ∈ modAt f k xs, P x := by
  induction xs generalizing k with
  | nil => cases k <;> simpa [modAt] using h
  | cons y ys ih =>
    cases k with
    | zero =>
      intro x hx
      simp only [modAt, List.mem_cons] at hx
      rcases hx with rfl | hx
      · exact hf y (by simp)
      · exact h x (by simp [hx])
    | succ k =>
      intro x hx
      simp only [modAt, List.mem_cons] at hx
      rcases hx with rfl | hx
      · exact h _ (by simp)
      · exact ih k (fun z hz => h z (by simp [hz])) (fun z hz => hf z (by simp [hz])) x hx

theorem xstep_Ok {c : MixCfg α} (h : ∀ s ∈ c.subs, s.Ok E F) (m : XMove α) :
    ∀ s ∈ (xstep E F c m).subs, s.Ok E F := by
  cases m with
  | write e =>
    simp only [xstep]
    cases c.sending <;> exact h
  | advance =>
    simp only [xstep]
    cases hs : c.sending with
    | none => exact h
    | some x =>
      obtain ⟨e, p⟩ := x
      simp only
      cases hsub : c.subs[p]? with
      | none => exact h
      | some s =>
        simp only
        cases hto : handTo E F s e with
        | none => exact h
        | some s' =>
          simp only
          have hs' : s'.Ok E F := handTo_Ok E F (h s (List.mem_of_getElem? hsub)) hto
          exact modAt_all _ p c.subs h (fun _ _ => hs')
  | loc k m =>
    simp only [xstep]
    exact modAt_all _ k c.subs h (fun x hx => locStep_Ok E F (h x hx) m)

theorem xrun_Ok {c : MixCfg α} (h : ∀ s ∈ c.subs, s.Ok E F) (ms : List (XMove α)) :
    ∀ s ∈ (xrun E F c ms).subs, s.Ok E F := by
  induction ms generalizing c with
  | nil => exact h
  | cons m ms ih => exact ih (xstep_Ok E F h m)

/-! ### completion of a send -/

theorem xrun_advances_done (c : MixCfg α) (e : α) (n p : Nat) (hs : c.sending = some (e, p))
    (hn : p + n = c.subs.length)
    (hfree : ∀ k b, p ≤ k → c.subs[k]? = some (.bp b) → b.inHand = none) :
    (xrun E F c (advances (n + 1))).sending = none ∧
    (xrun E F c (advances (n + 1))).done = c.done ++ [e] := by
  induction n generalizing c p with
  | zero =>
    have hnone : c.subs[p]? = none := List.getElem?_eq_none_iff.mpr (by omega)
    simp [advances, List.replicate, xrun_cons, xrun_nil, xstep, hs, hnone]
  | succ n ih =>
    have hlt : p < c.subs.length := by omega
    obtain ⟨s, hsub⟩ : ∃ s, c.subs[p]? = some s := ⟨c.subs[p], List.getElem?_eq_getElem hlt⟩
    have hto : ∃ s', handTo E F s e = some s' := by
      cases s with
      | lossy v => exact ⟨_, rfl⟩
      | bp b =>
        have := hfree p b (Nat.le_refl _) hsub
        exact ⟨.bp (bstep b (.offer e)), by simp [handTo, this]⟩
    obtain ⟨s', hs'⟩ := hto
    have hstep : xstep E F c .advance = { c with subs := modAt (fun _ => s') p c.subs, sending := some (e, p + 1) } := by
      simp [xstep, hs, hsub, hs']
    have hadv : advances (α := α) (n + 1 + 1) = .advance :: advances (n + 1) := rfl
    rw [hadv, xrun_cons, hstep]
    have := ih { c with subs := modAt (fun _ => s') p c.subs, sending := some (e, p + 1) } (p + 1) rfl
      (by simp only [modAt_length]; omega)
      (by
        intro k b hk hkb
        simp only [modAt_getElem?] at hkb
        have : p ≠ k := by omega
        simp only [this, if_false] at hkb
        exact hfree k b (by omega) hkb)
    exact this

end ScVerif.C09
