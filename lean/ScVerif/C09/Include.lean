import ScVerif.C09.ChangeLemmas
/-
C09 — the transform `Collection.Pull`'s forwarder applies to every event it takes from the merge machine
(pkg/resource/change.go, `(*CollectionChange).include`), and what it means for the subscriber's view.

* `includeChange f`   `include(includeFunc)` as coded: kind-agnostic — the filter is evaluated on OldValue and
                      NewValue (an absent value is never included); equal inclusion: forwarded unchanged iff
                      included; inclusion gained: re-wrapped as an ADD of the new value (LastSeedValue is NOT
                      copied); inclusion lost: re-wrapped as a REMOVE of the old value (no seed flags).
                      `includeFunc == nil` is `some` (the identity transform).
* `restrict f`        the view of a subscriber with that filter: the stored items the filter admits (what
                      `List(WithInclude f)` shows).
* `Sim T R`           "transform `T` simulates view map `R`": a change well formed at `s` becomes a change well
                      formed at `R s` with the effect of the original seen through `R` — or is dropped and then the
                      original has no effect through `R`.  `Sim some id` and `Sim (includeChange f) (restrict f)`
                      are proved here; the pipeline theorems are stated for any `T`, `R` with `Sim T R`.
-/
namespace ScVerif.C09

variable {ι μ : Type}

/-- `c.OldValue != nil && includeFunc(c.Id, c.OldValue)` / the same for NewValue. -/
def incl (f : ι → μ → Bool) (i : ι) : Option μ → Bool
  | none => false
  | some v => f i v

/-- `(*CollectionChange).include(includeFunc)` for a non-nil `includeFunc`; `none` = `ok == false`. -/
def includeChange (f : ι → μ → Bool) (c : Change ι μ) : Option (Change ι μ) :=
  let oldInclude := incl f c.id c.old
  let newInclude := incl f c.id c.new
  if oldInclude = newInclude then
    (if newInclude then some c else none)            -- skip only if both values are excluded
  else if newInclude then
    -- treat this like an Add (LastSeedValue is left out: "this is not safe, the caller needs to deal with this")
    some { id := c.id, kind := .add, time := c.time, old := none, new := c.new, seed := c.seed, lastSeed := false }
  else
    -- treat this like a remove
    some { id := c.id, kind := .remove, time := c.time, old := c.old, new := none, seed := false, lastSeed := false }

/-- The filtered view: the items the filter admits. -/
def restrict (f : ι → μ → Bool) (s : View ι μ) : View ι μ :=
  fun i => match s i with
    | some v => if f i v then some v else none
    | none => none

variable [DecidableEq ι]

/-- Transform `T` simulates the view map `R` (see the header). -/
def Sim (T : Change ι μ → Option (Change ι μ)) (R : View ι μ → View ι μ) : Prop :=
  ∀ (s : View ι μ) (c : Change ι μ), WFChange s c →
    match T c with
    | some c' => WFChange (R s) c' ∧ apply c' (R s) = R (apply c s)
    | none => R (apply c s) = R s

theorem Sim_some : Sim (some : Change ι μ → Option (Change ι μ)) id :=
  fun _ _ h => ⟨h, rfl⟩

theorem restrict_set (f : ι → μ → Bool) (s : View ι μ) (i : ι) (v : Option μ) :
    restrict f (s.set i v) = (restrict f s).set i (if incl f i v then v else none) := by
  funext j
  by_cases h : j = i
  · subst h
    cases v with
    | none => simp [restrict, View.set, incl]
    | some x => by_cases hf : f j x <;> simp [restrict, View.set, incl, hf]
  · simp [restrict, View.set, h]

omit [DecidableEq ι] in
theorem restrict_apply (f : ι → μ → Bool) (s : View ι μ) (i : ι) :
    restrict f s i = if incl f i (s i) then s i else none := by
  cases h : s i with
  | none => simp [restrict, h, incl]
  | some x => by_cases hf : f i x <;> simp [restrict, h, incl, hf]

theorem set_noop (s : View ι μ) (i : ι) (v : Option μ) (h : s i = v) : s.set i v = s := by
  funext j
  by_cases hj : j = i
  · subst hj; simp [View.set, h]
  · simp [View.set, hj]

/-- The include transform of the code simulates the filtered view, for every filter function. -/
theorem Sim_include (f : ι → μ → Bool) : Sim (includeChange f) (restrict f) := by
  intro s c h
  rcases c with ⟨ci, ck, ct, co, cn, cs, cl⟩
  have hr := restrict_apply f s ci
  cases ck with
  | unspecified => simp [WFChange] at h
  | add =>
    simp only [WFChange] at h
    obtain ⟨h1, h2, h3⟩ := h
    subst h2
    cases cn with
    | none => simp at h3
    | some v =>
      have hr0 : restrict f s ci = none := by rw [hr, h1]; simp [incl]
      by_cases hf : f ci v
      · simp only [includeChange, incl, hf]
        simp [WFChange, apply, restrict_set, incl, hf, hr0]
      · have hf' : f ci v = false := by simpa using hf
        simp only [includeChange, incl, hf']
        simp only [apply, restrict_set]
        exact set_noop _ _ _ (by rw [hr0]; simp [incl, hf'])
  | update =>
    simp only [WFChange] at h
    obtain ⟨h1, h2, h3⟩ := h
    subst h2
    cases cn with
    | none => simp at h3
    | some v =>
      cases hs : s ci with
      | none => simp [hs] at h1
      | some o =>
        rw [hs] at hr
        by_cases hf : f ci v <;> by_cases hg : f ci o <;>
          simp only [includeChange, incl, hf, hg] <;>
          simp [WFChange, apply, restrict_set, incl, hf, hg, hr, hs]
        exact set_noop _ _ _ (by rw [hr]; simp [incl, hg])
  | replace =>
    simp only [WFChange] at h
    obtain ⟨h1, h2, h3⟩ := h
    subst h2
    cases cn with
    | none => simp at h3
    | some v =>
      cases hs : s ci with
      | none => simp [hs] at h1
      | some o =>
        rw [hs] at hr
        by_cases hf : f ci v <;> by_cases hg : f ci o <;>
          simp only [includeChange, incl, hf, hg] <;>
          simp [WFChange, apply, restrict_set, incl, hf, hg, hr, hs]
        exact set_noop _ _ _ (by rw [hr]; simp [incl, hg])
  | remove =>
    simp only [WFChange] at h
    obtain ⟨h1, h2, h3⟩ := h
    subst h2 h3
    cases hs : s ci with
    | none => simp [hs] at h1
    | some o =>
      rw [hs] at hr
      by_cases hg : f ci o <;>
        simp only [includeChange, incl, hg] <;>
        simp [WFChange, apply, restrict_set, incl, hg, hr, hs]
      exact set_noop _ _ _ (by rw [hr]; simp [incl, hg])

/-- A well-formed history seen through a simulating transform is a well-formed history of the mapped
view with the mapped effect. -/
theorem filterMap_sim {T : Change ι μ → Option (Change ι μ)} {R : View ι μ → View ι μ} (hsim : Sim T R)
    {s : View ι μ} {xs : List (Change ι μ)} (hw : WFHist s xs) :
    WFHist (R s) (xs.filterMap T) ∧ fold (xs.filterMap T) (R s) = R (fold xs s) := by
  induction xs generalizing s with
  | nil => exact ⟨trivial, rfl⟩
  | cons c cs ih =>
    obtain ⟨hc, hcs⟩ := hw
    have h1 := hsim s c hc
    have h2 := ih hcs
    cases hT : T c with
    | none =>
      rw [hT] at h1
      simp only [List.filterMap_cons, hT, fold_cons]
      rw [h1] at h2
      exact h2
    | some c' =>
      rw [hT] at h1
      simp only [List.filterMap_cons, hT, fold_cons, WFHist]
      rw [← h1.2] at h2
      exact ⟨⟨h1.1, h2.1⟩, h2.2⟩

end ScVerif.C09
