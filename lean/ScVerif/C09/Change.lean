/-
C08/C09 — shared vocabulary: collection change events, the view a subscriber folds them into, and
well-formed histories.

`Change` mirrors `resource.CollectionChange` (pkg/resource/change.go): id, change type (the five
values of `types.ChangeType`), change time, old value, new value, the two seed flags.  Ids and
messages are arbitrary types (`ι`, `μ`): nothing in the modelled code inspects a message, it only
moves them around, so every theorem is parametric in both.

The *Spec* side is a plain function `View ι μ = ι → Option μ` (what a subscriber that folds the events
holds; what `List` shows) and `apply`/`fold` on it.
-/
namespace ScVerif.C09

/-- `types.ChangeType`: CHANGE_TYPE_UNSPECIFIED, ADD, UPDATE, REMOVE, REPLACE (numeric order 0..4). -/
inductive Kind where
  | unspecified | add | update | remove | replace
deriving DecidableEq, Repr, Inhabited

structure Change (ι μ : Type) where
  id : ι
  kind : Kind
  time : Nat
  old : Option μ
  new : Option μ
  seed : Bool
  lastSeed : Bool
deriving DecidableEq, Repr

/-- The folded view of a subscriber / the contents of a collection: id ↦ value, `none` = absent. -/
abbrev View (ι μ : Type) := ι → Option μ

def View.empty {ι μ : Type} : View ι μ := fun _ => none

def View.set {ι μ : Type} [DecidableEq ι] (s : View ι μ) (i : ι) (v : Option μ) : View ι μ :=
  fun j => if j = i then v else s j

variable {ι μ : Type} [DecidableEq ι]

/-- What a subscriber does with one event: REMOVE deletes the id, every other kind stores NewValue. -/
def apply (c : Change ι μ) (s : View ι μ) : View ι μ :=
  s.set c.id (if c.kind = .remove then none else c.new)

/-- Folding a stream of events, in order, into a view. -/
def fold (cs : List (Change ι μ)) (s : View ι μ) : View ι μ :=
  cs.foldl (fun s c => apply c s) s

/-- A change is well formed *at* a view: ADD from absent to a value; UPDATE/REPLACE from the current
value to a value; REMOVE from the current value to absent; the old value is the current one.
(These are the events `Collection.Update`/`Delete` publish, plus REPLACE which only merging makes.) -/
def WFChange (s : View ι μ) (c : Change ι μ) : Prop :=
  match c.kind with
  | .add => s c.id = none ∧ c.old = none ∧ c.new.isSome = true
  | .update => (s c.id).isSome = true ∧ c.old = s c.id ∧ c.new.isSome = true
  | .replace => (s c.id).isSome = true ∧ c.old = s c.id ∧ c.new.isSome = true
  | .remove => (s c.id).isSome = true ∧ c.old = s c.id ∧ c.new = none
  | .unspecified => False

/-- A well-formed history from a view: per-id chains — every change's old value is the previous new
value of that id, ADD only from absent, REMOVE only to absent. -/
def WFHist (s : View ι μ) : List (Change ι μ) → Prop
  | [] => True
  | c :: cs => WFChange s c ∧ WFHist (apply c s) cs

end ScVerif.C09
