import ScVerif.C09.MixedLemmas
import ScVerif.C09.BusLemmas
/-
C09 — lossy and backpressured subscribers on the bus WITH SEVERAL WRITERS: the bus of `Bus.lean` (any number
of `Send`s in progress, private snapshots, cancelled listeners skipped and collected) composed with the
subscriber pipelines of `Mixed.lean` (`MSub`: a lossy one — DropExcess slot ▸ forwarder ▸ consumer — takes an
event at once; a backpressured one only while its forwarder holds nothing: `handTo`).

Subscriber `k` is listener `k` of the bus (both are numbered in registration order).  Events are the numbers
of the `Send`s (what a write publishes stands for its value).

Moves: `listenL` / `listenB` (Pull without / with backpressure, updates only), `cancel k`, `send` (a writer has
committed and enters `Bus.Send`), `visit e` (`listener.send` of the next listener in the snapshot of send
`e`: a cancelled listener is skipped; a live one takes the event iff `handTo` says so — otherwise the move
changes nothing: the writer stays blocked in the select), `finish e`, `loc k m` (a local move of subscriber
`k`: its forwarder takes from the slot / its consumer receives).
-/
namespace ScVerif.C09

structure MBCfg where
  bus : BusCfg
  subs : List (MSub Nat)

def MBCfg.init : MBCfg := ⟨BusCfg.init, []⟩

inductive MBMove where
  | listenL
  | listenB
  | cancel (k : Nat)
  | send
  | visit (e : Nat)
  | finish (e : Nat)
  | loc (k : Nat) (m : LMove)

section
variable (E : Option Nat → Nat → Bool) (F : Nat → Nat)

def mbStep (c : MBCfg) : MBMove → MBCfg
  | .listenL => ⟨busStep c.bus .listen, c.subs ++ [.lossy (VCfg.subscribed F none)]⟩
  | .listenB => ⟨busStep c.bus .listen, c.subs ++ [.bp BCfg.init]⟩
  | .cancel k => ⟨busStep c.bus (.cancel k), c.subs⟩
  | .send => ⟨busStep c.bus .send, c.subs⟩
  | .finish e => ⟨busStep c.bus (.finish e), c.subs⟩
  | .loc k m => ⟨c.bus, modAt (fun s => locStep E F s m) k c.subs⟩
  | .visit e =>
    match c.bus.sends.find? (fun s => s.ev == e) with
    | none => c
    | some s =>
      match s.rest with
      | [] => c
      | k :: _ =>
        if c.bus.cancelled.contains k then ⟨busStep c.bus (.visit e), c.subs⟩
        else
          match c.subs[k]? with
          | none => c
          | some sub =>
            match handTo E F sub e with
            | none => c                                   -- the listener's receiver is not ready
            | some sub' => ⟨busStep c.bus (.visit e), modAt (fun _ => sub') k c.subs⟩

def mbRun (c : MBCfg) (ms : List MBMove) : MBCfg := ms.foldl (mbStep E F) c

end

/-! ### lemmas -/

theorem busRun_snoc (c : BusCfg) (ms : List BusMove) (m : BusMove) :
    busRun c (ms ++ [m]) = busStep (busRun c ms) m := by
  simp [busRun, List.foldl_append]

theorem handedTo_append (c : BusCfg) (k k' e : Nat) :
    (({ c with handed := c.handed ++ [(k, e)] } : BusCfg).handedTo k') =
      if k' = k then c.handedTo k' ++ [e] else c.handedTo k' := by
  by_cases h : k' = k
  · subst h
    simp [BusCfg.handedTo, List.filter_append]
  · have : (k == k') = false := by simpa using fun hx => h hx.symm
    simp [BusCfg.handedTo, List.filter_append, h, this]

theorem busStep_finish_handed (c : BusCfg) (e : Nat) : (busStep c (.finish e)).handed = c.handed := by
  simp only [busStep]
  split
  · rfl
  · split <;> rfl

theorem busStep_finish_nextL (c : BusCfg) (e : Nat) : (busStep c (.finish e)).nextL = c.nextL := by
  simp only [busStep]
  split
  · rfl
  · split <;> rfl

theorem busStep_visit_nextL (c : BusCfg) (e : Nat) : (busStep c (.visit e)).nextL = c.nextL := by
  simp only [busStep]
  split
  · rfl
  · split <;> rfl

structure MBInv (E : Option Nat → Nat → Bool) (F : Nat → Nat) (c : MBCfg) : Prop where
  sim : ∃ bms, c.bus = busRun BusCfg.init bms
  len : c.subs.length = c.bus.nextL
  hlt : ∀ p ∈ c.bus.handed, p.1 < c.subs.length
  handed : ∀ k s, c.subs[k]? = some s → s.handed = c.bus.handedTo k
  ok : ∀ s ∈ c.subs, s.Ok E F

theorem handedTo_eq_nil_of_lt (c : BusCfg) (n : Nat) (h : ∀ p ∈ c.handed, p.1 < n) : c.handedTo n = [] := by
  simp only [BusCfg.handedTo, List.map_eq_nil_iff, List.filter_eq_nil_iff]
  intro p hp
  have := h p hp
  simp only [beq_iff_eq]
  omega

theorem sim_snoc {b : BusCfg} (h : ∃ bms, b = busRun BusCfg.init bms) (m : BusMove) :
    ∃ bms, busStep b m = busRun BusCfg.init bms := by
  obtain ⟨bms, rfl⟩ := h
  exact ⟨bms ++ [m], (busRun_snoc _ _ _).symm⟩

theorem MBInv_init (E : Option Nat → Nat → Bool) (F : Nat → Nat) : MBInv E F MBCfg.init where
  sim := ⟨[], rfl⟩
  len := rfl
  hlt := by intro p hp; cases hp
  handed := by intro k s hk; simp [MBCfg.init] at hk
  ok := by intro s hs; cases hs

theorem MBInv_listen {E : Option Nat → Nat → Bool} {F : Nat → Nat} {c : MBCfg} (h : MBInv E F c)
    (s0 : MSub Nat) (h0 : s0.handed = []) (hok : s0.Ok E F) :
    MBInv E F ⟨busStep c.bus .listen, c.subs ++ [s0]⟩ where
  sim := sim_snoc h.sim .listen
  len := by
    show (c.subs ++ [s0]).length = c.bus.nextL + 1
    simp [h.len]
  hlt := by
    intro p hp
    have := h.hlt p hp
    show p.1 < (c.subs ++ [s0]).length
    simp only [List.length_append, List.length_singleton]
    omega
  handed := by
    intro k s hk
    show s.handed = c.bus.handedTo k
    have hk' : (c.subs ++ [s0])[k]? = some s := hk
    by_cases hlt : k < c.subs.length
    · rw [List.getElem?_append_left hlt] at hk'
      exact h.handed k s hk'
    · rw [List.getElem?_append_right (by omega)] at hk'
      have hk0 : k - c.subs.length = 0 := by
        cases hd : k - c.subs.length with
        | zero => rfl
        | succ d => rw [hd] at hk'; simp at hk'
      rw [hk0] at hk'
      simp only [List.getElem?_cons_zero, Option.some.injEq] at hk'
      subst hk'
      have hkeq : k = c.subs.length := by omega
      rw [h0, hkeq, handedTo_eq_nil_of_lt c.bus c.subs.length h.hlt]
  ok := by
    intro s hs
    have hs' : s ∈ c.subs ++ [s0] := hs
    simp only [List.mem_append, List.mem_singleton] at hs'
    rcases hs' with h1 | h1
    · exact h.ok s h1
    · exact h1 ▸ hok

theorem MBInv_sameHanded {E : Option Nat → Nat → Bool} {F : Nat → Nat} {c : MBCfg} (h : MBInv E F c)
    (m : BusMove) (hh : (busStep c.bus m).handed = c.bus.handed) (hn : (busStep c.bus m).nextL = c.bus.nextL) :
    MBInv E F ⟨busStep c.bus m, c.subs⟩ where
  sim := sim_snoc h.sim m
  len := by show c.subs.length = (busStep c.bus m).nextL; rw [hn]; exact h.len
  hlt := by intro p hp; exact h.hlt p (hh ▸ hp)
  handed := by
    intro k s hk
    show s.handed = (busStep c.bus m).handedTo k
    have : (busStep c.bus m).handedTo k = c.bus.handedTo k := by simp only [BusCfg.handedTo, hh]
    rw [this]
    exact h.handed k s hk
  ok := h.ok

theorem MBInv_step {E : Option Nat → Nat → Bool} {F : Nat → Nat} {c : MBCfg} (h : MBInv E F c) (m : MBMove) :
    MBInv E F (mbStep E F c m) := by
  cases m with
  | listenL => exact MBInv_listen h _ rfl (VInv_subscribed E F none)
  | listenB => exact MBInv_listen h _ rfl rfl
  | cancel k => exact MBInv_sameHanded h _ rfl rfl
  | send => exact MBInv_sameHanded h _ rfl rfl
  | finish e => exact MBInv_sameHanded h _ (busStep_finish_handed _ _) (busStep_finish_nextL _ _)
  | loc k m =>
    refine ⟨h.sim, ?_, ?_, ?_, ?_⟩
    · show (modAt _ k c.subs).length = _
      rw [modAt_length]; exact h.len
    · intro p hp
      show p.1 < (modAt _ k c.subs).length
      rw [modAt_length]; exact h.hlt p hp
    · intro j s hj
      have hj' : (modAt (fun s => locStep E F s m) k c.subs)[j]? = some s := hj
      rw [modAt_getElem?] at hj'
      show s.handed = c.bus.handedTo j
      by_cases hkj : k = j
      · rw [if_pos hkj] at hj'
        cases hs : c.subs[j]? with
        | none => rw [hs] at hj'; simp at hj'
        | some s1 =>
          rw [hs] at hj'
          simp only [Option.map_some, Option.some.injEq] at hj'
          subst hj'
          rw [locStep_handed]
          exact h.handed j s1 hs
      · rw [if_neg hkj] at hj'
        exact h.handed j s hj'
    · exact modAt_all _ k c.subs h.ok (fun x hx => locStep_Ok E F (h.ok x hx) m)
  | visit e =>
    show MBInv E F (mbStep E F c (.visit e))
    simp only [mbStep]
    cases hf : c.bus.sends.find? (fun s => s.ev == e) with
    | none => exact h
    | some s =>
      simp only
      cases hr : s.rest with
      | nil => exact h
      | cons k r =>
        simp only
        have hstep : busStep c.bus (.visit e) = { c.bus with
            sends := c.bus.sends.map (fun t => if t.ev == e then s.visit c.bus.cancelled else t)
            handed := if c.bus.cancelled.contains k then c.bus.handed else c.bus.handed ++ [(k, e)] } := by
          simp only [busStep, hf, hr]
        by_cases hc : c.bus.cancelled.contains k = true
        · rw [if_pos hc]
          refine MBInv_sameHanded h _ ?_ (busStep_visit_nextL _ _)
          rw [hstep]; simp only [hc, if_true]
        · rw [if_neg hc]
          cases hk : c.subs[k]? with
          | none => exact h
          | some sub =>
            simp only
            cases hto : handTo E F sub e with
            | none => exact h
            | some sub' =>
              simp only
              have hc' : c.bus.cancelled.contains k = false := by simpa using hc
              have hklt : k < c.subs.length := by
                rcases Nat.lt_or_ge k c.subs.length with h1 | h1
                · exact h1
                · rw [List.getElem?_eq_none_iff.mpr h1] at hk; cases hk
              have hhand : (busStep c.bus (.visit e)).handed = c.bus.handed ++ [(k, e)] := by
                rw [hstep]; simp only [hc', Bool.false_eq_true, if_false]
              refine ⟨sim_snoc h.sim (.visit e), ?_, ?_, ?_, ?_⟩
              · show (modAt _ k c.subs).length = (busStep c.bus (.visit e)).nextL
                rw [modAt_length, busStep_visit_nextL]; exact h.len
              · intro p hp
                show p.1 < (modAt _ k c.subs).length
                rw [modAt_length]
                have hp' : p ∈ (busStep c.bus (.visit e)).handed := hp
                rw [hhand] at hp'
                simp only [List.mem_append, List.mem_singleton] at hp'
                rcases hp' with h1 | h1
                · exact h.hlt p h1
                · subst h1; exact hklt
              · intro j s1 hj
                have hj' : (modAt (fun _ => sub') k c.subs)[j]? = some s1 := hj
                rw [modAt_getElem?] at hj'
                show s1.handed = (busStep c.bus (.visit e)).handedTo j
                have hto' : (busStep c.bus (.visit e)).handedTo j =
                    if j = k then c.bus.handedTo j ++ [e] else c.bus.handedTo j := by
                  rw [← handedTo_append c.bus k j e]
                  simp only [BusCfg.handedTo, hhand]
                rw [hto']
                by_cases hkj : k = j
                · rw [if_pos hkj] at hj'
                  subst hkj
                  rw [hk] at hj'
                  simp only [Option.map_some, Option.some.injEq] at hj'
                  subst hj'
                  rw [if_pos rfl, handTo_handed E F hto, h.handed k sub hk]
                · rw [if_neg hkj] at hj'
                  rw [if_neg (fun hx => hkj hx.symm)]
                  exact h.handed j s1 hj'
              · exact modAt_all _ k c.subs h.ok (fun x _ => handTo_Ok E F (h.ok sub (List.mem_of_getElem? hk)) hto)

theorem MBInv_run {E : Option Nat → Nat → Bool} {F : Nat → Nat} {c : MBCfg} (h : MBInv E F c)
    (ms : List MBMove) : MBInv E F (mbRun E F c ms) := by
  induction ms generalizing c with
  | nil => exact h
  | cons m ms ih => exact ih (MBInv_step h m)

theorem mem_handedTo (c : BusCfg) (k e : Nat) : e ∈ c.handedTo k ↔ (k, e) ∈ c.handed := by
  simp only [BusCfg.handedTo, List.mem_map, List.mem_filter, beq_iff_eq]
  constructor
  · rintro ⟨p, ⟨hp, hk⟩, he⟩
    cases p with
    | mk a b =>
      simp only at hk he
      subst hk; subst he
      exact hp
  · intro h
    exact ⟨(k, e), ⟨h, rfl⟩, rfl⟩

theorem nodup_filter_snd (k : Nat) (l : List (Nat × Nat)) (h : l.Nodup) :
    ((l.filter (fun p => p.1 == k)).map (·.2)).Nodup := by
  induction l with
  | nil => simp
  | cons p l ih =>
    have hp : p ∉ l := (List.nodup_cons.mp h).1
    have hl : l.Nodup := (List.nodup_cons.mp h).2
    by_cases hk : (p.1 == k) = true
    · simp only [List.filter_cons, hk, if_true, List.map_cons, List.nodup_cons]
      refine ⟨?_, ih hl⟩
      intro hin
      obtain ⟨q, hq, he⟩ := List.mem_map.mp hin
      obtain ⟨hq1, hq2⟩ := List.mem_filter.mp hq
      have h1 : q.1 = p.1 := by
        have a : q.1 = k := by simpa using hq2
        have b : p.1 = k := by simpa using hk
        omega
      have : q = p := Prod.ext h1 he
      exact hp (this ▸ hq1)
    · have hk' : (p.1 == k) = false := by simpa using hk
      simp only [List.filter_cons, hk', Bool.false_eq_true, if_false]
      exact ih hl

theorem nodup_handedTo (c : BusCfg) (k : Nat) (h : c.handed.Nodup) : (c.handedTo k).Nodup :=
  nodup_filter_snd k c.handed h

end ScVerif.C09
