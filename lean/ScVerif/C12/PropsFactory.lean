import ScVerif.C12.FacLemmas
import ScVerif.C12.PropsSpan
/-!
# C12 — property theorems, where the clients a router hands out come from

"… the client currently registered under N (added, **created once by the factory**, or supplied by the
fallback) …" — for every schedule of concurrent Add / Remove / Has / Get programs (`Lin.lean`): how often
the factory and the fallback are called, what an `Auto` transition may install, and what a Get may
return as factory-made or fallback-made.  (`PropsSpan.lean` says which REGISTERED client a Get may
return; `Props.lean: C12_single_commit` that racing first Gets of one name commit one client.)

Only property theorems and their non-vacuity examples live in this file.
-/
namespace ScVerif.C12

/-- **The factory is called at most once per Get, under every schedule.**  At every moment of every
run: the calls the factory (the fallback) has received since the start, plus the Gets that are on
their way to call it, are at most the Gets whose first registry read found the name absent — and those
are at most the Gets that have been started, so never more than the Get operations in the programs.
No Add, Remove or Has ever calls either; a Get whose name is registered calls neither; no Get calls
one of them twice. -/
theorem C12_factory_calls_bounded (cfg : Cfg) (reg0 : Reg) (k1 k2 : Nat) (progs : List (List Op))
    (sched : List Nat) :
    let c := lrun cfg (LConf.start reg0 k1 k2 progs) sched
    k2 ≤ c.st.nfac ∧ k1 ≤ c.st.nfb ∧
    (c.st.nfac - k2) + c.ths.countP owesFac ≤ misses c ∧
    (c.st.nfb - k1) + c.ths.countP owesFb ≤ misses c ∧
    misses c + getsLeft c.ths ≤ getsIn progs := by
  intro c
  have h : FInv cfg k1 k2 c := finv_lrun (finv_start cfg reg0 k1 k2 progs) sched
  have g : GInv (getsIn progs) c := ginv_lrun (cfg := cfg) (ginv_start reg0 k1 k2 progs) sched
  have h1 := h.lo
  have h2 := h.budFac
  have h3 := h.budFb
  exact ⟨h1.2, h1.1, by omega, by omega, g⟩

/-- **Only the factory's own products are installed automatically, and only over nothing.**  Under
every schedule, every committed `Auto` transition starts from "absent" and installs a client that the
factory supplied — for that very name, on one of the calls it received during the run.  A client made
for another name, a fallback client, or a client some Add supplied is never installed by a Get. -/
theorem C12_auto_commits_are_factory_products (cfg : Cfg) (reg0 : Reg) (k1 k2 : Nat)
    (progs : List (List Op)) (sched : List Nat) (ch : Change) :
    let c := lrun cfg (LConf.start reg0 k1 k2 progs) sched
    ch ∈ c.clog → ch.auto = true →
      ch.old = none ∧ ∃ cl, ch.new = some cl ∧ FactoryMade cfg k2 c.st.nfac ch.name cl := by
  intro c hch ha
  exact (finv_lrun (finv_start cfg reg0 k1 k2 progs) sched).autos ch hch ha

/-- **Where a Get's client comes from.**  Under every schedule, for every finished Get of every thread:
a client returned as factory-made was installed by a committed `Auto` transition from "absent" and is a
product of the factory for that name; a client returned as the fallback's was supplied by the fallback
on one of the calls it received during the run.  (A client returned as registered was registered
during the Get: `C12_get_live_client`.)  Nothing a Get returns is invented. -/
theorem C12_get_client_origin (cfg : Cfg) (reg0 : Reg) (k1 k2 : Nat) (progs : List (List Op))
    (sched : List Nat) (t : Nat) (th : LThread) (cl : Client) :
    let c := lrun cfg (LConf.start reg0 k1 k2 progs) sched
    c.ths[t]? = some th →
      (Res.got cl .factory ∈ th.results →
        ∃ n, (⟨n, none, some cl, true⟩ : Change) ∈ c.clog ∧ FactoryMade cfg k2 c.st.nfac n cl) ∧
      (Res.got cl .fallback ∈ th.results → FallbackMade cfg k1 c.st.nfb cl) := by
  intro c hth
  have h := finv_lrun (finv_start cfg reg0 k1 k2 progs) sched
  refine ⟨?_, ?_⟩
  · intro hr
    obtain ⟨n, hn⟩ := (h.results t th hth _ hr cl .factory rfl).1 rfl
    obtain ⟨_, cl', hc, hm⟩ := h.autos _ hn rfl
    simp only [Option.some.injEq] at hc
    subst hc
    exact ⟨n, hn, hm⟩
  · intro hr
    exact (h.results t th hth _ hr cl .fallback rfl).2 rfl

/-- **No client is invented.**  Under every schedule, at every moment of the run (after any number `i`
of lock sections) and now: whatever client the registry holds under a name `n` was registered under `n`
at the start, or some program Adds it under `n`, or the factory made it for `n` on one of the calls
it received during the run.  (Names are not mixed up, a client made for one name never shows up under
another, fallback clients are never remembered.) -/
theorem C12_no_client_invented (cfg : Cfg) (reg0 : Reg) (k1 k2 : Nat) (progs : List (List Op))
    (sched : List Nat) (i : Nat) (n : Name) (cl : Client) :
    let c := lrun cfg (LConf.start reg0 k1 k2 progs) sched
    (mapAt reg0 c.glog i n = some cl → Origin cfg reg0 progs k2 c.st.nfac n cl) ∧
    (c.st.reg.get n = some cl → Origin cfg reg0 progs k2 c.st.nfac n cl) := by
  intro c
  have h : FInv cfg k1 k2 c ∧ OInv cfg progs k2 c :=
    foinv_lrun (finv_start cfg reg0 k1 k2 progs) (oinv_start cfg reg0 k1 k2 progs) sched
  have hl : LInv reg0 c := linv_lrun (linv_start reg0 k1 k2 progs) sched
  refine ⟨?_, ?_⟩
  · intro hm
    refine lspecRun_origin cfg reg0 progs k2 c.st.nfac _ reg0.get ?_ (fun n c hc => Or.inl hc) n cl hm
    intro op hop
    obtain ⟨g, hg, rfl⟩ := List.mem_map.mp hop
    exact h.2.writes g (List.mem_of_mem_take hg)
  · intro hm
    have hreg : (lspecRun reg0.get (c.glog.map (·.op))).1 = c.st.reg.get := by rw [hl.lin]
    rw [← hreg] at hm
    refine lspecRun_origin cfg reg0 progs k2 c.st.nfac _ reg0.get ?_ (fun n c hc => Or.inl hc) n cl hm
    intro op hop
    obtain ⟨g, hg, rfl⟩ := List.mem_map.mp hop
    exact h.2.writes g hg

/-- **A Get hands out only known clients.**  Under every schedule, a finished `Get n` that returns a
client as registered or factory-made returns one that was registered under `n` at the start, that some
program Adds under `n`, or that the factory made for `n` during the run (`C12_get_live_client` ▸
`C12_no_client_invented`; a fallback's client is the fallback's: `C12_get_client_origin`). -/
theorem C12_get_returns_known_client (cfg : Cfg) (reg0 : Reg) (k1 k2 : Nat) (progs : List (List Op))
    (sched : List Nat) (t : Nat) (sp : Span) (n : Name) (cl : Client) (src : Src)
    (hsp : sp ∈ (trun cfg (TConf.start reg0 k1 k2 progs) sched).done.getD t [])
    (hop : sp.op = .get n) (hr : sp.res = .got cl src) (hs : src ≠ .fallback) :
    Origin cfg reg0 progs k2 (lrun cfg (LConf.start reg0 k1 k2 progs) sched).st.nfac n cl := by
  obtain ⟨i, _, _, _, _, hm⟩ := (C12_get_live_client cfg reg0 k1 k2 progs sched t sp n hsp hop).1 cl src hr hs
  exact (C12_no_client_invented cfg reg0 k1 k2 progs sched (i + 1) n cl).1 hm

/-! ## Non-vacuity -/

/-- Two threads race for the absent name `n`, a third Gets a registered one: two misses, the factory
is called twice (once per missing Get), one product is installed, the loser returns the winner's. -/
example :
    let c := lrun ⟨none, some fun _ k => ⟨some (1000 + k), false⟩⟩
      (LConf.start [("r", 7)] 0 0 [[.get "n"], [.get "n"], [.get "r"]]) [0, 1, 2, 0, 1, 0, 1, 1, 0, 1, 0]
    c.st.nfac = 2 ∧ misses c = 2 ∧ getsIn [[.get "n"], [.get "n"], [.get "r"]] = 3 ∧
      c.clog = [⟨"n", none, some 1001, true⟩] ∧
      c.ths.map (·.results) = [[.got 1001 .registered], [.got 1001 .factory], [.got 7 .registered]] := by
  decide

/-- All three origins occur: `r ↦ 7` was there at the start, `a ↦ 1` is Added by thread 0, `n ↦ 1000` is
made by the factory for thread 1's Get. -/
example :
    let c := lrun ⟨none, some fun _ k => ⟨some (1000 + k), false⟩⟩
      (LConf.start [("r", 7)] 0 0 [[.add "a" 1], [.get "n"]]) [1, 0, 1, 1, 0, 1, 1]
    c.st.reg.get "r" = some 7 ∧ c.st.reg.get "a" = some 1 ∧ c.st.reg.get "n" = some 1000 ∧
      c.ths.map (·.results) = [[.prev none], [.got 1000 .factory]] := by
  decide

end ScVerif.C12
