import ScVerif.C12.PumpTrace
/-!
# C12 — a registered client that is a WRAPPED SERVER (`xxxpb.WrapApi(server)`)

The clients a router holds are normally generated wrappers (`/repo/pkg/trait/*/*_wrap.pb.go`,
`Wrap<X>(server)` → `wrap.ServerToClient`): between the router's forwarder and the server's handler sits
pkg/wrap's in-process stream (`/repo/pkg/wrap/stream.go`, `ClientServerStream`).  This file models that
stream as far as a router relies on it: the fold of the calls a handler makes on the server half, and what
the client half (the router's child stream) then yields.

* `SetHeader(md)` joins `md` to the staged header unless the header has gone (`headerC` closed);
* `SendHeader(md)` joins and lets the header go, once;
* `SendMsg(m)` lets the header go if needed (`sendHeaderIfNeeded`) and hands over **a snapshot** of `m`
  (`snapshot(m) = proto.Clone`): the value the message has NOW — the handler owns `m` again as soon as
  `SendMsg` has returned and may overwrite it (`write`);
* `SetTrailer(md)` joins;
* `Close(err)` (the handler returned `err`) lets the header go **whatever `err` is**, then ends the stream.

The client's context is assumed alive (cancellation is the pump's `reqDone`, modelled in Forward.lean as
the end of the observation).  Metadata are lists of opaque tokens in `metadata.Join` order.
-/
namespace ScVerif.C12

/-- One thing a handler does: a call on the server half of the stream, or a write to its own message. -/
inductive HOp where
  | setHeader (h : Tok)          -- `SetHeader(md)` / `grpc.SetHeader(ctx, md)`, `md` non-empty
  | sendHeader (h : Option Tok)  -- `SendHeader(md)` (`none`: nil/empty `md`)
  | write (v : Tok)              -- the handler gives its response message the content `v`
  | send                         -- `SendMsg(m)`, `m` = the handler's message as it is now
  | setTrailer (t : Tok)         -- `SetTrailer(md)` / `grpc.SetTrailer(ctx, md)`
deriving DecidableEq, Repr

/-- `ClientServerStream` + the handler's message. -/
structure WStream where
  header : List Tok      -- `s.header`
  headerSent : Bool      -- `headerC` is closed
  buf : Tok              -- content of the handler's message (the handler's memory, not the stream's)
  out : List Tok         -- what went through `serverSend`, in order
  trailer : List Tok     -- `s.trailer`
deriving DecidableEq, Repr

def WStream.init (buf : Tok) : WStream := ⟨[], false, buf, [], []⟩

/-- `SendHeader(nil)` as used by `sendHeaderIfNeeded` and by `Close`. -/
def WStream.flush (s : WStream) : WStream := { s with headerSent := true }

def wstep (s : WStream) : HOp → WStream
  | .setHeader h => if s.headerSent then s else { s with header := s.header ++ [h] }
  | .sendHeader h => if s.headerSent then s else { s with header := s.header ++ h.toList, headerSent := true }
  | .write v => { s with buf := v }
  | .send => { s.flush with out := s.out ++ [s.buf] }
  | .setTrailer t => { s with trailer := s.trailer ++ [t] }

def wrun (s : WStream) (ops : List HOp) : WStream := ops.foldl wstep s

/-- The handler ran `ops` and returned; `Close` flushes the header. -/
def wclose (buf : Tok) (ops : List HOp) : WStream := (wrun (WStream.init buf) ops).flush

/-- What the router's forwarder sees of its child when the child is the wrapper: the stream always opens,
`Header()` yields the (non-nil) joined metadata, `Recv` yields the handed-over values and then the handler's
status (`nil ↦ io.EOF`), `Trailer()` is nil unless a trailer was set.  `enc` names a joined metadata value. -/
def wrapView (enc : List Tok → Tok) (buf : Tok) (ops : List HOp) (st : Option Tok) : ChildScript :=
  let s := wclose buf ops
  { openErr := none, headerErr := none, header := some (enc s.header), msgs := s.out,
    final := (match st with | none => .eof | some e => .status e),
    trailer := if s.trailer.isEmpty then none else some (enc s.trailer) }

/-! ## Independent statements of what a handler attached / sent (plain recursion on the handler's calls) -/

/-- The header metadata attached before the header went: everything staged or sent up to the first
`SendHeader` / `SendMsg`, or all of it when the handler returned without either. -/
def attached : List HOp → List Tok
  | [] => []
  | .setHeader h :: r => h :: attached r
  | .sendHeader h :: _ => h.toList
  | .send :: _ => []
  | .write _ :: r => attached r
  | .setTrailer _ :: r => attached r

/-- The responses as they were when sent. -/
def sentVals (buf : Tok) : List HOp → List Tok
  | [] => []
  | .write v :: r => sentVals v r
  | .send :: r => buf :: sentVals buf r
  | _ :: r => sentVals buf r

def trailers : List HOp → List Tok
  | [] => []
  | .setTrailer t :: r => t :: trailers r
  | _ :: r => trailers r

/-! ## The wrapped server used by the harness: a second generated router in front of a scripted device -/

def healthy : CallerScript := ⟨none, none, 0⟩

/-- The calls the INNER forwarder makes on the wrapper's server stream, from its own call sequence
(`pumpEvents`); with `reuse` the device overwrites each message with `scr` once `Send` has returned. -/
def hopsOfEvents (reuse : Bool) (scr : Tok) : List PEv → List HOp
  | [] => []
  | .sendHeader h :: r => .sendHeader h :: hopsOfEvents reuse scr r
  | .send m :: r => .write m :: .send :: ((if reuse then [.write scr] else []) ++ hopsOfEvents reuse scr r)
  | .setTrailer t :: r => .setTrailer t :: hopsOfEvents reuse scr r
  | _ :: r => hopsOfEvents reuse scr r

/-- Handler = staging on arrival (`grpc.SetHeader`, `grpc.SetTrailer` on the handler's context), then the
inner forwarder pumping the device's script. -/
def deviceOps (sh st : Option Tok) (cs : ChildScript) (reuse : Bool) (scr : Tok) : List HOp :=
  sh.toList.map .setHeader ++ st.toList.map .setTrailer ++
    hopsOfEvents reuse scr (pumpEvents (.got 0 .registered) cs healthy)

def deviceStatus (cs : ChildScript) : Option Tok := (forwardStream (.got 0 .registered) 0 0 cs healthy).status

/-- Router ∘ Wrap ∘ Router ∘ device: what the outer router's caller observes. -/
def routeWrapped (enc : List Tok → Tok) (got : Res) (method req : Tok) (sh st : Option Tok) (cs : ChildScript)
    (reuse : Bool) (scr : Tok) (k : CallerScript) : Obs :=
  forwardStream got method req (wrapView enc 0 (deviceOps sh st cs reuse scr) (deviceStatus cs)) k

/-! ## Unary call on the wrapper (`wrapper.Invoke` + `collectMetadata`) -/

/-- The handler's calls for a unary method: `ops`, then (if it returned a response) `SendMsg(res)`. -/
def unaryOps (ops : List HOp) : UOut → List HOp
  | .resp m => ops ++ [.write m, .send]
  | .err _ => ops

/-- What `Invoke(ctx, method, args, reply, grpc.Header(&h), grpc.Trailer(&t))` gives the caller. -/
def invokeWrapped (ops : List HOp) (out : UOut) : UOut × List Tok × List Tok :=
  let s := wclose 0 (unaryOps ops out)
  (match out with
    | .err e => .err e
    | .resp _ => (match s.out.head? with | some m => .resp m | none => .err 0),
   s.header, s.trailer)

end ScVerif.C12
