import ScVerif.C12.Props
import ScVerif.C12.Served
import ScVerif.C12.ServedLemmas
import ScVerif.C12.PropsSpan
/-!
# C12 — property theorems, requests served behind the default-name interceptors

"… a request naming N is forwarded exactly once to the client currently registered under N … and the
default-name interceptor fills in only empty names" — composed: transport ▸ interceptor ▸ generated
handler ▸ router ▸ forwarder (`Served.lean`).  A request that arrives WITHOUT a name on a server whose
default name is `d` is forwarded exactly once to the client that resolves under `d`, a request that
carries a name to the client resolving under that name, in both cases with nothing but an empty name
changed — for unary calls, and for server-streaming calls over EVERY transport: the stream
interceptor acts on what the transport's `RecvMsg` delivered, whatever the handler's message held
before and whether the transport overwrites or merges.  Last, forwarding while other goroutines change
the registry (`C12_concurrent_forward`): the child called is one that was registered during the call.

Only property theorems and their non-vacuity examples live in this file.
-/
namespace ScVerif.C12

/-- **Unary calls behind the interceptor.**  For every default name, router configuration and state,
and every request whose message has a string `name` field holding `nm`: the forwarder is handed the
request with only an empty name filled in, the router is asked for `servedName d nm`, exactly one
child call is made — on the client that resolves under that name, carrying that request — and the
child's answer is returned unaltered; when nothing resolves no client is touched and the answer is
NotFound.  A request that names a client is handed on identical. -/
theorem C12_served_unary (d : String) (cfg : Cfg) (s : St) (enc : Msg → Tok) (method : Tok)
    (wire : Msg) (child : Client → Tok → Tok → UOut) (nm : String) (hn : nameOf wire = some nm) :
    FilledFrom wire (serveUnary d cfg s enc method wire child).2.1 (servedName d nm) ∧
    (nm ≠ "" → (serveUnary d cfg s enc method wire child).2.1 = wire) ∧
    (serveUnary d cfg s enc method wire child).1 = (get cfg s (servedName d nm)).1 ∧
    (∀ c, resolve cfg s (servedName d nm) = some c →
      (serveUnary d cfg s enc method wire child).2.2 =
        ([⟨c, method, enc (serveUnary d cfg s enc method wire child).2.1⟩],
          child c method (enc (serveUnary d cfg s enc method wire child).2.1))) ∧
    (resolve cfg s (servedName d nm) = none →
      (serveUnary d cfg s enc method wire child).2.2 = ([], .err notFoundTok)) := by
  have hrn := reqName_replace d wire nm hn
  have hf := C12_forward_unary cfg s (servedName d nm) method (enc (replaceEmptyName d wire)) child
  refine ⟨?_, ?_, ?_, ?_, ?_⟩
  · exact filledFrom_replace d wire nm hn
  · intro hne; exact replace_named d wire nm hn hne
  · simp only [serveUnary, servedName] at hrn ⊢; rw [hrn]
  · intro c hc
    have := hf.1 c hc
    simp only [serveUnary, servedName] at hrn this ⊢; rw [hrn]; exact this
  · intro hc
    have := hf.2 hc
    simp only [serveUnary, servedName] at hrn this ⊢; rw [hrn]; exact this

/-- **Server-streaming calls behind the interceptor, over every transport.**  Whatever the transport's
`RecvMsg` is (`inner`: any function of what the handler's message holds) and whatever the handler's
message `m0` held: if `RecvMsg` delivers `w` (a message with a string `name` field holding `nm`) without
error, the forwarder is handed `w` with only an empty name filled in — nothing of `m0`, nothing set
before the transport ran — the router is asked for `servedName d nm`, and the call is pumped exactly as
`forwardStream` pumps a request naming that client: one child call on the resolved client carrying that
request; NotFound touches no client. -/
theorem C12_served_stream (d : String) (inner : Msg → RecvOut) (cfg : Cfg) (s : St) (enc : Msg → Tok)
    (method : Tok) (m0 w : Msg) (cs : ChildScript) (k : CallerScript) (nm : String)
    (hrecv : inner m0 = ⟨w, none⟩) (hn : nameOf w = some nm) :
    ∃ req, FilledFrom w req (servedName d nm) ∧ (nm ≠ "" → req = w) ∧
      serveStream d inner cfg s enc method m0 cs k =
        ((get cfg s (servedName d nm)).1, some req,
          forwardStream (get cfg s (servedName d nm)).2 method (enc req) cs k) ∧
      (∀ c, resolve cfg s (servedName d nm) = some c →
        (serveStream d inner cfg s enc method m0 cs k).2.2.calls = [⟨c, method, enc req⟩]) ∧
      (resolve cfg s (servedName d nm) = none →
        (serveStream d inner cfg s enc method m0 cs k).2.2 = Obs.failed notFoundTok) := by
  have hrn := reqName_replace d w nm hn
  have hs : serveStream d inner cfg s enc method m0 cs k =
      ((get cfg s (servedName d nm)).1, some (replaceEmptyName d w),
        forwardStream (get cfg s (servedName d nm)).2 method (enc (replaceEmptyName d w)) cs k) := by
    simp only [serveStream, wrappedRecv, hrecv, hrn]
  have hf := C12_forward_stream_call cfg s (servedName d nm) method (enc (replaceEmptyName d w)) cs k
  refine ⟨replaceEmptyName d w, filledFrom_replace d w nm hn, ?_, hs, ?_, ?_⟩
  · intro hne; exact replace_named d w nm hn hne
  · intro c hc; rw [hs]; exact hf.1 c hc
  · intro hc; rw [hs]; exact hf.2 hc

/-- **A failing `RecvMsg` is passed on and nothing else happens**: the handler returns the transport's
error unaltered, the router is not consulted (its state, fallback and factory counters are unchanged),
no client is touched, nothing is sent. -/
theorem C12_served_stream_recv_error (d : String) (inner : Msg → RecvOut) (cfg : Cfg) (s : St)
    (enc : Msg → Tok) (method : Tok) (m0 x : Msg) (e : Tok) (cs : ChildScript) (k : CallerScript)
    (hrecv : inner m0 = ⟨x, some e⟩) :
    serveStream d inner cfg s enc method m0 cs k = (s, none, Obs.failed e) ∧
    (wrappedRecv d inner m0) = ⟨x, some e⟩ := by
  simp [serveStream, wrappedRecv, hrecv]

/-- **Real gRPC and the in-process transport serve a request alike.**  On the message a generated
handler allocates (`new(Req)`, the zero message of the request's type) a transport that overwrites
(grpc's codec) and one that merges (`pkg/wrap`) deliver the same message, so a server-streaming call is
served identically over both — in particular a nameless request reaches the default client over a real
connection exactly as it does in process. -/
theorem C12_served_stream_transport_independent (d : String) (cfg : Cfg) (s : St) (enc : Msg → Tok)
    (method : Tok) (wire : Msg) (cs : ChildScript) (k : CallerScript)
    (io im : Msg → RecvOut)
    (ho : Transport.overwrite.recv wire wire.zero = some (io wire.zero))
    (hm : Transport.merge.recv wire wire.zero = some (im wire.zero)) :
    Transport.merge.recv wire wire.zero = Transport.overwrite.recv wire wire.zero ∧
    serveStream d io cfg s enc method wire.zero cs k = serveStream d im cfg s enc method wire.zero cs k := by
  have h1 : io wire.zero = ⟨wire, none⟩ := by
    simp [Transport.recv] at ho; exact ho.symm
  have h2 : im wire.zero = ⟨wire, none⟩ := by
    simp [Transport.recv, mergeMsg_zero] at hm; exact hm.symm
  refine ⟨by simp [Transport.recv, mergeMsg_zero], ?_⟩
  simp [serveStream, wrappedRecv, h1, h2]

/-- **Stacked interceptors: the outermost non-empty default wins, and applying one twice changes
nothing** (`grpc.ChainUnaryInterceptor(IfAbsent(d₁), IfAbsent(d₂))`). -/
theorem C12_default_name_chain (d₁ d₂ : String) (m : Msg) :
    replaceEmptyName d₁ (replaceEmptyName d₁ m) = replaceEmptyName d₁ m ∧
    (d₁ ≠ "" → replaceEmptyName d₂ (replaceEmptyName d₁ m) = replaceEmptyName d₁ m) :=
  ⟨replace_idem d₁ m, replace_chain d₁ d₂ m⟩

/-- **Forwarding while the registry changes.**  Under every schedule of concurrent Add / Remove / Has /
Get programs, take any finished `Get n` of any thread — the `r.GetXxxClient(request.Name)` of a
forwarder serving a request while other goroutines add and remove clients — and forward with its
result: either exactly one child call is made, on a client that (unless the fallback supplied it) was
registered under `n` at some moment between the Get's invocation and its response, with the method and
request unaltered and the child's answer returned as it is; or no client is touched, the answer is
NotFound and `n` was not registered when the Get started.  There is no third outcome. -/
theorem C12_concurrent_forward (cfg : Cfg) (reg0 : Reg) (k1 k2 : Nat) (progs : List (List Op))
    (sched : List Nat) (t : Nat) (sp : Span) (n : Name) (method req : Tok)
    (child : Client → Tok → Tok → UOut)
    (hsp : sp ∈ (trun cfg (TConf.start reg0 k1 k2 progs) sched).done.getD t [])
    (hop : sp.op = .get n) :
    let glog := (lrun cfg (LConf.start reg0 k1 k2 progs) sched).glog
    (∃ c src, sp.res = .got c src ∧
      forwardUnary sp.res method req child = ([⟨c, method, req⟩], child c method req) ∧
      (src ≠ .fallback → ∃ i, sp.first ≤ i ∧ i < sp.last ∧ sp.last ≤ glog.length ∧
        mapAt reg0 glog (i + 1) n = some c)) ∨
    (sp.res = .notFound ∧ forwardUnary sp.res method req child = ([], .err notFoundTok) ∧
      mapAt reg0 glog sp.first n = none) := by
  intro glog
  have hlive := C12_get_live_client cfg reg0 k1 k2 progs sched t sp n hsp hop
  -- the shape of a Get's result
  have hshape : (∃ c src, sp.res = .got c src) ∨ sp.res = .notFound := by
    have h : TInv cfg reg0 progs (trun cfg (TConf.start reg0 k1 k2 progs) sched) :=
      tinv_trun (tinv_start cfg reg0 k1 k2 progs) sched
    have hex : ∃ th, (trun cfg (TConf.start reg0 k1 k2 progs) sched).c.ths[t]? = some th := by
      rcases Nat.lt_or_ge t (trun cfg (TConf.start reg0 k1 k2 progs) sched).c.ths.length with hl | hl
      · exact ⟨_, List.getElem?_eq_getElem hl⟩
      · have : (trun cfg (TConf.start reg0 k1 k2 progs) sched).done.getD t [] = [] := by
          simp [List.getD, List.getElem?_eq_none (by rw [h.len.2]; exact hl)]
        rw [this] at hsp; cases hsp
    obtain ⟨th, hth⟩ := hex
    obtain ⟨_, _, h3⟩ := (h.ok t th hth).spans sp hsp
    rw [hop] at h3
    cases hr : sp.res with
    | got c src => exact Or.inl ⟨c, src, rfl⟩
    | notFound => exact Or.inr rfl
    | prev o => rw [hr] at h3; simp [Justified] at h3
    | bool b => rw [hr] at h3; simp [Justified] at h3
  rcases hshape with ⟨c, src, hr⟩ | hr
  · refine Or.inl ⟨c, src, hr, by simp [hr, forwardUnary], ?_⟩
    intro hs
    obtain ⟨i, a1, a2, a3, _, a5⟩ := hlive.1 c src hr hs
    exact ⟨i, a1, a2, a3, a5⟩
  · exact Or.inr ⟨hr, by simp [hr, forwardUnary], hlive.2.2 (Or.inl hr)⟩

/-! ## Non-vacuity -/

/-- A nameless Pull request (fields `name`, `read_mask`, `updates_only`), default name `dev`, router
holding `dev ↦ 1`, `other ↦ 2`, an overwriting transport, a handler message that already held a name:
the request reaches client 1 carrying the name `dev`; the child's two messages are pumped. -/
example :
    serveStream "dev" (fun _ => ⟨[⟨"name", true, .str ""⟩, ⟨"read_mask", false, .other 7⟩], none⟩)
      ⟨none, none⟩ ⟨[("dev", 1), ("other", 2)], [], 0, 0⟩ (fun m => m.length) 3
      [⟨"name", true, .str "stale"⟩, ⟨"read_mask", false, .other unsetTok⟩]
      ⟨none, none, some 9, [1, 2], .eof, some 4⟩ ⟨none, none, 0⟩ =
    (⟨[("dev", 1), ("other", 2)], [], 0, 0⟩,
      some [⟨"name", true, .str "dev"⟩, ⟨"read_mask", false, .other 7⟩],
      ⟨[⟨1, 3, 2⟩], some (some 9), [1, 2], 2, 3, some 4, none, false⟩) := by decide

/-- `C12_served_stream_transport_independent`'s hypotheses are met (a nameless request with a mask). -/
example : ∃ io im : Msg → RecvOut,
    let wire : Msg := [⟨"name", true, .str ""⟩, ⟨"read_mask", false, .other 7⟩]
    Transport.overwrite.recv wire wire.zero = some (io wire.zero) ∧
    Transport.merge.recv wire wire.zero = some (im wire.zero) :=
  ⟨fun _ => ⟨[⟨"name", true, .str ""⟩, ⟨"read_mask", false, .other 7⟩], none⟩,
   fun _ => ⟨[⟨"name", true, .str ""⟩, ⟨"read_mask", false, .other 7⟩], none⟩, by decide, by decide⟩

/-- The merging transport keeps a name the handler's message already held when the request has none —
which is why the statement above is about the message a handler really allocates. -/
example : Transport.merge.recv [⟨"name", true, .str ""⟩] [⟨"name", true, .str "stale"⟩] =
    some ⟨[⟨"name", true, .str "stale"⟩], none⟩ := by decide

end ScVerif.C12
