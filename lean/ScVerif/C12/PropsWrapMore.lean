import ScVerif.C12.WrapMoreLemmas
import ScVerif.C12.PropsWrapped
/-!
# C12 — property theorems: every call option of a unary call on a wrapper is filled; after the caller's
# context has ended only metadata the server has SENT is forwarded

"… the error status and the stream header and trailer pass through unaltered", for the registered client
that is a generated wrapper (WrapMore.lean):

* a unary call carries ANY list of call options — several `grpc.Header` / `grpc.Trailer` (the application's
  and a middleware's), in any order, mixed with other options, possibly naming one variable twice: every
  variable named by an option holds the metadata afterwards;
* a routed server-stream whose caller goes away while the handler is still running (for EVERY sequence of
  handler calls made up to then): the header offered to the caller is the attached metadata if the header has
  gone, and nil otherwise — a header that was only staged is not forwarded.

Only property theorems and their non-vacuity examples live in this file.
-/
namespace ScVerif.C12

/-- **`collectMetadata` fills every option**: for every list of call options, every stream header/trailer and
every initial content of the caller's variables, a variable named by a `grpc.Header` option (and by no
`grpc.Trailer` option) holds the header, one named by a `grpc.Trailer` option (and by no `grpc.Header`) the
trailer — however many options of that kind the call carries and wherever they stand — and a variable no
option names is left as it was. -/
theorem C12_every_call_option_filled (hdr tr : List Tok) (opts : List COpt) (mem : Mem) (a : Nat) :
    (COpt.header a ∈ opts → COpt.trailer a ∉ opts → collectMetadata hdr tr opts mem a = some hdr) ∧
    (COpt.trailer a ∈ opts → COpt.header a ∉ opts → collectMetadata hdr tr opts mem a = some tr) ∧
    (COpt.header a ∉ opts → COpt.trailer a ∉ opts → collectMetadata hdr tr opts mem a = mem a) :=
  ⟨collect_header hdr tr opts mem a, collect_trailer hdr tr opts mem a, collect_untouched hdr tr opts mem a⟩

/-- **A unary call on the wrapper with any call options**: for every handler (answering or failing), every
option list and every variable: the answer is the handler's, every `grpc.Header` variable holds exactly the
metadata the handler attached and every `grpc.Trailer` variable what it set (variables are used for one kind). -/
theorem C12_invoke_wrapped_all_options (ops : List HOp) (out : UOut) (opts : List COpt) (mem : Mem)
    (hns : ∀ op ∈ ops, op ≠ .send) :
    (invokeWrappedOpts ops out opts mem).1 = out ∧
    (∀ a, COpt.header a ∈ opts → COpt.trailer a ∉ opts →
      (invokeWrappedOpts ops out opts mem).2 a = some (attached (unaryOps ops out))) ∧
    (∀ a, COpt.trailer a ∈ opts → COpt.header a ∉ opts →
      (invokeWrappedOpts ops out opts mem).2 a = some (trailers ops)) := by
  have h := C12_invoke_wrapped_metadata ops out hns
  simp only [invokeWrappedOpts, h]
  exact ⟨trivial, fun a h1 h2 => collect_header _ _ opts mem a h1 h2,
    fun a h1 h2 => collect_trailer _ _ opts mem a h1 h2⟩

/-- **What the wrapper's client half yields once the call's context has ended** while the handler (which has
made the calls `ops`) is still running: the header is the attached metadata **iff the header has gone**
(`SendHeader` / `SendMsg` happened), else nil; the messages are the ones handed over, as they were when sent;
then the context's error; the trailer what has been set so far. -/
theorem C12_cancelled_stream_view (enc : List Tok → Tok) (buf : Tok) (ops : List HOp) (ce : Tok) :
    cancelView enc buf ops ce =
      { openErr := none, headerErr := none,
        header := if headerGone ops then some (enc (attached ops)) else none,
        msgs := sentVals buf ops, final := .status ce,
        trailer := if (trailers ops).isEmpty then none else some (enc (trailers ops)) } := by
  have h1 := wrun_headerSent ops (WStream.init buf)
  have h2 := wrun_header_open ops (WStream.init buf) rfl
  have h3 := wrun_out ops (WStream.init buf)
  have h4 := wrun_trailer ops (WStream.init buf)
  simp only [WStream.init, Bool.false_or, List.nil_append] at h1 h2 h3 h4
  simp only [cancelView, WStream.init, h1, h2, h3, h4]

/-- **Routed, the caller goes away**: for every handler prefix `ops` the router's caller-side stream is
offered one `SendHeader` — with the attached metadata if the server had let its header go, with nil
otherwise —, every response handed over before, the context's error as the status; one call went to the
client registered under the name. -/
theorem C12_routed_cancelled (c : Client) (src : Src) (method req : Tok) (enc : List Tok → Tok)
    (buf : Tok) (ops : List HOp) (ce : Tok) (k : CallerScript)
    (hsh : k.sendHeaderErr = none) (hok : ∀ j, k.failAt = some j → (sentVals buf ops).length ≤ j) :
    forwardStream (.got c src) method req (cancelView enc buf ops ce) k =
      ⟨[⟨c, method, req⟩], some (if headerGone ops then some (enc (attached ops)) else none),
        sentVals buf ops, (sentVals buf ops).length, (sentVals buf ops).length + 1,
        if (trailers ops).isEmpty then none else some (enc (trailers ops)), some ce, false⟩ := by
  rw [C12_cancelled_stream_view]
  have := pumpLoop_all k.failAt (sentVals buf ops) 0 (by intro j hj; right; simpa using hok j hj)
  simp [forwardStream, hsh, this, errToStatus]

/-- **A header that was only staged is never forwarded after a cancel**: the handler staged any number of
headers (and trailers), sent nothing, and is parked when the caller's context ends — the caller-side stream
is offered a nil header, no message, and the cancellation as status. -/
theorem C12_staged_header_not_forwarded_after_cancel (c : Client) (src : Src) (method req : Tok)
    (enc : List Tok → Tok) (buf : Tok) (hs ts : List Tok) (ce : Tok) (k : CallerScript)
    (hsh : k.sendHeaderErr = none) :
    let o := forwardStream (.got c src) method req
      (cancelView enc buf (hs.map .setHeader ++ ts.map .setTrailer) ce) k
    o.header = some none ∧ o.sent = [] ∧ o.status = some ce := by
  have hv := sentVals_stagedLists buf hs ts
  have hg := headerGone_stagedLists hs ts
  have := C12_routed_cancelled c src method req enc buf (hs.map .setHeader ++ ts.map .setTrailer) ce k hsh
    (by intro j _; simp [hv])
  simp only [this, hv, hg]
  simp

/-- **A unary call on the wrapper whose caller goes away while the handler runs**: the call fails with the
context's error; every `grpc.Header` variable holds the attached metadata if the server had let its header go
and nothing otherwise (staged metadata stays with the server), every `grpc.Trailer` variable what was set. -/
theorem C12_invoke_cancelled_metadata (ops : List HOp) (ce : Tok) (opts : List COpt) (mem : Mem) :
    (invokeCancelled ops ce opts mem).1 = .err ce ∧
    (∀ a, COpt.header a ∈ opts → COpt.trailer a ∉ opts →
      (invokeCancelled ops ce opts mem).2 a = some (if headerGone ops then attached ops else [])) ∧
    (∀ a, COpt.trailer a ∈ opts → COpt.header a ∉ opts →
      (invokeCancelled ops ce opts mem).2 a = some (trailers ops)) := by
  have h1 := wrun_headerSent ops (WStream.init 0)
  have h2 := wrun_header_open ops (WStream.init 0) rfl
  have h4 := wrun_trailer ops (WStream.init 0)
  simp only [WStream.init, Bool.false_or, List.nil_append] at h1 h2 h4
  simp only [invokeCancelled, WStream.init, h1, h2, h4]
  exact ⟨trivial, fun a ha hb => collect_header _ _ opts mem a ha hb,
    fun a ha hb => collect_trailer _ _ opts mem a ha hb⟩

/-- **Router ∘ Wrap ∘ Router ∘ device, the caller goes away while the device is parked**: parked inside its
`Header()` (nothing sent yet: `park = none`) the caller-side stream is offered a nil header whatever the
device staged; parked in the `Recv` after `n` messages the header is `staged ++ sent` and exactly the first
`n` messages arrived, as they were when sent (whether or not the device overwrites them afterwards); the
status is the context's error; of the trailer only what was staged on arrival. -/
theorem C12_router_wrap_router_device_cancelled (c : Client) (src : Src) (method req : Tok)
    (enc : List Tok → Tok) (sh st : Option Tok) (cs : ChildScript) (park : Option Nat) (reuse : Bool)
    (scr ce : Tok) (k : CallerScript) (hsh : k.sendHeaderErr = none) (hk : k.failAt = none) :
    routeCancelled enc (.got c src) method req sh st cs park reuse scr ce k =
      ⟨[⟨c, method, req⟩],
        some (match park with | none => none | some _ => some (enc (sh.toList ++ cs.header.toList))),
        (match park with | none => [] | some n => cs.msgs.take n),
        (match park with | none => 0 | some n => (cs.msgs.take n).length),
        (match park with | none => 0 | some n => (cs.msgs.take n).length) + 1,
        if st.toList.isEmpty then none else some (enc st.toList), some ce, false⟩ := by
  have hmsgs : sentVals 0 (parkedOps sh st cs park reuse scr) =
      (match park with | none => [] | some n => cs.msgs.take n) := by
    unfold parkedOps
    rw [sentVals_append_nosend _ _ _ (staged_nosend sh st)]
    cases park with
    | none => simp [parkedEvents, hopsOfEvents, sentVals]
    | some n =>
      simp only [parkedEvents, List.cons_append, List.nil_append, hopsOfEvents, sentVals]
      exact sentVals_pairs reuse scr 0 (cs.msgs.take n) [.recv] (by intro b; simp [hopsOfEvents, sentVals])
  have hatt : attached (parkedOps sh st cs park reuse scr) =
      (match park with | none => sh.toList | some _ => sh.toList ++ cs.header.toList) := by
    unfold parkedOps
    rw [attached_append_noflush _ _ (staged_noflush sh st), staged_attached]
    cases park <;> simp [parkedEvents, hopsOfEvents, attached]
  have hgone : headerGone (parkedOps sh st cs park reuse scr) = park.isSome := by
    unfold parkedOps
    rw [headerGone_append_noflush _ _ (staged_noflush sh st)]
    cases park <;> simp [parkedEvents, hopsOfEvents, headerGone]
  have htr : trailers (parkedOps sh st cs park reuse scr) = st.toList := by
    unfold parkedOps
    rw [trailers_append, staged_trailers]
    cases park with
    | none => simp [parkedEvents, hopsOfEvents, trailers]
    | some n =>
      simp only [parkedEvents, List.cons_append, List.nil_append, hopsOfEvents, trailers, trailers_pairs]
      simp
  unfold routeCancelled
  rw [C12_routed_cancelled c src method req enc 0 _ ce k hsh (by intro j hj; rw [hk] at hj; cases hj),
    hmsgs, hatt, hgone, htr]
  cases park <;> simp

/-- **Going away only cuts the call short**: let a handler make the calls `ops ++ more` and end with any status.
For every caller script, what the router gave a caller whose context ended after `ops` is the beginning of what
it gives a caller that stays to the end: the same call on the same client, the responses a prefix of the full
call's responses, and header metadata — if any was offered — equal to the full call's.  Nothing is invented,
reordered or altered by the cancellation. -/
theorem C12_cancelled_call_is_a_prefix (got : Res) (method req : Tok) (enc : List Tok → Tok) (buf : Tok)
    (ops more : List HOp) (ce : Tok) (st : Option Tok) (k : CallerScript) :
    let oc := forwardStream got method req (cancelView enc buf ops ce) k
    let ofull := forwardStream got method req (wrapView enc buf (ops ++ more) st) k
    oc.calls = ofull.calls ∧ (∃ rest, ofull.sent = oc.sent ++ rest) ∧
    (∀ h, oc.header = some (some h) → ofull.header = some (some h)) := by
  have hv1 := C12_cancelled_stream_view enc buf ops ce
  have hv2 := C12_wrapped_stream_view enc buf (ops ++ more) st
  generalize cancelView enc buf ops ce = cv at hv1 ⊢
  generalize wrapView enc buf (ops ++ more) st = wv at hv2 ⊢
  have a1 : cv.openErr = none := by rw [hv1]
  have a2 : cv.headerErr = none := by rw [hv1]
  have a3 : cv.header = if headerGone ops then some (enc (attached ops)) else none := by rw [hv1]
  have a4 : cv.msgs = sentVals buf ops := by rw [hv1]
  have b1 : wv.openErr = none := by rw [hv2]
  have b2 : wv.headerErr = none := by rw [hv2]
  have b3 : wv.header = some (enc (attached (ops ++ more))) := by rw [hv2]
  have b4 : wv.msgs = sentVals buf (ops ++ more) := by rw [hv2]
  cases got with
  | got c src =>
    have h1 := forwardStream_open_parts c src method req cv k a1 a2
    have h2 := forwardStream_open_parts c src method req wv k b1 b2
    simp only at h1 h2
    refine ⟨by rw [h1.1, h2.1], ?_, ?_⟩
    · rw [h1.2.2, h2.2.2, a4, b4]
      cases k.sendHeaderErr with
      | some e => exact ⟨[], rfl⟩
      | none =>
        simp only [sentVals_append]
        exact pumpLoop_append_prefix _ _ _ _
    · intro h hh
      rw [h1.2.1, a3] at hh
      rw [h2.2.1, b3]
      by_cases hg : headerGone ops = true
      · simp only [hg, if_true] at hh
        rw [attached_append_gone ops more hg]
        exact hh
      · simp [hg] at hh
  | prev _ => exact ⟨rfl, ⟨[], rfl⟩, fun h hh => by simp [forwardStream] at hh⟩
  | bool _ => exact ⟨rfl, ⟨[], rfl⟩, fun h hh => by simp [forwardStream] at hh⟩
  | notFound => exact ⟨rfl, ⟨[], rfl⟩, fun h hh => by simp [forwardStream] at hh⟩

/-! ## Non-vacuity / illustrations -/

/-- application + middleware: two header options and two trailer options, all four variables filled. -/
example : let m := collectMetadata [7, 9] [6] [.header 1, .trailer 2, .other, .header 3, .trailer 4] (fun _ => none)
    (m 1, m 2, m 3, m 4, m 5) = (some [7, 9], some [6], some [7, 9], some [6], none) := by decide

/-- staged header, parked, the caller cancels: nil header; after `SendHeader` the joined header. -/
example : ((cancelView (fun l => l.foldl (· * 100 + ·) 0) 0 [.setHeader 7] 1).header,
    (cancelView (fun l => l.foldl (· * 100 + ·) 0) 0 [.setHeader 7, .sendHeader (some 9), .write 3, .send] 1).header,
    (cancelView (fun l => l.foldl (· * 100 + ·) 0) 0 [.setHeader 7, .sendHeader (some 9), .write 3, .send] 1).msgs) =
    (none, some 709, [3]) := by decide

example : (routeCancelled (fun l => l.foldl (· * 100 + ·) 0) (.got 3 .registered) 1 5 (some 7) (some 6)
    ⟨none, none, some 9, [1, 2], .eof, none⟩ none true 998 1 ⟨none, none, 0⟩).header = some none := by decide

end ScVerif.C12
