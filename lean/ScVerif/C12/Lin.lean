import ScVerif.C12.Registry
/-!
# C12 — concurrent Add / Remove / Has / Get on one router: the registry as a linearizable map

Every thread runs a program (a list of `Op`).  Atomic steps are the lock-delimited sections of
`/repo/pkg/router/router.go` and the calls made while no lock is held:

```
Add     [Lock; old := reg[n]; reg[n] = c; Unlock]                      ▸ onChange(Change{n, old, c})
Remove  [Lock; old, ok := reg[n]; if !ok {Unlock; return}; delete; Unlock] ▸ onChange(Change{n, old, nil})
Has     [RLock; _, ok := reg[n]; RUnlock]
Get     [RLock; read; RUnlock] ▸ fallback ▸ factory ▸ [Lock; re-check / insert; Unlock] ▸ onChange(Auto)
```

Ghost state (not in the Go code): `glog`, the primitive map operation performed by every lock section
with the result it observed, in the order the lock sections happened; `clog`, the registry transitions
in the order they were committed.  `st.log` is the order in which `onChange` calls were *delivered*.
-/
namespace ScVerif.C12

/-- The primitive map operations performed inside lock sections. -/
inductive LOp where
  | put (n : Name) (c : Client)      -- Add
  | del (n : Name)                   -- Remove
  | has (n : Name)                   -- Has
  | read (n : Name)                  -- Get: first registry read
  | pia (n : Name) (c : Client)      -- Get: locked re-check / insert = put-if-absent
deriving DecidableEq, Repr

inductive LRes where
  | opt (o : Option Client)
  | bool (b : Bool)
  | pia (winner : Client) (inserted : Bool)
deriving DecidableEq, Repr

/-- Sequential specification of the primitives on a total-function map. -/
def lspec (m : SMap) : LOp → SMap × LRes
  | .put n c => (m.upd n (some c), .opt (m n))
  | .del n => (m.upd n none, .opt (m n))
  | .has n => (m, .bool (m n).isSome)
  | .read n => (m, .opt (m n))
  | .pia n c =>
    match m n with
    | some w => (m, .pia w false)
    | none => (m.upd n (some c), .pia c true)

def lspecRun (m : SMap) : List LOp → SMap × List LRes
  | [] => (m, [])
  | op :: ops =>
    let r := lspec m op
    let rs := lspecRun r.1 ops
    (rs.1, r.2 :: rs.2)

inductive LPC where
  | idle                                  -- between operations
  | notify (ch : Change) (r : Res)        -- lock section done; about to call onChange(ch), then return r
  | fallback (n : Name)
  | factory (n : Name)
  | insert (n : Name) (c : Client)
deriving DecidableEq, Repr

structure LThread where
  prog : List Op                    -- operations still to start
  pc : LPC
  results : List Res                -- results of the finished operations
  seen : List (LOp × LRes)          -- what this thread's own lock sections did and observed
deriving DecidableEq, Repr

/-- One ghost-log entry: which thread's lock section, what it did, what it observed. -/
structure GEntry where
  tid : Nat
  op : LOp
  res : LRes
deriving DecidableEq, Repr

structure LConf where
  st : St
  ths : List LThread
  glog : List GEntry
  clog : List Change
deriving DecidableEq, Repr

/-- What one atomic step of a thread does. -/
structure Effect where
  st : St                           -- shared state afterwards (registry, counters; NOT the delivered log)
  th : LThread
  g : Option (LOp × LRes)           -- lock section performed
  commit : Option Change            -- transition committed by that lock section
  deliver : Option Change           -- onChange call made

def LThread.finish (th : LThread) (rest : List Op) (r : Res) : LThread :=
  { th with prog := rest, pc := .idle, results := th.results ++ [r] }

def LThread.see (th : LThread) (op : LOp) (res : LRes) : LThread :=
  { th with seen := th.seen ++ [(op, res)] }

/-- The step of a thread in state `th` on shared state `s`. `none`: nothing to do (stutter). -/
def action (cfg : Cfg) (s : St) (th : LThread) : Option Effect :=
  match th.pc with
  | .idle =>
    match th.prog with
    | [] => none
    | .add n c :: rest =>
      let old := s.reg.get n
      let ch : Change := ⟨n, old, some c, false⟩
      some ⟨{ s with reg := s.reg.set n c },
        { (th.see (.put n c) (.opt old)) with prog := rest, pc := .notify ch (.prev old) },
        some (.put n c, .opt old), some ch, none⟩
    | .remove n :: rest =>
      match s.reg.get n with
      | none => some ⟨s, (th.see (.del n) (.opt none)).finish rest (.prev none), some (.del n, .opt none), none, none⟩
      | some o =>
        let ch : Change := ⟨n, some o, none, false⟩
        some ⟨{ s with reg := s.reg.erase n },
          { (th.see (.del n) (.opt (some o))) with prog := rest, pc := .notify ch (.prev (some o)) },
          some (.del n, .opt (some o)), some ch, none⟩
    | .has n :: rest =>
      let b := (s.reg.get n).isSome
      some ⟨s, (th.see (.has n) (.bool b)).finish rest (.bool b), some (.has n, .bool b), none, none⟩
    | .get n :: rest =>
      match s.reg.get n with
      | some c => some ⟨s, (th.see (.read n) (.opt (some c))).finish rest (.got c .registered),
          some (.read n, .opt (some c)), none, none⟩
      | none => some ⟨s, { (th.see (.read n) (.opt none)) with prog := rest, pc := .fallback n },
          some (.read n, .opt none), none, none⟩
  | .fallback n =>
    let r := invoke cfg.fallback n s.nfb
    let s1 : St := if r.2 then { s with nfb := s.nfb + 1 } else s
    match r.1 with
    | some c => some ⟨s1, th.finish th.prog (.got c .fallback), none, none, none⟩
    | none => some ⟨s1, { th with pc := .factory n }, none, none, none⟩
  | .factory n =>
    let r := invoke cfg.factory n s.nfac
    let s1 : St := if r.2 then { s with nfac := s.nfac + 1 } else s
    match r.1 with
    | some c => some ⟨s1, { th with pc := .insert n c }, none, none, none⟩
    | none => some ⟨s1, th.finish th.prog .notFound, none, none, none⟩
  | .insert n c =>
    match s.reg.get n with
    | some w => some ⟨s, (th.see (.pia n c) (.pia w false)).finish th.prog (.got w .registered),
        some (.pia n c, .pia w false), none, none⟩
    | none =>
      let ch : Change := ⟨n, none, some c, true⟩
      some ⟨{ s with reg := s.reg.set n c },
        { (th.see (.pia n c) (.pia c true)) with pc := .notify ch (.got c .factory) },
        some (.pia n c, .pia c true), some ch, none⟩
  | .notify ch r => some ⟨s, th.finish th.prog r, none, none, some ch⟩

def optList {α : Type} : Option α → List α
  | none => []
  | some a => [a]

/-- One atomic step of thread `t` (scheduling a missing or finished thread is a stutter). -/
def lstep (cfg : Cfg) (c : LConf) (t : Nat) : LConf :=
  match c.ths[t]? with
  | none => c
  | some th =>
    match action cfg c.st th with
    | none => c
    | some e =>
      { st := { e.st with log := c.st.log ++ optList e.deliver },
        ths := c.ths.set t e.th,
        glog := c.glog ++ (optList e.g).map (fun p => ⟨t, p.1, p.2⟩),
        clog := c.clog ++ optList e.commit }

def lrun (cfg : Cfg) (c : LConf) : List Nat → LConf
  | [] => c
  | t :: ts => lrun cfg (lstep cfg c t) ts

def LConf.start (reg0 : Reg) (nfb nfac : Nat) (progs : List (List Op)) : LConf :=
  ⟨⟨reg0, [], nfb, nfac⟩, progs.map (fun p => ⟨p, .idle, [], []⟩), [], []⟩

/-- The change a thread has committed but not yet delivered. -/
def pendingOf (th : LThread) : Option Change :=
  match th.pc with
  | .notify ch _ => some ch
  | _ => none

def pending (ths : List LThread) : List Change := ths.filterMap pendingOf

/-- `sched` never runs a thread while ANOTHER thread still owes its `onChange` call
(callbacks are never overtaken). -/
def promptRun (cfg : Cfg) (c : LConf) : List Nat → Bool
  | [] => true
  | t :: ts =>
    ((List.range c.ths.length).all fun i => i == t || (pendingOf (c.ths.getD i ⟨[], .idle, [], []⟩)).isNone) &&
      promptRun cfg (lstep cfg c t) ts

end ScVerif.C12
