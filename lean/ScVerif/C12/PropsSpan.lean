import ScVerif.C12.SpanLemmas
/-!
# C12 — property theorems, what concurrent operations may return (mixed Add / Remove / Has / Get)

`C12_registry_linearizable` (PropsLin.lean) is about the lock sections.  Here the statement is about
whole *operations*, under every schedule of threads running arbitrary programs of all four operations:
each finished operation has a span `[first, last)` of global lock-section time inside its own
invoke–response interval, and its result is the map specification's answer at one of the thread's own
lock sections inside that span.  For `Get` (which is not atomic: read ▸ fallback ▸ factory ▸
put-if-absent) this says: the client it returns was registered under the name at some moment between
its invocation and its response — possibly put there by a concurrent `Add`, or by its own or another
thread's factory commit — and never a client that had been removed before the Get started and was not
put back.

Only property theorems and their non-vacuity examples live in this file.
-/
namespace ScVerif.C12

/-- **Every result of every concurrent operation is justified inside its own span.**  For every
configuration, initial registry, thread programs over Add/Remove/Has/Get and every schedule, with the
ghost bookkeeping of `Span.lean` (which does not change the run): for every thread, its results are
exactly those of its finished operations, these are (with the at most one operation in flight and the
operations not yet started) its program, in order; every finished operation ran during a non-empty span
of lock-section time that lies in the past; and its result is `Justified` there:
* `Add n c ↦ prev o`: at its lock section the registry held `o` under `n`, and `c` right after;
* `Remove n ↦ prev o`: the registry held `o` under `n`, and nothing right after;
* `Has n ↦ b`: `b` says whether `n` was registered at its lock section;
* `Get n ↦ NotFound`: `n` was not registered when the Get started;
* `Get n ↦ c` from the fallback: `n` was not registered when the Get started and the fallback supplies `c`;
* `Get n ↦ c` otherwise: right after one of this thread's own lock sections inside the span the
  registry held `c` under `n`. -/
theorem C12_concurrent_results_justified (cfg : Cfg) (reg0 : Reg) (k1 k2 : Nat) (progs : List (List Op))
    (sched : List Nat) :
    let tc := trun cfg (TConf.start reg0 k1 k2 progs) sched
    tc.c = lrun cfg (LConf.start reg0 k1 k2 progs) sched ∧
    ∀ t th, tc.c.ths[t]? = some th →
      th.results = (tc.done.getD t []).map (·.res) ∧
      progs.getD t [] =
        (tc.done.getD t []).map (·.op) ++ ((tc.cur.getD t none).map (·.1)).toList ++ th.prog ∧
      ∀ sp ∈ tc.done.getD t [], sp.first < sp.last ∧ sp.last ≤ tc.c.glog.length ∧
        Justified cfg reg0 tc.c.glog t sp.op sp.res sp.first sp.last := by
  intro tc
  have h : TInv cfg reg0 progs tc := tinv_trun (tinv_start cfg reg0 k1 k2 progs) sched
  refine ⟨trun_c cfg _ sched, ?_⟩
  intro t th hth
  have ok := h.ok t th hth
  exact ⟨ok.results, ok.prog, ok.spans⟩

/-- **A concurrent Get returns a client that was live during the Get.**  Under every schedule of mixed
Add/Remove/Has/Get programs, for every finished `Get n` of any thread `t`:
1. if it returned a client `c` that did not come from the fallback, then there is a lock section `i` of
   thread `t` itself with `first ≤ i < last` (so between the Get's invocation and its response) right
   after which the registry held `c` under `n`;
2. hence if at no moment of its span the registry held `c` under `n` — in particular if `c` was removed
   before the Get started and not put back — the Get does not return `c` as a registered or
   factory-made client;
3. if it answered NotFound, or returned the fallback's client, `n` was not registered when it started. -/
theorem C12_get_live_client (cfg : Cfg) (reg0 : Reg) (k1 k2 : Nat) (progs : List (List Op))
    (sched : List Nat) (t : Nat) (sp : Span) (n : Name)
    (hsp : sp ∈ (trun cfg (TConf.start reg0 k1 k2 progs) sched).done.getD t [])
    (hop : sp.op = .get n) :
    let glog := (lrun cfg (LConf.start reg0 k1 k2 progs) sched).glog
    (∀ c src, sp.res = .got c src → src ≠ .fallback →
      ∃ i, sp.first ≤ i ∧ i < sp.last ∧ sp.last ≤ glog.length ∧ (glog[i]?).map (·.tid) = some t ∧
        mapAt reg0 glog (i + 1) n = some c) ∧
    (∀ c, (∀ i, sp.first ≤ i → i < sp.last → mapAt reg0 glog (i + 1) n ≠ some c) →
      sp.res ≠ .got c .registered ∧ sp.res ≠ .got c .factory) ∧
    ((sp.res = .notFound ∨ ∃ c, sp.res = .got c .fallback) → mapAt reg0 glog sp.first n = none) := by
  intro glog
  have h : TInv cfg reg0 progs (trun cfg (TConf.start reg0 k1 k2 progs) sched) :=
    tinv_trun (tinv_start cfg reg0 k1 k2 progs) sched
  have hc := trun_c cfg (TConf.start reg0 k1 k2 progs) sched
  have hg : (trun cfg (TConf.start reg0 k1 k2 progs) sched).c.glog = glog := by rw [hc]; rfl
  -- the thread exists, since its bookkeeping is not empty
  have hlen := h.len
  have hex : ∃ th, (trun cfg (TConf.start reg0 k1 k2 progs) sched).c.ths[t]? = some th := by
    rcases Nat.lt_or_ge t (trun cfg (TConf.start reg0 k1 k2 progs) sched).c.ths.length with hl | hl
    · exact ⟨_, List.getElem?_eq_getElem hl⟩
    · have : (trun cfg (TConf.start reg0 k1 k2 progs) sched).done.getD t [] = [] := by
        simp [List.getD, List.getElem?_eq_none (by rw [hlen.2]; exact hl)]
      rw [this] at hsp; cases hsp
  obtain ⟨th, hth⟩ := hex
  obtain ⟨h1, h2, h3⟩ := (h.ok t th hth).spans sp hsp
  rw [hg] at h2 h3
  rw [hop] at h3
  have key : ∀ c src, sp.res = .got c src → src ≠ .fallback →
      ∃ i, sp.first ≤ i ∧ i < sp.last ∧ sp.last ≤ glog.length ∧ (glog[i]?).map (·.tid) = some t ∧
        mapAt reg0 glog (i + 1) n = some c := by
    intro c src hr hs
    rw [hr] at h3
    cases src with
    | fallback => exact absurd rfl hs
    | registered =>
      simp only [Justified] at h3
      obtain ⟨i, a1, a2, a3, a4⟩ := h3
      exact ⟨i, a1, a2, h2, a3, a4⟩
    | factory =>
      simp only [Justified] at h3
      obtain ⟨i, a1, a2, a3, a4⟩ := h3
      exact ⟨i, a1, a2, h2, a3, a4⟩
  refine ⟨key, ?_, ?_⟩
  · intro c hall
    refine ⟨?_, ?_⟩
    · intro hr
      obtain ⟨i, a1, a2, _, _, a4⟩ := key c .registered hr (by simp)
      exact hall i a1 a2 a4
    · intro hr
      obtain ⟨i, a1, a2, _, _, a4⟩ := key c .factory hr (by simp)
      exact hall i a1 a2 a4
  · rintro (hr | ⟨c, hr⟩)
    · rw [hr] at h3; simpa [Justified] using h3
    · rw [hr] at h3; simp only [Justified] at h3; exact h3.1

/-- Non-vacuity: a Get racing with an Add and a Remove of the same name, with a factory.  Thread 0's Get
misses (time 0), thread 1 adds client 1 (time 1) — thread 0's put-if-absent (time 2) then finds and
returns client 1, registered during the Get's span `[0, 3)`; thread 1's Remove comes later (time 3). -/
example :
    (trun ⟨none, some fun _ k => ⟨some (1000 + k), false⟩⟩
      (TConf.start [] 0 0 [[.get "n"], [.add "n" 1, .remove "n"]]) [0, 1, 0, 0, 0, 1, 1, 1]).done =
      [[⟨.get "n", .got 1 .registered, 0, 3⟩],
       [⟨.add "n" 1, .prev none, 1, 3⟩, ⟨.remove "n", .prev (some 1), 3, 4⟩]] := by
  decide

/-- …and when the Remove is over before the Get starts, the Get cannot return the removed client: the
factory makes a new one. -/
example :
    (trun ⟨none, some fun _ k => ⟨some (1000 + k), false⟩⟩
      (TConf.start [("n", 1)] 0 0 [[.get "n"], [.remove "n"]]) [1, 1, 0, 0, 0, 0, 0]).done =
      [[⟨.get "n", .got 1000 .factory, 1, 3⟩], [⟨.remove "n", .prev (some 1), 0, 1⟩]] := by
  decide

end ScVerif.C12
