import ScVerif.C12.Registry
/-!
# C12 — the generated forwarders (`/repo/cmd/protoc-gen-router/router.go.gotxt`)

Payloads (requests, responses, metadata, error statuses) are opaque tokens: the forwarders never
look inside them (apart from `request.Name`, which selects the client and is modelled by the
registry).  A status is `0 = OK/nil`, `1 = io.EOF` (client streams only), anything else is a gRPC
status error identified by its token.
-/
namespace ScVerif.C12

abbrev Tok := Nat

/-- `error` values seen by the forwarders. -/
inductive Err where
  | eof                 -- io.EOF from `stream.Recv`
  | status (e : Tok)    -- any other non-nil error (status code + message + details: one token)
deriving DecidableEq, Repr

/-- One recorded call on a child client. -/
structure Call where
  client : Client
  method : Tok
  req : Tok
deriving DecidableEq, Repr

/-- The gRPC status `NotFound` produced by `router.Get`; a reserved token. -/
def notFoundTok : Tok := 5

/-! ## Unary -/

/-- What a child answers to a unary call: `(response, nil)` or `(nil, err)`. -/
inductive UOut where
  | resp (m : Tok)
  | err (e : Tok)
deriving DecidableEq, Repr

/-- Generated unary forwarder:
```
child, err := r.GetXxxClient(request.Name); if err != nil { return nil, err }
return child.Method(ctx, request)
```
`got` is the outcome of `Get(request.Name)`, `child` the behaviour of every client. -/
def forwardUnary (got : Res) (method req : Tok) (child : Client → Tok → Tok → UOut) : List Call × UOut :=
  match got with
  | .got c _ => ([⟨c, method, req⟩], child c method req)
  | _ => ([], .err notFoundTok)

/-! ## Server streaming: the pump -/

/-- What the child's stream will do (its *script*). -/
structure ChildScript where
  openErr : Option Tok      -- `child.PullXxx(reqCtx, request)` fails
  headerErr : Option Tok    -- `stream.Header()` fails
  header : Option Tok       -- the header metadata (`none` = nil MD)
  msgs : List Tok           -- messages `Recv` returns, in order
  final : Err               -- the error `Recv` returns after the messages (EOF or a status)
  trailer : Option Tok      -- `stream.Trailer()` (`none` = nil MD)
deriving DecidableEq, Repr

/-- What the caller's server stream will do. -/
structure CallerScript where
  sendHeaderErr : Option Tok   -- `server.SendHeader` fails
  failAt : Option Nat          -- the `Send` with this 0-based index fails …
  sendErr : Tok                -- … with this error
deriving DecidableEq, Repr

/-- Everything observable of one pumped call. -/
structure Obs where
  calls : List Call            -- calls made on child clients
  header : Option (Option Tok) -- argument of `server.SendHeader`, if it was called
  sent : List Tok              -- messages the caller accepted, in order
  sends : Nat                  -- number of `server.Send` calls
  recvs : Nat                  -- number of `stream.Recv` calls
  trailer : Option Tok         -- argument of `server.SetTrailer`, if it was called
  status : Option Tok          -- what the handler returned (`none` = nil = OK)
  cancelled : Bool             -- whether `reqDone()` was called (child context cancelled)
deriving DecidableEq, Repr

/-- The `for` loop: `i` is the index of the next `Send`.  Returns the accepted messages, the number
of `Send` and `Recv` calls and whether the loop ended by a caller error. -/
def pumpLoop (failAt : Option Nat) : List Tok → Nat → List Tok × Nat × Nat × Bool
  | [], _ => ([], 0, 1, false)                       -- Recv returns the final error
  | m :: ms, i =>
    if failAt = some i then ([], 1, 1, true)         -- Recv ok, Send fails
    else
      let (sent, s, r, ce) := pumpLoop failAt ms (i + 1)
      (m :: sent, s + 1, r + 1, ce)

def errToStatus : Err → Option Tok
  | .eof => none
  | .status e => some e

/-- Generated server-streaming forwarder. -/
def forwardStream (got : Res) (method req : Tok) (cs : ChildScript) (k : CallerScript) : Obs :=
  match got with
  | .got c _ =>
    let calls := [⟨c, method, req⟩]
    match cs.openErr with
    | some e => ⟨calls, none, [], 0, 0, none, some e, false⟩
    | none =>
      match cs.headerErr with
      | some e => ⟨calls, none, [], 0, 0, none, some e, false⟩
      | none =>
        match k.sendHeaderErr with
        | some e => ⟨calls, some cs.header, [], 0, 0, none, some e, false⟩
        | none =>
          let (sent, s, r, callerError) := pumpLoop k.failAt cs.msgs 0
          if callerError then
            ⟨calls, some cs.header, sent, s, r, none, some k.sendErr, true⟩
          else
            ⟨calls, some cs.header, sent, s, r, cs.trailer, errToStatus cs.final, false⟩
  | _ => ⟨[], none, [], 0, 0, none, some notFoundTok, false⟩

end ScVerif.C12
