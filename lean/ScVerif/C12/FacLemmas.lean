import ScVerif.C12.Fac
import ScVerif.C12.LinLemmas
/-! Invariants about fallback / factory accounting (helper file: no property theorems here). -/
namespace ScVerif.C12

theorem FactoryMade.mono {cfg : Cfg} {lo hi hi' : Nat} {n : Name} {c : Client}
    (h : FactoryMade cfg lo hi n c) (hh : hi ≤ hi') : FactoryMade cfg lo hi' n c := by
  obtain ⟨k, h1, h2, h3⟩ := h
  exact ⟨k, h1, by omega, h3⟩

theorem FallbackMade.mono {cfg : Cfg} {lo hi hi' : Nat} {c : Client}
    (h : FallbackMade cfg lo hi c) (hh : hi ≤ hi') : FallbackMade cfg lo hi' c := by
  obtain ⟨n, k, h1, h2, h3⟩ := h
  exact ⟨n, k, h1, by omega, h3⟩

theorem PcOk.mono {cfg : Cfg} {k2 hi hi' : Nat} {cl cl' : List Change} {th : LThread}
    (h : PcOk cfg k2 hi cl th) (hh : hi ≤ hi') (hc : ∀ x, x ∈ cl → x ∈ cl') : PcOk cfg k2 hi' cl' th := by
  unfold PcOk at h ⊢
  split
  · next n c hpc => rw [hpc] at h; exact FactoryMade.mono h hh
  · next ch r hpc => rw [hpc] at h; exact ⟨hc _ h.1, h.2⟩
  · trivial

theorem AutoOk.mono {cfg : Cfg} {k2 hi hi' : Nat} {ch : Change}
    (h : AutoOk cfg k2 hi ch) (hh : hi ≤ hi') : AutoOk cfg k2 hi' ch := by
  intro ha
  obtain ⟨h1, cl, h2, h3⟩ := h ha
  exact ⟨h1, cl, h2, FactoryMade.mono h3 hh⟩

theorem ResOk.mono {cfg : Cfg} {k1 hi hi' : Nat} {cl cl' : List Change} {r : Res}
    (h : ResOk cfg k1 hi cl r) (hh : hi ≤ hi') (hc : ∀ x, x ∈ cl → x ∈ cl') : ResOk cfg k1 hi' cl' r := by
  intro c src hr
  obtain ⟨h1, h2⟩ := h c src hr
  exact ⟨fun hs => by obtain ⟨n, hn⟩ := h1 hs; exact ⟨n, hc _ hn⟩, fun hs => FallbackMade.mono (h2 hs) hh⟩

/-- Everything the accounting invariant needs to know about one step, by one case analysis. -/
theorem fac_facts (cfg : Cfg) (k1 k2 : Nat) (clog : List Change) (s : St) (th : LThread) (e : Effect)
    (h : action cfg s th = some e) (hpc : PcOk cfg k2 s.nfac clog th) (hk1 : k1 ≤ s.nfb) (hk2 : k2 ≤ s.nfac) :
    (s.nfac ≤ e.st.nfac ∧ s.nfb ≤ e.st.nfb) ∧
    e.st.nfac + b2n (owesFac e.th) ≤ s.nfac + b2n (owesFac th) + missG e.g ∧
    e.st.nfb + b2n (owesFb e.th) ≤ s.nfb + b2n (owesFb th) + missG e.g ∧
    PcOk cfg k2 e.st.nfac (clog ++ optList e.commit) e.th ∧
    (∀ ch, e.commit = some ch → AutoOk cfg k2 e.st.nfac ch) ∧
    (e.th.results = th.results ∨
      ∃ r, e.th.results = th.results ++ [r] ∧ ResOk cfg k1 e.st.nfb (clog ++ optList e.commit) r) := by
  unfold action at h
  split at h
  · -- idle
    next hpc0 =>
    split at h
    · cases h
    · simp only [Option.some.injEq] at h; subst h
      simp [b2n, owesFac, owesFb, missG, PcOk, AutoOk, LThread.see, hpc0, optList]
    · next n rest =>
      split at h
      · next hn =>
        simp only [Option.some.injEq] at h; subst h
        simp [b2n, owesFac, owesFb, missG, PcOk, AutoOk, ResOk, LThread.see, LThread.finish, hpc0, optList]
      · next o hn =>
        simp only [Option.some.injEq] at h; subst h
        simp [b2n, owesFac, owesFb, missG, PcOk, AutoOk, LThread.see, hpc0, optList]
    · simp only [Option.some.injEq] at h; subst h
      simp [b2n, owesFac, owesFb, missG, PcOk, AutoOk, ResOk, LThread.see, LThread.finish, hpc0, optList]
    · split at h
      · next c hn =>
        simp only [Option.some.injEq] at h; subst h
        simp [b2n, owesFac, owesFb, missG, PcOk, AutoOk, ResOk, LThread.see, LThread.finish, hpc0, optList]
      · next hn =>
        simp only [Option.some.injEq] at h; subst h
        simp [b2n, owesFac, owesFb, missG, PcOk, AutoOk, LThread.see, hpc0, optList]
  · -- fallback
    next n hpc0 =>
    simp only [invoke_eq] at h
    split at h
    · next c hc =>
      simp only [Option.some.injEq] at h; subst h
      cases hf : cfg.fallback with
      | none => simp [hf, supplies] at hc
      | some f =>
        simp only [hf] at hc
        simp [b2n, owesFac, owesFb, missG, PcOk, AutoOk, ResOk, LThread.finish, hpc0, optList, FallbackMade]
        exact ⟨n, s.nfb, hk1, by omega, by rw [hf]; exact hc⟩
    · next hc =>
      simp only [Option.some.injEq] at h; subst h
      cases hf : cfg.fallback <;>
        simp [b2n, owesFac, owesFb, missG, PcOk, AutoOk, hpc0, optList]
  · -- factory
    next n hpc0 =>
    simp only [invoke_eq] at h
    split at h
    · next c hc =>
      simp only [Option.some.injEq] at h; subst h
      cases hf : cfg.factory with
      | none => simp [hf, supplies] at hc
      | some f =>
        simp only [hf] at hc
        simp [b2n, owesFac, owesFb, missG, PcOk, AutoOk, hpc0, optList, FactoryMade]
        exact ⟨s.nfac, hk2, by omega, by rw [hf]; exact hc⟩
    · next hc =>
      simp only [Option.some.injEq] at h; subst h
      cases hf : cfg.factory <;>
        simp [b2n, owesFac, owesFb, missG, PcOk, AutoOk, ResOk, LThread.finish, hpc0, optList]
  · -- insert
    next n c hpc0 =>
    simp only [PcOk, hpc0] at hpc
    split at h
    · next w hn =>
      simp only [Option.some.injEq] at h; subst h
      simp [b2n, owesFac, owesFb, missG, PcOk, AutoOk, ResOk, LThread.see, LThread.finish, hpc0, optList]
    · next hn =>
      simp only [Option.some.injEq] at h; subst h
      simp [b2n, owesFac, owesFb, missG, PcOk, AutoOk, LThread.see, hpc0, optList]
      exact hpc
  · -- notify
    next ch r hpc0 =>
    simp only [PcOk, hpc0] at hpc
    simp only [Option.some.injEq] at h; subst h
    simp [b2n, owesFac, owesFb, missG, PcOk, AutoOk, ResOk, LThread.finish, hpc0, optList]
    intro cl src hr
    obtain ⟨hs, hch⟩ := hpc.2 cl src hr
    subst hs
    refine ⟨fun _ => ⟨ch.name, ?_⟩, fun hx => by cases hx⟩
    rw [← hch]; exact hpc.1

/-- A step starts at most one Get, and only a step that starts a Get can miss the registry. -/
theorem gets_facts (cfg : Cfg) (s : St) (th : LThread) (e : Effect) (h : action cfg s th = some e) :
    e.th.getsLeft + missG e.g ≤ th.getsLeft := by
  unfold action at h
  split at h
  · split at h
    · cases h
    · simp only [Option.some.injEq] at h; subst h
      simp_all [LThread.getsLeft, Op.isGet, missG]
    · split at h <;> (simp only [Option.some.injEq] at h; subst h) <;>
        simp_all [LThread.getsLeft, LThread.see, LThread.finish, Op.isGet, missG]
    · simp only [Option.some.injEq] at h; subst h
      simp_all [LThread.getsLeft, LThread.see, LThread.finish, Op.isGet, missG]
    · split at h <;> (simp only [Option.some.injEq] at h; subst h) <;>
        simp_all [LThread.getsLeft, LThread.see, LThread.finish, missG, List.countP_cons, Op.isGet]
  · simp only at h
    split at h <;> (simp only [Option.some.injEq] at h; subst h) <;>
      simp [LThread.getsLeft, LThread.finish, missG]
  · simp only at h
    split at h <;> (simp only [Option.some.injEq] at h; subst h) <;>
      simp [LThread.getsLeft, LThread.finish, missG]
  · split at h <;> (simp only [Option.some.injEq] at h; subst h) <;>
      simp [LThread.getsLeft, LThread.see, LThread.finish, missG]
  · simp only [Option.some.injEq] at h; subst h
    simp [LThread.getsLeft, LThread.finish, missG]

theorem sum_map_set {α : Type} (f : α → Nat) (l : List α) (t : Nat) (x : α) (h : t < l.length) :
    ((l.set t x).map f).sum + f l[t] = (l.map f).sum + f x := by
  induction l generalizing t with
  | nil => simp at h
  | cons y ys ih =>
    cases t with
    | zero => simp; omega
    | succ k =>
      simp at h
      have := ih k h
      simp only [List.set_cons_succ, List.map_cons, List.sum_cons, List.getElem_cons_succ]
      omega

theorem countP_missed_optList (t : Nat) (g : Option (LOp × LRes)) :
    ((optList g).map (fun p => (⟨t, p.1, p.2⟩ : GEntry))).countP GEntry.missed = missG g := by
  cases g with
  | none => simp [optList, missG]
  | some p =>
    obtain ⟨op, res⟩ := p
    cases op <;> cases res <;> simp [optList, missG, GEntry.missed]
    all_goals (rename_i n o; cases o <;> simp)

/-- Invariant of every configuration reachable from `LConf.start reg0 k1 k2 ..`. -/
structure FInv (cfg : Cfg) (k1 k2 : Nat) (c : LConf) : Prop where
  lo : k1 ≤ c.st.nfb ∧ k2 ≤ c.st.nfac
  budFac : c.st.nfac + c.ths.countP owesFac ≤ k2 + misses c
  budFb : c.st.nfb + c.ths.countP owesFb ≤ k1 + misses c
  pcs : ∀ (t : Nat) (th : LThread), c.ths[t]? = some th → PcOk cfg k2 c.st.nfac c.clog th
  autos : ∀ ch, ch ∈ c.clog → AutoOk cfg k2 c.st.nfac ch
  results : ∀ (t : Nat) (th : LThread), c.ths[t]? = some th → ∀ r, r ∈ th.results → ResOk cfg k1 c.st.nfb c.clog r

/-- Every miss belongs to a Get of the programs (`total` = Gets in the programs). -/
def GInv (total : Nat) (c : LConf) : Prop := misses c + getsLeft c.ths ≤ total

theorem ginv_start (reg0 : Reg) (k1 k2 : Nat) (progs : List (List Op)) :
    GInv (getsIn progs) (LConf.start reg0 k1 k2 progs) := by
  simp only [GInv, LConf.start, misses, getsLeft, getsIn, List.countP_nil, List.map_map, Nat.zero_add]
  apply Nat.le_of_eq
  congr 1

theorem ginv_lstep {cfg : Cfg} {total : Nat} {c : LConf} (h : GInv total c) (t : Nat) :
    GInv total (lstep cfg c t) := by
  unfold lstep
  cases hth : c.ths[t]? with
  | none => exact h
  | some th =>
    simp only
    cases hact : action cfg c.st th with
    | none => exact h
    | some e =>
      simp only
      have hg := gets_facts cfg c.st th e hact
      have hlt : t < c.ths.length := by
        rcases Nat.lt_or_ge t c.ths.length with hl | hl
        · exact hl
        · rw [List.getElem?_eq_none hl] at hth; cases hth
      have hget : c.ths[t] = th := by
        have := List.getElem?_eq_getElem hlt
        rw [this] at hth; exact Option.some.inj hth
      have hs := sum_map_set LThread.getsLeft c.ths t e.th hlt
      rw [hget] at hs
      simp only [GInv, misses, getsLeft, List.countP_append, countP_missed_optList] at h ⊢
      omega

theorem ginv_lrun {cfg : Cfg} {total : Nat} {c : LConf} (h : GInv total c) (sched : List Nat) :
    GInv total (lrun cfg c sched) := by
  induction sched generalizing c with
  | nil => exact h
  | cons t ts ih => exact ih (ginv_lstep h t)

theorem finv_start (cfg : Cfg) (reg0 : Reg) (k1 k2 : Nat) (progs : List (List Op)) :
    FInv cfg k1 k2 (LConf.start reg0 k1 k2 progs) := by
  have hz : ∀ (p : LThread → Bool), (∀ q, p ⟨q, .idle, [], []⟩ = false) →
      (progs.map (fun q => (⟨q, .idle, [], []⟩ : LThread))).countP p = 0 := by
    intro p hp
    induction progs with
    | nil => rfl
    | cons q qs ih => simp [hp, ih]
  refine ⟨by simp [LConf.start], ?_, ?_, ?_, by simp [LConf.start], ?_⟩
  · simp only [LConf.start, misses]
    rw [hz owesFac (fun q => by simp [owesFac])]; simp
  · simp only [LConf.start, misses]
    rw [hz owesFb (fun q => by simp [owesFb])]; simp
  · intro t th h
    simp only [LConf.start, List.getElem?_map, Option.map_eq_some_iff] at h
    obtain ⟨p, _, hp⟩ := h
    subst hp
    simp [PcOk]
  · intro t th h
    simp only [LConf.start, List.getElem?_map, Option.map_eq_some_iff] at h
    obtain ⟨p, _, hp⟩ := h
    subst hp
    simp

theorem finv_lstep {cfg : Cfg} {k1 k2 : Nat} {c : LConf} (h : FInv cfg k1 k2 c) (t : Nat) :
    FInv cfg k1 k2 (lstep cfg c t) := by
  unfold lstep
  cases hth : c.ths[t]? with
  | none => exact h
  | some th =>
    simp only
    cases hact : action cfg c.st th with
    | none => exact h
    | some e =>
      simp only
      obtain ⟨f1, f2, f3, f4, f5, f6⟩ :=
        fac_facts cfg k1 k2 c.clog c.st th e hact (h.pcs t th hth) h.lo.1 h.lo.2
      have hlt : t < c.ths.length := by
        rcases Nat.lt_or_ge t c.ths.length with hl | hl
        · exact hl
        · rw [List.getElem?_eq_none hl] at hth; cases hth
      have hget : c.ths[t] = th := by
        have := List.getElem?_eq_getElem hlt
        rw [this] at hth; exact Option.some.inj hth
      have hsub : ∀ x, x ∈ c.clog → x ∈ c.clog ++ optList e.commit := fun x hx => List.mem_append_left _ hx
      have hmiss : misses ⟨{ e.st with log := c.st.log ++ optList e.deliver }, c.ths.set t e.th,
          c.glog ++ (optList e.g).map (fun p => ⟨t, p.1, p.2⟩), c.clog ++ optList e.commit⟩ =
          misses c + missG e.g := by
        simp only [misses, List.countP_append, countP_missed_optList]
      refine ⟨⟨by have := h.lo.1; simp only; omega, by have := h.lo.2; simp only; omega⟩, ?_, ?_, ?_, ?_, ?_⟩
      · rw [hmiss]
        simp only
        rw [List.countP_set hlt, hget]
        have hb := h.budFac
        have hle : (if owesFac th = true then 1 else 0) ≤ c.ths.countP owesFac := by
          have := List.boole_getElem_le_countP (p := owesFac) hlt
          rw [hget] at this; exact this
        simp only [b2n] at f2
        omega
      · rw [hmiss]
        simp only
        rw [List.countP_set hlt, hget]
        have hb := h.budFb
        have hle : (if owesFb th = true then 1 else 0) ≤ c.ths.countP owesFb := by
          have := List.boole_getElem_le_countP (p := owesFb) hlt
          rw [hget] at this; exact this
        simp only [b2n] at f3
        omega
      · intro t' th' ht'
        simp only
        by_cases htt : t' = t
        · subst htt
          rw [List.getElem?_set_self hlt] at ht'
          cases ht'
          exact f4
        · rw [List.getElem?_set_ne (fun e => htt e.symm)] at ht'
          exact PcOk.mono (h.pcs t' th' ht') f1.1 hsub
      · intro ch hch
        simp only at hch ⊢
        rcases List.mem_append.mp hch with hc | hc
        · exact AutoOk.mono (h.autos ch hc) f1.1
        · cases hcm : e.commit with
          | none => rw [hcm] at hc; simp [optList] at hc
          | some ch' =>
            rw [hcm] at hc; simp [optList] at hc; subst hc
            exact f5 ch hcm
      · intro t' th' ht' r hr
        simp only at ht' ⊢
        by_cases htt : t' = t
        · subst htt
          rw [List.getElem?_set_self hlt] at ht'
          cases ht'
          rcases f6 with heq | ⟨r', heq, hok⟩
          · rw [heq] at hr
            exact ResOk.mono (h.results t' th hth r hr) f1.2 hsub
          · rw [heq] at hr
            rcases List.mem_append.mp hr with hr | hr
            · exact ResOk.mono (h.results t' th hth r hr) f1.2 hsub
            · simp at hr; subst hr; exact hok
        · rw [List.getElem?_set_ne (fun e => htt e.symm)] at ht'
          exact ResOk.mono (h.results t' th' ht' r hr) f1.2 hsub

theorem finv_lrun {cfg : Cfg} {k1 k2 : Nat} {c : LConf} (h : FInv cfg k1 k2 c) (sched : List Nat) :
    FInv cfg k1 k2 (lrun cfg c sched) := by
  induction sched generalizing c with
  | nil => exact h
  | cons t ts ih => exact ih (finv_lstep h t)

/-! ### no client is invented -/

theorem LOpOk.mono {cfg : Cfg} {progs : List (List Op)} {k2 hi hi' : Nat} {op : LOp}
    (h : LOpOk cfg progs k2 hi op) (hh : hi ≤ hi') : LOpOk cfg progs k2 hi' op := by
  cases op <;> simp only [LOpOk] at h ⊢ <;> first | exact h | exact FactoryMade.mono h hh

/-- A step's program only shrinks, a `put` comes from the program, a put-if-absent carries the client
the thread's factory call produced. -/
theorem origin_facts (cfg : Cfg) (s : St) (th : LThread) (e : Effect) (h : action cfg s th = some e) :
    (∀ op, op ∈ e.th.prog → op ∈ th.prog) ∧
    (∀ op res, e.g = some (op, res) →
      match op with
      | .put n c => Op.add n c ∈ th.prog
      | .pia n c => th.pc = .insert n c
      | _ => True) := by
  unfold action at h
  split at h
  · split at h
    · cases h
    · simp only [Option.some.injEq] at h; subst h
      simp_all
    · split at h <;> (simp only [Option.some.injEq] at h; subst h) <;>
        simp_all [LThread.see, LThread.finish]
    · simp only [Option.some.injEq] at h; subst h
      simp_all [LThread.see, LThread.finish]
    · split at h <;> (simp only [Option.some.injEq] at h; subst h) <;>
        simp_all [LThread.see, LThread.finish]
  · simp only at h
    split at h <;> (simp only [Option.some.injEq] at h; subst h) <;> simp [LThread.finish]
  · simp only at h
    split at h <;> (simp only [Option.some.injEq] at h; subst h) <;> simp [LThread.finish]
  · split at h <;> (simp only [Option.some.injEq] at h; subst h) <;>
      simp_all [LThread.see, LThread.finish]
  · simp only [Option.some.injEq] at h; subst h
    simp [LThread.finish]

/-- Invariant: programs only shrink and every lock section wrote something of known origin. -/
structure OInv (cfg : Cfg) (progs : List (List Op)) (k2 : Nat) (c : LConf) : Prop where
  sub : ∀ (t : Nat) (th : LThread), c.ths[t]? = some th → ∀ op, op ∈ th.prog → ∃ p, p ∈ progs ∧ op ∈ p
  writes : ∀ g, g ∈ c.glog → LOpOk cfg progs k2 c.st.nfac g.op

theorem oinv_start (cfg : Cfg) (reg0 : Reg) (k1 k2 : Nat) (progs : List (List Op)) :
    OInv cfg progs k2 (LConf.start reg0 k1 k2 progs) := by
  refine ⟨?_, by simp [LConf.start]⟩
  intro t th h op hop
  simp only [LConf.start, List.getElem?_map, Option.map_eq_some_iff] at h
  obtain ⟨p, hp, hth⟩ := h
  subst hth
  exact ⟨p, List.mem_of_getElem? hp, hop⟩

theorem oinv_lstep {cfg : Cfg} {progs : List (List Op)} {k1 k2 : Nat} {c : LConf}
    (hf : FInv cfg k1 k2 c) (h : OInv cfg progs k2 c) (t : Nat) : OInv cfg progs k2 (lstep cfg c t) := by
  unfold lstep
  cases hth : c.ths[t]? with
  | none => exact h
  | some th =>
    simp only
    cases hact : action cfg c.st th with
    | none => exact h
    | some e =>
      simp only
      obtain ⟨f1, _, _, _, _, _⟩ :=
        fac_facts cfg k1 k2 c.clog c.st th e hact (hf.pcs t th hth) hf.lo.1 hf.lo.2
      obtain ⟨o1, o2⟩ := origin_facts cfg c.st th e hact
      have hlt : t < c.ths.length := by
        rcases Nat.lt_or_ge t c.ths.length with hl | hl
        · exact hl
        · rw [List.getElem?_eq_none hl] at hth; cases hth
      refine ⟨?_, ?_⟩
      · intro t' th' ht' op hop
        simp only at ht'
        by_cases htt : t' = t
        · subst htt
          rw [List.getElem?_set_self hlt] at ht'
          cases ht'
          exact h.sub t' th hth op (o1 op hop)
        · rw [List.getElem?_set_ne (fun e => htt e.symm)] at ht'
          exact h.sub t' th' ht' op hop
      · intro g hg
        simp only at hg ⊢
        rcases List.mem_append.mp hg with hg | hg
        · exact LOpOk.mono (h.writes g hg) f1.1
        · cases heg : e.g with
          | none => rw [heg] at hg; simp [optList] at hg
          | some p =>
            obtain ⟨op, res⟩ := p
            rw [heg] at hg; simp [optList] at hg; subst hg
            have := o2 op res heg
            cases op with
            | put n cl =>
              simp only at this
              exact h.sub t th hth _ this
            | pia n cl =>
              simp only at this
              have hp := hf.pcs t th hth
              simp only [PcOk, this] at hp
              exact FactoryMade.mono hp f1.1
            | del n => trivial
            | has n => trivial
            | read n => trivial

theorem foinv_lrun {cfg : Cfg} {progs : List (List Op)} {k1 k2 : Nat} {c : LConf}
    (hf : FInv cfg k1 k2 c) (h : OInv cfg progs k2 c) (sched : List Nat) :
    FInv cfg k1 k2 (lrun cfg c sched) ∧ OInv cfg progs k2 (lrun cfg c sched) := by
  induction sched generalizing c with
  | nil => exact ⟨hf, h⟩
  | cons t ts ih => exact ih (finv_lstep hf t) (oinv_lstep hf h t)

/-- Running lock sections that only write clients of known origin over a map that only holds clients of
known origin gives such a map. -/
theorem lspecRun_origin (cfg : Cfg) (reg0 : Reg) (progs : List (List Op)) (k2 hi : Nat)
    (ops : List LOp) (m : SMap)
    (hops : ∀ op, op ∈ ops → LOpOk cfg progs k2 hi op)
    (hm : ∀ n c, m n = some c → Origin cfg reg0 progs k2 hi n c) :
    ∀ n c, (lspecRun m ops).1 n = some c → Origin cfg reg0 progs k2 hi n c := by
  induction ops generalizing m with
  | nil => exact hm
  | cons op rest ih =>
    simp only [lspecRun]
    apply ih
    · intro o ho; exact hops o (List.mem_cons_of_mem _ ho)
    · have hop := hops op (List.mem_cons_self)
      intro n c
      cases op with
      | put k cl =>
        simp only [lspec, SMap.upd]
        split
        · next hk => intro hc; simp only [Option.some.injEq] at hc; subst hc; subst hk; exact Or.inr (Or.inl hop)
        · exact hm n c
      | del k =>
        simp only [lspec, SMap.upd]
        split
        · intro hc; cases hc
        · exact hm n c
      | has k => exact hm n c
      | read k => exact hm n c
      | pia k cl =>
        simp only [lspec]
        split
        · exact hm n c
        · simp only [SMap.upd]
          split
          · next hk => intro hc; simp only [Option.some.injEq] at hc; subst hc; subst hk; exact Or.inr (Or.inr hop)
          · exact hm n c

end ScVerif.C12
