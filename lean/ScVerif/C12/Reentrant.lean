import ScVerif.C12.Registry
/-!
# C12 — change callbacks that re-enter the router

`router.Add / Remove / Get` call `onChange` after their lock section, with no lock held, on the
goroutine of the operation.  So the callback may itself call `Has / Get / Add / Remove` on the same
router ("is the name still routable?", "look a sibling up", "undo").  Such nested operations run to
completion (with their own callbacks) before the outer operation returns.

The callback is a function from the nesting depth and the reported change to the operations it
performs.  `runRe` executes a history with such a callback, re-entering up to `fuel` levels deep (a
callback at the deepest level only observes), and returns the final state and the *trace*: every
operation executed, nested ones included, with its result, in the order of the lock sections.
-/
namespace ScVerif.C12

abbrev Callback := Nat → Change → List Op

abbrev Trace := List (Op × Res)

/-- The change an operation reported: the entry it appended to the `onChange` log, if any. -/
def newChange (s s1 : St) : Option Change := s1.log[s.log.length]?

/-- A history in which every reported change is handed to `nest` (the callback's body) right after the
lock section of the operation that caused it, before that operation returns. -/
def runWith (cfg : Cfg) (nest : St → Change → St × Trace) : St → List Op → St × Trace
  | s, [] => (s, [])
  | s, op :: ops =>
    let r := step cfg s op
    let n := match newChange s r.1 with
      | some ch => nest r.1 ch
      | none => (r.1, [])
    let rest := runWith cfg nest n.1 ops
    (rest.1, (op, r.2) :: n.2 ++ rest.2)

/-- `fuel` = how many levels of callbacks may still re-enter; `d` = current nesting depth. -/
def runRe (cfg : Cfg) (cb : Callback) : Nat → Nat → St → List Op → St × Trace
  | 0, _ => runWith cfg (fun s _ => (s, []))
  | fuel + 1, d => runWith cfg (fun s ch => runRe cfg cb fuel (d + 1) s (cb d ch))

end ScVerif.C12
