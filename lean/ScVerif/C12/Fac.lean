import ScVerif.C12.Lin
/-!
# C12 — who made the clients a router hands out: accounting for fallback and factory calls

Definitions on top of `Lin.lean` (concurrent Add / Remove / Has / Get programs) for the statement
"created once by the factory": which clients are factory products, how many calls the fallback and the
factory have received, and which Gets are entitled to make one.  Pure bookkeeping about the run of
`Lin.lean`; nothing here changes the model.
-/
namespace ScVerif.C12

/-- `c` is what the factory supplied for `n` on one of its calls number `lo ≤ k < hi`. -/
def FactoryMade (cfg : Cfg) (lo hi : Nat) (n : Name) (c : Client) : Prop :=
  ∃ k, lo ≤ k ∧ k < hi ∧ supplies cfg.factory n k = some c

/-- `c` is what the fallback supplied for some name on one of its calls number `lo ≤ k < hi`. -/
def FallbackMade (cfg : Cfg) (lo hi : Nat) (c : Client) : Prop :=
  ∃ n k, lo ≤ k ∧ k < hi ∧ supplies cfg.fallback n k = some c

def b2n (b : Bool) : Nat := if b then 1 else 0

/-- The thread is inside a Get that missed the registry and has not yet finished its factory call. -/
def owesFac (th : LThread) : Bool :=
  match th.pc with
  | .fallback _ => true
  | .factory _ => true
  | _ => false

/-- The thread is inside a Get that missed the registry and has not yet called the fallback. -/
def owesFb (th : LThread) : Bool :=
  match th.pc with
  | .fallback _ => true
  | _ => false

/-- A lock section that is the first registry read of a Get and found nothing. -/
def missG : Option (LOp × LRes) → Nat
  | some (.read _, .opt none) => 1
  | _ => 0

def GEntry.missed (g : GEntry) : Bool :=
  match g.op, g.res with
  | .read _, .opt none => true
  | _, _ => false

/-- Number of Gets so far whose first registry read found nothing. -/
def misses (c : LConf) : Nat := c.glog.countP GEntry.missed

def Op.isGet : Op → Bool
  | .get _ => true
  | _ => false

/-- Number of Get operations a thread has still to start. -/
def LThread.getsLeft (th : LThread) : Nat := th.prog.countP Op.isGet

/-- Number of Get operations not yet started, all threads. -/
def getsLeft (ths : List LThread) : Nat := (ths.map LThread.getsLeft).sum

/-- Number of Get operations in the programs. -/
def getsIn (progs : List (List Op)) : Nat := (progs.map (fun p => p.countP Op.isGet)).sum

/-- What a thread's program counter may hold. -/
def PcOk (cfg : Cfg) (k2 hi : Nat) (clog : List Change) (th : LThread) : Prop :=
  match th.pc with
  | .insert n cl => FactoryMade cfg k2 hi n cl
  | .notify ch r => ch ∈ clog ∧ ∀ cl src, r = .got cl src → src = .factory ∧ ch = ⟨ch.name, none, some cl, true⟩
  | _ => True

/-- An `Auto` transition starts from "absent" and installs a factory product for that very name. -/
def AutoOk (cfg : Cfg) (k2 hi : Nat) (ch : Change) : Prop :=
  ch.auto = true → ch.old = none ∧ ∃ cl, ch.new = some cl ∧ FactoryMade cfg k2 hi ch.name cl

/-- What a finished Get may claim about the origin of its client. -/
def ResOk (cfg : Cfg) (k1 hi1 : Nat) (clog : List Change) (r : Res) : Prop :=
  ∀ cl src, r = .got cl src →
    (src = .factory → ∃ n, (⟨n, none, some cl, true⟩ : Change) ∈ clog) ∧
    (src = .fallback → FallbackMade cfg k1 hi1 cl)

/-- Some program adds `c` under `n`. -/
def Added (progs : List (List Op)) (n : Name) (c : Client) : Prop := ∃ p, p ∈ progs ∧ Op.add n c ∈ p

/-- Where a client registered under `n` can come from: it was there at the start, a program adds it
under `n`, or the factory made it for `n` during the run. -/
def Origin (cfg : Cfg) (reg0 : Reg) (progs : List (List Op)) (k2 hi : Nat) (n : Name) (c : Client) : Prop :=
  reg0.get n = some c ∨ Added progs n c ∨ FactoryMade cfg k2 hi n c

/-- What a lock section may write. -/
def LOpOk (cfg : Cfg) (progs : List (List Op)) (k2 hi : Nat) : LOp → Prop
  | .put n c => Added progs n c
  | .pia n c => FactoryMade cfg k2 hi n c
  | _ => True

end ScVerif.C12
