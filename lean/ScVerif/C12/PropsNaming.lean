import ScVerif.C12.NamingLemmas
/-!
# C12 — property theorems, where the generators put what they emit

"The checked-in routers and wrappers are exactly what the generators produce from the current API
descriptors" — the part of the generators that decides WHERE a service's router and wrapper go and what
they are called (`generateFile` in `cmd/protoc-gen-router/main.go` and `cmd/protoc-gen-wrapper/main.go`,
modelled in `Naming.lean`), for every proto file location and every service name.

Only property theorems and their non-vacuity examples live in this file.
-/
namespace ScVerif.C12

/-- **The package both generators write to is a well-formed `…pb` package, whatever the input**: it
ends in `pb`, contains no underscore, and is never the catch-all directory name `traits`. -/
theorem C12_gen_package_wellformed (dir file : Str) :
    endsPb (pkgOf dir file) = true ∧ '_' ∉ pkgOf dir file ∧ pkgOf dir file ≠ "traits".toList := by
  refine ⟨endsPb_withPb _, not_mem_withPb _ (not_mem_dropUnderscores _), ?_⟩
  intro h
  have := endsPb_withPb (dropUnderscores (if dir = "traits".toList then file else dir))
  simp only [pkgOf] at h
  rw [h] at this
  exact absurd this (by decide)

/-- **A proto file that already lives in a generated package stays there.**  If the file's Go package
directory is itself a well-formed `…pb` package (as `pkg/trait/electricpb` is for
`memory_settings.proto`), the generators write into that very directory — they do not append another
`pb` — and naming is idempotent: feeding a produced package name back as the directory gives it again. -/
theorem C12_gen_package_stable (dir file file' : Str) :
    (dir ≠ "traits".toList → '_' ∉ dir → endsPb dir = true → pkgOf dir file = dir) ∧
    pkgOf (pkgOf dir file) file' = pkgOf dir file := by
  have stable : ∀ d f : Str, d ≠ "traits".toList → '_' ∉ d → endsPb d = true → pkgOf d f = d := by
    intro d f h1 h2 h3
    simp only [pkgOf, h1, if_false]
    rw [dropUnderscores_of_not_mem d h2, withPb_of_endsPb d h3]
  obtain ⟨w1, w2, w3⟩ := C12_gen_package_wellformed dir file
  exact ⟨stable dir file, stable _ file' w3 w2 w1⟩

/-- **Router and wrapper of a service are emitted side by side under the service's local name.**  For
every location and service name: the router goes to `pkg/trait/<pkg>/<lower name>_router.pb.go` and
declares `<name>Router`, the wrapper goes to `pkg/trait/<pkg>/<lower name>_wrap.pb.go` and declares
`<Name>Wrapper` (first letter upper-cased: the same `<name>` whenever it starts with a capital, as every
local name of the API does), with the same `<pkg>` and the same `<name>`; and `<name>` is the service's
Go name with at most a leading copy of the package stem (any letter case) cut off — nothing else is
dropped or altered. -/
theorem C12_gen_names (dir file svc : Str) :
    ∃ name cut,
      svc = cut ++ name ∧ (cut = [] ∨ lowerS cut = lowerS (stem (pkgOf dir file))) ∧
      emitRouter dir file svc =
        ⟨"pkg/trait/".toList ++ pkgOf dir file ++ ['/'] ++ lowerS name ++ "_router.pb.go".toList,
          name ++ "Router".toList⟩ ∧
      emitWrapper dir file svc =
        ⟨"pkg/trait/".toList ++ pkgOf dir file ++ ['/'] ++ lowerS name ++ "_wrap.pb.go".toList,
          capFirst (name ++ "Wrapper".toList)⟩ ∧
      (∀ c cs, name = c :: cs → c.toUpper = c →
        (emitWrapper dir file svc).typeName = name ++ "Wrapper".toList) := by
  obtain ⟨cut, h1, h2⟩ := trimPrefixIgnoreCase_suffix svc (stem (pkgOf dir file))
  refine ⟨localName (pkgOf dir file) svc, cut, h1, h2, rfl, rfl, ?_⟩
  intro c cs hn hc
  simp only [emitWrapper, hn, List.cons_append]
  exact capFirst_of_upper c _ hc

/-! ## Non-vacuity -/

/-- `traits/on_off.proto`, service `OnOffApi`. -/
example : emitRouter "traits".toList "on_off".toList "OnOffApi".toList =
    ⟨"pkg/trait/onoffpb/api_router.pb.go".toList, "ApiRouter".toList⟩ := by decide

/-- `pkg/trait/electricpb/memory_settings.proto`, service `MemorySettingsApi`: the directory is kept. -/
example : emitWrapper "electricpb".toList "memory_settings".toList "MemorySettingsApi".toList =
    ⟨"pkg/trait/electricpb/memorysettingsapi_wrap.pb.go".toList, "MemorySettingsApiWrapper".toList⟩ := by decide

/-- `C12_gen_package_stable`'s hypotheses hold for `electricpb`. -/
example : "electricpb".toList ≠ "traits".toList ∧ '_' ∉ "electricpb".toList ∧ endsPb "electricpb".toList = true := by
  decide

end ScVerif.C12
