import ScVerif.C12.PumpTrace
/-!
# C12 — property theorems, timing of the stream pump

"… the response or stream of responses, the error status and the stream header and trailer pass through
unaltered" — here as statements about the ORDER of the calls the generated server-streaming forwarder
makes (`pumpEvents`), for every child script and every caller script: the header is passed on as soon
as the child has produced it and before any message is pulled; messages are pumped in lock step; the
trailer is set after the last `Recv`, only when the caller did not fail.

Only property theorems and their non-vacuity examples live in this file.
-/
namespace ScVerif.C12

/-- **The header goes first, at once, exactly once.**  For every outcome of `Get`, every child script
and every caller script: if the forwarder pulls a message from the child (`Recv`), sends one (`Send`),
sets a trailer or cancels, then its first three calls were `child.Pull…`, `stream.Header()` and
`server.SendHeader(header)` with exactly the child's header — so the caller has the header before the
child's first message is even asked for (a quiet child that has sent its header does not keep the
caller waiting for it) — and `SendHeader` is not called again. -/
theorem C12_pump_header_first (got : Res) (cs : ChildScript) (k : CallerScript) (e : PEv)
    (he : e ∈ pumpEvents got cs k)
    (hk : e = .recv ∨ (∃ m, e = .send m) ∨ e = .childTrailer ∨ (∃ t, e = .setTrailer t) ∨ e = .cancel) :
    ∃ tail, pumpEvents got cs k = [.openChild, .childHeader, .sendHeader cs.header] ++ tail ∧
      ∀ h, PEv.sendHeader h ∉ tail := by
  cases got with
  | got c src =>
    simp only [pumpEvents] at he ⊢
    cases h1 : cs.openErr with
    | some x => rw [h1] at he; rcases hk with h | ⟨m, h⟩ | h | ⟨t, h⟩ | h <;> (subst h; simp at he)
    | none =>
      rw [h1] at he; simp only at he ⊢
      cases h2 : cs.headerErr with
      | some x => rw [h2] at he; rcases hk with h | ⟨m, h⟩ | h | ⟨t, h⟩ | h <;> (subst h; simp at he)
      | none =>
        rw [h2] at he; simp only at he ⊢
        cases h3 : k.sendHeaderErr with
        | some x => rw [h3] at he; rcases hk with h | ⟨m, h⟩ | h | ⟨t, h⟩ | h <;> (subst h; simp at he)
        | none =>
          simp only [List.append_assoc]
          refine ⟨_, rfl, ?_⟩
          intro h hm
          rcases List.mem_append.mp hm with hm | hm
          · exact sendHeader_not_mem_loop _ _ _ _ hm
          · split at hm
            · simp at hm
            · unfold trailerEvents at hm
              split at hm <;> simp at hm
  | prev _ => simp [pumpEvents] at he
  | bool _ => simp [pumpEvents] at he
  | notFound => simp [pumpEvents] at he

/-- **The whole call sequence, in terms of what the caller observed.**  When the child stream opens,
yields its header and the caller accepts the header, the calls are exactly: open, `Header()`,
`SendHeader(header)`; then `Recv`, `Send(m)` for each message the caller accepted, in order; then
* caller error: the `Recv` and the failing `Send` of the child's next message, `reqDone()`, and no
  trailer call at all;
* otherwise: the `Recv` that returned the child's final error, `stream.Trailer()`, and
  `server.SetTrailer(t)` exactly when the child has a trailer.
`sent` and `cancelled` are those of `forwardStream` (the final-observation model), so both models agree. -/
theorem C12_pump_call_sequence (c : Client) (src : Src) (method req : Tok) (cs : ChildScript)
    (k : CallerScript) (hopen : cs.openErr = none) (hhdr : cs.headerErr = none)
    (hsh : k.sendHeaderErr = none) :
    let o := forwardStream (.got c src) method req cs k
    pumpEvents (.got c src) cs k =
      [.openChild, .childHeader, .sendHeader cs.header] ++ pairs o.sent ++
        (if o.cancelled then
          .recv :: (cs.msgs.drop o.sent.length).head?.toList.map .send ++ [.cancel]
        else .recv :: trailerEvents cs.trailer) := by
  simp only [forwardStream, pumpEvents, hopen, hhdr, hsh]
  rw [loopEvents_eq]
  rcases hp : pumpLoop k.failAt cs.msgs 0 with ⟨sent, s, r, ce⟩
  cases ce <;> simp

/-- Non-vacuity / illustration: three messages, caller healthy. -/
example : pumpEvents (.got 7 .registered) ⟨none, none, some 9, [1, 2], .eof, some 4⟩ ⟨none, none, 0⟩ =
    [.openChild, .childHeader, .sendHeader (some 9), .recv, .send 1, .recv, .send 2, .recv, .childTrailer,
      .setTrailer 4] := by decide

/-- The caller fails on the second message: it is pulled and offered, then the child is cancelled. -/
example : pumpEvents (.got 7 .registered) ⟨none, none, some 9, [1, 2, 3], .eof, some 4⟩ ⟨none, some 1, 77⟩ =
    [.openChild, .childHeader, .sendHeader (some 9), .recv, .send 1, .recv, .send 2, .cancel] := by decide

end ScVerif.C12
