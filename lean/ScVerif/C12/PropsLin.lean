import ScVerif.C12.LinLemmas
import ScVerif.C12.WaitLemmas
/-!
# C12 — property theorems, concurrent Add / Remove / Has / Get

"The registry behaves as a map (Add returns the previous client, Remove the removed one, Has and Get
agree, change callbacks report exactly the transitions, concurrent first Gets commit a single
factory client)" — here for threads running arbitrary programs of all four operations under EVERY
schedule of their atomic steps (lock sections; fallback / factory / onChange calls outside locks).

What is guaranteed, and what is not:
* the registry is a **linearizable map**: the lock sections, in the order they happened, are a
  sequential run of the map primitives put / delete / has / read / put-if-absent whose results are
  exactly what each thread observed (`C12_registry_linearizable`);
* every registry transition is committed with its exact `Old` and `New`, and is reported by exactly
  one `onChange` call (`C12_transitions_reported_once`);
* NOT guaranteed: that the calls are *delivered* in the order the transitions were committed —
  callbacks run after the lock is released, so one can overtake another, even for one name, and a
  listener replaying what it was told ends with a registry that is not the real one
  (`C12_onchange_order_fails`, recorded as a finding); it is guaranteed when no callback is overtaken
  (`C12_onchange_order_partial`).
Only property theorems and their non-vacuity examples live in this file.
-/
namespace ScVerif.C12

/-- **The registry is a linearizable map.**  For every configuration, initial registry, set of thread
programs over Add/Remove/Has/Get and every schedule: the ghost sequence of lock sections is a
sequential execution of the map specification from the initial registry — every recorded result
(previous client of Add, removed client of Remove, Has, the registry read of Get, and the winner of
Get's locked put-if-absent) is the specification's result at that point, the registry now is the
specification's final map — and what each thread observed is exactly its own projection of that
single sequence, in program order. -/
theorem C12_registry_linearizable (cfg : Cfg) (reg0 : Reg) (k1 k2 : Nat) (progs : List (List Op))
    (sched : List Nat) :
    let c := lrun cfg (LConf.start reg0 k1 k2 progs) sched
    lspecRun reg0.get (c.glog.map (·.op)) = (c.st.reg.get, c.glog.map (·.res)) ∧
    (∀ t th, c.ths[t]? = some th →
      (c.glog.filter (fun e => e.tid = t)).map (fun e => (e.op, e.res)) = th.seen) := by
  intro c
  have h : LInv reg0 c := linv_lrun (linv_start reg0 k1 k2 progs) sched
  exact ⟨h.lin, h.seen⟩

/-- **Every transition is reported exactly once, with exact Old and New.**  For every schedule: the
committed transitions `clog` chain exactly from the initial registry to the current one (each `Old`
is the value the registry held, replaying them gives the registry), and the `onChange` calls delivered
so far together with the calls still owed by threads that have left their lock section are a
permutation of `clog` — nothing is reported that did not happen, nothing is reported twice, nothing is
lost.  In particular, once no call is owed, the delivered calls are a permutation of the transitions. -/
theorem C12_transitions_reported_once (cfg : Cfg) (reg0 : Reg) (k1 k2 : Nat) (progs : List (List Op))
    (sched : List Nat) :
    let c := lrun cfg (LConf.start reg0 k1 k2 progs) sched
    replay reg0.get c.clog = c.st.reg.get ∧ OldExact reg0.get c.clog ∧
    List.Perm (c.st.log ++ pending c.ths) c.clog ∧
    (pending c.ths = [] → List.Perm c.st.log c.clog) := by
  intro c
  have h : LInv reg0 c := linv_lrun (linv_start reg0 k1 k2 progs) sched
  refine ⟨h.chain.1, h.chain.2, h.perm, ?_⟩
  intro hp
  have := h.perm
  rw [hp, List.append_nil] at this
  exact this

/-- **FAILS (finding): delivery order is not commit order.**  Two threads add different clients
under one name; the first is overtaken between its lock section and its callback.  Both threads have
finished, the registry holds client 2, but the listener was told `nil→1` last: replaying the
delivered changes gives client 1. -/
theorem C12_onchange_order_fails :
    ∃ (progs : List (List Op)) (sched : List Nat),
      let c := lrun ⟨none, none⟩ (LConf.start [] 0 0 progs) sched
      pending c.ths = [] ∧ (∀ th ∈ c.ths, th.prog = [] ∧ th.pc = .idle) ∧
      c.st.reg.get "n" = some 2 ∧ replay (fun _ => none) c.st.log "n" = some 1 :=
  ⟨[[.add "n" 1], [.add "n" 2]], [0, 1, 1, 0], by decide⟩

/-- **PARTIAL: exact order when no callback is overtaken.**  Hypothesis (`promptRun`, decidable on the
schedule): no thread is run while another thread still owes its `onChange` call.  Then the delivered
calls followed by the (at most one) owed call are the committed transitions in commit order; so with
nothing owed, replaying the delivered calls over the initial registry gives the registry, and every
`Old` is exact — the sequential statement `C12_onchange_exact` carries over. -/
theorem C12_onchange_order_partial (cfg : Cfg) (reg0 : Reg) (k1 k2 : Nat) (progs : List (List Op))
    (sched : List Nat) (hp : promptRun cfg (LConf.start reg0 k1 k2 progs) sched = true) :
    let c := lrun cfg (LConf.start reg0 k1 k2 progs) sched
    c.st.log ++ pending c.ths = c.clog ∧
    (pending c.ths = [] → replay reg0.get c.st.log = c.st.reg.get ∧ OldExact reg0.get c.st.log) := by
  intro c
  have h : LInv reg0 c := linv_lrun (linv_start reg0 k1 k2 progs) sched
  have h0 : (LConf.start reg0 k1 k2 progs).st.log ++ pending (LConf.start reg0 k1 k2 progs).ths =
      (LConf.start reg0 k1 k2 progs).clog := by
    have := (linv_start reg0 k1 k2 progs).perm
    simp only [LConf.start, List.nil_append] at this ⊢
    exact List.Perm.eq_nil this
  have hl := prompt_lrun sched h0 hp
  refine ⟨hl, ?_⟩
  intro hn
  have hc : c.st.log = c.clog := by
    have := hl
    rw [hn, List.append_nil] at this
    exact this
  rw [hc]
  exact h.chain

/-- The hypothesis of `C12_onchange_order_partial` is met by genuinely concurrent schedules: two
threads whose lock sections and callbacks interleave, a Get racing with an Add and a Remove. -/
example : promptRun ⟨none, some fun _ k => ⟨some (1000 + k), false⟩⟩
    (LConf.start [] 0 0 [[.get "n", .remove "n"], [.add "n" 1, .has "n"]]) [0, 0, 0, 1, 1, 0, 1, 0, 0] = true := by
  decide

/-- A run with all four operations and a factory: results are the sequential ones for the order of the
lock sections (Get's re-check finds the client the other thread added and returns it). -/
example :
    let c := lrun ⟨none, some fun _ k => ⟨some (1000 + k), false⟩⟩
      (LConf.start [] 0 0 [[.get "n", .remove "n"], [.add "n" 1, .has "n"]]) [0, 0, 0, 1, 1, 0, 1, 0, 0]
    c.ths.map (·.results) = [[.got 1 .registered, .prev (some 1)], [.prev none, .bool true]] ∧
      c.st.log = [⟨"n", none, some 1, false⟩, ⟨"n", some 1, none, false⟩] ∧ c.st.reg.get "n" = none := by
  decide

/-- **Every operation returns, whatever the others do (wait-freedom).**  Under every schedule of
concurrent Add / Remove / Has / Get programs: a thread that has been scheduled at least five times per
operation of its program has finished the program — no operation ever waits for another thread, for a
callback of another thread to return, or for a registry state; an Add or Remove takes at most two of
its own steps (lock section, callback), a Get at most five (read, fallback, factory, put-if-absent,
callback).  In particular a thread parked inside its own `onChange` callback delays nobody else. -/
theorem C12_operations_wait_free (cfg : Cfg) (reg0 : Reg) (k1 k2 : Nat) (progs : List (List Op))
    (sched : List Nat) (t : Nat) (p : List Op) (hp : progs[t]? = some p)
    (hfair : 5 * p.length ≤ sched.count t) :
    ∃ th, (lrun cfg (LConf.start reg0 k1 k2 progs) sched).ths[t]? = some th ∧ th.prog = [] ∧ th.pc = .idle := by
  have h0 : (LConf.start reg0 k1 k2 progs).ths[t]? = some ⟨p, .idle, [], []⟩ := by
    simp [LConf.start, hp]
  obtain ⟨th, h1, h2⟩ := lrun_rank cfg sched _ t _ h0
  have hz : th.rank = 0 := by
    have h3 : (⟨p, .idle, [], []⟩ : LThread).rank = 5 * p.length := by simp [LThread.rank, LPC.rank]
    rw [h3] at h2
    omega
  exact ⟨th, h1, (rank_zero_iff th).mp hz⟩

/-- The bound is attained: a Get that goes all the way (miss, fallback supplies nothing, factory,
put-if-absent, callback) needs its five steps — after four it is still owed its callback. -/
example :
    let cfg : Cfg := ⟨some fun _ _ => ⟨none, false⟩, some fun _ k => ⟨some (1000 + k), false⟩⟩
    ((lrun cfg (LConf.start [] 0 0 [[.get "n"]]) [0, 0, 0, 0]).ths.map (·.pc)) =
        [.notify ⟨"n", none, some 1000, true⟩ (.got 1000 .factory)] ∧
      ((lrun cfg (LConf.start [] 0 0 [[.get "n"]]) [0, 0, 0, 0, 0]).ths.map (·.pc)) = [.idle] := by
  decide

end ScVerif.C12
