import ScVerif.C12.Wrapped
import ScVerif.C12.ForwardLemmas
/-! Lemmas about the wrapped-server stream model (helper file): the fold of the handler's calls against the
recursive statements `attached` / `sentVals` / `trailers`, and the inner forwarder as a handler. -/
namespace ScVerif.C12

theorem wstep_headerSent_mono (s : WStream) (op : HOp) (h : s.headerSent = true) :
    (wstep s op).headerSent = true ∧ (wstep s op).header = s.header := by
  cases op <;> simp [wstep, h, WStream.flush]

theorem wrun_sent_header (ops : List HOp) (s : WStream) (h : s.headerSent = true) :
    (wrun s ops).header = s.header ∧ (wrun s ops).headerSent = true := by
  induction ops generalizing s with
  | nil => simp [wrun, h]
  | cons op r ih =>
    have h1 := wstep_headerSent_mono s op h
    have := ih (wstep s op) h1.1
    simp only [wrun, List.foldl_cons] at this ⊢
    exact ⟨this.1.trans h1.2, this.2⟩

/-- The header the client reads after the handler has returned. -/
theorem wrun_header (ops : List HOp) (s : WStream) (h : s.headerSent = false) :
    (wrun s ops).flush.header = s.header ++ attached ops := by
  induction ops generalizing s with
  | nil => simp [wrun, WStream.flush, attached]
  | cons op r ih =>
    cases op with
    | setHeader x =>
      have := ih (wstep s (.setHeader x)) (by simp [wstep, h])
      simp only [wrun, List.foldl_cons] at this ⊢
      rw [this]; simp [wstep, h, attached]
    | sendHeader x =>
      have hs : (wstep s (.sendHeader x)).headerSent = true := by simp [wstep, h]
      have := (wrun_sent_header r _ hs).1
      simp only [wrun, List.foldl_cons, WStream.flush] at this ⊢
      rw [this]; simp [wstep, h, attached]
    | write v =>
      have := ih (wstep s (.write v)) (by simp [wstep, h])
      simp only [wrun, List.foldl_cons] at this ⊢
      rw [this]; simp [wstep, attached]
    | send =>
      have hs : (wstep s .send).headerSent = true := by simp [wstep, WStream.flush]
      have := (wrun_sent_header r _ hs).1
      simp only [wrun, List.foldl_cons, WStream.flush] at this ⊢
      rw [this]; simp [wstep, WStream.flush, attached]
    | setTrailer t =>
      have := ih (wstep s (.setTrailer t)) (by simp [wstep, h])
      simp only [wrun, List.foldl_cons] at this ⊢
      rw [this]; simp [wstep, attached]

/-- What went through the hand-over channel: the handler's message as it was at each `SendMsg`. -/
theorem wrun_out (ops : List HOp) (s : WStream) :
    (wrun s ops).out = s.out ++ sentVals s.buf ops := by
  induction ops generalizing s with
  | nil => simp [wrun, sentVals]
  | cons op r ih =>
    have := ih (wstep s op)
    simp only [wrun, List.foldl_cons] at this ⊢
    rw [this]
    cases op <;> simp [wstep, sentVals, WStream.flush] <;> split <;> simp

theorem wrun_trailer (ops : List HOp) (s : WStream) :
    (wrun s ops).trailer = s.trailer ++ trailers ops := by
  induction ops generalizing s with
  | nil => simp [wrun, trailers]
  | cons op r ih =>
    have := ih (wstep s op)
    simp only [wrun, List.foldl_cons] at this ⊢
    rw [this]
    cases op <;> simp [wstep, trailers, WStream.flush] <;> split <;> simp

theorem wclose_header (buf : Tok) (ops : List HOp) : (wclose buf ops).header = attached ops := by
  have := wrun_header ops (WStream.init buf) rfl
  simpa [wclose, WStream.init] using this

theorem wclose_out (buf : Tok) (ops : List HOp) : (wclose buf ops).out = sentVals buf ops := by
  have := wrun_out ops (WStream.init buf)
  simpa [wclose, WStream.init, WStream.flush] using this

theorem wclose_trailer (buf : Tok) (ops : List HOp) : (wclose buf ops).trailer = trailers ops := by
  have := wrun_trailer ops (WStream.init buf)
  simpa [wclose, WStream.init, WStream.flush] using this

/-! ### the statements distribute over the handler's phases -/

theorem attached_append_noflush (a b : List HOp)
    (h : ∀ op ∈ a, (∃ x, op = .setHeader x) ∨ (∃ t, op = .setTrailer t) ∨ (∃ v, op = .write v)) :
    attached (a ++ b) = attached a ++ attached b := by
  induction a with
  | nil => simp [attached]
  | cons op r ih =>
    have hr := ih (fun o ho => h o (List.mem_cons_of_mem _ ho))
    rcases h op (List.mem_cons_self) with ⟨x, rfl⟩ | ⟨t, rfl⟩ | ⟨v, rfl⟩ <;> simp [attached, hr]

theorem sentVals_append_nosend (a b : List HOp) (buf : Tok)
    (h : ∀ op ∈ a, op ≠ .send ∧ ∀ v, op ≠ .write v) :
    sentVals buf (a ++ b) = sentVals buf b := by
  induction a with
  | nil => simp
  | cons op r ih =>
    have hr := ih (fun o ho => h o (List.mem_cons_of_mem _ ho))
    have := h op (List.mem_cons_self)
    cases op <;> simp_all [sentVals]

theorem trailers_append (a b : List HOp) : trailers (a ++ b) = trailers a ++ trailers b := by
  induction a with
  | nil => simp [trailers]
  | cons op r ih => cases op <;> simp [trailers, ih]

/-- The messages the inner forwarder passes on arrive as they were, whether or not the device overwrites
them afterwards (`reuse`, any `scr`), whatever the handler's message held before (`buf`). -/
theorem sentVals_pairs (reuse : Bool) (scr buf : Tok) (ms : List Tok) (tail : List PEv)
    (ht : ∀ buf', sentVals buf' (hopsOfEvents reuse scr tail) = []) :
    sentVals buf (hopsOfEvents reuse scr (pairs ms ++ tail)) = ms := by
  induction ms generalizing buf with
  | nil => simpa [pairs] using ht buf
  | cons m r ih =>
    have e : pairs (m :: r) = .recv :: .send m :: pairs r := by simp [pairs]
    rw [e]
    cases reuse
    · have := ih m
      simp [hopsOfEvents, sentVals, this]
    · have := ih scr
      simp [hopsOfEvents, sentVals, this]

theorem attached_pairs (reuse : Bool) (scr : Tok) (ms : List Tok) (tail : List PEv)
    (ht : attached (hopsOfEvents reuse scr tail) = []) :
    attached (hopsOfEvents reuse scr (pairs ms ++ tail)) = [] := by
  cases ms with
  | nil => simpa [pairs] using ht
  | cons m r =>
    have e : pairs (m :: r) = .recv :: .send m :: pairs r := by simp [pairs]
    rw [e]; simp [hopsOfEvents, attached]

theorem trailers_pairs (reuse : Bool) (scr : Tok) (ms : List Tok) (tail : List PEv) :
    trailers (hopsOfEvents reuse scr (pairs ms ++ tail)) = trailers (hopsOfEvents reuse scr tail) := by
  induction ms with
  | nil => simp [pairs]
  | cons m r ih =>
    have e : pairs (m :: r) = .recv :: .send m :: pairs r := by simp [pairs]
    rw [e]
    cases reuse <;> simp [hopsOfEvents, trailers, ih]

/-- The inner forwarder's calls when nothing fails on its own caller's side (the wrapper's server half). -/
theorem pumpEvents_healthy (c : Client) (src : Src) (cs : ChildScript)
    (hopen : cs.openErr = none) (hhdr : cs.headerErr = none) :
    pumpEvents (.got c src) cs healthy =
      [.openChild, .childHeader, .sendHeader cs.header] ++ (pairs cs.msgs ++ (.recv :: trailerEvents cs.trailer)) := by
  have hp := pumpLoop_all none cs.msgs 0 (by intro j hj; cases hj)
  have hl := loopEvents_eq none cs.msgs 0
  rw [hp] at hl
  simp only [Bool.false_eq_true, if_false] at hl
  simp [pumpEvents, hopen, hhdr, healthy, hl]

theorem forwardStream_healthy_status (cs : ChildScript)
    (hopen : cs.openErr = none) (hhdr : cs.headerErr = none) :
    deviceStatus cs = errToStatus cs.final := by
  have hp := pumpLoop_all none cs.msgs 0 (by intro j hj; cases hj)
  simp [deviceStatus, forwardStream, hopen, hhdr, healthy, hp]

theorem staged_attached (sh st : Option Tok) :
    attached (sh.toList.map HOp.setHeader ++ st.toList.map HOp.setTrailer) = sh.toList := by
  cases sh <;> cases st <;> simp [attached]

theorem staged_trailers (sh st : Option Tok) :
    trailers (sh.toList.map HOp.setHeader ++ st.toList.map HOp.setTrailer) = st.toList := by
  cases sh <;> cases st <;> simp [trailers]

theorem attached_stagedLists (hs ts : List Tok) :
    attached (hs.map HOp.setHeader ++ ts.map HOp.setTrailer) = hs := by
  induction hs with
  | nil =>
    induction ts with
    | nil => rfl
    | cons t r ih => simpa [attached] using ih
  | cons h r ih => simpa [attached] using ih

theorem sentVals_stagedLists (buf : Tok) (hs ts : List Tok) :
    sentVals buf (hs.map HOp.setHeader ++ ts.map HOp.setTrailer) = [] := by
  induction hs with
  | nil =>
    induction ts with
    | nil => rfl
    | cons t r ih => simpa [sentVals] using ih
  | cons h r ih => simpa [sentVals] using ih

theorem sentVals_nosend (a : List HOp) (h : ∀ op ∈ a, op ≠ .send) (b : Tok) : sentVals b a = [] := by
  induction a generalizing b with
  | nil => rfl
  | cons op r ih =>
    have h1 := h op List.mem_cons_self
    have h2 := fun b => ih (fun o ho => h o (List.mem_cons_of_mem _ ho)) b
    cases op <;> simp_all [sentVals]

theorem sentVals_nosend_answer (a : List HOp) (h : ∀ op ∈ a, op ≠ .send) (b m : Tok) :
    sentVals b (a ++ [.write m, .send]) = [m] := by
  induction a generalizing b with
  | nil => simp [sentVals]
  | cons op r ih =>
    have h1 := h op List.mem_cons_self
    have h2 := fun b => ih (fun o ho => h o (List.mem_cons_of_mem _ ho)) b
    cases op <;> simp_all [sentVals]

theorem staged_noflush (sh st : Option Tok) :
    ∀ op ∈ sh.toList.map HOp.setHeader ++ st.toList.map HOp.setTrailer,
      (∃ x, op = .setHeader x) ∨ (∃ t, op = .setTrailer t) ∨ (∃ v, op = HOp.write v) := by
  intro op h
  cases sh <;> cases st <;> simp_all <;> (rcases h with rfl | rfl <;> simp)

theorem staged_nosend (sh st : Option Tok) :
    ∀ op ∈ sh.toList.map HOp.setHeader ++ st.toList.map HOp.setTrailer, op ≠ .send ∧ ∀ v, op ≠ HOp.write v := by
  intro op h
  cases sh <;> cases st <;> simp_all <;> (rcases h with rfl | rfl <;> simp)

end ScVerif.C12
