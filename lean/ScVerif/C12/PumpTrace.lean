import ScVerif.C12.ForwardLemmas
/-!
# C12 — the server-stream pump as a sequence of calls (timing of header, messages, trailer)

`forwardStream` (Forward.lean) gives what the caller has observed once the handler has returned.  That
cannot distinguish a forwarder that holds the child's header back until the first message (or stages it
with `SetHeader`) from one that passes it on at once.  `pumpEvents` is the same generated code
(`/repo/cmd/protoc-gen-router/router.go.gotxt`, server-streaming branch) as the sequence of calls it
makes on the child's client stream and on the caller's server stream, in order.
-/
namespace ScVerif.C12

/-- One call made by the forwarder. -/
inductive PEv where
  | openChild                     -- `child.PullXxx(reqCtx, request)`
  | childHeader                   -- `stream.Header()`
  | sendHeader (h : Option Tok)   -- `server.SendHeader(header)`
  | recv                          -- `stream.Recv()`
  | send (m : Tok)                -- `server.Send(msg)`
  | childTrailer                  -- `stream.Trailer()`
  | setTrailer (t : Tok)          -- `server.SetTrailer(trailer)`
  | cancel                        -- `reqDone()`
deriving DecidableEq, Repr

/-- The `for` loop: `i` is the index of the next `Send`; the flag says the loop ended by a caller error. -/
def loopEvents (failAt : Option Nat) : List Tok → Nat → List PEv × Bool
  | [], _ => ([.recv], false)
  | m :: ms, i =>
    if failAt = some i then ([.recv, .send m], true)
    else
      let r := loopEvents failAt ms (i + 1)
      (.recv :: .send m :: r.1, r.2)

def trailerEvents : Option Tok → List PEv
  | some t => [.childTrailer, .setTrailer t]
  | none => [.childTrailer]

/-- The calls of the generated server-streaming forwarder, in order. -/
def pumpEvents (got : Res) (cs : ChildScript) (k : CallerScript) : List PEv :=
  match got with
  | .got _ _ =>
    match cs.openErr with
    | some _ => [.openChild]
    | none =>
      match cs.headerErr with
      | some _ => [.openChild, .childHeader]
      | none =>
        match k.sendHeaderErr with
        | some _ => [.openChild, .childHeader, .sendHeader cs.header]
        | none =>
          let r := loopEvents k.failAt cs.msgs 0
          [.openChild, .childHeader, .sendHeader cs.header] ++ r.1 ++
            (if r.2 then [.cancel] else trailerEvents cs.trailer)
  | _ => []

/-- `Recv` then `Send` for every delivered message. -/
def pairs (ms : List Tok) : List PEv := ms.flatMap fun m => [.recv, .send m]

/-- The loop in closed form, in terms of what `pumpLoop` says was delivered: a `Recv`/`Send` pair per
delivered message, then either the `Recv` that returned the child's final error, or the `Recv` and the
`Send` (of the next child message) that failed. -/
theorem loopEvents_eq (failAt : Option Nat) (ms : List Tok) (i : Nat) :
    loopEvents failAt ms i =
      (pairs (pumpLoop failAt ms i).1 ++
        (if (pumpLoop failAt ms i).2.2.2 then
          .recv :: (ms.drop (pumpLoop failAt ms i).1.length).head?.toList.map .send
        else [.recv]),
       (pumpLoop failAt ms i).2.2.2) := by
  induction ms generalizing i with
  | nil => simp [loopEvents, pumpLoop, pairs]
  | cons m ms ih =>
    by_cases h : failAt = some i
    · simp [loopEvents, pumpLoop, h, pairs]
    · simp only [loopEvents, pumpLoop, h, if_false]
      rw [ih (i + 1)]
      simp [pairs]

theorem sendHeader_not_mem_loop (failAt : Option Nat) (ms : List Tok) (i : Nat) (h : Option Tok) :
    PEv.sendHeader h ∉ (loopEvents failAt ms i).1 := by
  induction ms generalizing i with
  | nil => simp [loopEvents]
  | cons m ms ih =>
    simp only [loopEvents]
    split
    · simp
    · simp [ih (i + 1)]

end ScVerif.C12
