import ScVerif.C12.Registry
/-! Lemmas about the registry model (helper file: no property theorems here). -/
namespace ScVerif.C12

theorem Reg.get_erase (r : Reg) (n k : Name) :
    (r.erase n).get k = if k = n then none else r.get k := by
  induction r with
  | nil => simp [Reg.erase, Reg.get]
  | cons p rest ih =>
    obtain ⟨m, c⟩ := p
    simp only [Reg.erase] at ih ⊢
    by_cases hmn : m = n
    · subst hmn
      simp only [List.filter, ne_eq, not_true_eq_false, decide_false]
      rw [ih]
      by_cases hk : k = m
      · simp [hk]
      · have : ¬ m = k := fun h => hk h.symm
        simp [hk, Reg.get, this]
    · simp only [List.filter, ne_eq, hmn, not_false_eq_true, decide_true]
      simp only [Reg.get]
      rw [ih]
      by_cases hmk : m = k
      · subst hmk
        simp [hmn]
      · simp [hmk]

theorem Reg.get_set (r : Reg) (n k : Name) (c : Client) :
    (r.set n c).get k = if k = n then some c else r.get k := by
  simp only [Reg.set, Reg.get]
  by_cases h : n = k
  · subst h; simp
  · have h' : ¬ k = n := fun e => h e.symm
    simp [h, h', Reg.get_erase]

theorem Reg.set_abs (r : Reg) (n : Name) (c : Client) :
    (r.set n c).get = SMap.upd r.get n (some c) := by
  funext k; simp [Reg.get_set, SMap.upd]

theorem Reg.erase_abs (r : Reg) (n : Name) :
    (r.erase n).get = SMap.upd r.get n none := by
  funext k; simp [Reg.get_erase, SMap.upd]

theorem invoke_eq (f : Option Factory) (n : Name) (k : Nat) :
    invoke f n k = (supplies f n k, f.isSome) := by
  cases f <;> simp [invoke, supplies]

/-- One operation of the model is one operation of the map specification. -/
theorem step_refines (cfg : Cfg) (s : St) (op : Op) :
    sstep cfg s.abs op = ((step cfg s op).1.abs, (step cfg s op).2) := by
  cases op with
  | add n c => simp [sstep, step, add, St.abs, Reg.set_abs]
  | remove n =>
    have hx : s.reg.get n = none ∨ ∃ c, s.reg.get n = some c := by cases s.reg.get n <;> simp
    rcases hx with hx | ⟨c, hx⟩ <;> simp [sstep, step, remove, St.abs, hx, Reg.erase_abs]
  | has n => simp [sstep, step, has, St.abs]
  | get n =>
    have hx : s.reg.get n = none ∨ ∃ c, s.reg.get n = some c := by cases s.reg.get n <;> simp
    rcases hx with h | ⟨c, h⟩
    · simp only [sstep, step, get, St.abs, invoke_eq, h]
      cases hfb : supplies cfg.fallback n s.nfb with
      | some c =>
        have : cfg.fallback.isSome = true := by
          cases hf : cfg.fallback <;> simp_all [supplies]
        simp [this]
      | none =>
        simp only
        cases hf : cfg.fallback.isSome <;> simp only [called, hf, Bool.false_eq_true, ↓reduceIte, Nat.add_zero]
        all_goals
          cases hfc : supplies cfg.factory n s.nfac with
          | some c =>
            have : cfg.factory.isSome = true := by
              cases hg : cfg.factory <;> simp_all [supplies]
            simp [this, h, Reg.set_abs]
          | none =>
            cases hg : cfg.factory.isSome <;> simp
    · simp [sstep, step, get, St.abs, h]

theorem run_refines (cfg : Cfg) (s : St) (ops : List Op) :
    srun cfg s.abs ops = ((run cfg s ops).1.abs, (run cfg s ops).2) := by
  induction ops generalizing s with
  | nil => simp [srun, run]
  | cons op ops ih =>
    simp only [srun, run, step_refines, ih]

/-! ### The change log is exact -/

theorem replay_append (m : SMap) (xs ys : List Change) :
    replay m (xs ++ ys) = replay (replay m xs) ys := by
  induction xs generalizing m with
  | nil => rfl
  | cons c cs ih => simp [replay, ih]

theorem oldExact_append (m : SMap) (xs ys : List Change) :
    OldExact m (xs ++ ys) ↔ OldExact m xs ∧ OldExact (replay m xs) ys := by
  induction xs generalizing m with
  | nil => simp [OldExact, replay]
  | cons c cs ih => simp [OldExact, replay, ih, and_assoc]

theorem SMap.upd_same (m : SMap) (n : Name) : m.upd n (m n) = m := by
  funext k; by_cases h : k = n <;> simp [SMap.upd, h]

/-- The log written by one spec step: it extends the old log by `d`, replaying `d` over the old map
gives the new map, and every `Old` in `d` is exact. -/
theorem sstep_log (cfg : Cfg) (s : SSt) (op : Op) :
    ∃ d, (sstep cfg s op).1.log = s.log ++ d ∧ replay s.m d = (sstep cfg s op).1.m ∧ OldExact s.m d ∧
      d.length ≤ 1 := by
  cases op with
  | add n c => exact ⟨[⟨n, s.m n, some c, false⟩], by simp [sstep, replay, OldExact]⟩
  | remove n =>
    simp only [sstep]
    split
    · exact ⟨[⟨n, s.m n, none, false⟩], by simp [replay, OldExact]⟩
    · exact ⟨[], by simp [replay, OldExact]⟩
  | has n => exact ⟨[], by simp [sstep, replay, OldExact]⟩
  | get n =>
    simp only [sstep]
    split
    · exact ⟨[], by simp [replay, OldExact]⟩
    · rename_i hm
      split
      · exact ⟨[], by simp [replay, OldExact]⟩
      · split
        · rename_i c _
          exact ⟨[⟨n, none, some c, true⟩], by simp [replay, OldExact, hm]⟩
        · exact ⟨[], by simp [replay, OldExact]⟩

theorem srun_log (cfg : Cfg) (s : SSt) (ops : List Op) :
    ∃ d, (srun cfg s ops).1.log = s.log ++ d ∧ replay s.m d = (srun cfg s ops).1.m ∧ OldExact s.m d ∧
      d.length ≤ ops.length := by
  induction ops generalizing s with
  | nil => exact ⟨[], by simp [srun, replay, OldExact]⟩
  | cons op ops ih =>
    obtain ⟨d1, h1, h2, h3, h4⟩ := sstep_log cfg s op
    obtain ⟨d2, g1, g2, g3, g4⟩ := ih (sstep cfg s op).1
    refine ⟨d1 ++ d2, ?_, ?_, ?_, ?_⟩
    · simp only [srun]; rw [g1, h1, List.append_assoc]
    · simp only [srun]; rw [replay_append, h2, g2]
    · rw [oldExact_append]; exact ⟨h3, by rw [h2]; exact g3⟩
    · simp only [List.length_append, List.length_cons]; omega

end ScVerif.C12
