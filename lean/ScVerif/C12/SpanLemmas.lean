import ScVerif.C12.Span
import ScVerif.C12.LinLemmas
/-! Invariants of the span bookkeeping (helper file: no property theorems here). -/
namespace ScVerif.C12

theorem mapAt_append (reg0 : Reg) (glog x : List GEntry) (i : Nat) (h : i ≤ glog.length) :
    mapAt reg0 (glog ++ x) i = mapAt reg0 glog i := by
  simp only [mapAt, List.take_append_of_le_length h]

theorem mapAt_full (reg0 : Reg) (c : LConf) (h : LInv reg0 c) :
    mapAt reg0 c.glog c.glog.length = c.st.reg.get := by
  simp only [mapAt, List.take_length]
  rw [h.lin]

theorem justified_mono (cfg : Cfg) (reg0 : Reg) (glog x : List GEntry) (t : Nat) (op : Op) (r : Res)
    (a b : Nat) (hab : a < b) (hb : b ≤ glog.length) (h : Justified cfg reg0 glog t op r a b) :
    Justified cfg reg0 (glog ++ x) t op r a b := by
  have ha : a ≤ glog.length := by omega
  have ha1 : a + 1 ≤ glog.length := by omega
  cases op with
  | add n c =>
    cases r <;> simp only [Justified] at h ⊢
    rw [mapAt_append _ _ _ _ ha, mapAt_append _ _ _ _ ha1]; exact h
  | remove n =>
    cases r <;> simp only [Justified] at h ⊢
    rw [mapAt_append _ _ _ _ ha, mapAt_append _ _ _ _ ha1]; exact h
  | has n =>
    cases r <;> simp only [Justified] at h ⊢
    rw [mapAt_append _ _ _ _ ha]; exact h
  | get n =>
    cases r with
    | prev _ => simp only [Justified] at h
    | bool _ => simp only [Justified] at h
    | notFound =>
      simp only [Justified] at h ⊢
      rw [mapAt_append _ _ _ _ ha]; exact h
    | got c src =>
      cases src with
      | fallback =>
        simp only [Justified] at h ⊢
        rw [mapAt_append _ _ _ _ ha]; exact h
      | registered =>
        simp only [Justified] at h ⊢
        obtain ⟨i, h1, h2, h3, h4⟩ := h
        refine ⟨i, h1, h2, ?_, ?_⟩
        · rw [List.getElem?_append_left (by omega)]; exact h3
        · rw [mapAt_append _ _ _ _ (by omega)]; exact h4
      | factory =>
        simp only [Justified] at h ⊢
        obtain ⟨i, h1, h2, h3, h4⟩ := h
        refine ⟨i, h1, h2, ?_, ?_⟩
        · rw [List.getElem?_append_left (by omega)]; exact h3
        · rw [mapAt_append _ _ _ _ (by omega)]; exact h4

theorem justified_widen (cfg : Cfg) (reg0 : Reg) (glog : List GEntry) (t : Nat) (op : Op) (r : Res)
    (a b b' : Nat) (hb : b ≤ b') (h : Justified cfg reg0 glog t op r a b) :
    Justified cfg reg0 glog t op r a b' := by
  cases op with
  | add n c => cases r <;> simp only [Justified] at h ⊢ <;> exact h
  | remove n => cases r <;> simp only [Justified] at h ⊢ <;> exact h
  | has n => cases r <;> simp only [Justified] at h ⊢ <;> exact h
  | get n =>
    cases r with
    | prev _ => simp only [Justified] at h
    | bool _ => simp only [Justified] at h
    | notFound => simp only [Justified] at h ⊢; exact h
    | got c src =>
      cases src with
      | fallback => simp only [Justified] at h ⊢; exact h
      | registered =>
        simp only [Justified] at h ⊢
        obtain ⟨i, h1, h2, h3⟩ := h
        exact ⟨i, h1, by omega, h3⟩
      | factory =>
        simp only [Justified] at h ⊢
        obtain ⟨i, h1, h2, h3⟩ := h
        exact ⟨i, h1, by omega, h3⟩

/-- The bookkeeping of one thread is consistent with its state. -/
structure ThreadOK (cfg : Cfg) (reg0 : Reg) (glog : List GEntry) (t : Nat) (prog0 : List Op)
    (th : LThread) (cur : Option (Op × Nat)) (done : List Span) : Prop where
  results : th.results = done.map (·.res)
  prog : prog0 = done.map (·.op) ++ (cur.map (·.1)).toList ++ th.prog
  spans : ∀ sp ∈ done, sp.first < sp.last ∧ sp.last ≤ glog.length ∧
    Justified cfg reg0 glog t sp.op sp.res sp.first sp.last
  pc : match th.pc with
    | .idle => cur = none
    | .fallback n => ∃ a, cur = some (.get n, a) ∧ a < glog.length ∧ mapAt reg0 glog a n = none
    | .factory n => ∃ a, cur = some (.get n, a) ∧ a < glog.length ∧ mapAt reg0 glog a n = none
    | .insert n _ => ∃ a, cur = some (.get n, a) ∧ a < glog.length ∧ mapAt reg0 glog a n = none
    | .notify _ r => ∃ op a, cur = some (op, a) ∧ a < glog.length ∧
        Justified cfg reg0 glog t op r a glog.length

theorem threadOK_mono {cfg : Cfg} {reg0 : Reg} {glog : List GEntry} {t : Nat} {prog0 : List Op}
    {th : LThread} {cur : Option (Op × Nat)} {done : List Span} (x : List GEntry)
    (h : ThreadOK cfg reg0 glog t prog0 th cur done) :
    ThreadOK cfg reg0 (glog ++ x) t prog0 th cur done := by
  refine ⟨h.results, h.prog, ?_, ?_⟩
  · intro sp hsp
    obtain ⟨h1, h2, h3⟩ := h.spans sp hsp
    exact ⟨h1, by simp; omega, justified_mono _ _ _ _ _ _ _ _ _ h1 h2 h3⟩
  · have hp := h.pc
    cases hpc : th.pc with
    | idle => rw [hpc] at hp; exact hp
    | fallback n =>
      rw [hpc] at hp; obtain ⟨a, h1, h2, h3⟩ := hp
      exact ⟨a, h1, by simp; omega, by rw [mapAt_append _ _ _ _ (by omega)]; exact h3⟩
    | factory n =>
      rw [hpc] at hp; obtain ⟨a, h1, h2, h3⟩ := hp
      exact ⟨a, h1, by simp; omega, by rw [mapAt_append _ _ _ _ (by omega)]; exact h3⟩
    | insert n c =>
      rw [hpc] at hp; obtain ⟨a, h1, h2, h3⟩ := hp
      exact ⟨a, h1, by simp; omega, by rw [mapAt_append _ _ _ _ (by omega)]; exact h3⟩
    | notify ch r =>
      rw [hpc] at hp; obtain ⟨op, a, h1, h2, h3⟩ := hp
      refine ⟨op, a, h1, by simp; omega, ?_⟩
      exact justified_widen _ _ _ _ _ _ _ _ _ (by simp) (justified_mono _ _ _ _ _ _ _ _ _ h2 (Nat.le_refl _) h3)

local macro "lenarith" : tactic =>
  `(tactic| first | omega | (simp only [List.length_append, List.length_cons, List.length_nil]; omega) | (simp; omega) | simp)

theorem threadOK_step {cfg : Cfg} {reg0 : Reg} {glog : List GEntry} {t : Nat} {prog0 : List Op}
    {th : LThread} {cur : Option (Op × Nat)} {done : List Span} (s : St) (e : Effect)
    (h : ThreadOK cfg reg0 glog t prog0 th cur done)
    (hact : action cfg s th = some e)
    (hmap : mapAt reg0 glog glog.length = s.reg.get)
    (hmap' : mapAt reg0 (glog ++ (optList e.g).map (fun p => (⟨t, p.1, p.2⟩ : GEntry)))
               (glog ++ (optList e.g).map (fun p => (⟨t, p.1, p.2⟩ : GEntry))).length = e.st.reg.get) :
    match closeOp e.th (startCur th glog.length cur) with
    | some (op, a, r) =>
      ThreadOK cfg reg0 (glog ++ (optList e.g).map (fun p => (⟨t, p.1, p.2⟩ : GEntry))) t prog0 e.th none
        (done ++ [⟨op, r, a, (glog ++ (optList e.g).map (fun p => (⟨t, p.1, p.2⟩ : GEntry))).length⟩])
    | none =>
      ThreadOK cfg reg0 (glog ++ (optList e.g).map (fun p => (⟨t, p.1, p.2⟩ : GEntry))) t prog0 e.th
        (startCur th glog.length cur) done := by
  obtain ⟨prog, pc, results, seen⟩ := th
  have hres := h.results
  have hprog := h.prog
  have hspans := h.spans
  have hpc := h.pc
  simp only at hres hprog hpc
  have hold : ∀ (x : List GEntry), ∀ sp ∈ done, sp.first < sp.last ∧ sp.last ≤ (glog ++ x).length ∧
      Justified cfg reg0 (glog ++ x) t sp.op sp.res sp.first sp.last := by
    intro x sp hsp
    obtain ⟨h1, h2, h3⟩ := hspans sp hsp
    exact ⟨h1, by lenarith, justified_mono _ _ _ _ _ _ _ _ _ h1 h2 h3⟩
  cases pc with
  | notify ch r =>
    simp only [action, Option.some.injEq] at hact
    subst hact
    obtain ⟨op, a, hc, ha, hj⟩ := hpc
    subst hc
    simp [LThread.finish, optList, closeOp, startCur] at hmap' ⊢
    refine ⟨by simp [hres], by simp [hprog], ?_, ?_⟩
    · intro sp hsp
      rcases List.mem_append.mp hsp with hsp | hsp
      · simpa using hold [] sp hsp
      · simp at hsp; subst hsp; exact ⟨ha, Nat.le_refl _, hj⟩
    · trivial
  | fallback n =>
    obtain ⟨a, hc, ha, hm⟩ := hpc
    subst hc
    simp only [action] at hact
    cases hi : (invoke cfg.fallback n s.nfb).1 with
    | some c =>
      rw [hi] at hact
      simp only [Option.some.injEq] at hact
      subst hact
      simp [LThread.finish, optList, closeOp, startCur] at hmap' ⊢
      refine ⟨by simp [hres], by simp [hprog], ?_, ?_⟩
      · intro sp hsp
        rcases List.mem_append.mp hsp with hsp | hsp
        · simpa using hold [] sp hsp
        · simp at hsp; subst hsp
          refine ⟨ha, Nat.le_refl _, ?_⟩
          simp only [Justified]
          exact ⟨hm, s.nfb, by rw [invoke_eq] at hi; exact hi⟩
      · trivial
    | none =>
      rw [hi] at hact
      simp only [Option.some.injEq] at hact
      subst hact
      simp [optList, closeOp, startCur] at hmap' ⊢
      exact ⟨hres, by simpa using hprog, fun sp hsp => by simpa using hold [] sp hsp, ⟨a, rfl, ha, hm⟩⟩
  | factory n =>
    obtain ⟨a, hc, ha, hm⟩ := hpc
    subst hc
    simp only [action] at hact
    cases hi : (invoke cfg.factory n s.nfac).1 with
    | none =>
      rw [hi] at hact
      simp only [Option.some.injEq] at hact
      subst hact
      simp [LThread.finish, optList, closeOp, startCur] at hmap' ⊢
      refine ⟨by simp [hres], by simp [hprog], ?_, ?_⟩
      · intro sp hsp
        rcases List.mem_append.mp hsp with hsp | hsp
        · simpa using hold [] sp hsp
        · simp at hsp; subst hsp
          exact ⟨ha, Nat.le_refl _, by simpa [Justified] using hm⟩
      · trivial
    | some c =>
      rw [hi] at hact
      simp only [Option.some.injEq] at hact
      subst hact
      simp [optList, closeOp, startCur] at hmap' ⊢
      exact ⟨hres, by simpa using hprog, fun sp hsp => by simpa using hold [] sp hsp, ⟨a, rfl, ha, hm⟩⟩
  | insert n c =>
    obtain ⟨a, hc, ha, hm⟩ := hpc
    subst hc
    simp only [action] at hact
    cases hr : s.reg.get n with
    | some w =>
      rw [hr] at hact
      simp only [Option.some.injEq] at hact
      subst hact
      simp [LThread.finish, LThread.see, optList, closeOp, startCur] at hmap' ⊢
      refine ⟨by simp [hres], by simp [hprog], ?_, by simp⟩
      intro sp hsp
      rcases List.mem_append.mp hsp with hsp | hsp
      · exact ⟨(hspans sp hsp).1, by have := (hspans sp hsp).2.1; lenarith, (hold _ sp hsp).2.2⟩
      · simp at hsp; subst hsp
        refine ⟨by lenarith, by simp, ?_⟩
        simp only [Justified]
        refine ⟨glog.length, by lenarith, by simp, by simp, ?_⟩
        rw [hmap', hr]
    | none =>
      rw [hr] at hact
      simp only [Option.some.injEq] at hact
      subst hact
      simp [LThread.see, optList, closeOp, startCur] at hmap' ⊢
      refine ⟨hres, by simpa using hprog, fun sp hsp => ⟨(hspans sp hsp).1, by have := (hspans sp hsp).2.1; lenarith, (hold _ sp hsp).2.2⟩, ?_⟩
      refine ⟨.get n, a, rfl, by lenarith, ?_⟩
      simp only [Justified]
      refine ⟨glog.length, by lenarith, by simp, by simp, ?_⟩
      rw [hmap']; simp [Reg.get_set]
  | idle =>
    subst hpc
    cases prog with
    | nil => simp [action] at hact
    | cons op rest =>
      cases op with
      | add n c =>
        simp only [action, Option.some.injEq] at hact
        subst hact
        simp [LThread.see, optList, closeOp, startCur] at hmap' ⊢
        refine ⟨hres, by simpa using hprog, fun sp hsp => ⟨(hspans sp hsp).1, by have := (hspans sp hsp).2.1; lenarith, (hold _ sp hsp).2.2⟩, ?_⟩
        refine ⟨.add n c, glog.length, rfl, by lenarith, ?_⟩
        simp only [Justified]
        refine ⟨?_, ?_⟩
        · rw [mapAt_append _ _ _ _ (Nat.le_refl _), hmap]
        · rw [hmap']; simp [Reg.get_set]
      | remove n =>
        simp only [action] at hact
        cases hr : s.reg.get n with
        | none =>
          rw [hr] at hact
          simp only [Option.some.injEq] at hact
          subst hact
          simp [LThread.finish, LThread.see, optList, closeOp, startCur] at hmap' ⊢
          refine ⟨by simp [hres], by simp [hprog], ?_, by simp⟩
          intro sp hsp
          rcases List.mem_append.mp hsp with hsp | hsp
          · exact ⟨(hspans sp hsp).1, by have := (hspans sp hsp).2.1; lenarith, (hold _ sp hsp).2.2⟩
          · simp at hsp; subst hsp
            refine ⟨by lenarith, by lenarith, ?_⟩
            simp only [Justified]
            refine ⟨?_, ?_⟩
            · rw [mapAt_append _ _ _ _ (Nat.le_refl _), hmap, hr]
            · rw [hmap', hr]
        | some o =>
          rw [hr] at hact
          simp only [Option.some.injEq] at hact
          subst hact
          simp [LThread.see, optList, closeOp, startCur] at hmap' ⊢
          refine ⟨hres, by simpa using hprog, fun sp hsp => ⟨(hspans sp hsp).1, by have := (hspans sp hsp).2.1; lenarith, (hold _ sp hsp).2.2⟩, ?_⟩
          refine ⟨.remove n, glog.length, rfl, by lenarith, ?_⟩
          simp only [Justified]
          refine ⟨?_, ?_⟩
          · rw [mapAt_append _ _ _ _ (Nat.le_refl _), hmap, hr]
          · rw [hmap']; simp [Reg.get_erase]
      | has n =>
        simp only [action, Option.some.injEq] at hact
        subst hact
        simp [LThread.finish, LThread.see, optList, closeOp, startCur] at hmap' ⊢
        refine ⟨by simp [hres], by simp [hprog], ?_, by simp⟩
        intro sp hsp
        rcases List.mem_append.mp hsp with hsp | hsp
        · exact ⟨(hspans sp hsp).1, by have := (hspans sp hsp).2.1; lenarith, (hold _ sp hsp).2.2⟩
        · simp at hsp; subst hsp
          refine ⟨by lenarith, by lenarith, ?_⟩
          simp only [Justified]
          rw [mapAt_append _ _ _ _ (Nat.le_refl _), hmap]
      | get n =>
        simp only [action] at hact
        cases hr : s.reg.get n with
        | some w =>
          rw [hr] at hact
          simp only [Option.some.injEq] at hact
          subst hact
          simp [LThread.finish, LThread.see, optList, closeOp, startCur] at hmap' ⊢
          refine ⟨by simp [hres], by simp [hprog], ?_, by simp⟩
          intro sp hsp
          rcases List.mem_append.mp hsp with hsp | hsp
          · exact ⟨(hspans sp hsp).1, by have := (hspans sp hsp).2.1; lenarith, (hold _ sp hsp).2.2⟩
          · simp at hsp; subst hsp
            refine ⟨by lenarith, by lenarith, ?_⟩
            simp only [Justified]
            refine ⟨glog.length, by lenarith, by simp, by simp, ?_⟩
            rw [hmap', hr]
        | none =>
          rw [hr] at hact
          simp only [Option.some.injEq] at hact
          subst hact
          simp [LThread.see, optList, closeOp, startCur] at hmap' ⊢
          refine ⟨hres, by simpa using hprog, fun sp hsp => ⟨(hspans sp hsp).1, by have := (hspans sp hsp).2.1; lenarith, (hold _ sp hsp).2.2⟩, ?_⟩
          refine ⟨glog.length, rfl, by lenarith, ?_⟩
          rw [mapAt_append _ _ _ _ (Nat.le_refl _), hmap, hr]


/-- Invariant of every configuration reachable from `TConf.start reg0 .. progs`. -/
structure TInv (cfg : Cfg) (reg0 : Reg) (progs : List (List Op)) (tc : TConf) : Prop where
  linv : LInv reg0 tc.c
  len : tc.cur.length = tc.c.ths.length ∧ tc.done.length = tc.c.ths.length
  ok : ∀ t th, tc.c.ths[t]? = some th →
    ThreadOK cfg reg0 tc.c.glog t (progs.getD t []) th (tc.cur.getD t none) (tc.done.getD t [])

theorem tinv_start (cfg : Cfg) (reg0 : Reg) (k1 k2 : Nat) (progs : List (List Op)) :
    TInv cfg reg0 progs (TConf.start reg0 k1 k2 progs) := by
  refine ⟨linv_start reg0 k1 k2 progs, by simp [TConf.start, LConf.start], ?_⟩
  intro t th hth
  simp only [TConf.start, LConf.start, List.getElem?_map, Option.map_eq_some_iff] at hth
  obtain ⟨p, hp, hp2⟩ := hth
  subst hp2
  have h1 : (List.map (fun _ => (none : Option (Op × Nat))) progs).getD t none = none := by
    simp [List.getD, List.getElem?_map, hp]
  have h2 : (List.map (fun _ => ([] : List Span)) progs).getD t [] = [] := by
    simp [List.getD, List.getElem?_map, hp]
  have h3 : progs.getD t [] = p := by simp [List.getD, hp]
  simp only [TConf.start, LConf.start]
  rw [h1, h2, h3]
  exact ⟨rfl, by simp, by simp, rfl⟩

theorem getD_set_self {α : Type} (l : List α) (t : Nat) (v d : α) (h : t < l.length) :
    (l.set t v).getD t d = v := by
  simp [List.getD, List.getElem?_set_self h]

theorem getD_set_ne {α : Type} (l : List α) (t t' : Nat) (v d : α) (h : t ≠ t') :
    (l.set t v).getD t' d = l.getD t' d := by
  simp [List.getD, List.getElem?_set_ne h]

theorem tinv_update {cfg : Cfg} {reg0 : Reg} {progs : List (List Op)} {tc : TConf}
    (h : TInv cfg reg0 progs tc) (t : Nat) (th th' : LThread) (hth : tc.c.ths[t]? = some th)
    (c' : LConf) (x : List GEntry) (hths : c'.ths = tc.c.ths.set t th') (hglog : c'.glog = tc.c.glog ++ x)
    (hlinv' : LInv reg0 c') (cur' : List (Option (Op × Nat))) (done' : List (List Span))
    (hcl : cur'.length = tc.cur.length) (hdl : done'.length = tc.done.length)
    (hco : ∀ t', t ≠ t' → cur'.getD t' none = tc.cur.getD t' none)
    (hdo : ∀ t', t ≠ t' → done'.getD t' [] = tc.done.getD t' [])
    (hok : ThreadOK cfg reg0 c'.glog t (progs.getD t []) th' (cur'.getD t none) (done'.getD t [])) :
    TInv cfg reg0 progs ⟨c', cur', done'⟩ := by
  refine ⟨hlinv', by simp [hths, hcl, hdl, h.len.1, h.len.2], ?_⟩
  intro t' th'' ht'
  simp only at ht' ⊢
  rw [hths] at ht'
  have hlt : t < tc.c.ths.length := by
    rcases Nat.lt_or_ge t tc.c.ths.length with hl | hl
    · exact hl
    · rw [List.getElem?_eq_none hl] at hth; cases hth
  by_cases htt : t = t'
  · subst htt
    rw [List.getElem?_set_self hlt] at ht'
    cases ht'
    exact hok
  · rw [List.getElem?_set_ne htt] at ht'
    rw [hco t' htt, hdo t' htt, hglog]
    exact threadOK_mono x (h.ok t' th'' ht')

theorem tinv_tstep {cfg : Cfg} {reg0 : Reg} {progs : List (List Op)} {tc : TConf}
    (h : TInv cfg reg0 progs tc) (t : Nat) : TInv cfg reg0 progs (tstep cfg tc t) := by
  unfold tstep
  cases hth : tc.c.ths[t]? with
  | none => exact h
  | some th =>
    simp only
    cases hact : action cfg tc.c.st th with
    | none => exact h
    | some e =>
      simp only
      have hlt : t < tc.c.ths.length := by
        rcases Nat.lt_or_ge t tc.c.ths.length with hl | hl
        · exact hl
        · rw [List.getElem?_eq_none hl] at hth; cases hth
      have hl : lstep cfg tc.c t =
          { st := { e.st with log := tc.c.st.log ++ optList e.deliver }, ths := tc.c.ths.set t e.th,
            glog := tc.c.glog ++ (optList e.g).map (fun p => (⟨t, p.1, p.2⟩ : GEntry)),
            clog := tc.c.clog ++ optList e.commit } := by
        simp [lstep, hth, hact]
      have hlinv' := linv_lstep (cfg := cfg) h.linv t
      have hmap := mapAt_full reg0 tc.c h.linv
      have hmap' := mapAt_full reg0 _ hlinv'
      rw [hl] at hmap'
      simp only at hmap'
      have hstep := threadOK_step tc.c.st e (h.ok t th hth) hact hmap hmap'
      have hglog : (lstep cfg tc.c t).glog = tc.c.glog ++ (optList e.g).map (fun p => (⟨t, p.1, p.2⟩ : GEntry)) := by
        rw [hl]
      have hths : (lstep cfg tc.c t).ths = tc.c.ths.set t e.th := by rw [hl]
      have hcur : t < tc.cur.length := by rw [h.len.1]; exact hlt
      have hdone : t < tc.done.length := by rw [h.len.2]; exact hlt
      cases hclose : closeOp e.th (startCur th tc.c.glog.length (tc.cur.getD t none)) with
      | some p =>
        obtain ⟨op, a, r⟩ := p
        rw [hclose] at hstep
        simp only at hstep ⊢
        refine tinv_update h t th e.th hth _ _ hths hglog hlinv' _ _ (by simp) (by simp)
          (fun t' ht' => getD_set_ne _ _ _ _ _ ht') (fun t' ht' => getD_set_ne _ _ _ _ _ ht') ?_
        rw [getD_set_self _ _ _ _ hcur, getD_set_self _ _ _ _ hdone, hglog]
        exact hstep
      | none =>
        rw [hclose] at hstep
        simp only at hstep ⊢
        refine tinv_update h t th e.th hth _ _ hths hglog hlinv' _ _ (by simp) rfl
          (fun t' ht' => getD_set_ne _ _ _ _ _ ht') (fun t' ht' => rfl) ?_
        rw [getD_set_self _ _ _ _ hcur, hglog]
        exact hstep

theorem tinv_trun {cfg : Cfg} {reg0 : Reg} {progs : List (List Op)} {tc : TConf}
    (h : TInv cfg reg0 progs tc) (sched : List Nat) : TInv cfg reg0 progs (trun cfg tc sched) := by
  induction sched generalizing tc with
  | nil => exact h
  | cons t ts ih => exact ih (tinv_tstep h t)

/-- The span bookkeeping does not change the run. -/
theorem trun_c (cfg : Cfg) (tc : TConf) (sched : List Nat) : (trun cfg tc sched).c = lrun cfg tc.c sched := by
  induction sched generalizing tc with
  | nil => rfl
  | cons t ts ih =>
    simp only [trun, lrun]
    rw [ih]
    congr 1
    unfold tstep
    cases hth : tc.c.ths[t]? with
    | none => simp [lstep, hth]
    | some th =>
      simp only
      cases hact : action cfg tc.c.st th with
      | none => simp [lstep, hth, hact]
      | some e =>
        simp only
        cases closeOp e.th (startCur th tc.c.glog.length (tc.cur.getD t none)) <;> rfl

end ScVerif.C12
