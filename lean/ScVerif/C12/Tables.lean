/-!
# C12 — tables of services, routers and wrappers (K3)

The *types* of the facts regenerated on every run into `ScVerif/Generated/C12Facts.lean` by
`harness/cmd/c12 -facts` (from the compiled API descriptors and from the Go AST of the checked-in
`*_router.pb.go` / `*_wrap.pb.go`), the Boolean checker `allRouted`, and its soundness proof —
valid for every table, so the per-run obligation is a single evaluation of the checker.

Strings are interned by the translator (`Nat` ids, injective; the id ↦ string table is emitted too).
-/
namespace ScVerif.C12

/-- A method of a service descriptor. -/
structure MethodD where
  name : Nat
  serverStream : Bool
  clientStream : Bool
deriving DecidableEq, Repr

/-- A service of the API descriptors; `svc` identifies (Go import path, Go service name). -/
structure ServiceD where
  svc : Nat
  methods : List MethodD
deriving DecidableEq, Repr

/-- What the translator saw of one forwarder method of a router type. -/
structure FwdFact where
  name : Nat
  streaming : Bool        -- signature `(request, server) error` rather than `(ctx, request) (resp, error)`
  readsName : Bool        -- the client is obtained by `r.Get<Client>(request.Name)`
  childCalls : List Nat   -- methods invoked on that client anywhere in the body
deriving DecidableEq, Repr

/-- One router type found in `pkg/trait`. `svc`: the service whose `Unimplemented…Server` it embeds
and whose `Register…Server` its `Register` calls. -/
structure RouterFact where
  svc : Nat
  registers : Nat
  methods : List FwdFact
deriving DecidableEq, Repr

/-- One wrapper found in `pkg/trait`: the services named by its server parameter, by the
`_ServiceDesc` it passes to `wrap.ServerToClient`, and by the client constructor it calls. -/
structure WrapperFact where
  serverSvc : Nat
  descSvc : Nat
  clientSvc : Nat
deriving DecidableEq, Repr

/-- Canonical forwarder of method `m`: same name, same streaming shape, the client is chosen by
`request.Name`, and the one call made on it is the method of the same name. -/
def Canonical (m : MethodD) (f : FwdFact) : Prop :=
  f.name = m.name ∧ f.streaming = m.serverStream ∧ f.readsName = true ∧ f.childCalls = [m.name]

def fwdOk (m : MethodD) (f : FwdFact) : Bool :=
  f.name == m.name && f.streaming == m.serverStream && f.readsName && f.childCalls == [m.name]

def routerCovers (s : ServiceD) (r : RouterFact) : Bool :=
  r.svc == s.svc && r.registers == s.svc &&
  s.methods.all (fun m => !m.clientStream && r.methods.any (fwdOk m)) &&
  r.methods.all (fun f => s.methods.any (fun m => m.name == f.name))

def wrapperCovers (s : ServiceD) (w : WrapperFact) : Bool :=
  w.serverSvc == s.svc && w.descSvc == s.svc && w.clientSvc == s.svc

def allRouted (ds : List ServiceD) (rs : List RouterFact) (ws : List WrapperFact) : Bool :=
  ds.all (fun s => rs.any (routerCovers s) && ws.any (wrapperCovers s)) &&
  rs.all (fun r => ds.any (fun s => s.svc == r.svc)) &&
  ws.all (fun w => ds.any (fun s => s.svc == w.serverSvc))

theorem fwdOk_iff (m : MethodD) (f : FwdFact) : fwdOk m f = true ↔ Canonical m f := by
  simp [fwdOk, Canonical, and_assoc]

/-- Soundness of the checker, for all tables. -/
theorem allRouted_sound (ds : List ServiceD) (rs : List RouterFact) (ws : List WrapperFact)
    (h : allRouted ds rs ws = true) :
    (∀ s ∈ ds,
      (∃ r ∈ rs, r.svc = s.svc ∧ r.registers = s.svc ∧
        (∀ m ∈ s.methods, m.clientStream = false ∧ ∃ f ∈ r.methods, Canonical m f) ∧
        (∀ f ∈ r.methods, ∃ m ∈ s.methods, m.name = f.name)) ∧
      (∃ w ∈ ws, w.serverSvc = s.svc ∧ w.descSvc = s.svc ∧ w.clientSvc = s.svc)) ∧
    (∀ r ∈ rs, ∃ s ∈ ds, s.svc = r.svc) ∧
    (∀ w ∈ ws, ∃ s ∈ ds, s.svc = w.serverSvc) := by
  simp only [allRouted, Bool.and_eq_true, List.all_eq_true, List.any_eq_true] at h
  obtain ⟨⟨h1, h2⟩, h3⟩ := h
  refine ⟨?_, ?_, ?_⟩
  · intro s hs
    obtain ⟨⟨r, hr, hc⟩, ⟨w, hw, hwc⟩⟩ := h1 s hs
    constructor
    · simp only [routerCovers, Bool.and_eq_true, List.all_eq_true, List.any_eq_true, beq_iff_eq,
        Bool.not_eq_true'] at hc
      obtain ⟨⟨⟨a, b⟩, c⟩, d⟩ := hc
      refine ⟨r, hr, a, b, ?_, ?_⟩
      · intro m hm
        obtain ⟨c1, f, hf, hok⟩ := c m hm
        exact ⟨c1, f, hf, (fwdOk_iff m f).mp hok⟩
      · intro f hf
        obtain ⟨m, hm, e⟩ := d f hf
        exact ⟨m, hm, e⟩
    · simp only [wrapperCovers, Bool.and_eq_true, beq_iff_eq] at hwc
      exact ⟨w, hw, hwc.1.1, hwc.1.2, hwc.2⟩
  · intro r hr
    obtain ⟨s, hs, e⟩ := h2 r hr
    exact ⟨s, hs, by simpa using e⟩
  · intro w hw
    obtain ⟨s, hs, e⟩ := h3 w hw
    exact ⟨s, hs, by simpa using e⟩

end ScVerif.C12
