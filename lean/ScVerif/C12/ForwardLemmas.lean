import ScVerif.C12.Forward
import ScVerif.C12.NameDefault
/-! Lemmas about the pump loop and the name interceptor (helper file). -/
namespace ScVerif.C12

/-- No caller failure inside the list: everything is delivered. -/
theorem pumpLoop_all (failAt : Option Nat) (ms : List Tok) (i : Nat)
    (h : ∀ j, failAt = some j → j < i ∨ i + ms.length ≤ j) :
    pumpLoop failAt ms i = (ms, ms.length, ms.length + 1, false) := by
  induction ms generalizing i with
  | nil => simp [pumpLoop]
  | cons m ms ih =>
    have hne : failAt ≠ some i := by
      intro e; rcases h i e with h | h
      · omega
      · simp at h; omega
    have := ih (i + 1) (by
      intro j hj; rcases h j hj with h | h
      · left; omega
      · right; simp at h; omega)
    simp [pumpLoop, hne, this]

/-- The caller fails at `Send` number `j` (0-based), reached at list offset `j - i`. -/
theorem pumpLoop_fail (j : Nat) (ms : List Tok) (i : Nat) (hij : i ≤ j) (hj : j < i + ms.length) :
    pumpLoop (some j) ms i = (ms.take (j - i), j - i + 1, j - i + 1, true) := by
  induction ms generalizing i with
  | nil => simp at hj; omega
  | cons m ms ih =>
    by_cases e : j = i
    · subst e; simp [pumpLoop]
    · have hne : (some j : Option Nat) ≠ some i := by simp [e]
      have := ih (i + 1) (by omega) (by simp at hj; omega)
      have h1 : j - i = (j - (i + 1)) + 1 := by omega
      simp [pumpLoop, hne, this, h1]

/-- Whatever happens, the caller receives a prefix of the child's messages. -/
theorem pumpLoop_prefix (failAt : Option Nat) (ms : List Tok) (i : Nat) :
    ∃ rest, ms = (pumpLoop failAt ms i).1 ++ rest := by
  induction ms generalizing i with
  | nil => exact ⟨[], by simp [pumpLoop]⟩
  | cons m ms ih =>
    simp only [pumpLoop]
    split
    · exact ⟨m :: ms, by simp⟩
    · obtain ⟨rest, hr⟩ := ih (i + 1)
      exact ⟨rest, by simp [← hr]⟩

/-! ### name interceptor -/

theorem findName_setName (d : String) (m : Msg) (f : Field) (h : findName m = some f) :
    findName (setName d m) = some { f with val := .str d } := by
  induction m with
  | nil => simp [findName] at h
  | cons g gs ih =>
    simp only [findName] at h
    simp only [setName]
    split
    · next hg => simp [hg] at h; subst h; simp [findName, hg]
    · next hg => simp [hg] at h; simp [findName, hg, ih h]

theorem findName_fname (m : Msg) (f : Field) (h : findName m = some f) : f.fname = "name" := by
  induction m with
  | nil => simp [findName] at h
  | cons g gs ih =>
    simp only [findName] at h
    split at h
    · next hg => simp at h; subst h; exact hg
    · exact ih h

/-- `setName` changes only fields called `name`, and keeps length, names and kinds. -/
theorem setName_other (d : String) (m : Msg) :
    (setName d m).length = m.length ∧
    ∀ i (hi : i < m.length) (hi' : i < (setName d m).length),
      ((setName d m)[i]).fname = (m[i]).fname ∧ ((setName d m)[i]).isString = (m[i]).isString ∧
      ((m[i]).fname ≠ "name" → (setName d m)[i] = m[i]) := by
  induction m with
  | nil => simp [setName]
  | cons g gs ih =>
    simp only [setName]
    split
    · next hg =>
      refine ⟨by simp, ?_⟩
      intro i hi hi'
      cases i with
      | zero => simp [hg]
      | succ k => simp
    · next hg =>
      refine ⟨by simp [ih.1], ?_⟩
      intro i hi hi'
      cases i with
      | zero => simp
      | succ k =>
        simp only [List.getElem_cons_succ]
        exact ih.2 k (by simpa using hi) (by simpa using hi')

end ScVerif.C12
