import ScVerif.C12.WrappedLemmas
/-!
# C12 — property theorems: the registered client is a wrapped server (`xxxpb.WrapApi(server)`)

"… the response or stream of responses, the error status and the stream header and trailer pass through
unaltered" when the client registered under the name is a generated wrapper around a server (the usual
case): the router's forwarder (Forward.lean) reads its child stream from pkg/wrap's in-process stream
(Wrapped.lean).  The theorems quantify over EVERY sequence of calls a handler can make (`List HOp`: staging
and sending headers in any order and number, writing to and sending its message, setting trailers), every
final status, every caller script and every naming `enc` of joined metadata.

Only property theorems and their non-vacuity examples live in this file.
-/
namespace ScVerif.C12

/-- **What the wrapper's client half yields**, for every handler: the stream opens, its header is exactly
the metadata attached before the header went (`attached`: staged or sent, up to the first `SendHeader` /
`SendMsg`, all of it if the handler returned without either) — **the same whatever the handler then
returns** —, its messages are the handler's messages *as they were when sent* (`sentVals`: later writes of
the handler to its message are invisible), then the handler's status, and its trailer is what was set. -/
theorem C12_wrapped_stream_view (enc : List Tok → Tok) (buf : Tok) (ops : List HOp) (st : Option Tok) :
    wrapView enc buf ops st =
      { openErr := none, headerErr := none, header := some (enc (attached ops)), msgs := sentVals buf ops,
        final := (match st with | none => .eof | some e => .status e),
        trailer := if (trailers ops).isEmpty then none else some (enc (trailers ops)) } := by
  cases st <;> simp [wrapView, wclose_header, wclose_out, wclose_trailer]

/-- **Routed to a wrapped server, caller healthy**: for every handler and status the caller of the router
receives one `SendHeader` with exactly the attached metadata, every response as it was when the handler
sent it, in order, the trailer iff one was set, and the handler's status; exactly one call went to the
client registered under the name and its context was not cancelled. -/
theorem C12_routed_wrapped_server (c : Client) (src : Src) (method req : Tok) (enc : List Tok → Tok)
    (buf : Tok) (ops : List HOp) (st : Option Tok) (k : CallerScript)
    (hsh : k.sendHeaderErr = none) (hok : ∀ j, k.failAt = some j → (sentVals buf ops).length ≤ j) :
    forwardStream (.got c src) method req (wrapView enc buf ops st) k =
      ⟨[⟨c, method, req⟩], some (some (enc (attached ops))), sentVals buf ops, (sentVals buf ops).length,
        (sentVals buf ops).length + 1,
        if (trailers ops).isEmpty then none else some (enc (trailers ops)), st, false⟩ := by
  rw [C12_wrapped_stream_view]
  have := pumpLoop_all k.failAt (sentVals buf ops) 0 (by intro j hj; right; simpa using hok j hj)
  cases st <;> simp [forwardStream, hsh, this, errToStatus]

/-- **Routed to a wrapped server, the caller fails**: if the caller's `Send` number `j` fails while the
handler still had a response for it, the caller has received exactly the first `j` responses as they were
when sent, gets its own error back, no trailer, and the wrapped server's context is cancelled. -/
theorem C12_routed_wrapped_caller_error (c : Client) (src : Src) (method req : Tok) (enc : List Tok → Tok)
    (buf : Tok) (ops : List HOp) (st : Option Tok) (k : CallerScript) (j : Nat)
    (hsh : k.sendHeaderErr = none) (hf : k.failAt = some j) (hj : j < (sentVals buf ops).length) :
    forwardStream (.got c src) method req (wrapView enc buf ops st) k =
      ⟨[⟨c, method, req⟩], some (some (enc (attached ops))), (sentVals buf ops).take j, j + 1, j + 1, none,
        some k.sendErr, true⟩ := by
  rw [C12_wrapped_stream_view]
  have := pumpLoop_fail j (sentVals buf ops) 0 (Nat.zero_le _) (by simpa using hj)
  simp [forwardStream, hsh, hf, this]

/-- **Whatever the caller does**: the responses it accepted are a prefix of the responses as sent, the
header it was offered (if any) is the attached metadata, and nothing is forwarded for a name without client. -/
theorem C12_routed_wrapped_prefix (got : Res) (method req : Tok) (enc : List Tok → Tok) (buf : Tok)
    (ops : List HOp) (st : Option Tok) (k : CallerScript) :
    let o := forwardStream got method req (wrapView enc buf ops st) k
    (∃ rest, sentVals buf ops = o.sent ++ rest) ∧
    (∀ h, o.header = some h → h = some (enc (attached ops))) ∧
    ((∀ c src, got ≠ .got c src) → o.calls = [] ∧ o.sent = [] ∧ o.header = none) := by
  rw [C12_wrapped_stream_view]
  obtain ⟨rest, hr⟩ := pumpLoop_prefix k.failAt (sentVals buf ops) 0
  cases got with
  | got c src =>
    simp only [forwardStream]
    cases k.sendHeaderErr with
    | some e => exact ⟨⟨sentVals buf ops, by simp⟩, by simp, fun h => absurd rfl (h c src)⟩
    | none =>
      simp only
      split
      · exact ⟨⟨rest, hr⟩, by simp, fun h => absurd rfl (h c src)⟩
      · exact ⟨⟨rest, hr⟩, by simp, fun h => absurd rfl (h c src)⟩
  | prev _ => exact ⟨⟨sentVals buf ops, by simp [forwardStream]⟩, by simp [forwardStream], fun _ => by simp [forwardStream]⟩
  | bool _ => exact ⟨⟨sentVals buf ops, by simp [forwardStream]⟩, by simp [forwardStream], fun _ => by simp [forwardStream]⟩
  | notFound => exact ⟨⟨sentVals buf ops, by simp [forwardStream]⟩, by simp [forwardStream], fun _ => by simp [forwardStream]⟩

/-- **A staged header survives a failing call without messages** (staged × zero messages × error status):
the handler stages headers (`SetHeader`, any number, also trailers), sends nothing and returns ANY status —
the caller is still offered exactly the staged metadata, then gets that status. -/
theorem C12_staged_header_survives_failure (c : Client) (src : Src) (method req : Tok) (enc : List Tok → Tok)
    (buf : Tok) (hs ts : List Tok) (st : Option Tok) (k : CallerScript) (hsh : k.sendHeaderErr = none) :
    let o := forwardStream (.got c src) method req
      (wrapView enc buf (hs.map .setHeader ++ ts.map .setTrailer) st) k
    o.header = some (some (enc hs)) ∧ o.sent = [] ∧ o.status = st ∧ o.cancelled = false := by
  have ha := attached_stagedLists hs ts
  have hv := sentVals_stagedLists buf hs ts
  have := C12_routed_wrapped_server c src method req enc buf (hs.map .setHeader ++ ts.map .setTrailer) st k hsh
    (by intro j _; simp [hv])
  simp only [this, ha, hv]
  simp

/-- **Router ∘ Wrap ∘ Router ∘ device** (the composition the harness drives for every service): a device that
stages header `sh` / trailer `st` on arrival, opens, sends header `cs.header`, the messages `cs.msgs`, status
`cs.final` and trailer `cs.trailer`, and **overwrites every message with anything (`scr`) once it has been
passed on (`reuse`)**: the outer router's caller receives header `sh ++ cs.header`, exactly `cs.msgs`, the
status and trailer `st ++ cs.trailer` — independent of `reuse` and `scr`. -/
theorem C12_router_wrap_router_device (c : Client) (src : Src) (method req : Tok) (enc : List Tok → Tok)
    (sh st : Option Tok) (cs : ChildScript) (reuse : Bool) (scr : Tok) (k : CallerScript)
    (hopen : cs.openErr = none) (hhdr : cs.headerErr = none)
    (hsh : k.sendHeaderErr = none) (hok : ∀ j, k.failAt = some j → cs.msgs.length ≤ j) :
    routeWrapped enc (.got c src) method req sh st cs reuse scr k =
      ⟨[⟨c, method, req⟩], some (some (enc (sh.toList ++ cs.header.toList))), cs.msgs, cs.msgs.length,
        cs.msgs.length + 1,
        if (st.toList ++ cs.trailer.toList).isEmpty then none else some (enc (st.toList ++ cs.trailer.toList)),
        errToStatus cs.final, false⟩ := by
  have hev := pumpEvents_healthy 0 .registered cs hopen hhdr
  have htail : ∀ b, sentVals b (hopsOfEvents reuse scr (.recv :: trailerEvents cs.trailer)) = [] := by
    intro b; cases cs.trailer <;> simp [trailerEvents, hopsOfEvents, sentVals]
  have hmsgs : sentVals 0 (deviceOps sh st cs reuse scr) = cs.msgs := by
    unfold deviceOps
    rw [sentVals_append_nosend _ _ _ (staged_nosend sh st), hev]
    simp only [List.cons_append, List.nil_append, hopsOfEvents, sentVals]
    exact sentVals_pairs reuse scr 0 cs.msgs _ htail
  have hatt : attached (deviceOps sh st cs reuse scr) = sh.toList ++ cs.header.toList := by
    unfold deviceOps
    rw [attached_append_noflush _ _ (staged_noflush sh st), staged_attached, hev]
    simp [hopsOfEvents, attached]
  have htr : trailers (deviceOps sh st cs reuse scr) = st.toList ++ cs.trailer.toList := by
    unfold deviceOps
    rw [trailers_append, staged_trailers, hev]
    simp only [List.cons_append, List.nil_append, hopsOfEvents, trailers, trailers_pairs]
    cases cs.trailer <;> simp [trailerEvents, hopsOfEvents, trailers]
  unfold routeWrapped
  rw [C12_routed_wrapped_server c src method req enc 0 _ _ k hsh (by rw [hmsgs]; exact hok),
    hmsgs, hatt, htr, forwardStream_healthy_status cs hopen hhdr]

/-- … and when the device fails on arrival or before its header: the staged header still reaches the caller
(with no message and that status), the staged trailer too. -/
theorem C12_router_wrap_router_device_early (c : Client) (src : Src) (method req : Tok) (enc : List Tok → Tok)
    (sh st : Option Tok) (cs : ChildScript) (reuse : Bool) (scr : Tok) (k : CallerScript) (e : Tok)
    (hfail : cs.openErr = some e ∨ (cs.openErr = none ∧ cs.headerErr = some e))
    (hsh : k.sendHeaderErr = none) :
    routeWrapped enc (.got c src) method req sh st cs reuse scr k =
      ⟨[⟨c, method, req⟩], some (some (enc sh.toList)), [], 0, 1,
        if st.toList.isEmpty then none else some (enc st.toList), some e, false⟩ := by
  have hops : deviceOps sh st cs reuse scr = sh.toList.map .setHeader ++ st.toList.map .setTrailer := by
    rcases hfail with h | ⟨h1, h2⟩
    · simp [deviceOps, pumpEvents, h, hopsOfEvents]
    · simp [deviceOps, pumpEvents, h1, h2, hopsOfEvents]
  have hst : deviceStatus cs = some e := by
    rcases hfail with h | ⟨h1, h2⟩
    · simp [deviceStatus, forwardStream, h]
    · simp [deviceStatus, forwardStream, h1, h2]
  have hv : sentVals 0 (sh.toList.map HOp.setHeader ++ st.toList.map HOp.setTrailer) = [] := by
    cases sh <;> cases st <;> simp [sentVals]
  unfold routeWrapped
  rw [hops, hst, C12_routed_wrapped_server c src method req enc 0 _ _ k hsh (by intro j _; simp [hv]),
    hv, staged_attached, staged_trailers]
  rfl

/-- **A unary call on the wrapper with `grpc.Header` / `grpc.Trailer`**: for every handler, answering or
failing, the caller's header variable holds exactly the attached metadata and its trailer variable what was
set; a response is the handler's, an error the handler's. -/
theorem C12_invoke_wrapped_metadata (ops : List HOp) (out : UOut)
    (hns : ∀ op ∈ ops, op ≠ .send) :
    invokeWrapped ops out = (out, attached (unaryOps ops out), trailers ops) := by
  cases out with
  | err e => simp [invokeWrapped, unaryOps, wclose_header, wclose_trailer]
  | resp m =>
    have := sentVals_nosend_answer ops hns 0 m
    simp [invokeWrapped, unaryOps, wclose_header, wclose_trailer, wclose_out, this, trailers_append, trailers]

/-! ## Non-vacuity / illustrations -/

/-- staged, then sent, a message, the handler overwrites its message, a second message, a late `SetHeader`
(refused: the header has gone), trailer. -/
example : wrapView (fun l => l.foldl (· * 100 + ·) 0) 0
    [.setHeader 7, .sendHeader (some 9), .write 1, .send, .write 50, .write 2, .send, .setHeader 8, .setTrailer 4] none =
    ⟨none, none, some 709, [1, 2], .eof, some 4⟩ := by decide

/-- staged header, no message, error status: the caller of the router is offered the staged header. -/
example : (forwardStream (.got 3 .registered) 1 5 (wrapView (fun l => l.foldl (· * 100 + ·) 0) 0 [.setHeader 7] (some 21))
    ⟨none, none, 0⟩).header = some (some 7) := by decide

/-- the device composition with re-use: the caller gets the device's messages, not the scribble. -/
example : (routeWrapped (fun l => l.foldl (· * 100 + ·) 0) (.got 3 .registered) 1 5 (some 7) none
    ⟨none, none, some 9, [1, 2], .eof, some 4⟩ true 998 ⟨none, none, 0⟩).sent = [1, 2] := by decide

end ScVerif.C12
