import ScVerif.C12.WrapMore
import ScVerif.C12.WrappedLemmas
/-! Lemmas for WrapMore.lean (helper file). -/
namespace ScVerif.C12

/-! ### call options -/

theorem collect_untouched (hdr tr : List Tok) (opts : List COpt) (mem : Mem) (a : Nat)
    (hh : COpt.header a ∉ opts) (ht : COpt.trailer a ∉ opts) :
    collectMetadata hdr tr opts mem a = mem a := by
  induction opts generalizing mem with
  | nil => rfl
  | cons op r ih =>
    have h1 : COpt.header a ∉ r := fun h => hh (List.mem_cons_of_mem _ h)
    have h2 : COpt.trailer a ∉ r := fun h => ht (List.mem_cons_of_mem _ h)
    have := ih (collectStep hdr tr mem op) h1 h2
    simp only [collectMetadata, List.foldl_cons] at this ⊢
    rw [this]
    cases op with
    | header b =>
      have : a ≠ b := fun e => hh (by simp [e])
      simp [collectStep, this]
    | trailer b =>
      have : a ≠ b := fun e => ht (by simp [e])
      simp [collectStep, this]
    | other => rfl

theorem collect_header (hdr tr : List Tok) (opts : List COpt) (mem : Mem) (a : Nat)
    (hh : COpt.header a ∈ opts) (ht : COpt.trailer a ∉ opts) :
    collectMetadata hdr tr opts mem a = some hdr := by
  induction opts generalizing mem with
  | nil => cases hh
  | cons op r ih =>
    have h2 : COpt.trailer a ∉ r := fun h => ht (List.mem_cons_of_mem _ h)
    by_cases h1 : COpt.header a ∈ r
    · have := ih (collectStep hdr tr mem op) h1 h2
      simpa only [collectMetadata, List.foldl_cons] using this
    · have hop : op = .header a := by
        rcases List.mem_cons.mp hh with h | h
        · exact h.symm
        · exact absurd h h1
      have := collect_untouched hdr tr r (collectStep hdr tr mem op) a h1 h2
      simp only [collectMetadata, List.foldl_cons] at this ⊢
      rw [this, hop]
      simp [collectStep]

theorem collect_trailer (hdr tr : List Tok) (opts : List COpt) (mem : Mem) (a : Nat)
    (ht : COpt.trailer a ∈ opts) (hh : COpt.header a ∉ opts) :
    collectMetadata hdr tr opts mem a = some tr := by
  induction opts generalizing mem with
  | nil => cases ht
  | cons op r ih =>
    have h2 : COpt.header a ∉ r := fun h => hh (List.mem_cons_of_mem _ h)
    by_cases h1 : COpt.trailer a ∈ r
    · have := ih (collectStep hdr tr mem op) h1 h2
      simpa only [collectMetadata, List.foldl_cons] using this
    · have hop : op = .trailer a := by
        rcases List.mem_cons.mp ht with h | h
        · exact h.symm
        · exact absurd h h1
      have := collect_untouched hdr tr r (collectStep hdr tr mem op) a h2 h1
      simp only [collectMetadata, List.foldl_cons] at this ⊢
      rw [this, hop]
      simp [collectStep]

/-! ### the stream before `Close` -/

theorem wrun_headerSent (ops : List HOp) (s : WStream) :
    (wrun s ops).headerSent = (s.headerSent || headerGone ops) := by
  induction ops generalizing s with
  | nil => simp [wrun, headerGone]
  | cons op r ih =>
    have := ih (wstep s op)
    simp only [wrun, List.foldl_cons] at this ⊢
    rw [this]
    cases op <;> cases hs : s.headerSent <;> simp [wstep, headerGone, WStream.flush, hs]

/-- The header field while the handler is still running (no flush by `Close`). -/
theorem wrun_header_open (ops : List HOp) (s : WStream) (h : s.headerSent = false) :
    (wrun s ops).header = s.header ++ attached ops := by
  have := wrun_header ops s h
  simpa [WStream.flush] using this

theorem headerGone_append_noflush (a b : List HOp)
    (h : ∀ op ∈ a, (∃ x, op = .setHeader x) ∨ (∃ t, op = .setTrailer t) ∨ (∃ v, op = .write v)) :
    headerGone (a ++ b) = headerGone b := by
  induction a with
  | nil => simp
  | cons op r ih =>
    have hr := ih (fun o ho => h o (List.mem_cons_of_mem _ ho))
    rcases h op (List.mem_cons_self) with ⟨x, rfl⟩ | ⟨t, rfl⟩ | ⟨v, rfl⟩ <;> simp [headerGone, hr]

theorem headerGone_stagedLists (hs ts : List Tok) :
    headerGone (hs.map HOp.setHeader ++ ts.map HOp.setTrailer) = false := by
  induction hs with
  | nil =>
    induction ts with
    | nil => rfl
    | cons t r ih => simpa [headerGone] using ih
  | cons h r ih => simpa [headerGone] using ih

theorem trailers_stagedLists (hs ts : List Tok) :
    trailers (hs.map HOp.setHeader ++ ts.map HOp.setTrailer) = ts := by
  induction hs with
  | nil =>
    induction ts with
    | nil => rfl
    | cons t r ih => simpa [trailers] using ih
  | cons h r ih => simpa [trailers] using ih

/-! ### the calls so far against the whole run -/

/-- The content of the handler's message after the calls `ops`. -/
def bufAfter (buf : Tok) : List HOp → Tok
  | [] => buf
  | .write v :: r => bufAfter v r
  | _ :: r => bufAfter buf r

theorem sentVals_append (buf : Tok) (a b : List HOp) :
    sentVals buf (a ++ b) = sentVals buf a ++ sentVals (bufAfter buf a) b := by
  induction a generalizing buf with
  | nil => simp [sentVals, bufAfter]
  | cons op r ih => cases op <;> simp [sentVals, bufAfter, ih]

theorem attached_append_gone (a b : List HOp) (h : headerGone a = true) :
    attached (a ++ b) = attached a := by
  induction a with
  | nil => simp [headerGone] at h
  | cons op r ih =>
    cases op with
    | setHeader x => simp only [headerGone] at h; simp [attached, ih h]
    | sendHeader x => simp [attached]
    | write v => simp only [headerGone] at h; simp [attached, ih h]
    | send => simp [attached]
    | setTrailer t => simp only [headerGone] at h; simp [attached, ih h]

theorem pumpLoop_append_prefix (f : Option Nat) (a b : List Tok) (i : Nat) :
    ∃ rest, (pumpLoop f (a ++ b) i).1 = (pumpLoop f a i).1 ++ rest := by
  induction a generalizing i with
  | nil => exact ⟨(pumpLoop f b i).1, by simp [pumpLoop]⟩
  | cons m r ih =>
    by_cases h : f = some i
    · exact ⟨[], by simp [pumpLoop, h]⟩
    · obtain ⟨rest, hr⟩ := ih (i + 1)
      exact ⟨rest, by simp [pumpLoop, h, hr]⟩

/-- The parts of the pump's observation that do not depend on how the loop ended. -/
theorem forwardStream_open_parts (c : Client) (src : Src) (method req : Tok) (cs : ChildScript) (k : CallerScript)
    (ho : cs.openErr = none) (hh : cs.headerErr = none) :
    let o := forwardStream (.got c src) method req cs k
    o.calls = [⟨c, method, req⟩] ∧ o.header = some cs.header ∧
    o.sent = (match k.sendHeaderErr with | some _ => [] | none => (pumpLoop k.failAt cs.msgs 0).1) := by
  simp only [forwardStream, ho, hh]
  cases k.sendHeaderErr with
  | some e => simp
  | none =>
    simp only
    split <;> simp

end ScVerif.C12
