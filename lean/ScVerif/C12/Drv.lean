import ScVerif.Base.Line
/-! Driver handler for C12 (stub: replaced by the property's owner). -/
namespace ScVerif.C12

def handle (_toks : List String) : String := "!bad-op"

end ScVerif.C12
