import ScVerif.Base.Line
import ScVerif.C12.Registry
import ScVerif.C12.Conc
import ScVerif.C12.Forward
import ScVerif.C12.NameDefault
import ScVerif.C12.Lin
import ScVerif.C12.Reentrant
import ScVerif.C12.PumpTrace
import ScVerif.C12.Served
import ScVerif.C12.Naming
import ScVerif.C12.Wrapped
import ScVerif.C12.WrapMore
import ScVerif.C12.Options
/-!
Driver handler for C12: parses one request line, runs the model, prints the canonical answer.

Tokens never contain spaces.  `~` is the empty string, `-` is "absent"/empty list.

```
reg   <fb> <fac> <ops>                                   registry history
route <fb> <fac> <ops> <name> <method> <req> U <childout>           history, then a unary call
route <fb> <fac> <ops> <name> <method> <req> S <childscript> <callerscript>   … a server-stream call
conc  <fb> <fac> <reg0> <names> <sched>                  concurrent Gets, fine-grained schedule
name  <default> <fields>                                 replaceEmptyNameField
namechain <outer> <inner> <fields>                       two chained IfAbsentUnaryInterceptors
lin   <fb> <fac> <reg0> <progs> <sched>                  concurrent Add/Remove/Has/Get, macro schedule
rre   <fb> <fac> <callback> <depth> <ops>                registry history with a callback that re-enters the router
nrecv <default> <transport> <m0> <wire>                  absentNameReplaceServerStream.RecvMsg over a transport
srv   <default> <fb> <fac> <ops> <method> U <wire> <childout>       history, then a unary call behind the interceptor
srv   <default> <fb> <fac> <ops> <method> S <transport> <m0> <wire> <childscript> <callerscript>   … a stream call
```
gen   <dir> <file> <service>                              what the two generators emit for a service (path type path type)
wroute <fb> <fac> <ops> <name> <method> <req> <stagedHdr> <stagedTrailer> <devicescript> <reuse r|f> <callerscript>   a stream call routed to a wrapped server (inner router + device)
wcall <method> <req> <stagedHdr> <sentHdr> <stagedTrailer> <out> <opts>   a unary call on a wrapper with call options `h<var>` grpc.Header(&var) / `t<var>` grpc.Trailer(&var) / `o` other, separated by `.`; answers the variables
wcallc <method> <req> <stagedHdr> <sentHdr> <stagedTrailer> <opts> <ce>   the same call, the device parked (after staging / sending its header) when the caller's context ends with error `ce` (1 cancelled, 2 deadline)
wcancel <fb> <fac> <ops> <name> <method> <req> <stagedHdr> <stagedTrailer> <devicescript> <reuse r|f> <park h|r<k>> <ce>   a stream call routed to a wrapped server whose device parks (in Header() / in the Recv after k messages) until the caller cancels
ropts <opts> <ops>                                     registry history on `NewRouter(opts...)`: options separated by `.`, in call order, `b<kind>` WithFallback, `f<kind>` WithFactory, `t<kind>` the generated With<Client>Factory, `c` WithOnChange; kind `none` passes a nil function; the history may contain `w:<name>:<what>` = Add of a value that is not a client of the router's service (answer `pp`: the generated Add panics); the function of option i (from 0) makes clients 1000*(i+1)+k; every change is prefixed with the position of the listener that was told; `calls=` per option
Transports: `ow` overwrite, `mg` merge, `f<e>` fail, `of<e>` overwrite then fail; `<m0>` = `z` is the zero message.
Callback kinds (shared with the Go harness, `callbackOf`): `has get rm add sib mix undo`.
Factory kinds (shared with the Go harness): `none new err nil both pfx odd`; the fallback makes
clients `2000+k`, the factory `1000+k` (k = number of earlier calls).
-/
namespace ScVerif.C12
open ScVerif.Line

def unTilde (s : String) : String := if s = "~" then "" else s
def tilde (s : String) : String := if s = "" then "~" else s

def splitList (s : String) (sep : String) : List String :=
  if s = "-" || s = "" then [] else s.splitOn sep

/-- The closed family of factories shared with the harness. -/
def factoryOf (base : Nat) (kind : String) : Option (Option Factory) :=
  match kind with
  | "none" => some none
  | "new" => some (some fun _ k => ⟨some (base + k), false⟩)
  | "err" => some (some fun _ _ => ⟨none, true⟩)
  | "nil" => some (some fun _ _ => ⟨none, false⟩)
  | "both" => some (some fun _ k => ⟨some (base + k), true⟩)
  | "pfx" => some (some fun n k => if n.startsWith "a" then ⟨some (base + k), false⟩ else ⟨none, false⟩)
  | "odd" => some (some fun _ k => if k % 2 = 1 then ⟨some (base + k), false⟩ else ⟨none, true⟩)
  | _ => none

def cfgOf (fb fac : String) : Option Cfg := do
  let a ← factoryOf 2000 fb
  let b ← factoryOf 1000 fac
  pure ⟨a, b⟩

def parseOp? (s : String) : Option Op :=
  match s.splitOn ":" with
  | ["a", n, c] => do let k ← parseNat? c; pure (.add (unTilde n) k)
  | ["r", n] => some (.remove (unTilde n))
  | ["h", n] => some (.has (unTilde n))
  | ["g", n] => some (.get (unTilde n))
  | _ => none

def parseOps? (s : String) : Option (List Op) := (splitList s ",").mapM parseOp?

def showOptNat : Option Nat → String
  | none => "-"
  | some n => toString n

def showRes : Res → String
  | .prev c => "p" ++ showOptNat c
  | .bool b => if b then "bT" else "bF"
  | .got c _ => "g" ++ toString c
  | .notFound => "nf"

def showChange (c : Change) : String :=
  tilde c.name ++ ":" ++ showOptNat c.old ++ ":" ++ showOptNat c.new ++ ":" ++ (if c.auto then "A" else "M")

def commaList (xs : List String) : String := if xs.isEmpty then "-" else ",".intercalate xs

def insertSorted (p : String × Nat) : List (String × Nat) → List (String × Nat)
  | [] => [p]
  | q :: qs => if p.1 < q.1 then p :: q :: qs else q :: insertSorted p qs

def sortReg (r : List (String × Nat)) : List (String × Nat) := r.foldr insertSorted []

def showReg (r : Reg) : String :=
  commaList ((sortReg r).map fun p => tilde p.1 ++ ":" ++ toString p.2)

def showSt (s : St) : String :=
  "log=" ++ commaList (s.log.map showChange) ++ " reg=" ++ showReg s.reg ++
    " nfb=" ++ toString s.nfb ++ " nfac=" ++ toString s.nfac

/-- One option token at position `i`. -/
def parseROpt? (i : Nat) (s : String) : Option ROpt :=
  let kind := (s.drop 1).toString
  if s = "c" then some (.onChange i)
  else if s.startsWith "b" then (factoryOf (1000 * (i + 1)) kind).map (.fallback i)
  else if s.startsWith "f" then (factoryOf (1000 * (i + 1)) kind).map (.factory i)
  else if s.startsWith "t" && kind != "none" then (factoryOf (1000 * (i + 1)) kind).map (.factory i)
  else none

def parseGOp? (s : String) : Option GOp :=
  match s.splitOn ":" with
  | ["w", n, _] => some (.addForeign (unTilde n))
  | _ => (parseOp? s).map .op

def showGRes : GRes → String
  | .res r => showRes r
  | .panicked => "pp"

def parseROpts? (s : String) : Option (List ROpt) :=
  let toks := splitList s "."
  (List.range toks.length).zip toks |>.mapM fun p => parseROpt? p.1 p.2

def parseErr? (s : String) : Option Err :=
  if s = "eof" then some .eof
  else if s.startsWith "e" then (parseNat? (s.drop 1).toString).map .status else none

def parseOptTok? (s : String) : Option (Option Tok) :=
  if s = "-" then some none else (parseNat? s).map some

def parseUOut? (s : String) : Option UOut :=
  if s.startsWith "m" then (parseNat? (s.drop 1).toString).map .resp
  else if s.startsWith "e" then (parseNat? (s.drop 1).toString).map .err
  else none

def showUOut : UOut → String
  | .resp m => "m" ++ toString m
  | .err e => "e" ++ toString e

/-- `open:hdrErr:hdr:msgs:final:trailer`, msgs separated by `.` -/
def parseChild? (s : String) : Option ChildScript :=
  match s.splitOn ":" with
  | [o, he, h, ms, f, t] => do
    let o ← parseOptTok? o
    let he ← parseOptTok? he
    let h ← parseOptTok? h
    let ms ← (splitList ms ".").mapM parseNat?
    let f ← parseErr? f
    let t ← parseOptTok? t
    pure ⟨o, he, h, ms, f, t⟩
  | _ => none

/-- `sendHeaderErr:failAt:sendErr` -/
def parseCaller? (s : String) : Option CallerScript :=
  match s.splitOn ":" with
  | [he, fa, e] => do
    let he ← parseOptTok? he
    let fa ← parseOptTok? fa
    let e ← parseNat? e
    pure ⟨he, fa, e⟩
  | _ => none

def showCalls (cs : List Call) : String :=
  commaList (cs.map fun c => toString c.client ++ ":" ++ toString c.method ++ ":" ++ toString c.req)

/-- Joined metadata as one token (injective on lists of tokens < 999) and back. -/
def encL (l : List Tok) : Tok := l.foldl (fun a t => a * 1000 + (t + 1)) 0
def decLF : Nat → Nat → List Tok
  | 0, _ => []
  | f + 1, n => if n = 0 then [] else decLF f (n / 1000) ++ [n % 1000 - 1]
def showMDList (l : List Tok) : String := if l.isEmpty then "-" else "+".intercalate (l.map toString)

def showWObs (o : Obs) : String :=
  "calls=" ++ showCalls o.calls ++
    " hdr=" ++ (match o.header with
      | none => "none" | some none => "nil" | some (some h) => showMDList (decLF 30 h)) ++
    " sent=" ++ commaList (o.sent.map toString) ++ " sends=" ++ toString o.sends ++
    " tr=" ++ (match o.trailer with | none => "-" | some t => showMDList (decLF 30 t)) ++
    " st=" ++ showOptNat o.status

/-- `showWObs` for a cancelled call: a nil header offered to the caller prints as empty metadata (`-`). -/
def showCObs (o : Obs) : String :=
  "calls=" ++ showCalls o.calls ++
    " hdr=" ++ (match o.header with
      | none => "none" | some none => "-" | some (some h) => showMDList (decLF 30 h)) ++
    " sent=" ++ commaList (o.sent.map toString) ++ " sends=" ++ toString o.sends ++
    " tr=" ++ (match o.trailer with | none => "-" | some t => showMDList (decLF 30 t)) ++
    " st=" ++ showOptNat o.status

def parseCOpts? (s : String) : Option (List COpt) :=
  (splitList s ".").mapM fun t =>
    if t = "o" then some .other
    else if t.startsWith "h" then (parseNat? (t.drop 1).toString).map .header
    else if t.startsWith "t" then (parseNat? (t.drop 1).toString).map .trailer
    else none

/-- The variables the options name, in order of first appearance. -/
def coptVars (opts : List COpt) : List Nat :=
  opts.foldl (fun acc o => match o with
    | .header a => if acc.contains a then acc else acc ++ [a]
    | .trailer a => if acc.contains a then acc else acc ++ [a]
    | .other => acc) []

def parsePark? (s : String) : Option (Option Nat) :=
  if s = "h" then some none
  else if s.startsWith "r" then (parseNat? (s.drop 1).toString).map some
  else none

def showHeader : Option (Option Tok) → String
  | none => "none"
  | some none => "nil"
  | some (some h) => toString h

def showObs (o : Obs) : String :=
  "calls=" ++ showCalls o.calls ++ " hdr=" ++ showHeader o.header ++
    " sent=" ++ commaList (o.sent.map toString) ++ " sends=" ++ toString o.sends ++
    " recvs=" ++ toString o.recvs ++ " tr=" ++ showOptNat o.trailer ++
    " st=" ++ showOptNat o.status ++ " cancel=" ++ showBool o.cancelled

/-- Calls as the harness fakes can observe them in order (`reqDone()` is visible only as the state of the
child context, field `cancel=`). -/
def showPEv : PEv → Option String
  | .openChild => some "o"
  | .childHeader => some "ch"
  | .sendHeader _ => some "H"
  | .recv => some "r"
  | .send _ => some "s"
  | .childTrailer => some "ct"
  | .setTrailer _ => some "T"
  | .cancel => none

def showEvents (es : List PEv) : String :=
  let xs := es.filterMap showPEv
  if xs.isEmpty then "-" else ".".intercalate xs

def showPC : PC → String
  | .lookup => "@lookup"
  | .fallback => "@fallback"
  | .factory => "@factory"
  | .insert c => "@insert" ++ toString c
  | .notify c => "@notify" ++ toString c
  | .done r => showRes r

def parseReg? (s : String) : Option Reg :=
  (splitList s ",").mapM fun e =>
    match e.splitOn ":" with
    | [n, c] => do let k ← parseNat? c; pure (unTilde n, k)
    | _ => none

def parseField? (s : String) : Option Field :=
  match s.splitOn ":" with
  | [n, "S", v] => some ⟨n, true, .str (unTilde v)⟩
  | [n, "X", v] => some ⟨n, false, .str (unTilde v)⟩      -- a string-valued field that is not singular string kind
  | [n, "O", v] => do let k ← parseNat? v; pure ⟨n, false, .other k⟩
  | _ => none

def showField (f : Field) : String :=
  match f.val with
  | .str s => f.fname ++ ":" ++ (if f.isString then "S" else "X") ++ ":" ++ tilde s
  | .other k => f.fname ++ ":O:" ++ toString k

/-- One *macro* step as the harness can force it: one atomic step, except that the fallback and the
factory call of a Get run together (there is no yield point between them). -/
def lmacro (cfg : Cfg) (c : LConf) (t : Nat) : LConf :=
  let c1 := lstep cfg c t
  match c1.ths[t]? with
  | some ⟨_, .factory _, _, _⟩ => lstep cfg c1 t
  | _ => c1

def showLPC : LPC → String
  | .idle => "idle"
  | .notify _ _ => "callback"
  | .fallback _ => "afterMiss"
  | .factory _ => "factory"
  | .insert _ _ => "beforeInsert"

def showLThread (th : LThread) : String :=
  (if th.results.isEmpty then "-" else ".".intercalate (th.results.map showRes)) ++ "@" ++ showLPC th.pc ++
    (if th.prog.isEmpty then "" else "+" ++ toString th.prog.length)

/-- The closed family of re-entrant callbacks shared with the harness (`d` = nesting depth). -/
def callbackOf (kind : String) : Option Callback :=
  match kind with
  | "has" => some fun _ ch => [.has ch.name]
  | "get" => some fun _ ch => [.get ch.name]
  | "rm" => some fun _ ch => [.remove ch.name]
  | "add" => some fun d ch => [.add ch.name (70 + d)]
  | "sib" => some fun _ ch => [.get "s", .has ch.name]
  | "mix" => some fun d ch => [.has ch.name, .add "m" (50 + d), .remove "m", .get ch.name]
  | "undo" => some fun _ ch =>
    match ch.new, ch.old with
    | some _, _ => if ch.auto then [] else [.remove ch.name]
    | none, some o => [.add ch.name o]
    | none, none => []
  | _ => none

def showOp : Op → String
  | .add n c => "a:" ++ tilde n ++ ":" ++ toString c
  | .remove n => "r:" ++ tilde n
  | .has n => "h:" ++ tilde n
  | .get n => "g:" ++ tilde n

def parseTransport? (s : String) : Option Transport :=
  if s = "ow" then some .overwrite
  else if s = "mg" then some .merge
  else if s.startsWith "of" then (parseNat? (s.drop 2).toString).map .overwriteFail
  else if s.startsWith "f" then (parseNat? (s.drop 1).toString).map .fail
  else none

def parseMsg? (s : String) : Option Msg := (splitList s ",").mapM parseField?

def showMsg (m : Msg) : String := commaList (m.map showField)

/-- The handler's message: `z` = `new(Req)`. -/
def parseM0? (s : String) (wire : Msg) : Option Msg :=
  if s = "z" then some wire.zero else do
    let m ← parseMsg? s
    if m.length = wire.length then some m else none

def handle? (toks : List String) : Option String :=
  match toks with
  | ["gen", dir, file, svc] =>
    let r := emitRouter dir.toList file.toList svc.toList
    let w := emitWrapper dir.toList file.toList svc.toList
    some (String.ofList r.path ++ " " ++ tilde (String.ofList r.typeName) ++ " " ++
      String.ofList w.path ++ " " ++ tilde (String.ofList w.typeName))
  | ["nrecv", dflt, tr, m0, wire] => do
    let t ← parseTransport? tr
    let wire ← parseMsg? wire
    let m0 ← parseM0? m0 wire
    let r0 ← t.recv wire m0
    -- the transport's RecvMsg: a function of what the handler's message holds (total outside the case at hand)
    let inner : Msg → RecvOut := fun m => (t.recv wire m).getD r0
    let r := wrappedRecv (unTilde dflt) inner m0
    pure (showMsg r.msg ++ " err=" ++ showOptNat r.err)
  | ["srv", dflt, fb, fac, ops, method, "U", wire, co] => do
    let cfg ← cfgOf fb fac
    let ops ← parseOps? ops
    let method ← parseNat? method
    let wire ← parseMsg? wire
    let co ← parseUOut? co
    let (s, _) := run cfg St.init ops
    let (s', req, calls, out) := serveUnary (unTilde dflt) cfg s (fun _ => 5) method wire (fun _ _ _ => co)
    pure ("req=" ++ (if calls.isEmpty then "-" else showMsg req) ++ " calls=" ++ showCalls calls ++
      " out=" ++ showUOut out ++ " " ++ showSt s')
  | ["srv", dflt, fb, fac, ops, method, "S", tr, m0, wire, cs, ks] => do
    let cfg ← cfgOf fb fac
    let ops ← parseOps? ops
    let method ← parseNat? method
    let t ← parseTransport? tr
    let wire ← parseMsg? wire
    let m0 ← parseM0? m0 wire
    let cs ← parseChild? cs
    let ks ← parseCaller? ks
    let r0 ← t.recv wire m0
    let inner : Msg → RecvOut := fun m => (t.recv wire m).getD r0
    let (s, _) := run cfg St.init ops
    let (s', req, o) := serveStream (unTilde dflt) inner cfg s (fun _ => 5) method m0 cs ks
    let reqS := match req with
      | some r => if o.calls.isEmpty then "-" else showMsg r
      | none => "-"
    pure ("req=" ++ reqS ++ " " ++ showObs o ++ " " ++ showSt s')
  | ["rre", fb, fac, cbk, depth, ops] => do
    let cfg ← cfgOf fb fac
    let cb ← callbackOf cbk
    let depth ← parseNat? depth
    let ops ← parseOps? ops
    let (s, tr) := runRe cfg cb depth 0 St.init ops
    pure ("tr=" ++ commaList (tr.map fun p => showOp p.1 ++ ">" ++ showRes p.2) ++ " " ++ showSt s)
  | ["ropts", opts, ops] => do
    let opts ← parseROpts? opts
    let ops ← (splitList ops ",").mapM parseGOp?
    let r := newRouter opts
    let (s, rs) := grun r.cfg St.init ops
    let heard := match r.onChange with
      | some t => s.log.map fun c => toString t ++ ">" ++ showChange c
      | none => []
    let calls := (List.range opts.length).map fun t => toString (callsOf r s t)
    pure ("res=" ++ commaList (rs.map showGRes) ++ " log=" ++ commaList heard ++ " reg=" ++ showReg s.reg ++
      " calls=" ++ (if calls.isEmpty then "-" else ".".intercalate calls))
  | ["reg", fb, fac, ops] => do
    let cfg ← cfgOf fb fac
    let ops ← parseOps? ops
    let (s, rs) := run cfg St.init ops
    pure ("res=" ++ commaList (rs.map showRes) ++ " " ++ showSt s)
  | ["wroute", fb, fac, ops, name, method, req, sh, st, cs, reuse, ks] => do
    let cfg ← cfgOf fb fac
    let ops ← parseOps? ops
    let method ← parseNat? method
    let req ← parseNat? req
    let sh ← parseOptTok? sh
    let st ← parseOptTok? st
    let cs ← parseChild? cs
    let ks ← parseCaller? ks
    let reuse ← (if reuse = "r" then some true else if reuse = "f" then some false else none)
    let (s, _) := run cfg St.init ops
    let (s', got) := get cfg s (unTilde name)
    pure (showWObs (routeWrapped encL got method req sh st cs reuse 998 ks) ++ " " ++ showSt s')
  | ["wcall", method, req, sh, h, st, co, opts] => do
    let method ← parseNat? method
    let req ← parseNat? req
    let sh ← parseOptTok? sh
    let h ← parseOptTok? h
    let st ← parseOptTok? st
    let co ← parseUOut? co
    let opts ← parseCOpts? opts
    let ops := sh.toList.map HOp.setHeader ++ st.toList.map HOp.setTrailer ++ h.toList.map (fun x => HOp.sendHeader (some x))
    let (out, mem) := invokeWrappedOpts ops co opts (fun _ => none)
    pure ("calls=1:" ++ toString method ++ ":" ++ toString req ++
      " vars=" ++ commaList ((coptVars opts).map fun a => toString a ++ ":" ++ (match mem a with | none => "-" | some l => showMDList l)) ++
      " out=" ++ showUOut out)
  | ["wcallc", method, req, sh, h, st, opts, ce] => do
    let method ← parseNat? method
    let req ← parseNat? req
    let sh ← parseOptTok? sh
    let h ← parseOptTok? h
    let st ← parseOptTok? st
    let opts ← parseCOpts? opts
    let ce ← parseNat? ce
    let ops := sh.toList.map HOp.setHeader ++ st.toList.map HOp.setTrailer ++ h.toList.map (fun x => HOp.sendHeader (some x))
    let (out, mem) := invokeCancelled ops ce opts (fun _ => none)
    pure ("calls=1:" ++ toString method ++ ":" ++ toString req ++
      " vars=" ++ commaList ((coptVars opts).map fun a => toString a ++ ":" ++ (match mem a with | none => "-" | some l => showMDList l)) ++
      " out=" ++ showUOut out)
  | ["wcancel", fb, fac, ops, name, method, req, sh, st, cs, reuse, park, ce] => do
    let ce ← parseNat? ce
    let cfg ← cfgOf fb fac
    let ops ← parseOps? ops
    let method ← parseNat? method
    let req ← parseNat? req
    let sh ← parseOptTok? sh
    let st ← parseOptTok? st
    let cs ← parseChild? cs
    let park ← parsePark? park
    let reuse ← (if reuse = "r" then some true else if reuse = "f" then some false else none)
    if cs.openErr.isSome || cs.headerErr.isSome || (match park with | some k => k > cs.msgs.length | none => false) then none else
    let (s, _) := run cfg St.init ops
    let (s', got) := get cfg s (unTilde name)
    pure (showCObs (routeCancelled encL got method req sh st cs park reuse 998 ce healthy) ++ " " ++ showSt s')
  | ["route", fb, fac, ops, name, method, req, "U", co] => do
    let cfg ← cfgOf fb fac
    let ops ← parseOps? ops
    let method ← parseNat? method
    let req ← parseNat? req
    let co ← parseUOut? co
    let (s, _) := run cfg St.init ops
    let (s', got) := get cfg s (unTilde name)
    let (calls, out) := forwardUnary got method req (fun _ _ _ => co)
    pure ("calls=" ++ showCalls calls ++ " out=" ++ showUOut out ++ " " ++ showSt s')
  | ["route", fb, fac, ops, name, method, req, "S", cs, ks] => do
    let cfg ← cfgOf fb fac
    let ops ← parseOps? ops
    let method ← parseNat? method
    let req ← parseNat? req
    let cs ← parseChild? cs
    let ks ← parseCaller? ks
    let (s, _) := run cfg St.init ops
    let (s', got) := get cfg s (unTilde name)
    pure (showObs (forwardStream got method req cs ks) ++ " ev=" ++ showEvents (pumpEvents got cs ks) ++ " " ++ showSt s')
  | ["conc", fb, fac, reg0, names, sched] => do
    let cfg ← cfgOf fb fac
    let reg0 ← parseReg? reg0
    let names := (splitList names ",").map unTilde
    let sched ← (splitList sched ",").mapM parseNat?
    if sched.any (· ≥ names.length) then none else
    let c0 := Conf.start reg0 0 0 (fun t => names.getD t "")
    let c := crun cfg c0 sched
    pure ("th=" ++ commaList ((List.range names.length).map fun t => showPC (c.th t).pc) ++ " " ++ showSt c.st)
  | ["lin", fb, fac, reg0, progs, sched] => do
    let cfg ← cfgOf fb fac
    let reg0 ← parseReg? reg0
    let progs ← (splitList progs "|").mapM parseOps?
    let sched ← (splitList sched ",").mapM parseNat?
    let c := sched.foldl (lmacro cfg) (LConf.start reg0 0 0 progs)
    pure ("th=" ++ "|".intercalate (c.ths.map showLThread) ++ " " ++ showSt c.st)
  | ["namechain", d1, d2, fields] => do
    let fs ← parseMsg? fields
    pure (showMsg (replaceEmptyName (unTilde d2) (replaceEmptyName (unTilde d1) fs)))
  | ["name", dflt, fields] => do
    let fs ← parseMsg? fields
    pure (showMsg (replaceEmptyName (unTilde dflt) fs))
  | _ => none

def handle (toks : List String) : String :=
  match handle? toks with
  | some r => r
  | none => "!bad-op"

end ScVerif.C12
