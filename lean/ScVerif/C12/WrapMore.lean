import ScVerif.C12.Wrapped
/-!
# C12 — more of pkg/wrap as a router's registered client: the call options of a unary call, and a caller
# whose context ends while the handler is still running

Two pieces of `/repo/pkg/wrap` that Wrapped.lean left out.

* `collectMetadata(cs, opts)` (`wrap.go`, called by `(*wrapper).Invoke`): the walk over **all** call options of
  the call, in order; every `grpc.Header(&v)` gets a clone of `cs.Header()` stored through its address, every
  `grpc.Trailer(&v)` a clone of `cs.Trailer()`; other options are skipped.  A call normally carries several
  options of one kind (the application's and a client middleware's).  Caller variables are addresses (`Nat`),
  memory is a function from addresses to what the variable holds (`none`: never written, still nil).

* `(*clientStream).Header` / `RecvMsg` / `Trailer` once the stream's context has ended (the caller cancelled,
  its deadline passed, or the router's pump called `reqDone`) while the handler has not returned:
  `Header()` yields the header **only if it has gone** (`headerC` closed) and nil otherwise — metadata that was
  merely staged with `SetHeader` is never reported: `SendHeader` refuses once the context has ended, also the
  flush in `Close` —; `RecvMsg` yields what was handed over (the hand-over is synchronous) and then the
  context's error; `Trailer()` what has been set so far.
-/
namespace ScVerif.C12

/-! ## call options of a unary call -/

/-- One `grpc.CallOption` as `collectMetadata` sees it. -/
inductive COpt where
  | header (a : Nat)    -- `grpc.Header(&v)`, `a` = the address of `v`
  | trailer (a : Nat)   -- `grpc.Trailer(&v)`
  | other               -- anything else (`grpc.WaitForReady`, per-call credentials, …)
deriving DecidableEq, Repr

abbrev Mem := Nat → Option (List Tok)

/-- One iteration of the `for _, opt := range opts` loop. -/
def collectStep (hdr tr : List Tok) (mem : Mem) : COpt → Mem
  | .header a => fun x => if x = a then some hdr else mem x
  | .trailer a => fun x => if x = a then some tr else mem x
  | .other => mem

/-- `collectMetadata`: the stream's header is `hdr`, its trailer `tr`. -/
def collectMetadata (hdr tr : List Tok) (opts : List COpt) (mem : Mem) : Mem :=
  opts.foldl (collectStep hdr tr) mem

/-- `Invoke(ctx, method, args, reply, opts...)`: the answer and the caller's variables afterwards. -/
def invokeWrappedOpts (ops : List HOp) (out : UOut) (opts : List COpt) (mem : Mem) : UOut × Mem :=
  let r := invokeWrapped ops out
  (r.1, collectMetadata r.2.1 r.2.2 opts mem)

/-! ## the caller's context ends while the handler runs -/

/-- The header has gone (`headerC` closed): the handler called `SendHeader` or `SendMsg`. -/
def headerGone : List HOp → Bool
  | [] => false
  | .sendHeader _ :: _ => true
  | .send :: _ => true
  | _ :: r => headerGone r

/-- What the router's forwarder sees of a wrapped server whose handler has made the calls `ops` and is still
running when the call's context ends with error `ce`. -/
def cancelView (enc : List Tok → Tok) (buf : Tok) (ops : List HOp) (ce : Tok) : ChildScript :=
  let s := wrun (WStream.init buf) ops
  { openErr := none, headerErr := none,
    header := if s.headerSent then some (enc s.header) else none,
    msgs := s.out, final := .status ce,
    trailer := if s.trailer.isEmpty then none else some (enc s.trailer) }

/-- A UNARY call on the wrapper whose context ends (error `ce`) while the handler, having made the calls `ops`,
is still running: `RecvMsg` fails with the context's error, then `collectMetadata` reads `Header()` (nil unless
the header has gone) and `Trailer()` (what has been set so far) into the call options. -/
def invokeCancelled (ops : List HOp) (ce : Tok) (opts : List COpt) (mem : Mem) : UOut × Mem :=
  let s := wrun (WStream.init 0) ops
  (.err ce, collectMetadata (if s.headerSent then s.header else []) s.trailer opts mem)

/-- The calls the INNER forwarder has made when its device parks: inside `stream.Header()` (`none`: the
device has not sent its header yet) or inside the `Recv` after `k` messages (`some k`). -/
def parkedEvents (cs : ChildScript) : Option Nat → List PEv
  | none => [.openChild, .childHeader]
  | some k => [.openChild, .childHeader, .sendHeader cs.header] ++ (pairs (cs.msgs.take k) ++ [.recv])

/-- Handler = staging on arrival, then the inner forwarder up to the point where the device parks. -/
def parkedOps (sh st : Option Tok) (cs : ChildScript) (park : Option Nat) (reuse : Bool) (scr : Tok) : List HOp :=
  sh.toList.map .setHeader ++ st.toList.map .setTrailer ++ hopsOfEvents reuse scr (parkedEvents cs park)

/-- Router ∘ Wrap ∘ Router ∘ device, the device parked at `park` when the caller's context ends with `ce`. -/
def routeCancelled (enc : List Tok → Tok) (got : Res) (method req : Tok) (sh st : Option Tok) (cs : ChildScript)
    (park : Option Nat) (reuse : Bool) (scr : Tok) (ce : Tok) (k : CallerScript) : Obs :=
  forwardStream got method req (cancelView enc 0 (parkedOps sh st cs park reuse scr) ce) k

end ScVerif.C12
