import ScVerif.C12.Reentrant
import ScVerif.C12.RegistryLemmas
/-! Lemmas about re-entrant callbacks (helper file: no property theorems here). -/
namespace ScVerif.C12

theorem run_append (cfg : Cfg) (s : St) (a b : List Op) :
    run cfg s (a ++ b) =
      ((run cfg (run cfg s a).1 b).1, (run cfg s a).2 ++ (run cfg (run cfg s a).1 b).2) := by
  induction a generalizing s with
  | nil => simp [run]
  | cons op a ih =>
    simp only [List.cons_append, run]
    rw [ih]

/-- A trace is *sequential* from `s` to `s'` when replaying its operations one after the other, with no
callback at all, from `s` gives exactly its results and ends in `s'`. -/
def Sequential (cfg : Cfg) (s : St) (x : St × Trace) : Prop :=
  run cfg s (x.2.map (·.1)) = (x.1, x.2.map (·.2))

theorem runWith_sequential (cfg : Cfg) (nest : St → Change → St × Trace)
    (hn : ∀ s ch, Sequential cfg s (nest s ch)) (s : St) (ops : List Op) :
    Sequential cfg s (runWith cfg nest s ops) := by
  induction ops generalizing s with
  | nil => simp [Sequential, runWith, run]
  | cons op ops ih =>
    unfold Sequential at *
    simp only [runWith, List.map_cons, List.map_append, List.cons_append, run]
    rw [run_append]
    cases hc : newChange s (step cfg s op).1 with
    | none =>
      simp only [List.map_nil, run, List.nil_append]
      rw [ih]
    | some ch =>
      simp only []
      rw [hn, ih]

theorem runRe_sequential (cfg : Cfg) (cb : Callback) (fuel d : Nat) (s : St) (ops : List Op) :
    Sequential cfg s (runRe cfg cb fuel d s ops) := by
  induction fuel generalizing d s ops with
  | zero =>
    simp only [runRe]
    exact runWith_sequential cfg _ (fun s _ => by simp [Sequential, run]) s ops
  | succ fuel ih =>
    simp only [runRe]
    exact runWith_sequential cfg _ (fun s ch => ih (d + 1) s (cb d ch)) s ops

/-- Every operation reports at most one change, appended at the end of the log. -/
theorem step_log (cfg : Cfg) (s : St) (op : Op) :
    (step cfg s op).1.log = s.log ∨ ∃ ch, (step cfg s op).1.log = s.log ++ [ch] ∧
      (step cfg s op).1.reg.get ch.name = ch.new ∧ ch.old = s.reg.get ch.name := by
  cases op with
  | add n c => right; exact ⟨_, rfl, by simp [step, add, Reg.get_set], rfl⟩
  | remove n =>
    simp only [step, remove]
    cases h : s.reg.get n with
    | none => left; rfl
    | some o => right; exact ⟨_, rfl, by simp [Reg.get_erase], by simp [h]⟩
  | has n => left; rfl
  | get n =>
    simp only [step, get]
    cases h : s.reg.get n with
    | some c => left; rfl
    | none =>
      simp only []
      rcases hfb : invoke cfg.fallback n s.nfb with ⟨fb, fbc⟩
      cases fb with
      | some c => left; cases fbc <;> rfl
      | none =>
        simp only []
        have hreg : ∀ (b : Bool), (if b = true then { s with nfb := s.nfb + 1 } else s).reg = s.reg := by
          intro b; cases b <;> rfl
        have hlog : ∀ (b : Bool), (if b = true then { s with nfb := s.nfb + 1 } else s).log = s.log := by
          intro b; cases b <;> rfl
        generalize hs1 : (if fbc = true then { s with nfb := s.nfb + 1 } else s) = s1
        have r1 : s1.reg = s.reg := by rw [← hs1]; exact hreg fbc
        have l1 : s1.log = s.log := by rw [← hs1]; exact hlog fbc
        rcases hfc : invoke cfg.factory n s1.nfac with ⟨fc, fcc⟩
        have hreg2 : ∀ (b : Bool), (if b = true then { s1 with nfac := s1.nfac + 1 } else s1).reg = s.reg := by
          intro b; cases b <;> simp [r1]
        have hlog2 : ∀ (b : Bool), (if b = true then { s1 with nfac := s1.nfac + 1 } else s1).log = s.log := by
          intro b; cases b <;> simp [l1]
        cases fc with
        | none => left; simp only []; exact hlog2 fcc
        | some c =>
          simp only []
          rw [hreg2 fcc, h]
          right
          refine ⟨⟨n, none, some c, true⟩, ?_, ?_, ?_⟩
          · simp [hlog2 fcc]
          · simp [Reg.get_set]
          · simp [h]

end ScVerif.C12
