import ScVerif.C12.Lin
/-! Progress of the concurrent Add / Remove / Has / Get model (helper file: no property theorems here). -/
namespace ScVerif.C12

/-- Steps a thread still needs at most before the operation in flight is over. -/
def LPC.rank : LPC → Nat
  | .idle => 0
  | .notify _ _ => 1
  | .insert _ _ => 2
  | .factory _ => 3
  | .fallback _ => 4

/-- Steps a thread still needs at most to finish its program (an operation takes at most five). -/
def LThread.rank (th : LThread) : Nat := 5 * th.prog.length + th.pc.rank

/-- A thread that has finished. -/
def LThread.finished (th : LThread) : Prop := th.prog = [] ∧ th.pc = .idle

theorem rank_zero_iff (th : LThread) : th.rank = 0 ↔ th.finished := by
  unfold LThread.rank LThread.finished
  constructor
  · intro h
    have h1 : th.prog.length = 0 := by omega
    have h2 : th.pc.rank = 0 := by omega
    refine ⟨List.eq_nil_of_length_eq_zero h1, ?_⟩
    cases hp : th.pc <;> simp [hp, LPC.rank] at h2 ⊢
  · rintro ⟨h1, h2⟩
    simp [h1, h2, LPC.rank]

/-- Every step of a thread takes it strictly closer to the end of its program. -/
theorem action_rank (cfg : Cfg) (s : St) (th : LThread) (e : Effect) (h : action cfg s th = some e) :
    e.th.rank + 1 ≤ th.rank := by
  unfold action at h
  split at h
  · split at h
    · cases h
    · simp only [Option.some.injEq] at h; subst h
      simp_all [LThread.rank, LPC.rank]; omega
    · split at h <;> (simp only [Option.some.injEq] at h; subst h) <;>
        (simp_all [LThread.rank, LPC.rank, LThread.see, LThread.finish]; try omega)
    · simp only [Option.some.injEq] at h; subst h
      simp_all [LThread.rank, LPC.rank, LThread.see, LThread.finish]; try omega
    · split at h <;> (simp only [Option.some.injEq] at h; subst h) <;>
        (simp_all [LThread.rank, LPC.rank, LThread.see, LThread.finish]; try omega)
  · simp only at h
    split at h <;> (simp only [Option.some.injEq] at h; subst h) <;>
      (simp_all [LThread.rank, LPC.rank, LThread.finish]; try omega)
  · simp only at h
    split at h <;> (simp only [Option.some.injEq] at h; subst h) <;>
      (simp_all [LThread.rank, LPC.rank, LThread.finish]; try omega)
  · split at h <;> (simp only [Option.some.injEq] at h; subst h) <;>
      (simp_all [LThread.rank, LPC.rank, LThread.see, LThread.finish]; try omega)
  · simp only [Option.some.injEq] at h; subst h
    simp_all [LThread.rank, LPC.rank, LThread.finish]

/-- A thread that is not finished can always take a step (nothing ever waits for another thread). -/
theorem action_enabled (cfg : Cfg) (s : St) (th : LThread) (h : th.rank ≠ 0) :
    ∃ e, action cfg s th = some e := by
  unfold action
  cases hp : th.pc with
  | idle =>
    cases hq : th.prog with
    | nil => exfalso; apply h; simp [LThread.rank, hp, hq, LPC.rank]
    | cons op rest =>
      cases op with
      | add n c => simp
      | remove n => simp only; split <;> simp
      | has n => simp
      | get n => simp only; split <;> simp
  | notify ch r => simp
  | fallback n => simp only; split <;> simp
  | factory n => simp only; split <;> simp
  | insert n c => simp only; split <;> simp

/-- One scheduling decision: the scheduled thread gets one step closer (if it is not finished), the
others are left alone. -/
theorem lstep_rank (cfg : Cfg) (c : LConf) (u t : Nat) (th : LThread) (h : c.ths[t]? = some th) :
    ∃ th', (lstep cfg c u).ths[t]? = some th' ∧
      th'.rank ≤ th.rank - (if u = t then 1 else 0) := by
  unfold lstep
  cases hu : c.ths[u]? with
  | none =>
    have hut : u ≠ t := by
      intro e; subst e; rw [h] at hu; cases hu
    exact ⟨th, h, by simp [hut]⟩
  | some thu =>
    simp only
    cases hact : action cfg c.st thu with
    | none =>
      refine ⟨th, h, ?_⟩
      by_cases hut : u = t
      · subst hut
        rw [h] at hu; cases hu
        have : th.rank = 0 := by
          cases Nat.eq_zero_or_pos th.rank with
          | inl z => exact z
          | inr p =>
            obtain ⟨e, he⟩ := action_enabled cfg c.st th (by omega)
            rw [he] at hact; cases hact
        simp [this]
      · simp [hut]
    | some e =>
      simp only
      by_cases hut : u = t
      · subst hut
        rw [h] at hu; cases hu
        have hlt : u < c.ths.length := by
          rcases Nat.lt_or_ge u c.ths.length with hl | hl
          · exact hl
          · rw [List.getElem?_eq_none hl] at h; cases h
        refine ⟨e.th, List.getElem?_set_self hlt, ?_⟩
        have := action_rank cfg c.st th e hact
        simp; omega
      · refine ⟨th, by rw [List.getElem?_set_ne hut]; exact h, by simp [hut]⟩

theorem lrun_rank (cfg : Cfg) (sched : List Nat) (c : LConf) (t : Nat) (th : LThread)
    (h : c.ths[t]? = some th) :
    ∃ th', (lrun cfg c sched).ths[t]? = some th' ∧ th'.rank ≤ th.rank - sched.count t := by
  induction sched generalizing c th with
  | nil => exact ⟨th, h, by simp⟩
  | cons u us ih =>
    obtain ⟨th1, h1, r1⟩ := lstep_rank cfg c u t th h
    obtain ⟨th2, h2, r2⟩ := ih (lstep cfg c u) th1 h1
    refine ⟨th2, h2, ?_⟩
    simp only [List.count_cons]
    by_cases hut : u = t
    · simp [hut] at r1 ⊢; omega
    · have : (u == t) = false := by simp [hut]
      simp [hut, this] at r1 ⊢; omega

end ScVerif.C12
