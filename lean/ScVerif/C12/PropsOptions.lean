import ScVerif.C12.OptionsLemmas
import ScVerif.C12.Props
/-!
# C12 — theorems: a router is configured by a LIST of options (`NewRouter(opts ...Option)`)

The property's clause "forwarded to the client currently registered under N (added, created once by the
factory, or supplied by the fallback)" and the documented precedence ("WithFallback will be called first,
only using WithFactory if WithFallback returns nil or an error") are stated in `Props.lean` for a
configuration `Cfg`; here they are carried to what a caller writes: any list of options, any number of each
kind, in ANY ORDER.  Round 8 (seeded class: the precedence between the two sources depended on the order in
which the options were passed).
-/
namespace ScVerif.C12

/-- The router built from an option list depends only on, per kind, the options of that kind in their
order: lists that agree kind by kind build the same router (how options of different kinds are
interleaved is irrelevant). -/
theorem C12_options_order_free (o1 o2 : List ROpt) (h : ∀ k, ofKind k o1 = ofKind k o2) :
    newRouter o1 = newRouter o2 := by
  unfold newRouter
  apply Fields.ext'
  · rw [foldl_fallback_eq o1 _ Fields.empty rfl, foldl_fallback_eq o2 _ Fields.empty rfl, h]
  · rw [foldl_factory_eq o1 _ Fields.empty rfl, foldl_factory_eq o2 _ Fields.empty rfl, h]
  · rw [foldl_onChange_eq o1 _ Fields.empty rfl, foldl_onChange_eq o2 _ Fields.empty rfl, h]

/-- Two neighbouring options of different kinds may be passed in either order, anywhere in the list. -/
theorem C12_options_swap (pre post : List ROpt) (a b : ROpt) (h : a.kind ≠ b.kind) :
    newRouter (pre ++ a :: b :: post) = newRouter (pre ++ b :: a :: post) := by
  apply C12_options_order_free
  intro k
  simp only [ofKind, List.filter_append, List.filter_cons]
  by_cases ha : a.kind = k <;> by_cases hb : b.kind = k <;> simp_all

/-- The LAST option of each kind is the one in effect, whatever stands before it and whatever options
of other kinds follow it: the field holds exactly what that option assigns (its function with its tag;
nothing for a nil function). -/
theorem C12_options_last_wins (pre post : List ROpt) (o : ROpt) (h : ∀ p ∈ post, p.kind ≠ o.kind) :
    match o with
    | .fallback t f => (newRouter (pre ++ o :: post)).fallback = f.map fun g => (t, g)
    | .factory t f => (newRouter (pre ++ o :: post)).factory = f.map fun g => (t, g)
    | .onChange t => (newRouter (pre ++ o :: post)).onChange = some t := by
  unfold newRouter
  rw [List.foldl_append, List.foldl_cons]
  have hk := foldl_other_kinds o.kind post h (applyOpt (List.foldl applyOpt Fields.empty pre) o)
  cases o with
  | fallback t f => simp only []; rw [hk.1 rfl]; rfl
  | factory t f => simp only []; rw [hk.2.1 rfl]; rfl
  | onChange t => simp only []; rw [hk.2.2 rfl]; rfl

/-- CLOSED FORM of `NewRouter(opts...)` for every option list: each field is what the last option of its
kind assigns (scanning the list from its end), nil when there is none. -/
theorem C12_options_closed_form (opts : List ROpt) :
    newRouter opts = ⟨(lastFallback opts).join, (lastFactory opts).join, lastOnChange opts⟩ := by
  have := closed_form_rev opts.reverse
  simpa using this

/-- No option of a kind: the field stays nil. -/
theorem C12_options_unset (opts : List ROpt) (k : OKind) (h : ∀ o ∈ opts, o.kind ≠ k) :
    (k = .fallback → (newRouter opts).fallback = none) ∧
    (k = .factory → (newRouter opts).factory = none) ∧
    (k = .onChange → (newRouter opts).onChange = none) :=
  foldl_other_kinds k opts h Fields.empty

/-- THE PRECEDENCE, for every option list: let `g` be the function of the last `WithFallback` and `f` the
function of the last `WithFactory` — the two options may stand in either order, with any options before,
between and after them.  A `Get` for an unregistered name asks `g` first; if it supplies a client, that
client is returned, nothing is committed or announced, and `f` is not called; only if `g` declines is `f`
asked, and its client is committed and announced as an Auto change; if both decline: NotFound, registry
and log untouched. -/
theorem C12_options_fallback_before_factory (opts p1 q1 p2 q2 : List ROpt) (tb tf : Nat) (g f : Factory)
    (h1 : opts = p1 ++ .fallback tb (some g) :: q1) (hq1 : ∀ p ∈ q1, p.kind ≠ .fallback)
    (h2 : opts = p2 ++ .factory tf (some f) :: q2) (hq2 : ∀ p ∈ q2, p.kind ≠ .factory)
    (s : St) (n : Name) (hn : s.reg.get n = none) :
    let out := get (newRouter opts).cfg s n
    match supplies (some g) n s.nfb with
    | some c => out = ({ s with nfb := s.nfb + 1 }, .got c .fallback)
    | none =>
      match supplies (some f) n s.nfac with
      | some c => out.2 = .got c .factory ∧ out.1.reg.get = SMap.upd s.reg.get n (some c) ∧
          out.1.log = s.log ++ [⟨n, none, some c, true⟩] ∧ out.1.nfb = s.nfb + 1 ∧ out.1.nfac = s.nfac + 1
      | none => out.2 = .notFound ∧ out.1.reg = s.reg ∧ out.1.log = s.log ∧
          out.1.nfb = s.nfb + 1 ∧ out.1.nfac = s.nfac + 1 := by
  have hb : (newRouter opts).fallback = some (tb, g) := by
    have := C12_options_last_wins p1 q1 (.fallback tb (some g)) hq1
    rw [h1]; simpa using this
  have hf : (newRouter opts).factory = some (tf, f) := by
    have := C12_options_last_wins p2 q2 (.factory tf (some f)) hq2
    rw [h2]; simpa using this
  have hcfg : (newRouter opts).cfg = ⟨some g, some f⟩ := by simp [Fields.cfg, hb, hf]
  simp only [hcfg, get, hn, invoke, supplies]
  by_cases e1 : (g n s.nfb).err
  · by_cases e2 : (f n s.nfac).err
    · simp [e1, e2]
    · cases hc : (f n s.nfac).child <;> simp [e1, e2, hc, hn, Reg.set_abs]
  · cases hg : (g n s.nfb).child with
    | some c => simp [e1]
    | none =>
      by_cases e2 : (f n s.nfac).err
      · simp [e1, e2]
      · cases hc : (f n s.nfac).child <;> simp [e1, e2, hc, hn, Reg.set_abs]

/-- The property's clause for a router configured by any option list: a unary request for an unregistered
name is forwarded exactly once — to the client the last-configured FALLBACK supplies if it supplies one, else
to the client the last-configured FACTORY makes, else to nobody with NotFound — wherever the two options
stand in the list; the child's answer is returned unaltered. -/
theorem C12_options_request_forwarded (opts p1 q1 p2 q2 : List ROpt) (tb tf : Nat) (g f : Factory)
    (h1 : opts = p1 ++ .fallback tb (some g) :: q1) (hq1 : ∀ p ∈ q1, p.kind ≠ .fallback)
    (h2 : opts = p2 ++ .factory tf (some f) :: q2) (hq2 : ∀ p ∈ q2, p.kind ≠ .factory)
    (s : St) (n : Name) (hn : s.reg.get n = none) (method req : Tok) (child : Client → Tok → Tok → UOut) :
    forwardUnary (get (newRouter opts).cfg s n).2 method req child =
      match supplies (some g) n s.nfb with
      | some c => ([⟨c, method, req⟩], child c method req)
      | none =>
        match supplies (some f) n s.nfac with
        | some c => ([⟨c, method, req⟩], child c method req)
        | none => ([], .err notFoundTok) := by
  have h := C12_options_fallback_before_factory opts p1 q1 p2 q2 tb tf g f h1 hq1 h2 hq2 s n hn
  simp only at h
  cases hg : supplies (some g) n s.nfb with
  | some c => rw [hg] at h; simp only at h; rw [h]; rfl
  | none =>
    rw [hg] at h; simp only at h
    cases hf : supplies (some f) n s.nfac with
    | some c => rw [hf] at h; simp only at h; rw [h.1]; rfl
    | none => rw [hf] at h; simp only at h; rw [h.1]; rfl

/-- Whole histories: option lists that agree kind by kind give the same results, the same final registry,
the same calls to every function passed and tell every listener the same changes — for every history. -/
theorem C12_options_history_order_free (o1 o2 : List ROpt) (h : ∀ k, ofKind k o1 = ofKind k o2)
    (s : St) (ops : List Op) :
    run (newRouter o1).cfg s ops = run (newRouter o2).cfg s ops ∧
    ∀ t, callsOf (newRouter o1) (run (newRouter o1).cfg s ops).1 t =
           callsOf (newRouter o2) (run (newRouter o2).cfg s ops).1 t ∧
         heardBy (newRouter o1) (run (newRouter o1).cfg s ops).1 t =
           heardBy (newRouter o2) (run (newRouter o2).cfg s ops).1 t := by
  rw [C12_options_order_free o1 o2 h]
  exact ⟨rfl, fun _ => ⟨rfl, rfl⟩⟩

/-- A function that was passed and then superseded by a later option of the same kind is never called: for an
option `o` followed somewhere by an option of its kind, whose tag no other option carries, every history
leaves its call count at 0 and tells it nothing (a second WithFactory REPLACES the first; a second
WithOnChange takes over all announcements). -/
theorem C12_options_superseded_never_called (pre post : List ROpt) (o : ROpt)
    (hsup : ∃ p ∈ post, p.kind = o.kind) (hfresh : ∀ p ∈ pre ++ post, p.tag ≠ o.tag) (s : St) :
    callsOf (newRouter (pre ++ o :: post)) s o.tag = 0 ∧
    heardBy (newRouter (pre ++ o :: post)) s o.tag = [] := by
  have h1 := superseded_tag_absent pre post o hsup hfresh .fallback
  have h2 := superseded_tag_absent pre post o hsup hfresh .factory
  have h3 := superseded_tag_absent pre post o hsup hfresh .onChange
  simp only [Fields.tagOf] at h1 h2 h3
  simp [callsOf, heardBy, h1, h2, h3]

/-- Non-vacuity: two factories, two listeners; only the later ones are used. -/
example :
    let f1 : Factory := fun _ k => ⟨some (1000 + k), false⟩
    let f2 : Factory := fun _ k => ⟨some (4000 + k), false⟩
    let r := newRouter [.factory 0 (some f1), .onChange 1, .onChange 2, .factory 3 (some f2)]
    let s := (run r.cfg St.init [.get "x", .get "y"]).1
    (callsOf r s 0, callsOf r s 1, callsOf r s 2, callsOf r s 3) = (0, 0, 2, 2) := by decide

/-- Non-vacuity: the seeded class.  Factory option first, fallback option second: the fallback is still
asked first, its client is returned and nothing is committed. -/
example :
    let g : Factory := fun _ k => ⟨some (2000 + k), false⟩
    let f : Factory := fun _ k => ⟨some (1000 + k), false⟩
    (run (newRouter [.factory 0 (some f), .onChange 1, .fallback 2 (some g)]).cfg St.init [.get "x", .has "x"]).2
      = [.got 2000 .fallback, .bool false] := by decide

/-- THE GENERATED `Add` REFUSES FOREIGN VALUES.  In every history on a generated router, an `Add` of a
value that is not a client of its service panics and is invisible: the final state (registry, change log,
source call counts) and the results of all other operations are exactly those of the history without
these Adds; each of them answers with a panic and only they do. -/
theorem C12_foreign_add_refused (cfg : Cfg) (s : St) (gops : List GOp) :
    (grun cfg s gops).1 = (run cfg s (proper gops)).1 ∧
    (grun cfg s gops).2.filterMap GRes.res? = (run cfg s (proper gops)).2 ∧
    (grun cfg s gops).2.map (fun r => r == GRes.panicked) = gops.map GOp.foreign := by
  induction gops generalizing s with
  | nil => simp [grun, run, proper]
  | cons o os ih =>
    cases o with
    | op o =>
      have := ih (step cfg s o).1
      simp only [grun, gstep, proper, run, List.filterMap_cons, GRes.res?, List.map_cons, GOp.foreign]
      refine ⟨this.1, ?_, ?_⟩
      · rw [this.2.1]
      · rw [this.2.2]; simp
    | addForeign n =>
      have := ih s
      simp only [grun, gstep, proper, List.filterMap_cons, GRes.res?, List.map_cons, GOp.foreign]
      refine ⟨this.1, this.2.1, ?_⟩
      rw [this.2.2]; simp

/-- Non-vacuity: a nil client offered between two operations. -/
example :
    (grun ⟨none, none⟩ St.init [.op (.add "x" 1), .addForeign "x", .op (.get "x")]).2
      = [.res (.prev none), .panicked, .res (.got 1 .registered)] := by decide

end ScVerif.C12
