import ScVerif.C12.Tables
import ScVerif.Generated.C12Facts
/-!
# C12 — property theorem over the regenerated tables (K3)

"The checked-in routers and wrappers are exactly what the generators produce from the current API
descriptors, so no RPC is left unrouted."

`Generated.descriptors` (services and methods of the compiled API descriptors of every proto file a
`pkg/trait/*/gen.go` runs the generators on), `Generated.routers` and `Generated.wrappers` (the Go
AST of `pkg/trait`) are rewritten from the working tree on every run; this file is re-checked against
them.  Only property theorems live here.
-/
namespace ScVerif.C12

/-- **No RPC is left unrouted.**  For every service of the API descriptors there is a checked-in
router type that embeds that service's `Unimplemented…Server`, registers itself for that service,
and has, for every method of the descriptor, a forwarder of canonical shape (same name, unary /
server-streaming as in the descriptor, client chosen by `request.Name`, exactly the same-named method
called on it); no client-streaming method exists; the router has no forwarder for a method the
descriptor lacks; and there is a wrapper whose server type, `ServiceDesc` and client constructor all
belong to that service.  Conversely every router and wrapper found belongs to a described service. -/
theorem C12_all_routed :
    (∀ s ∈ Generated.descriptors,
      (∃ r ∈ Generated.routers, r.svc = s.svc ∧ r.registers = s.svc ∧
        (∀ m ∈ s.methods, m.clientStream = false ∧ ∃ f ∈ r.methods, Canonical m f) ∧
        (∀ f ∈ r.methods, ∃ m ∈ s.methods, m.name = f.name)) ∧
      (∃ w ∈ Generated.wrappers, w.serverSvc = s.svc ∧ w.descSvc = s.svc ∧ w.clientSvc = s.svc)) ∧
    (∀ r ∈ Generated.routers, ∃ s ∈ Generated.descriptors, s.svc = r.svc) ∧
    (∀ w ∈ Generated.wrappers, ∃ s ∈ Generated.descriptors, s.svc = w.serverSvc) :=
  allRouted_sound _ _ _ (by decide)

/-- The tables are not empty (the theorem above is not vacuous): the descriptors list at least 60
services with at least 150 methods. -/
theorem C12_tables_nonempty :
    60 ≤ Generated.descriptors.length ∧
    150 ≤ (Generated.descriptors.map (fun s => s.methods.length)).sum ∧
    Generated.descriptors.length = Generated.routers.length ∧
    Generated.descriptors.length = Generated.wrappers.length := by decide

end ScVerif.C12
