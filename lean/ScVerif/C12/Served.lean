import ScVerif.C12.Forward
import ScVerif.C12.NameDefault
/-!
# C12 — a request as it is SERVED: transport ▸ default-name interceptor ▸ generated handler ▸ router

`/repo/pkg/middleware/name/defaults.go` installs two interceptors on a `grpc.Server`:

* `IfAbsentUnaryInterceptor(d)`: `replaceEmptyNameField(req, d); return handler(ctx, req)` — the request
  has been decoded by the transport already (the generated `_Svc_Method_Handler` does
  `in := new(Req); dec(in)` before it calls the interceptor);
* `IfAbsentStreamInterceptor(d)`: hands the handler an `absentNameReplaceServerStream`, whose
  ```
  func (w *absentNameReplaceServerStream) RecvMsg(m any) error {
      err := w.ServerStream.RecvMsg(m); if err != nil { return err }
      replaceEmptyNameField(m, w.name); return nil }
  ```
  so the request does not exist yet when the interceptor runs: the generated stream handler does
  `m := new(Req); if err := stream.RecvMsg(m); err != nil { return err }; return srv.Pull(m, …)`.

What the underlying `ServerStream.RecvMsg(m)` does with `m` is the TRANSPORT's business and is a
parameter here (`inner : Msg → RecvOut`, a function of what `m` holds when it is called): grpc's codec
resets `m` and decodes the wire message into it (it OVERWRITES), `pkg/wrap`'s in-process stream MERGES
the client's message into `m`, any of them may fail.  The forwarders of `Forward.lean` then route by
`request.Name` (`reqName`).
-/
namespace ScVerif.C12

/-- Result of one `RecvMsg(m)`: what `m` holds afterwards, and the error (`none` = nil). -/
structure RecvOut where
  msg : Msg
  err : Option Tok
deriving DecidableEq, Repr

/-- `(*absentNameReplaceServerStream).RecvMsg`, statement by statement. -/
def wrappedRecv (d : String) (inner : Msg → RecvOut) (m : Msg) : RecvOut :=
  let r := inner m                                  -- err := w.ServerStream.RecvMsg(m)
  match r.err with
  | some e => ⟨r.msg, some e⟩                       -- if err != nil { return err }
  | none => ⟨replaceEmptyName d r.msg, none⟩        -- replaceEmptyNameField(m, w.name); return nil

/-- `request.Name` as the generated forwarders read it (`""` when unset). -/
def reqName (m : Msg) : Name := (nameOf m).getD ""

/-- A unary call served behind `IfAbsentUnaryInterceptor(d)`: `wire` is the decoded request, `enc` what
a child records of the request it is given (any function: the theorems quantify over it). -/
def serveUnary (d : String) (cfg : Cfg) (s : St) (enc : Msg → Tok) (method : Tok) (wire : Msg)
    (child : Client → Tok → Tok → UOut) : St × Msg × List Call × UOut :=
  let req := replaceEmptyName d wire                -- replaceEmptyNameField(req, name)
  let (s', got) := get cfg s (reqName req)          -- handler(ctx, req) → r.GetXxxClient(request.Name)
  let (calls, out) := forwardUnary got method (enc req) child
  (s', req, calls, out)

/-- The observation of a stream handler that returned `e` before reaching the forwarder. -/
def Obs.failed (e : Tok) : Obs := ⟨[], none, [], 0, 0, none, some e, false⟩

/-- A server-streaming call served behind `IfAbsentStreamInterceptor(d)`: `m0` is the message the
generated handler allocates (`new(Req)`), `inner` the transport's `RecvMsg`.  Returns the request the
forwarder was given (`none`: never reached). -/
def serveStream (d : String) (inner : Msg → RecvOut) (cfg : Cfg) (s : St) (enc : Msg → Tok)
    (method : Tok) (m0 : Msg) (cs : ChildScript) (k : CallerScript) : St × Option Msg × Obs :=
  let r := wrappedRecv d inner m0                   -- stream.RecvMsg(m)
  match r.err with
  | some e => (s, none, Obs.failed e)               -- if err != nil { return err }
  | none =>
    let (s', got) := get cfg s (reqName r.msg)
    (s', some r.msg, forwardStream got method (enc r.msg) cs k)

/-- `req` is `wire` with the name `n` filled in: same shape, every field not called `name` untouched. -/
def FilledFrom (wire req : Msg) (n : String) : Prop :=
  req.length = wire.length ∧
  (∀ i (hi : i < wire.length) (hi' : i < req.length), (wire[i]).fname ≠ "name" → req[i] = wire[i]) ∧
  nameOf req = some n

/-- The name a request is served under on a server whose default name is `d`. -/
def servedName (d nm : String) : String := if nm = "" then d else nm

/-! ## The closed family of transports shared with the harness -/

/-- Token of an unset non-string field (the harness hashes the encoding of a one-field copy with
FNV-32a: an unset field hashes nothing, which is the offset basis). -/
def unsetTok : Nat := 2166136261

/-- The zero message of the same type (`new(Req)`). -/
def FVal.zero : FVal → FVal
  | .str _ => .str ""
  | .other _ => .other unsetTok

def Msg.zero (m : Msg) : Msg := m.map fun f => { f with val := f.val.zero }

/-- `proto.Merge(dst, src)` on one field, for the cases the harness generates: a singular string is
replaced when the source's is non-empty; an opaque field can only be merged when one side is unset. -/
def mergeField (dst src : Field) : Option Field :=
  match dst.val, src.val with
  | .str a, .str b => some { dst with val := .str (if b = "" then a else b) }
  | .other a, .other b =>
    if a = unsetTok then some { dst with val := .other b }
    else if b = unsetTok then some dst else none
  | _, _ => none

def mergeMsg : Msg → Msg → Option Msg
  | [], [] => some []
  | d :: ds, s :: ss => do
    let f ← mergeField d s
    let rest ← mergeMsg ds ss
    pure (f :: rest)
  | _, _ => none

inductive Transport where
  | overwrite                 -- grpc codec: proto.Unmarshal resets the message first
  | merge                     -- pkg/wrap ClientServerStream: proto.Merge into the message
  | fail (e : Tok)            -- RecvMsg fails, the message is not touched
  | overwriteFail (e : Tok)   -- the message was decoded, then RecvMsg fails all the same
deriving DecidableEq, Repr

/-- The transport's `RecvMsg` when `wire` is what the client sent (`none`: a merge the token
abstraction cannot express). -/
def Transport.recv (t : Transport) (wire : Msg) (m : Msg) : Option RecvOut :=
  match t with
  | .overwrite => some ⟨wire, none⟩
  | .merge => (mergeMsg m wire).map fun r => ⟨r, none⟩
  | .fail e => some ⟨m, some e⟩
  | .overwriteFail e => some ⟨wire, some e⟩

end ScVerif.C12
