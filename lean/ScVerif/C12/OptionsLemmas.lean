import ScVerif.C12.Options
/-! Lemmas about `newRouter` (fold of assignments): each field depends only on the options of its kind. -/
namespace ScVerif.C12

theorem foldl_fallback_eq (opts : List ROpt) : ∀ r r' : Fields, r.fallback = r'.fallback →
    (opts.foldl applyOpt r).fallback = ((ofKind .fallback opts).foldl applyOpt r').fallback := by
  induction opts with
  | nil => intro r r' h; simpa [ofKind] using h
  | cons o os ih =>
    intro r r' h
    cases o with
    | fallback t f => simp only [ofKind, List.filter_cons, ROpt.kind, List.foldl_cons, if_true, decide_true]; exact ih _ _ rfl
    | factory t f =>
      simp only [ofKind, List.filter_cons, ROpt.kind, List.foldl_cons]
      exact ih _ _ (by simpa [applyOpt] using h)
    | onChange t =>
      simp only [ofKind, List.filter_cons, ROpt.kind, List.foldl_cons]
      exact ih _ _ (by simpa [applyOpt] using h)

theorem foldl_factory_eq (opts : List ROpt) : ∀ r r' : Fields, r.factory = r'.factory →
    (opts.foldl applyOpt r).factory = ((ofKind .factory opts).foldl applyOpt r').factory := by
  induction opts with
  | nil => intro r r' h; simpa [ofKind] using h
  | cons o os ih =>
    intro r r' h
    cases o with
    | factory t f => simp only [ofKind, List.filter_cons, ROpt.kind, List.foldl_cons, if_true, decide_true]; exact ih _ _ rfl
    | fallback t f =>
      simp only [ofKind, List.filter_cons, ROpt.kind, List.foldl_cons]
      exact ih _ _ (by simpa [applyOpt] using h)
    | onChange t =>
      simp only [ofKind, List.filter_cons, ROpt.kind, List.foldl_cons]
      exact ih _ _ (by simpa [applyOpt] using h)

theorem foldl_onChange_eq (opts : List ROpt) : ∀ r r' : Fields, r.onChange = r'.onChange →
    (opts.foldl applyOpt r).onChange = ((ofKind .onChange opts).foldl applyOpt r').onChange := by
  induction opts with
  | nil => intro r r' h; simpa [ofKind] using h
  | cons o os ih =>
    intro r r' h
    cases o with
    | onChange t => simp only [ofKind, List.filter_cons, ROpt.kind, List.foldl_cons, if_true, decide_true]; exact ih _ _ rfl
    | fallback t f =>
      simp only [ofKind, List.filter_cons, ROpt.kind, List.foldl_cons]
      exact ih _ _ (by simpa [applyOpt] using h)
    | factory t f =>
      simp only [ofKind, List.filter_cons, ROpt.kind, List.foldl_cons]
      exact ih _ _ (by simpa [applyOpt] using h)

theorem Fields.ext' {a b : Fields} (h1 : a.fallback = b.fallback) (h2 : a.factory = b.factory)
    (h3 : a.onChange = b.onChange) : a = b := by
  cases a; cases b; simp_all

/-- Options of other kinds leave a field alone. -/
theorem foldl_other_kinds (k : OKind) (post : List ROpt) (h : ∀ p ∈ post, p.kind ≠ k) (r : Fields) :
    (k = .fallback → (post.foldl applyOpt r).fallback = r.fallback) ∧
    (k = .factory → (post.foldl applyOpt r).factory = r.factory) ∧
    (k = .onChange → (post.foldl applyOpt r).onChange = r.onChange) := by
  induction post generalizing r with
  | nil => simp
  | cons p ps ih =>
    have hp := h p (by simp)
    have ih' := ih (fun q hq => h q (by simp [hq])) (applyOpt r p)
    simp only [List.foldl_cons]
    refine ⟨fun hk => ?_, fun hk => ?_, fun hk => ?_⟩
    · rw [ih'.1 hk]; cases p <;> simp_all [applyOpt, ROpt.kind]
    · rw [ih'.2.1 hk]; cases p <;> simp_all [applyOpt, ROpt.kind]
    · rw [ih'.2.2 hk]; cases p <;> simp_all [applyOpt, ROpt.kind]

/-- Every list either has no option of kind `k` or has a last one. -/
theorem last_of_kind (k : OKind) (opts : List ROpt) :
    (∀ o ∈ opts, o.kind ≠ k) ∨
    ∃ pre o post, opts = pre ++ o :: post ∧ o.kind = k ∧ ∀ p ∈ post, p.kind ≠ k := by
  induction opts with
  | nil => left; simp
  | cons o os ih =>
    rcases ih with h | ⟨pre, o', post, he, hk, hp⟩
    · by_cases hk : o.kind = k
      · right; exact ⟨[], o, os, rfl, hk, h⟩
      · left; intro q hq
        rcases List.mem_cons.mp hq with rfl | hq
        · exact hk
        · exact h q hq
    · right; exact ⟨o :: pre, o', post, by simp [he], hk, hp⟩

/-- A tag stored in a field is the tag of the last option of that kind. -/
theorem tagOf_origin (opts : List ROpt) (k : OKind) (t : Nat) (h : (newRouter opts).tagOf k = some t) :
    ∃ pre o post, opts = pre ++ o :: post ∧ o.kind = k ∧ o.tag = t ∧ ∀ p ∈ post, p.kind ≠ k := by
  rcases last_of_kind k opts with hno | ⟨pre, o, post, he, hk, hp⟩
  · have hu := foldl_other_kinds k opts hno Fields.empty
    exfalso
    cases k
    · have := hu.1 rfl; simp only [Fields.tagOf, newRouter] at h; rw [this] at h; simp [Fields.empty] at h
    · have := hu.2.1 rfl; simp only [Fields.tagOf, newRouter] at h; rw [this] at h; simp [Fields.empty] at h
    · have := hu.2.2 rfl; simp only [Fields.tagOf, newRouter] at h; rw [this] at h; simp [Fields.empty] at h
  · refine ⟨pre, o, post, he, hk, ?_, hp⟩
    subst he
    have hl : (List.foldl applyOpt (applyOpt (List.foldl applyOpt Fields.empty pre) o) post) =
        newRouter (pre ++ o :: post) := by simp [newRouter, List.foldl_append]
    have hw := foldl_other_kinds o.kind post (by rw [hk]; exact hp) (applyOpt (List.foldl applyOpt Fields.empty pre) o)
    rw [hl] at hw
    cases o with
    | fallback t' f =>
      subst hk
      have := hw.1 rfl
      simp only [Fields.tagOf, ROpt.kind, this, applyOpt] at h
      cases f <;> simp_all [ROpt.tag]
    | factory t' f =>
      subst hk
      have := hw.2.1 rfl
      simp only [Fields.tagOf, ROpt.kind, this, applyOpt] at h
      cases f <;> simp_all [ROpt.tag]
    | onChange t' =>
      subst hk
      have := hw.2.2 rfl
      simp only [Fields.tagOf, ROpt.kind, this, applyOpt] at h
      simp_all [ROpt.tag]

/-- An option whose tag no other option carries stands at one position only. -/
theorem unique_position (pre post pre' post' : List ROpt) (o o' : ROpt)
    (he : pre ++ o :: post = pre' ++ o' :: post') (ht : o'.tag = o.tag)
    (hfresh : ∀ p ∈ pre ++ post, p.tag ≠ o.tag) : o = o' ∧ post = post' := by
  rcases List.append_eq_append_iff.mp he with ⟨a, h1, h2⟩ | ⟨c, h1, h2⟩
  · cases a with
    | nil => simp at h2; exact ⟨h2.1, h2.2⟩
    | cons x a' =>
      simp at h2
      exact absurd ht (hfresh o' (by rw [h2.2]; simp))
  · cases c with
    | nil => simp at h2; exact ⟨h2.1.symm, h2.2.symm⟩
    | cons x c' =>
      simp at h2
      exact absurd ht (hfresh o' (by rw [h1, h2.1]; simp))

theorem superseded_tag_absent (pre post : List ROpt) (o : ROpt)
    (hsup : ∃ p ∈ post, p.kind = o.kind) (hfresh : ∀ p ∈ pre ++ post, p.tag ≠ o.tag) (k : OKind) :
    (newRouter (pre ++ o :: post)).tagOf k ≠ some o.tag := by
  intro h
  obtain ⟨pre', o', post', he, hk, ht, hp⟩ := tagOf_origin _ k _ h
  obtain ⟨rfl, rfl⟩ := unique_position pre post pre' post' o o' he ht hfresh
  obtain ⟨p, hpm, hpk⟩ := hsup
  exact hp p hpm (hpk.trans hk)

theorem newRouter_snoc (opts : List ROpt) (o : ROpt) :
    newRouter (opts ++ [o]) = applyOpt (newRouter opts) o := by
  simp [newRouter, List.foldl_append]

theorem closed_form_rev (l : List ROpt) :
    newRouter l.reverse = ⟨(lastFallback l.reverse).join, (lastFactory l.reverse).join, lastOnChange l.reverse⟩ := by
  induction l with
  | nil => rfl
  | cons o os ih =>
    rw [List.reverse_cons, newRouter_snoc, ih]
    cases o <;> simp [applyOpt, lastFallback, lastFactory, lastOnChange, List.reverse_append]

end ScVerif.C12
