import ScVerif.C12.ReentrantLemmas
/-!
# C12 — property theorems, change callbacks that re-enter the router

"The registry behaves as a map (…, change callbacks report exactly the transitions)" with the anchored
mechanism "Add/Remove/Has under mu, callbacks outside the lock": a callback may call the router again.
Model: `Reentrant.lean` (`runRe`: the callback's operations run right after the lock section of the
operation that reported the change, nested to any depth, before that operation returns).

Only property theorems and their non-vacuity examples live in this file.
-/
namespace ScVerif.C12

/-- **Re-entrant callbacks see a map.**  For every configuration, every callback (any function from
nesting depth and reported change to router operations), every re-entrancy depth, every starting state
and every history: the trace of all executed operations — those of the history and those performed by
callbacks, nested ones included, in lock-section order — is a plain sequential history: running exactly
these operations one after the other with no callback gives the same results and the same final state
(registry, `onChange` log, fallback/factory call counts); hence (by `run_refines`) it is a run of the map
specification.  In particular an operation performed inside a callback observes the registry with the
reported change (and everything before it) applied, and nothing else. -/
theorem C12_reentrant_callbacks_sequential (cfg : Cfg) (cb : Callback) (fuel d : Nat) (s : St)
    (ops : List Op) :
    let x := runRe cfg cb fuel d s ops
    run cfg s (x.2.map (·.1)) = (x.1, x.2.map (·.2)) ∧
    srun cfg s.abs (x.2.map (·.1)) = (x.1.abs, x.2.map (·.2)) := by
  intro x
  have h : run cfg s (x.2.map (·.1)) = (x.1, x.2.map (·.2)) := runRe_sequential cfg cb fuel d s ops
  refine ⟨h, ?_⟩
  rw [run_refines, h]

/-- **A callback runs after the commit.**  Every operation reports at most one change; when it reports
`ch`, the state at the moment of the call (the one a re-entering callback observes) already holds
`ch.new` under `ch.name`, and `ch.old` is what the registry held before the operation. -/
theorem C12_callback_after_commit (cfg : Cfg) (s : St) (op : Op) :
    (newChange s (step cfg s op).1 = none ∧ (step cfg s op).1.log = s.log) ∨
    ∃ ch, newChange s (step cfg s op).1 = some ch ∧ (step cfg s op).1.log = s.log ++ [ch] ∧
      (step cfg s op).1.reg.get ch.name = ch.new ∧ ch.old = s.reg.get ch.name := by
  rcases step_log cfg s op with h | ⟨ch, h, h1, h2⟩
  · left; exact ⟨by simp [newChange, h], h⟩
  · right; exact ⟨ch, by simp [newChange, h], h, h1, h2⟩

/-- The history is a sub-history of the trace: with no re-entrancy left the trace is exactly the
history with its results (callbacks at the deepest level only observe). -/
theorem C12_reentrant_fuel_zero (cfg : Cfg) (cb : Callback) (d : Nat) (s : St) (ops : List Op) :
    (runRe cfg cb 0 d s ops).2.map (·.1) = ops ∧
    (runRe cfg cb 0 d s ops).1 = (run cfg s ops).1 ∧
    (runRe cfg cb 0 d s ops).2.map (·.2) = (run cfg s ops).2 := by
  have hops : (runRe cfg cb 0 d s ops).2.map (·.1) = ops := by
    simp only [runRe]
    induction ops generalizing s with
    | nil => simp [runWith]
    | cons op ops ih =>
      simp only [runWith]
      cases newChange s (step cfg s op).1 <;> simp [ih]
  have h := runRe_sequential cfg cb 0 d s ops
  unfold Sequential at h
  rw [hops] at h
  exact ⟨hops, by rw [h], by rw [h]⟩

/-- Non-vacuity: a callback that checks the name and then removes it again, two levels deep. The Add is
reported, the callback sees the client (`Has` true), removes it, which is reported in turn; the nested
callback sees the name gone and its own Remove finds nothing (no further change). -/
example :
    runRe ⟨none, none⟩ (fun _ ch => [.has ch.name, .remove ch.name]) 2 0 St.init [.add "x" 1] =
      (⟨[], [⟨"x", none, some 1, false⟩, ⟨"x", some 1, none, false⟩], 0, 0⟩,
       [(.add "x" 1, .prev none), (.has "x", .bool true), (.remove "x", .prev (some 1)),
        (.has "x", .bool false), (.remove "x", .prev none)]) := by
  decide

/-- Non-vacuity with a factory: the callback of a Remove looks the name up again, which re-creates the
client through the factory (an Auto change, reported to the nested callback). -/
example :
    (runRe ⟨none, some fun _ k => ⟨some (1000 + k), false⟩⟩ (fun _ ch => [.get ch.name]) 1 0
      ⟨[("x", 1)], [], 0, 0⟩ [.remove "x"]).2 =
      [(.remove "x", .prev (some 1)), (.get "x", .got 1000 .factory)] := by
  decide

end ScVerif.C12
