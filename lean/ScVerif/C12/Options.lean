import ScVerif.C12.Registry
/-!
# C12 — how a router is configured: `NewRouter(opts ...Option)` (`/repo/pkg/router/router.go`)

`NewRouter` makes an empty router and applies the options in call order; every option is an
assignment to ONE field of the struct (`WithFallback`: `r.fallback = f`, `WithFactory` and the generated
`With<Client>Factory`: `r.factory = f`, `WithOnChange`: `r.onChange = f`).  The model follows that code:
the struct is `Fields`, an option is `ROpt`, `newRouter` is the left fold.

A function value has no identity in the registry model, so every option carries a ghost tag (the
harness uses the option's position in the list): the tag stored in a field says WHICH of the functions
the caller passed is the one the router will call; the calls a history makes are then accounted to
tags (`callsOf`), all other functions passed are never called.  `WithFallback(nil)` / `WithFactory(nil)`
(`f = none`) store nil: `invoke` treats the source as not configured.
-/
namespace ScVerif.C12

/-- One `router.Option`. -/
inductive ROpt where
  | fallback (tag : Nat) (f : Option Factory)
  | factory (tag : Nat) (f : Option Factory)
  | onChange (tag : Nat)

/-- The three kinds of options: the struct field each assigns. -/
inductive OKind where
  | fallback | factory | onChange
deriving DecidableEq, Repr

def ROpt.kind : ROpt → OKind
  | .fallback _ _ => .fallback
  | .factory _ _ => .factory
  | .onChange _ => .onChange

/-- The configurable fields of `router` (function values with their ghost tag). -/
structure Fields where
  fallback : Option (Nat × Factory)
  factory : Option (Nat × Factory)
  onChange : Option Nat

def Fields.empty : Fields := ⟨none, none, none⟩

/-- Applying one option: one assignment. -/
def applyOpt (r : Fields) : ROpt → Fields
  | .fallback t f => { r with fallback := f.map fun g => (t, g) }
  | .factory t f => { r with factory := f.map fun g => (t, g) }
  | .onChange t => { r with onChange := some t }

/-- `NewRouter(opts...)`: `for _, opt := range opts { opt(r) }`. -/
def newRouter (opts : List ROpt) : Fields := opts.foldl applyOpt Fields.empty

/-- What `Get` sees of the configuration. -/
def Fields.cfg (r : Fields) : Cfg := ⟨r.fallback.map (·.2), r.factory.map (·.2)⟩

/-- The calls a finished history has made to the function passed with tag `t`: the fallback calls if
the router's fallback is that function, the factory calls, the change calls. -/
def callsOf (r : Fields) (s : St) (t : Nat) : Nat :=
  (if r.fallback.map (·.1) = some t then s.nfb else 0) +
  (if r.factory.map (·.1) = some t then s.nfac else 0) +
  (if r.onChange = some t then s.log.length else 0)

/-- What the `onChange` function passed with tag `t` has been told. -/
def heardBy (r : Fields) (s : St) (t : Nat) : List Change :=
  if r.onChange = some t then s.log else []

def ROpt.tag : ROpt → Nat
  | .fallback t _ => t
  | .factory t _ => t
  | .onChange t => t

/-- The tag of the function stored in the field of kind `k`. -/
def Fields.tagOf (r : Fields) : OKind → Option Nat
  | .fallback => r.fallback.map (·.1)
  | .factory => r.factory.map (·.1)
  | .onChange => r.onChange

/-- The options of one kind, in call order. -/
def ofKind (k : OKind) (opts : List ROpt) : List ROpt := opts.filter fun o => o.kind = k

/-- What the last option of a kind assigns, read off the list from its END (`none`: no such option). -/
def lastFallback (opts : List ROpt) : Option (Option (Nat × Factory)) :=
  opts.reverse.findSome? fun | .fallback t f => some (f.map fun g => (t, g)) | _ => none
def lastFactory (opts : List ROpt) : Option (Option (Nat × Factory)) :=
  opts.reverse.findSome? fun | .factory t f => some (f.map fun g => (t, g)) | _ => none
def lastOnChange (opts : List ROpt) : Option Nat :=
  opts.reverse.findSome? fun | .onChange t => some t | _ => none

/-! ## The generated `Add` override (`cmd/protoc-gen-router/router.go.gotxt`)

`func (r *XxxRouter) Add(name, client) any { if !r.HoldsType(client) { panic(...) }; return r.Router.Add(name, client) }`:
a client that is not of the router's client type (nil, another service's client, any other value) is refused
before `pkg/router` is reached.  `GOp` adds that operation to the registry operations. -/

inductive GOp where
  | op (o : Op)
  | addForeign (n : Name)

inductive GRes where
  | res (r : Res)
  | panicked
deriving DecidableEq, Repr

def gstep (cfg : Cfg) (s : St) : GOp → St × GRes
  | .op o => let (s', r) := step cfg s o; (s', .res r)
  | .addForeign _ => (s, .panicked)

def grun (cfg : Cfg) (s : St) : List GOp → St × List GRes
  | [] => (s, [])
  | o :: os =>
    let (s1, r) := gstep cfg s o
    let (s2, rs) := grun cfg s1 os
    (s2, r :: rs)

/-- The operations that reach the registry. -/
def proper : List GOp → List Op
  | [] => []
  | .op o :: os => o :: proper os
  | .addForeign _ :: os => proper os

def GRes.res? : GRes → Option Res
  | .res r => some r
  | .panicked => none

def GOp.foreign : GOp → Bool
  | .addForeign _ => true
  | .op _ => false

end ScVerif.C12
