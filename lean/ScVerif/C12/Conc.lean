import ScVerif.C12.Registry
/-!
# C12 — concurrent `router.Get` calls as an interleaving program

Each thread executes one `Get(name)`.  An *atomic step* is one lock-delimited section of
`/repo/pkg/router/router.go` `Get`, or one call made while holding no lock:

```
lookup    r.mu.RLock(); child, exists := r.registry[name]; r.mu.RUnlock()
            -- yield point `router.get.afterMiss` (only on a miss)
fallback  child, exists, err = invoke(name, r.fallback)
factory   child, exists, err = invoke(name, r.factory)
            -- yield point `router.get.beforeInsert` (only when the factory supplied a client)
insert    r.mu.Lock(); re-check; insert if still absent; r.mu.Unlock()
notify    r.onChange(Change{Name, New: child, Auto: true})      (no lock held)
```

A schedule is a list of thread ids; scheduling a finished thread is a stutter step.
Threads are a function `Nat → Thread`, so the theorems hold for any number of threads.
-/
namespace ScVerif.C12

inductive PC where
  | lookup
  | fallback
  | factory
  | insert (c : Client)
  | notify (c : Client)
  | done (r : Res)
deriving DecidableEq, Repr

structure Thread where
  name : Name
  pc : PC
deriving DecidableEq, Repr

structure Conf where
  st : St
  th : Nat → Thread

def Conf.setPc (c : Conf) (t : Nat) (pc : PC) : Conf :=
  { c with th := fun i => if i = t then ⟨(c.th t).name, pc⟩ else c.th i }

/-- One atomic step of thread `t`. -/
def cstep (cfg : Cfg) (c : Conf) (t : Nat) : Conf :=
  let n := (c.th t).name
  match (c.th t).pc with
  | .lookup =>
    match c.st.reg.get n with
    | some cl => c.setPc t (.done (.got cl .registered))
    | none => c.setPc t .fallback
  | .fallback =>
    let r := invoke cfg.fallback n c.st.nfb
    let c1 : Conf := if r.2 then { c with st := { c.st with nfb := c.st.nfb + 1 } } else c
    match r.1 with
    | some cl => c1.setPc t (.done (.got cl .fallback))
    | none => c1.setPc t .factory
  | .factory =>
    let r := invoke cfg.factory n c.st.nfac
    let c1 : Conf := if r.2 then { c with st := { c.st with nfac := c.st.nfac + 1 } } else c
    match r.1 with
    | some cl => c1.setPc t (.insert cl)
    | none => c1.setPc t (.done .notFound)
  | .insert cl =>
    match c.st.reg.get n with
    | some c2 => c.setPc t (.done (.got c2 .registered))
    | none => ({ c with st := { c.st with reg := c.st.reg.set n cl } } : Conf).setPc t (.notify cl)
  | .notify cl =>
    ({ c with st := { c.st with log := c.st.log ++ [⟨n, none, some cl, true⟩] } } : Conf).setPc t
      (.done (.got cl .factory))
  | .done _ => c

def crun (cfg : Cfg) (c : Conf) : List Nat → Conf
  | [] => c
  | t :: ts => crun cfg (cstep cfg c t) ts

/-- All threads about to start their `Get`, thread `t` asking for `names t`; the change listener is
attached now (empty log). -/
def Conf.start (reg0 : Reg) (nfb nfac : Nat) (names : Nat → Name) : Conf :=
  ⟨⟨reg0, [], nfb, nfac⟩, fun t => ⟨names t, .lookup⟩⟩

end ScVerif.C12
