import ScVerif.C12.RegistryLemmas
import ScVerif.C12.ConcLemmas
import ScVerif.C12.ForwardLemmas
/-!
# C12 — property theorems (registry, Get protocol, forwarders, default name)

Property (fixed text): "For every trait service and every one of its methods, a request naming N is
forwarded exactly once to the client currently registered under N (added, created once by the
factory, or supplied by the fallback), and the request, the response or stream of responses, the
error status and the stream header and trailer pass through unaltered; a name with no client yields
NotFound and touches no client. The registry behaves as a map (Add returns the previous client,
Remove the removed one, Has and Get agree, change callbacks report exactly the transitions,
concurrent first Gets commit a single factory client), and the default-name interceptor fills in
only empty names. The checked-in routers and wrappers are exactly what the generators produce from
the current API descriptors, so no RPC is left unrouted."

The last sentence is `C12_all_routed` in `PropsTables.lean` (over tables regenerated from the source).
Only property theorems and their non-vacuity examples live in this file.
-/
namespace ScVerif.C12

/-- The client a request naming `n` must reach in state `s`: the registered one, else what the
fallback supplies, else what the factory supplies (independent of the model's `get`). -/
def resolve (cfg : Cfg) (s : St) (n : Name) : Option Client :=
  match s.reg.get n with
  | some c => some c
  | none =>
    match supplies cfg.fallback n s.nfb with
    | some c => some c
    | none => supplies cfg.factory n s.nfac

/-- **Registry = map.**  For every configuration, every starting state and every history of
`Add/Remove/Has/Get`, the model (association list, Go control flow) returns exactly the results of
the map specification, leaves a registry denoting exactly the specification's map, and calls
`onChange` with exactly the same changes in the same order (and calls fallback/factory equally often). -/
theorem C12_registry_map (cfg : Cfg) (s : St) (ops : List Op) :
    srun cfg s.abs ops = ((run cfg s ops).1.abs, (run cfg s ops).2) :=
  run_refines cfg s ops

/-- **Add returns the previous client, Remove the removed one**, both are exact map updates with a
frame condition, for every state. -/
theorem C12_add_remove (s : St) (n : Name) (c : Client) :
    (add s n c).2 = .prev (s.reg.get n) ∧
    (add s n c).1.reg.get = SMap.upd s.reg.get n (some c) ∧
    (remove s n).2 = .prev (s.reg.get n) ∧
    (remove s n).1.reg.get = SMap.upd s.reg.get n none := by
  refine ⟨rfl, by simp [add, Reg.set_abs], ?_, ?_⟩
  · simp only [remove]; cases h : s.reg.get n <;> simp
  · simp only [remove]
    have hx : s.reg.get n = none ∨ ∃ c, s.reg.get n = some c := by cases s.reg.get n <;> simp
    rcases hx with h | ⟨x, h⟩
    · simp only [h]; rw [← h, SMap.upd_same]
    · simp [h, Reg.erase_abs]

/-- **Has and Get agree** (no fallback, no factory): `Has n` is true exactly when `Get n` succeeds,
and then `Get` returns the registered client and changes nothing. -/
theorem C12_has_iff_get (s : St) (n : Name) :
    ((has s n).2 = .bool true ↔ ∃ c, get ⟨none, none⟩ s n = (s, .got c .registered)) ∧
    ((has s n).2 = .bool false ↔ get ⟨none, none⟩ s n = (s, .notFound)) := by
  simp only [has, get, invoke]
  cases h : s.reg.get n <;> simp

/-- **Change callbacks report exactly the transitions.**  For every history the calls of `onChange`
made during it (`d`) satisfy: replaying them over the registry before gives the registry after (no
transition is missed, none is invented), every `Old` is the value the registry really held, and at
most one change is reported per operation. -/
theorem C12_onchange_exact (cfg : Cfg) (s : St) (ops : List Op) :
    ∃ d, (run cfg s ops).1.log = s.log ++ d ∧
      replay s.reg.get d = (run cfg s ops).1.reg.get ∧
      OldExact s.reg.get d ∧ d.length ≤ ops.length := by
  have h := srun_log cfg s.abs ops
  rw [run_refines] at h
  exact h

/-- **Get resolution**: registered, else fallback (not remembered), else factory (remembered, one
`Auto` change), else NotFound (nothing changes). -/
theorem C12_get_resolution (cfg : Cfg) (s : St) (n : Name) :
    match s.reg.get n with
    | some c => get cfg s n = (s, .got c .registered)
    | none =>
      match supplies cfg.fallback n s.nfb with
      | some c => (get cfg s n).2 = .got c .fallback ∧ (get cfg s n).1.reg = s.reg ∧ (get cfg s n).1.log = s.log
      | none =>
        match supplies cfg.factory n s.nfac with
        | some c => (get cfg s n).2 = .got c .factory ∧ (get cfg s n).1.reg.get = SMap.upd s.reg.get n (some c) ∧
            (get cfg s n).1.log = s.log ++ [⟨n, none, some c, true⟩]
        | none => (get cfg s n).2 = .notFound ∧ (get cfg s n).1.reg = s.reg ∧ (get cfg s n).1.log = s.log := by
  simp only [get, invoke_eq]
  cases h : s.reg.get n with
  | some c => simp
  | none =>
    simp only
    cases hfb : supplies cfg.fallback n s.nfb with
    | some c => cases cfg.fallback.isSome <;> simp
    | none =>
      simp only
      have hnfac : ∀ b : Bool, (if b = true then { s with nfb := s.nfb + 1 } else s).nfac = s.nfac := by
        intro b; cases b <;> rfl
      have hreg : ∀ b : Bool, (if b = true then { s with nfb := s.nfb + 1 } else s).reg = s.reg := by
        intro b; cases b <;> rfl
      have hlog : ∀ b : Bool, (if b = true then { s with nfb := s.nfb + 1 } else s).log = s.log := by
        intro b; cases b <;> rfl
      rw [hnfac]
      cases hfc : supplies cfg.factory n s.nfac with
      | none => cases cfg.fallback.isSome <;> cases cfg.factory.isSome <;> simp
      | some c =>
        cases cfg.fallback.isSome <;> cases cfg.factory.isSome <;> simp [h, Reg.set_abs]

/-- `get` returns a client exactly when `resolve` names one, and it is that client. -/
theorem C12_get_agrees_with_resolve (cfg : Cfg) (s : St) (n : Name) :
    (∀ c, resolve cfg s n = some c → ∃ src, (get cfg s n).2 = .got c src) ∧
    (resolve cfg s n = none → (get cfg s n).2 = .notFound) := by
  have h := C12_get_resolution cfg s n
  simp only [resolve]
  cases h1 : s.reg.get n with
  | some c => simp only [h1] at h; simp [h]
  | none =>
    simp only [h1] at h
    cases h2 : supplies cfg.fallback n s.nfb with
    | some c => simp only [h2] at h; simp [h.1]
    | none =>
      simp only [h2] at h
      cases h3 : supplies cfg.factory n s.nfac with
      | some c => simp only [h3] at h; simp [h.1]
      | none => simp only [h3] at h; simp [h.1]

/-- **Unary forwarding.**  In every state, a unary request naming `n` makes exactly one child call —
on the client `resolve` names, with the same method and the unaltered request — and returns that
child's response or error unaltered; when no client resolves, no client is touched and the result
is NotFound. -/
theorem C12_forward_unary (cfg : Cfg) (s : St) (n : Name) (method req : Tok)
    (child : Client → Tok → Tok → UOut) :
    (∀ c, resolve cfg s n = some c →
      forwardUnary (get cfg s n).2 method req child = ([⟨c, method, req⟩], child c method req)) ∧
    (resolve cfg s n = none →
      forwardUnary (get cfg s n).2 method req child = ([], .err notFoundTok)) := by
  obtain ⟨h1, h2⟩ := C12_get_agrees_with_resolve cfg s n
  constructor
  · intro c hc; obtain ⟨src, hs⟩ := h1 c hc; simp [hs, forwardUnary]
  · intro hn; simp [h2 hn, forwardUnary]

/-- **Stream routing**: the single child call of a server-streaming forwarder goes to the resolved
client with the unaltered request; NotFound touches no client and sends nothing. -/
theorem C12_forward_stream_call (cfg : Cfg) (s : St) (n : Name) (method req : Tok)
    (cs : ChildScript) (k : CallerScript) :
    (∀ c, resolve cfg s n = some c →
      (forwardStream (get cfg s n).2 method req cs k).calls = [⟨c, method, req⟩]) ∧
    (resolve cfg s n = none →
      forwardStream (get cfg s n).2 method req cs k = ⟨[], none, [], 0, 0, none, some notFoundTok, false⟩) := by
  obtain ⟨h1, h2⟩ := C12_get_agrees_with_resolve cfg s n
  constructor
  · intro c hc; obtain ⟨src, hs⟩ := h1 c hc
    simp only [hs, forwardStream]
    split <;> try rfl
    split <;> try rfl
    split <;> try rfl
    split <;> rfl
  · intro hn; simp [h2 hn, forwardStream]

/-- **The pump, caller healthy.**  If the child stream opens and yields its header and the caller
accepts everything, the caller observes: the child's header, then all the child's messages in
order, then the child's trailer, and the child's final status with `io.EOF ↦ OK`; the child's
context is not cancelled by the router; `Recv` is called once per message plus once. -/
theorem C12_pump (c : Client) (src : Src) (method req : Tok) (cs : ChildScript) (k : CallerScript)
    (hopen : cs.openErr = none) (hhdr : cs.headerErr = none) (hsh : k.sendHeaderErr = none)
    (hok : ∀ j, k.failAt = some j → cs.msgs.length ≤ j) :
    forwardStream (.got c src) method req cs k =
      ⟨[⟨c, method, req⟩], some cs.header, cs.msgs, cs.msgs.length, cs.msgs.length + 1, cs.trailer,
        errToStatus cs.final, false⟩ := by
  have := pumpLoop_all k.failAt cs.msgs 0 (by intro j hj; right; simpa using hok j hj)
  simp [forwardStream, hopen, hhdr, hsh, this]

/-- **The pump, caller error.**  If the caller's `Send` number `j` fails (the child still had a
message for it), the caller has received exactly the first `j` messages, the handler returns the
caller's error, no trailer is forwarded, and the child's context IS cancelled. -/
theorem C12_pump_caller_error (c : Client) (src : Src) (method req : Tok) (cs : ChildScript)
    (k : CallerScript) (j : Nat)
    (hopen : cs.openErr = none) (hhdr : cs.headerErr = none) (hsh : k.sendHeaderErr = none)
    (hf : k.failAt = some j) (hj : j < cs.msgs.length) :
    forwardStream (.got c src) method req cs k =
      ⟨[⟨c, method, req⟩], some cs.header, cs.msgs.take j, j + 1, j + 1, none, some k.sendErr, true⟩ := by
  have := pumpLoop_fail j cs.msgs 0 (Nat.zero_le _) (by simpa using hj)
  simp [forwardStream, hopen, hhdr, hsh, hf, this]

/-- **The pump, early errors**: an error opening the child stream, reading its header or sending the
header to the caller is returned unaltered, and no message is sent. -/
theorem C12_pump_early_error (c : Client) (src : Src) (method req : Tok) (cs : ChildScript)
    (k : CallerScript) :
    (∀ e, cs.openErr = some e →
      forwardStream (.got c src) method req cs k = ⟨[⟨c, method, req⟩], none, [], 0, 0, none, some e, false⟩) ∧
    (∀ e, cs.openErr = none → cs.headerErr = some e →
      forwardStream (.got c src) method req cs k = ⟨[⟨c, method, req⟩], none, [], 0, 0, none, some e, false⟩) ∧
    (∀ e, cs.openErr = none → cs.headerErr = none → k.sendHeaderErr = some e →
      forwardStream (.got c src) method req cs k =
        ⟨[⟨c, method, req⟩], some cs.header, [], 0, 0, none, some e, false⟩) := by
  refine ⟨?_, ?_, ?_⟩
  · intro e h; simp [forwardStream, h]
  · intro e h1 h2; simp [forwardStream, h1, h2]
  · intro e h1 h2 h3; simp [forwardStream, h1, h2, h3]

/-- **No reordering, duplication or invention, ever**: for every child script and every caller
script the messages delivered are a prefix of the child's messages, and the child context is
cancelled only together with returning the caller's own error. -/
theorem C12_pump_prefix (got : Res) (method req : Tok) (cs : ChildScript) (k : CallerScript) :
    (∃ rest, cs.msgs = (forwardStream got method req cs k).sent ++ rest) ∧
    ((forwardStream got method req cs k).cancelled = true →
      (forwardStream got method req cs k).status = some k.sendErr ∧
      (forwardStream got method req cs k).trailer = none) := by
  obtain ⟨rest, hr⟩ := pumpLoop_prefix k.failAt cs.msgs 0
  cases got with
  | got c src =>
    simp only [forwardStream]
    cases cs.openErr with
    | some e => exact ⟨⟨cs.msgs, by simp⟩, by simp⟩
    | none =>
      cases cs.headerErr with
      | some e => exact ⟨⟨cs.msgs, by simp⟩, by simp⟩
      | none =>
        cases k.sendHeaderErr with
        | some e => exact ⟨⟨cs.msgs, by simp⟩, by simp⟩
        | none =>
          simp only
          split <;> exact ⟨⟨rest, hr⟩, by simp⟩
  | prev _ => exact ⟨⟨cs.msgs, by simp [forwardStream]⟩, by simp [forwardStream]⟩
  | bool _ => exact ⟨⟨cs.msgs, by simp [forwardStream]⟩, by simp [forwardStream]⟩
  | notFound => exact ⟨⟨cs.msgs, by simp [forwardStream]⟩, by simp [forwardStream]⟩

/-- **Concurrent first Gets commit a single factory client** — for every configuration, every
initial registry, any number of threads asking for any names, and EVERY schedule:
1. at most one `Auto` change per name is ever reported, each for a name that was absent initially,
   with `Old = nil` and `New` = the client now registered;
2. every finished `Get` that did not take its client from the fallback returned the client that is
   registered under its name (so all such Gets of one name return the same, committed client);
3. once no thread is between its insert and its callback, every name that entered the registry has
   exactly one `Auto` change. -/
theorem C12_single_commit (cfg : Cfg) (reg0 : Reg) (k1 k2 : Nat) (names : Nat → Name) (sched : List Nat) :
    let c := crun cfg (Conf.start reg0 k1 k2 names) sched
    (c.st.log.map (·.name)).Nodup ∧
    (∀ e ∈ c.st.log, e.auto = true ∧ e.old = none ∧ reg0.get e.name = none ∧
      c.st.reg.get e.name = e.new ∧ e.new.isSome = true) ∧
    (∀ t cl src, (c.th t).pc = .done (.got cl src) → src ≠ .fallback → c.st.reg.get (names t) = some cl) ∧
    ((∀ t cl, (c.th t).pc ≠ .notify cl) → ∀ n, reg0.get n = none → c.st.reg.get n ≠ none →
      (c.st.log.filter (fun e => e.name = n)).length = 1) := by
  intro c
  have h : Inv cfg reg0 names c := inv_crun (inv_start cfg reg0 k1 k2 names) sched
  refine ⟨h.log_nodup, h.log_shape, h.done_reg, ?_⟩
  intro hno n hn hr
  rcases h.fresh n hn hr with ⟨t, cl, ht, _⟩ | ⟨e, he, hen⟩
  · exact absurd ht (hno t cl)
  · have hnd := h.log_nodup
    generalize c.st.log = l at he hnd
    induction l with
    | nil => cases he
    | cons x xs ih =>
      simp only [List.map_cons, List.nodup_cons] at hnd
      by_cases hx : x.name = n
      · have : xs.filter (fun e => e.name = n) = [] := by
          rw [List.filter_eq_nil_iff]
          intro y hy
          simp only [decide_eq_true_eq]
          intro hyn
          exact hnd.1 (List.mem_map.mpr ⟨y, hy, by rw [hyn, hx]⟩)
        simp [List.filter, hx, this]
      · have he' : e ∈ xs := by
          rcases List.mem_cons.mp he with e1 | e1
          · subst e1; exact absurd hen hx
          · exact e1
        simp [List.filter, hx, ih he' hnd.2]

/-- **Every Get returns the committed client**: with no fallback and a factory that always supplies
a client for `n`, in every schedule every finished `Get n` returned the one client registered under
`n`, and never NotFound. -/
theorem C12_single_commit_total (cfg : Cfg) (reg0 : Reg) (k1 k2 : Nat) (names : Nat → Name)
    (sched : List Nat) (n : Name)
    (hfb : cfg.fallback = none) (hfac : ∀ k, supplies cfg.factory n k ≠ none) :
    let c := crun cfg (Conf.start reg0 k1 k2 names) sched
    ∀ t r, names t = n → (c.th t).pc = .done r → ∃ cl src, r = .got cl src ∧ c.st.reg.get n = some cl := by
  intro c t r hn hd
  have h : Inv cfg reg0 names c := inv_crun (inv_start cfg reg0 k1 k2 names) sched
  rcases h.done_kind t r hd with e | ⟨cl, src, e⟩
  · subst e
    obtain ⟨k, hk⟩ := h.done_nf t hd
    rw [hn] at hk
    exact absurd hk (hfac k)
  · subst e
    refine ⟨cl, src, rfl, ?_⟩
    by_cases hs : src = .fallback
    · subst hs
      obtain ⟨k, hk⟩ := h.done_fb t cl hd
      simp [hfb, supplies] at hk
    · rw [← hn]; exact h.done_reg t cl src hd hs

/-- **Get is wait-free**: under every schedule, a thread that has been scheduled five times has
finished its `Get` (no thread can be locked out or delayed by the others; each lock-delimited section
is one step and no step waits for another thread). -/
theorem C12_get_wait_free (cfg : Cfg) (reg0 : Reg) (k1 k2 : Nat) (names : Nat → Name) (sched : List Nat)
    (t : Nat) (h : 5 ≤ sched.count t) :
    ∃ r, ((crun cfg (Conf.start reg0 k1 k2 names) sched).th t).pc = .done r := by
  have hr := crun_rank cfg (Conf.start reg0 k1 k2 names) sched t
  have h0 : ((Conf.start reg0 k1 k2 names).th t).pc.rank = 5 := rfl
  rw [h0] at hr
  have hz : ((crun cfg (Conf.start reg0 k1 k2 names) sched).th t).pc.rank = 0 := by omega
  cases hpc : ((crun cfg (Conf.start reg0 k1 k2 names) sched).th t).pc with
  | done r => exact ⟨r, rfl⟩
  | lookup => rw [hpc] at hz; simp [PC.rank] at hz
  | fallback => rw [hpc] at hz; simp [PC.rank] at hz
  | factory => rw [hpc] at hz; simp [PC.rank] at hz
  | insert c => rw [hpc] at hz; simp [PC.rank] at hz
  | notify c => rw [hpc] at hz; simp [PC.rank] at hz

/-- A single thread running alone performs exactly the sequential `get` (the interleaving model
extends the sequential one): five of its steps from `lookup` reach `done` with `get`'s result and state. -/
theorem C12_solo_get (cfg : Cfg) (s : St) (names : Nat → Name) (t : Nat) :
    let c := crun cfg ⟨s, fun i => ⟨names i, .lookup⟩⟩ [t, t, t, t, t]
    c.st = (get cfg s (names t)).1 ∧ (c.th t).pc = .done (get cfg s (names t)).2 := by
  simp only [crun, get]
  cases h1 : s.reg.get (names t) with
  | some c => simp [cstep, Conf.setPc, h1]
  | none =>
    cases h2 : (invoke cfg.fallback (names t) s.nfb) with
    | mk fb fbc =>
      cases fb with
      | some c => cases fbc <;> simp [cstep, Conf.setPc, h1, h2]
      | none =>
        cases fbc
        · cases h3 : (invoke cfg.factory (names t) s.nfac) with
          | mk fc fcc =>
            cases fc with
            | none => cases fcc <;> simp [cstep, Conf.setPc, h1, h2, h3]
            | some c => cases fcc <;> simp [cstep, Conf.setPc, h1, h2, h3]
        · cases h3 : (invoke cfg.factory (names t) s.nfac) with
          | mk fc fcc =>
            cases fc with
            | none => cases fcc <;> simp [cstep, Conf.setPc, h1, h2, h3]
            | some c => cases fcc <;> simp [cstep, Conf.setPc, h1, h2, h3]

/-- **Default name**: the interceptor keeps the shape of the request and every field not called
`name`; a string `name` becomes the default exactly when it was empty and is otherwise kept; a
request without a string `name` field is not changed at all. -/
theorem C12_default_name (d : String) (m : Msg) :
    (replaceEmptyName d m).length = m.length ∧
    (∀ i (hi : i < m.length) (hi' : i < (replaceEmptyName d m).length),
      (m[i]).fname ≠ "name" → (replaceEmptyName d m)[i] = m[i]) ∧
    (∀ s, nameOf m = some s → nameOf (replaceEmptyName d m) = some (if s = "" then d else s)) ∧
    (nameOf m = none → replaceEmptyName d m = m) := by
  unfold replaceEmptyName nameOf
  cases hf : findName m with
  | none => simp [hf]
  | some f =>
    obtain ⟨fname, isS, v⟩ := f
    cases isS with
    | false => simp [hf]
    | true =>
      cases v with
      | other k => simp [hf]
      | str s =>
        by_cases hs : s = ""
        · subst hs
          have h1 := findName_setName d m _ hf
          have h2 := setName_other d m
          simp only [↓reduceIte, ne_eq, not_true_eq_false]
          refine ⟨h2.1, ?_, ?_, ?_⟩
          · intro i hi hi' hne; exact (h2.2 i hi hi').2.2 hne
          · intro s' hs'; simp at hs'; subst hs'; simp [h1]
          · intro hn; simp at hn
        · simp [hf, hs]

/-! ## Non-vacuity: the hypotheses above are met by reachable situations -/

/-- `C12_pump`'s hypotheses: a child that opens, has a header, 3 messages, EOF, and a caller that never fails. -/
example : forwardStream (.got 7 .registered) 2 5 ⟨none, none, some 9, [1, 2, 3], .eof, some 4⟩ ⟨none, none, 0⟩ =
    ⟨[⟨7, 2, 5⟩], some (some 9), [1, 2, 3], 3, 4, some 4, none, false⟩ := by decide

/-- `C12_pump_caller_error`'s hypotheses with `j = 1`. -/
example : forwardStream (.got 7 .registered) 2 5 ⟨none, none, some 9, [1, 2, 3], .eof, some 4⟩ ⟨none, some 1, 77⟩ =
    ⟨[⟨7, 2, 5⟩], some (some 9), [1], 2, 2, none, some 77, true⟩ := by decide

/-- `C12_single_commit_total`'s hypotheses: no fallback, a factory making a fresh client per call. -/
example : ∀ k, supplies (some fun _ k => ⟨some (1000 + k), false⟩) "n" k ≠ none := by
  intro k; simp [supplies]

/-- Two threads racing for the same absent name: both factories run, one client is committed, the
loser returns the winner's client, one Auto change. -/
example :
    let c := crun ⟨none, some fun _ k => ⟨some (1000 + k), false⟩⟩ (Conf.start [] 0 0 fun _ => "n")
      [0, 1, 0, 1, 0, 1, 1, 0, 1, 0]
    c.st.log = [⟨"n", none, some 1001, true⟩] ∧ (c.th 0).pc = .done (.got 1001 .registered) ∧
      (c.th 1).pc = .done (.got 1001 .factory) := by
  decide

end ScVerif.C12
