/-!
# C12 — how the generators name what they emit
(`/repo/cmd/protoc-gen-router/main.go`, `/repo/cmd/protoc-gen-wrapper/main.go`, `generateFile`)

```
pkg := filepath.Base(filepath.Dir(file.GeneratedFilenamePrefix))
if pkg == "traits" { pkg = filepath.Base(file.GeneratedFilenamePrefix) }
pkg = strings.ReplaceAll(pkg, "_", "")
if !strings.HasSuffix(pkg, "pb") { pkg += "pb" }
for each service:
  name := trimPrefixIgnoreCase(service.GoName, strings.TrimSuffix(pkg, "pb"))
  filename := "pkg/trait/" + pkg + "/" + strings.ToLower(name) + "_router.pb.go"     // "_wrap.pb.go"
  routerName := name + "Router"          // wrapper: ident(name + "Wrapper").Exported = upper-cased first letter
```
Strings are lists of characters; `dir` and `file` are the last two elements of
`GeneratedFilenamePrefix` (the Go package directory of the proto file and the proto file's base name).
Letters are ASCII (Go identifiers and package names in this repository are): `Char.toLower`.
-/
namespace ScVerif.C12

abbrev Str := List Char

/-- `strings.HasSuffix(s, "pb")`. -/
def endsPb (s : Str) : Bool :=
  match s.reverse with
  | 'b' :: 'p' :: _ => true
  | _ => false

/-- `strings.ReplaceAll(s, "_", "")`. -/
def dropUnderscores (s : Str) : Str := s.filter (· != '_')

/-- `if !strings.HasSuffix(pkg, "pb") { pkg += "pb" }`. -/
def withPb (s : Str) : Str := if endsPb s then s else s ++ ['p', 'b']

/-- `strings.TrimSuffix(pkg, "pb")`. -/
def stem (s : Str) : Str := if endsPb s then s.dropLast.dropLast else s

/-- The Go package (= directory under `pkg/trait/`) both generators write to. -/
def pkgOf (dir file : Str) : Str :=
  let p := if dir = "traits".toList then file else dir
  withPb (dropUnderscores p)

def lowerS (s : Str) : Str := s.map Char.toLower

/-- `trimPrefixIgnoreCase(s, prefix)`: `ls = TrimPrefix(lower s, lower prefix); s[len(s)-len(ls):]`. -/
def trimPrefixIgnoreCase (s pre : Str) : Str :=
  if (lowerS pre).isPrefixOf (lowerS s) then s.drop pre.length else s

/-- The service's name inside its package: `AirQualitySensorApi` in `airqualitysensorpb` is `Api`. -/
def localName (pkg svc : Str) : Str := trimPrefixIgnoreCase svc (stem pkg)

structure Emitted where
  path : Str        -- file name relative to the repository root
  typeName : Str    -- the declared router / wrapper type
deriving DecidableEq, Repr

/-- `ident(n).Exported`: `strings.ToUpper(n[:1]) + n[1:]`. -/
def capFirst : Str → Str
  | [] => []
  | c :: cs => c.toUpper :: cs

def emitPath (suffix : String) (dir file svc : Str) : Str :=
  let pkg := pkgOf dir file
  "pkg/trait/".toList ++ pkg ++ ['/'] ++ lowerS (localName pkg svc) ++ suffix.toList

/-- `protoc-gen-router`: the type is `name + "Router"` as it stands. -/
def emitRouter (dir file svc : Str) : Emitted :=
  ⟨emitPath "_router.pb.go" dir file svc, localName (pkgOf dir file) svc ++ "Router".toList⟩

/-- `protoc-gen-wrapper`: the type is `ident(name + "Wrapper").Exported`. -/
def emitWrapper (dir file svc : Str) : Emitted :=
  ⟨emitPath "_wrap.pb.go" dir file svc, capFirst (localName (pkgOf dir file) svc ++ "Wrapper".toList)⟩

end ScVerif.C12
