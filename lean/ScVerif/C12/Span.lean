import ScVerif.C12.Lin
/-!
# C12 — operations with their spans: what a concurrent Get may return

Ghost bookkeeping on top of the interleaving model of `Lin.lean` (nothing here exists in the Go code):
for every thread the operation in flight with the time it started, and for every finished operation its
*span*.  Time is the number of lock sections performed so far by anyone (the length of `glog`): an
operation starts with its first lock section, at time `first`, and `last` is the time just after its
last one, so `first < last`, and one operation's `last ≤` another's `first` exactly when the first one's
lock sections were all over before the other began (real-time order).
-/
namespace ScVerif.C12

structure Span where
  op : Op
  res : Res
  first : Nat
  last : Nat
deriving DecidableEq, Repr

structure TConf where
  c : LConf
  cur : List (Option (Op × Nat))   -- per thread: the operation in flight and when it started
  done : List (List Span)          -- per thread: finished operations, in program order
deriving DecidableEq, Repr

def TConf.start (reg0 : Reg) (nfb nfac : Nat) (progs : List (List Op)) : TConf :=
  ⟨LConf.start reg0 nfb nfac progs, progs.map (fun _ => none), progs.map (fun _ => [])⟩

/-- An idle thread that has an operation left starts it now. -/
def startCur (th : LThread) (now : Nat) (cur : Option (Op × Nat)) : Option (Op × Nat) :=
  match th.pc, th.prog with
  | .idle, op :: _ => some (op, now)
  | _, _ => cur

/-- A thread whose step leaves it idle has finished the operation in flight, with the result the step
appended. -/
def closeOp (th' : LThread) (cur1 : Option (Op × Nat)) : Option (Op × Nat × Res) :=
  match th'.pc, cur1, th'.results.getLast? with
  | .idle, some (op, a), some r => some (op, a, r)
  | _, _, _ => none

/-- One step of thread `t`, with the bookkeeping. -/
def tstep (cfg : Cfg) (tc : TConf) (t : Nat) : TConf :=
  match tc.c.ths[t]? with
  | none => tc
  | some th =>
    match action cfg tc.c.st th with
    | none => tc
    | some e =>
      let c' := lstep cfg tc.c t
      let cur := startCur th tc.c.glog.length (tc.cur.getD t none)
      match closeOp e.th cur with
      | some (op, a, r) =>
        ⟨c', tc.cur.set t none, tc.done.set t (tc.done.getD t [] ++ [⟨op, r, a, c'.glog.length⟩])⟩
      | none => ⟨c', tc.cur.set t cur, tc.done⟩

def trun (cfg : Cfg) (tc : TConf) : List Nat → TConf
  | [] => tc
  | t :: ts => trun cfg (tstep cfg tc t) ts

/-- The registry (as the map specification sees it) after the first `i` lock sections. -/
def mapAt (reg0 : Reg) (glog : List GEntry) (i : Nat) : SMap :=
  (lspecRun reg0.get ((glog.take i).map (·.op))).1

/-- What justifies the result `r` of operation `op` of thread `t` that ran during `[a, b)`. -/
def Justified (cfg : Cfg) (reg0 : Reg) (glog : List GEntry) (t : Nat) (op : Op) (r : Res) (a b : Nat) : Prop :=
  match op, r with
  | .add n c, .prev o => mapAt reg0 glog a n = o ∧ mapAt reg0 glog (a + 1) n = some c
  | .remove n, .prev o => mapAt reg0 glog a n = o ∧ mapAt reg0 glog (a + 1) n = none
  | .has n, .bool v => v = (mapAt reg0 glog a n).isSome
  | .get n, .notFound => mapAt reg0 glog a n = none
  | .get n, .got c .fallback => mapAt reg0 glog a n = none ∧ ∃ k, supplies cfg.fallback n k = some c
  | .get n, .got c _ =>
    ∃ i, a ≤ i ∧ i < b ∧ (glog[i]?).map (·.tid) = some t ∧ mapAt reg0 glog (i + 1) n = some c
  | _, _ => False

end ScVerif.C12
