import ScVerif.C12.Lin
import ScVerif.C12.RegistryLemmas
/-! Invariants of the concurrent Add/Remove/Has/Get model (helper file). -/
namespace ScVerif.C12

theorem SMap.upd_none_of_none (m : SMap) (n : Name) (h : m n = none) : m.upd n none = m := by
  rw [← h, SMap.upd_same]

/-- Everything the invariants need to know about one step, by one case analysis. -/
theorem action_facts (cfg : Cfg) (s : St) (th : LThread) (e : Effect) (h : action cfg s th = some e) :
    (match e.g with
      | some (op, res) => lspec s.reg.get op = (e.st.reg.get, res)
      | none => e.st.reg = s.reg) ∧
    (match e.commit with
      | some ch => ch.old = s.reg.get ch.name ∧ e.st.reg.get = SMap.upd s.reg.get ch.name ch.new
      | none => e.st.reg.get = s.reg.get) ∧
    ((∃ ch, e.commit = some ch ∧ pendingOf th = none ∧ pendingOf e.th = some ch ∧ e.deliver = none) ∨
     (∃ ch, e.commit = none ∧ e.deliver = some ch ∧ pendingOf th = some ch ∧ pendingOf e.th = none) ∨
     (e.commit = none ∧ e.deliver = none ∧ pendingOf e.th = pendingOf th)) ∧
    e.th.seen = th.seen ++ optList e.g := by
  unfold action at h
  split at h
  · -- idle
    next hpc =>
    split at h
    · cases h
    · simp only [Option.some.injEq] at h; subst h
      simp [lspec, Reg.set_abs, pendingOf, hpc, LThread.see, optList]
    · next n rest =>
      split at h
      · next hn =>
        simp only [Option.some.injEq] at h; subst h
        simp [lspec, hn, SMap.upd_none_of_none, pendingOf, hpc, LThread.see, LThread.finish, optList]
      · next o hn =>
        simp only [Option.some.injEq] at h; subst h
        simp [lspec, hn, Reg.erase_abs, pendingOf, hpc, LThread.see, optList]
    · simp only [Option.some.injEq] at h; subst h
      simp [lspec, pendingOf, hpc, LThread.see, LThread.finish, optList]
    · split at h
      · next c hn =>
        simp only [Option.some.injEq] at h; subst h
        simp [lspec, hn, pendingOf, hpc, LThread.see, LThread.finish, optList]
      · next hn =>
        simp only [Option.some.injEq] at h; subst h
        simp [lspec, hn, pendingOf, hpc, LThread.see, optList]
  · -- fallback
    next n hpc =>
    simp only at h
    split at h <;> (simp only [Option.some.injEq] at h; subst h) <;>
      (cases (invoke cfg.fallback n s.nfb).2 <;> simp [pendingOf, hpc, LThread.finish, optList])
  · next n hpc =>
    simp only at h
    split at h <;> (simp only [Option.some.injEq] at h; subst h) <;>
      (cases (invoke cfg.factory n s.nfac).2 <;> simp [pendingOf, hpc, LThread.finish, optList])
  · next n c hpc =>
    split at h
    · next w hn =>
      simp only [Option.some.injEq] at h; subst h
      simp [lspec, hn, pendingOf, hpc, LThread.see, LThread.finish, optList]
    · next hn =>
      simp only [Option.some.injEq] at h; subst h
      simp [lspec, hn, Reg.set_abs, pendingOf, hpc, LThread.see, optList]
  · next ch r hpc =>
    simp only [Option.some.injEq] at h; subst h
    simp [pendingOf, hpc, LThread.finish, optList]

theorem lspecRun_snoc (m : SMap) (ops : List LOp) (op : LOp) :
    lspecRun m (ops ++ [op]) =
      ((lspec (lspecRun m ops).1 op).1, (lspecRun m ops).2 ++ [(lspec (lspecRun m ops).1 op).2]) := by
  induction ops generalizing m with
  | nil => simp [lspecRun]
  | cons o os ih => simp [lspecRun, ih]

section FilterMapSet
variable {α β : Type} (f : α → Option β)

theorem filterMap_set_same (l : List α) (t : Nat) (a x : α) (h : l[t]? = some a) (hf : f x = f a) :
    (l.set t x).filterMap f = l.filterMap f := by
  induction l generalizing t with
  | nil => simp at h
  | cons y ys ih =>
    cases t with
    | zero => simp at h; subst h; simp [List.filterMap_cons, hf]
    | succ k => simp at h; simp [List.filterMap_cons, ih k h]

theorem filterMap_set_add (l : List α) (t : Nat) (a x : α) (b : β) (h : l[t]? = some a)
    (ha : f a = none) (hx : f x = some b) :
    List.Perm ((l.set t x).filterMap f) (b :: l.filterMap f) := by
  induction l generalizing t with
  | nil => simp at h
  | cons y ys ih =>
    cases t with
    | zero => simp at h; subst h; simp [ha, hx]
    | succ k =>
      simp at h
      have := ih k h
      simp only [List.set_cons_succ, List.filterMap_cons]
      cases hy : f y with
      | none => simpa using this
      | some z =>
        simp only
        exact (List.Perm.cons z this).trans (List.Perm.swap b z _)

theorem filterMap_set_del (l : List α) (t : Nat) (a x : α) (b : β) (h : l[t]? = some a)
    (ha : f a = some b) (hx : f x = none) :
    List.Perm (b :: (l.set t x).filterMap f) (l.filterMap f) := by
  induction l generalizing t with
  | nil => simp at h
  | cons y ys ih =>
    cases t with
    | zero => simp at h; subst h; simp [ha, hx]
    | succ k =>
      simp at h
      have := ih k h
      simp only [List.set_cons_succ, List.filterMap_cons]
      cases hy : f y with
      | none => simpa using this
      | some z =>
        simp only
        exact (List.Perm.swap z b _).trans (List.Perm.cons z this)

end FilterMapSet

/-- Invariant of every configuration reachable from `LConf.start reg0 ..`. -/
structure LInv (reg0 : Reg) (c : LConf) : Prop where
  lin : lspecRun reg0.get (c.glog.map (·.op)) = (c.st.reg.get, c.glog.map (·.res))
  chain : replay reg0.get c.clog = c.st.reg.get ∧ OldExact reg0.get c.clog
  perm : List.Perm (c.st.log ++ pending c.ths) c.clog
  seen : ∀ t th, c.ths[t]? = some th →
    ((c.glog.filter (fun e => e.tid = t)).map (fun e => (e.op, e.res))) = th.seen

theorem linv_start (reg0 : Reg) (k1 k2 : Nat) (progs : List (List Op)) :
    LInv reg0 (LConf.start reg0 k1 k2 progs) := by
  refine ⟨by simp [LConf.start, lspecRun], by simp [LConf.start, replay, OldExact], ?_, ?_⟩
  · simp only [LConf.start, pending, List.nil_append]
    have : (progs.map (fun p => (⟨p, .idle, [], []⟩ : LThread))).filterMap pendingOf = [] := by
      induction progs with
      | nil => rfl
      | cons p ps ih => simp [List.filterMap_cons, pendingOf, ih]
    rw [this]
  · intro t th h
    simp only [LConf.start, List.getElem?_map, Option.map_eq_some_iff] at h
    obtain ⟨p, _, hp⟩ := h
    subst hp
    simp [LConf.start]

theorem linv_lstep {cfg : Cfg} {reg0 : Reg} {c : LConf} (h : LInv reg0 c) (t : Nat) :
    LInv reg0 (lstep cfg c t) := by
  unfold lstep
  cases hth : c.ths[t]? with
  | none => exact h
  | some th =>
    simp only
    cases hact : action cfg c.st th with
    | none => exact h
    | some e =>
      simp only
      obtain ⟨f1, f2, f3, f4⟩ := action_facts cfg c.st th e hact
      refine ⟨?_, ?_, ?_, ?_⟩
      · -- lin
        cases hg : e.g with
        | none =>
          simp only [hg] at f1
          simp only [optList, List.map_nil, List.append_nil]
          rw [h.lin, f1]
        | some p =>
          obtain ⟨op, res⟩ := p
          simp only [hg] at f1
          simp only [optList, List.map_cons, List.map_nil, List.map_append]
          rw [lspecRun_snoc, h.lin]
          simp [f1]
      · -- chain
        cases hc : e.commit with
        | none =>
          simp only [hc] at f2
          simp only [optList, List.append_nil]
          exact ⟨by rw [h.chain.1]; exact f2.symm, h.chain.2⟩
        | some ch =>
          simp only [hc] at f2
          simp only [optList]
          refine ⟨?_, ?_⟩
          · rw [replay_append, h.chain.1]; simp [replay, f2.2]
          · rw [oldExact_append, h.chain.1]; exact ⟨h.chain.2, by simp [OldExact, f2.1]⟩
      · -- perm
        simp only [pending]
        rcases f3 with ⟨ch, hc, hp0, hp1, hd⟩ | ⟨ch, hc, hd, hp0, hp1⟩ | ⟨hc, hd, hp⟩
        · simp only [hc, hd, optList, List.append_nil]
          have hp := filterMap_set_add pendingOf c.ths t th e.th ch hth hp0 hp1
          have h1 : List.Perm (c.st.log ++ (c.ths.set t e.th).filterMap pendingOf)
              (c.st.log ++ (ch :: pending c.ths)) := List.Perm.append_left _ hp
          refine h1.trans ?_
          have h2 : List.Perm (c.st.log ++ ch :: pending c.ths) ((c.st.log ++ pending c.ths) ++ [ch]) := by
            rw [List.append_assoc]
            exact List.Perm.append_left _ (List.perm_append_singleton ch _).symm
          exact h2.trans (List.Perm.append_right _ h.perm)
        · simp only [hc, hd, optList, List.append_nil]
          have hp := filterMap_set_del pendingOf c.ths t th e.th ch hth hp0 hp1
          rw [List.append_assoc]
          have h1 : List.Perm (c.st.log ++ ([ch] ++ (c.ths.set t e.th).filterMap pendingOf))
              (c.st.log ++ pending c.ths) := List.Perm.append_left _ hp
          exact h1.trans h.perm
        · simp only [hc, hd, optList, List.append_nil]
          rw [filterMap_set_same pendingOf c.ths t th e.th hth hp]
          exact h.perm
      · -- seen
        intro t' th' ht'
        simp only [List.filter_append, List.map_append]
        by_cases htt : t' = t
        · subst htt
          have hlt : t' < c.ths.length := by
            rcases Nat.lt_or_ge t' c.ths.length with hl | hl
            · exact hl
            · rw [List.getElem?_eq_none hl] at hth; cases hth
          rw [List.getElem?_set_self hlt] at ht'
          cases ht'
          rw [h.seen t' th hth, f4]
          cases e.g with
          | none => simp [optList]
          | some p => simp [optList]
        · rw [List.getElem?_set_ne (fun e => htt e.symm)] at ht'
          rw [h.seen t' th' ht']
          cases e.g with
          | none => simp [optList]
          | some p => simp [optList]; exact fun e => htt e.symm

theorem linv_lrun {cfg : Cfg} {reg0 : Reg} {c : LConf} (h : LInv reg0 c) (sched : List Nat) :
    LInv reg0 (lrun cfg c sched) := by
  induction sched generalizing c with
  | nil => exact h
  | cons t ts ih => exact ih (linv_lstep h t)


section Only
variable {α β : Type} (f : α → Option β)

theorem filterMap_all_none (l : List α) (h : ∀ (i : Nat) (b : α), l[i]? = some b → f b = none) : l.filterMap f = [] := by
  induction l with
  | nil => rfl
  | cons y ys ih =>
    have hy : f y = none := h 0 y (by simp)
    simp only [List.filterMap_cons, hy]
    exact ih (fun i b hb => h (i + 1) b (by simpa using hb))

theorem filterMap_only (l : List α) (t : Nat) (a : α) (h : l[t]? = some a)
    (ho : ∀ (i : Nat) (b : α), i ≠ t → l[i]? = some b → f b = none) : l.filterMap f = optList (f a) := by
  induction l generalizing t with
  | nil => simp at h
  | cons y ys ih =>
    cases t with
    | zero =>
      simp at h; subst h
      have : ys.filterMap f = [] :=
        filterMap_all_none f ys (fun i b hb => ho (i + 1) b (by omega) (by simpa using hb))
      cases hy : f y <;> simp [hy, this, optList]
    | succ k =>
      simp at h
      have hy : f y = none := ho 0 y (by omega) (by simp)
      simp only [List.filterMap_cons, hy]
      exact ih k h (fun i b hi hb => ho (i + 1) b (by omega) (by simpa using hb))

end Only

/-- When no callback is ever overtaken, delivery order = commit order. -/
theorem prompt_lstep {cfg : Cfg} {c : LConf} (t : Nat)
    (hP : c.st.log ++ pending c.ths = c.clog)
    (ho : ∀ i b, i ≠ t → c.ths[i]? = some b → pendingOf b = none) :
    (lstep cfg c t).st.log ++ pending (lstep cfg c t).ths = (lstep cfg c t).clog := by
  unfold lstep
  cases hth : c.ths[t]? with
  | none => exact hP
  | some th =>
    simp only
    cases hact : action cfg c.st th with
    | none => exact hP
    | some e =>
      simp only
      obtain ⟨_, _, f3, _⟩ := action_facts cfg c.st th e hact
      have hlt : t < c.ths.length := by
        rcases Nat.lt_or_ge t c.ths.length with hl | hl
        · exact hl
        · rw [List.getElem?_eq_none hl] at hth; cases hth
      have h0 : pending c.ths = optList (pendingOf th) := filterMap_only pendingOf c.ths t th hth ho
      have h1 : pending (c.ths.set t e.th) = optList (pendingOf e.th) :=
        filterMap_only pendingOf (c.ths.set t e.th) t e.th (List.getElem?_set_self hlt)
          (fun i b hi hb => ho i b hi (by rwa [List.getElem?_set_ne (fun e => hi e.symm)] at hb))
      rw [h1]
      rw [h0] at hP
      rcases f3 with ⟨ch, hc, hp0, hp1, hd⟩ | ⟨ch, hc, hd, hp0, hp1⟩ | ⟨hc, hd, hp⟩
      · simp only [hc, hd, hp1, optList, List.append_nil]
        rw [← hP, hp0]; simp [optList]
      · simp only [hc, hd, hp1, optList, List.append_nil]
        rw [← hP, hp0]; simp [optList]
      · simp only [hc, hd, hp, optList, List.append_nil]
        exact hP

theorem promptRun_step {cfg : Cfg} {c : LConf} {t : Nat} {ts : List Nat}
    (h : promptRun cfg c (t :: ts) = true) :
    (∀ i b, i ≠ t → c.ths[i]? = some b → pendingOf b = none) ∧ promptRun cfg (lstep cfg c t) ts = true := by
  simp only [promptRun, Bool.and_eq_true, List.all_eq_true, List.mem_range, Bool.or_eq_true, beq_iff_eq,
    Option.isNone_iff_eq_none] at h
  refine ⟨?_, h.2⟩
  intro i b hi hb
  have hlt : i < c.ths.length := by
    rcases Nat.lt_or_ge i c.ths.length with hl | hl
    · exact hl
    · rw [List.getElem?_eq_none hl] at hb; cases hb
  rcases h.1 i hlt with e | e
  · exact absurd e hi
  · have : c.ths.getD i ⟨[], .idle, [], []⟩ = b := by
      rw [List.getD_eq_getElem?_getD, hb]; rfl
    rw [this] at e; exact e

theorem prompt_lrun {cfg : Cfg} {c : LConf} (sched : List Nat)
    (hP : c.st.log ++ pending c.ths = c.clog) (hp : promptRun cfg c sched = true) :
    (lrun cfg c sched).st.log ++ pending (lrun cfg c sched).ths = (lrun cfg c sched).clog := by
  induction sched generalizing c with
  | nil => exact hP
  | cons t ts ih =>
    obtain ⟨ho, hrest⟩ := promptRun_step hp
    exact ih (prompt_lstep t hP ho) hrest

end ScVerif.C12
