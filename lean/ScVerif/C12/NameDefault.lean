/-!
# C12 — the default-name interceptor (`/repo/pkg/middleware/name/defaults.go`)

`replaceEmptyNameField(req, name)`: a request is the list of the fields of its message descriptor,
each with its text name, whether it is a (singular) string field, and its current value (an unset
string field reads as `""`, as `protoreflect.Message.Get` returns).
-/
namespace ScVerif.C12

inductive FVal where
  | str (s : String)
  | other (tok : Nat)       -- any non-string value, opaque
deriving DecidableEq, Repr

structure Field where
  fname : String
  isString : Bool           -- `Kind() == protoreflect.StringKind`
  val : FVal
deriving DecidableEq, Repr

abbrev Msg := List Field

/-- `fields.ByTextName("name")`: the first field with that text name. -/
def findName : Msg → Option Field
  | [] => none
  | f :: fs => if f.fname = "name" then some f else findName fs

/-- `msg.ProtoReflect().Set(nameField, ValueOfString(name))`. -/
def setName (dflt : String) : Msg → Msg
  | [] => []
  | f :: fs => if f.fname = "name" then { f with val := .str dflt } :: fs else f :: setName dflt fs

/-- `replaceEmptyNameField`, check by check as in the Go code. -/
def replaceEmptyName (dflt : String) (m : Msg) : Msg :=
  match findName m with
  | none => m                                   -- no name field
  | some f =>
    if f.isString = false then m                -- not a string
    else
      match f.val with
      | .str s => if s ≠ "" then m else setName dflt m
      | .other _ => m

/-- The value of the string field `name`, if the message has one. -/
def nameOf (m : Msg) : Option String :=
  match findName m with
  | some ⟨_, true, .str s⟩ => some s
  | _ => none

end ScVerif.C12
